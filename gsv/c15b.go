package main

// C15.7: the chain bookkeeping of Chain.WriteChain (util/hamt), added after seeded change C15-2.
// WriteChain is loop-free; it is folded for every (number of chunks, number merged, written or not)
// with the offsets of the existing chunks numbered.  Decided:
//  (a) the offset it returns is the last element of the Offs of the chain it returns (the head
//      a later ReadChain starts from), or 0 for an empty chain;
//  (b) the previous-chunk link handed to Write is the last offset that is kept;
//  (c) Ages is cut at the same place as Offs.

import (
	"fmt"
	"go/ast"
	"go/constant"
	"go/token"
	"go/types"
	"sort"
	"strings"
)

func checkChainBookkeeping(c *Ctx, rule string) {
	p := c.P
	fs := c.method(rule, "util/hamt", "Chain", "WriteChain")
	offsF := p.Field("util/hamt", "Chain", "Offs")
	agesF := p.Field("util/hamt", "Chain", "Ages")
	nm := p.Func("util/hamt", "nmerge")
	wr := p.DeclaredMethod("util/hamt", "Hamt", "Write")
	if fs == nil || !c.need(rule, "hamt.Chain.Offs", offsF) || !c.need(rule, "hamt.Chain.Ages", agesF) || !c.need(rule, "hamt.nmerge", nm) || !c.need(rule, "hamt.Hamt.Write", wr) {
		return
	}
	info := fs.Info()
	recv := fs.Obj.Type().(*types.Signature).Recv()
	isField := func(e ast.Expr, f *types.Var) bool {
		fv := FieldOf(info, e)
		return fv != nil && (fv == f || fv.Origin() == f)
	}
	const base = 1000
	var bad []string
	cases := 0
	for no := int64(0); no <= 8; no++ {
		for merge := int64(0); merge <= no; merge++ {
			for _, written := range []int64{0, 99999} {
				var prevArg constant.Value
				prevSeen := false
				env := &AbsEnv{Info: info, Locals: map[types.Object]constant.Value{}}
				var atom func(e ast.Expr) (constant.Value, bool)
				sub := func(e ast.Expr) constant.Value { return env.expr(e) }
				sliceHigh := func(e ast.Expr, f *types.Var) (int64, bool) {
					se, ok := ast.Unparen(e).(*ast.SliceExpr)
					if !ok || !isField(se.X, f) || se.Low != nil || se.High == nil {
						return 0, false
					}
					v := sub(se.High)
					if v == nil {
						return 0, false
					}
					h, _ := constant.Int64Val(v)
					return h, true
				}
				atom = func(e ast.Expr) (constant.Value, bool) {
					switch x := e.(type) {
					case *ast.CallExpr:
						if IsBuiltin(info, x, "len") && len(x.Args) == 1 && (isField(x.Args[0], offsF) || isField(x.Args[0], agesF)) {
							return constant.MakeInt64(no), true
						}
						cal := Callee(info, x)
						if cal != nil && (cal == nm || cal.Origin() == nm) {
							return constant.MakeInt64(merge), true
						}
						if cal != nil && (cal == wr || cal.Origin() == wr) {
							prevSeen = true
							if len(x.Args) >= 2 {
								prevArg = sub(x.Args[1])
							}
							return constant.MakeInt64(written), true
						}
					case *ast.IndexExpr:
						if isField(x.X, offsF) {
							v := sub(x.Index)
							if v == nil {
								return nil, true
							}
							i, _ := constant.Int64Val(v)
							if i < 0 || i >= no {
								return constant.MakeInt64(-1), true
							}
							return constant.MakeInt64(base + i), true
						}
						if isField(x.X, agesF) {
							return constant.MakeInt64(7), true
						}
					case *ast.SelectorExpr:
						if fv := FieldOf(info, x); fv != nil && fv != offsF && fv != agesF && fv.Origin() != offsF && fv.Origin() != agesF {
							if b, ok := fv.Type().Underlying().(*types.Basic); ok {
								if b.Info()&types.IsBoolean != 0 {
									return constant.MakeBool(false), true
								}
								if b.Info()&types.IsInteger != 0 {
									return constant.MakeInt64(5), true
								}
							}
						}
					case *ast.StarExpr:
						if id := identOf(x.X); id != nil && info.Uses[id] == types.Object(recv) {
							last := int64(0)
							if no > 0 {
								last = base + no - 1
							}
							return constant.MakeString(fmt.Sprintf("kept=%d ages=%d last=%d", no, no, last)), true
						}
					case *ast.CompositeLit:
						kept, ages, last := int64(-1), int64(-1), constant.Value(nil)
						for _, el := range x.Elts {
							kv, ok := el.(*ast.KeyValueExpr)
							if !ok {
								continue
							}
							id := identOf(kv.Key)
							if id == nil {
								continue
							}
							fv, _ := info.Uses[id].(*types.Var)
							if fv == nil {
								continue
							}
							call, _ := ast.Unparen(kv.Value).(*ast.CallExpr)
							switch {
							case fv == offsF || fv.Origin() == offsF:
								if call != nil && len(call.Args) == 2 {
									if h, ok := sliceHigh(call.Args[0], offsF); ok {
										kept = h
										last = sub(call.Args[1])
									}
								}
							case fv == agesF || fv.Origin() == agesF:
								if call != nil && len(call.Args) == 2 {
									if h, ok := sliceHigh(call.Args[0], agesF); ok {
										ages = h
									}
								}
							}
						}
						if kept < 0 || last == nil {
							return nil, true
						}
						l, _ := constant.Int64Val(last)
						return constant.MakeString(fmt.Sprintf("kept=%d ages=%d last=%d", kept+1, ages+1, l)), true
					}
					return nil, false
				}
				env.Atom = atom
				res := env.run(fs.Body)
				cases++
				where := fmt.Sprintf("%d chunks, %d merged, %s", no, merge, map[bool]string{true: "nothing written", false: "chunk written"}[written == 0])
				if res.Panics {
					continue // an assertion refuses this combination
				}
				if res.Unknown != "" || len(res.Returns) != 2 || res.Returns[0] == nil || res.Returns[1] == nil || res.Returns[1].Kind() != constant.String {
					bad = append(bad, "WriteChain cannot be folded ("+where+"): "+res.Unknown)
					continue
				}
				off, _ := constant.Int64Val(res.Returns[0])
				var kept, ages, last int64
				fmt.Sscanf(constant.StringVal(res.Returns[1]), "kept=%d ages=%d last=%d", &kept, &ages, &last)
				if off != last {
					bad = append(bad, fmt.Sprintf("%s: returns offset %s but the head of the returned chain is %s", where, offName(off, base), offName(last, base)))
				}
				if kept != ages {
					bad = append(bad, fmt.Sprintf("%s: the returned chain has %d offsets and %d ages", where, kept, ages))
				}
				if !prevSeen || prevArg == nil {
					bad = append(bad, where+": the previous-chunk link passed to Write cannot be folded")
				} else if written != 0 {
					pv, _ := constant.Int64Val(prevArg)
					want := int64(0)
					if kept-1 > 0 {
						want = base + kept - 2
					}
					if pv != want {
						bad = append(bad, fmt.Sprintf("%s: the new chunk links to %s but the last chunk kept is %s", where, offName(pv, base), offName(want, base)))
					}
				}
			}
		}
	}
	sort.Strings(bad)
	bad = uniqStrings(bad)
	if len(bad) > 3 {
		bad = append(bad[:3], fmt.Sprintf("… %d more", len(bad)-3))
	}
	c.Stats["chain_bookkeeping_cases"] = cases
	c.Obl(rule, "WriteChain: returned offset is the head of the returned chain; the new chunk links to the last kept chunk; Ages is cut like Offs", p.Pos(fs.Decl),
		len(bad) == 0 && cases >= 50, strings.Join(bad, "; "))
}

func offName(v, base int64) string {
	if v == 0 {
		return "0 (none)"
	}
	if v == -1 {
		return "Offs[index out of range]"
	}
	if v >= base && v < base+100 {
		return fmt.Sprintf("Offs[%d]", v-base)
	}
	if v == 99999 {
		return "the new chunk"
	}
	return fmt.Sprint(v)
}

var _ = token.ADD

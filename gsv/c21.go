package main

// C21 schema changes: serialisation of the schema-changing Database methods
// (lockSchema, exclusive table access, UpdateState), the writers of the metadata hash
// tables, validation before freeze, dropIndexes keeps a key.

import (
	"fmt"
	"go/ast"
	"go/token"
	"go/types"
	"sort"
	"strings"
)

func init() { register("C21", checkC21, "./db19/...") }

func checkC21(c *Ctx) string {
	p := c.P
	r0 := "C21.0 anchors"
	lockS := p.DeclaredMethod("db19", "Database", "lockSchema")
	unlockS := p.DeclaredMethod("db19", "Database", "unlockSchema")
	runEx := p.DeclaredMethod("db19", "Database", "RunExclusive")
	runEndEx := p.DeclaredMethod("db19", "Database", "RunEndExclusive")
	addEx := p.DeclaredMethod("db19", "Database", "AddExclusive")
	endEx := p.DeclaredMethod("db19", "Database", "EndExclusive")
	updState := p.DeclaredMethod("db19", "Database", "UpdateState")
	metaF := p.Field("db19", "DbState", "Meta")
	schemaLock := p.Field("db19", "Database", "schemaLock")
	freeze := p.DeclaredMethod("db19/meta", "metaUpdate", "freeze")
	validate := p.DeclaredMethod("db19/meta", "metaUpdate", "validate")
	put := p.DeclaredMethod("db19/meta", "Meta", "Put")
	ok := true
	for n, v := range map[string]any{"db19.Database.lockSchema": lockS, "db19.Database.unlockSchema": unlockS, "db19.Database.RunExclusive": runEx,
		"db19.Database.RunEndExclusive": runEndEx, "db19.Database.AddExclusive": addEx, "db19.Database.EndExclusive": endEx, "db19.Database.UpdateState": updState,
		"db19.DbState.Meta": metaF, "db19.Database.schemaLock": schemaLock, "meta.metaUpdate.freeze": freeze, "meta.metaUpdate.validate": validate, "meta.Meta.Put": put} {
		if !c.need(r0, n, v) {
			ok = false
		}
	}
	if !ok {
		return "anchors missing"
	}

	// admin operations of Meta: the methods that build their result with metaUpdate.freeze
	// (or that start a metaUpdate: so that a method which stops returning through freeze is still one)
	var adminOps []*types.Func
	starters := []*types.Func{freeze}
	if nmu := p.Func("db19/meta", "newMetaUpdate"); nmu != nil {
		starters = append(starters, nmu)
	}
	for _, m := range p.MethodsOf("db19/meta", "Meta") {
		if fs := p.Src(m); fs != nil && len(p.CallsIn(fs, starters...)) > 0 {
			adminOps = append(adminOps, m)
		}
	}
	c.Floor(r0, len(adminOps), 7, "methods of meta.Meta that return through metaUpdate.freeze")
	evAdmin := CallOf("adminOp", adminOps...)

	// ---- 1. the schema-changing methods of Database
	r1 := "C21.1 K4+K5+K6 schema changes are serialised: schema lock, exclusive table, UpdateState"
	// helpers: unexported Database methods that call an admin op (db.create)
	var helpers []*types.Func
	for _, m := range p.MethodsOf("db19", "Database") {
		if fs := p.Src(m); fs != nil && !m.Exported() && len(p.CallsIn(fs, adminOps...)) > 0 {
			helpers = append(helpers, m)
		}
	}
	evHelper := CallOf("adminHelper", helpers...)
	var changers []*FuncSrc
	for _, m := range p.MethodsOf("db19", "Database") {
		fs := p.Src(m)
		if fs == nil || !m.Exported() {
			continue
		}
		if len(p.CallsIn(fs, adminOps...))+len(p.CallsIn(fs, helpers...)) > 0 {
			changers = append(changers, fs)
		}
	}
	var names []string
	for _, fs := range changers {
		names = append(names, fs.Obj.Name())
	}
	c.Stats["schema_changing_methods"] = len(changers)
	c.Note("schema-changing Database methods discovered: %s", strings.Join(names, ", "))
	c.Floor(r1, len(changers), 7, "exported Database methods that apply a Meta admin operation")
	buildIdx := p.DeclaredMethod("db19", "Database", "buildIndexes")
	for _, fs := range changers {
		checkC21Changer(c, r1, fs, changerAnchors{lockS, unlockS, runEx, runEndEx, addEx, endEx, updState, buildIdx, metaF, evAdmin, evHelper, adminOps})
	}
	// the helpers store state.Meta themselves: they may only be called from the methods checked above
	if len(helpers) > 0 {
		var allowed []string
		for _, fs := range changers {
			allowed = append(allowed, fs.name)
		}
		c.Callers("C21.1 K3 the unexported helpers that apply an admin operation are called only from the schema-changing methods", helpers, allowed, 1)
	}
	// the lock itself
	r1b := "C21.1 K2+K4c the schema lock is a compare-and-swap that refuses a second holder"
	c.Writers(r1b, "Database.schemaLock", []string{"db19"}, MethodOnField("", schemaLock, atomicMut...), []string{"db19.(*Database).lockSchema", "db19.(*Database).unlockSchema"}, 2)
	if fs := p.Src(lockS); fs != nil {
		fl := &Flow{P: p, Node: Labeler(PanicCall("panic"), MethodOnField("CAS", schemaLock, "CompareAndSwap")),
			Edge: func(f *FuncSrc, cond ast.Expr, truth bool) []string {
				if MethodOnField("", schemaLock, "CompareAndSwap").Match(f, cond) {
					if truth {
						return []string{"@acquired"}
					}
					return []string{"@held-by-other"}
				}
				return nil
			}}
		res := fl.Analyze(fs)
		np := 0
		for _, s := range res.Of("panic") {
			if s.Before.Has("@held-by-other") {
				np++
			}
		}
		c.Obl(r1b, "lockSchema panics when the lock is already held", p.Pos(fs.Decl), np >= 1, "a second schema change proceeds concurrently with the first")
		for _, r := range res.Returns {
			c.Obl(r1b, "lockSchema returns only after acquiring the lock", p.Pos(r.Node), r.Before.Has("@acquired"), "")
		}
		if !res.Exit.top {
			c.Obl(r1b, "lockSchema's normal exit holds the lock", p.Pos(fs.Decl), res.Exit.done.Has("@acquired") || res.Exit.done.Has("CAS"), "")
		}
		for _, s := range res.Of("CAS") {
			call := s.Node.(*ast.CallExpr)
			okArgs := len(call.Args) == 2 && constBool(fs.Info(), call.Args[0], false) && constBool(fs.Info(), call.Args[1], true)
			c.Obl(r1b, "lockSchema swaps false → true", p.Pos(call), okArgs, "")
		}
		c.Floor(r1b, len(res.Of("CAS")), 1, "CompareAndSwap on schemaLock in lockSchema")
	}
	if fs := p.Src(unlockS); fs != nil {
		n := 0
		ForEachNode(fs, func(nd ast.Node) {
			if call, ok := nd.(*ast.CallExpr); ok && MethodOnField("", schemaLock, "Store").Match(fs, call) && len(call.Args) == 1 && constBool(fs.Info(), call.Args[0], false) {
				n++
			}
		})
		c.Obl(r1b, "unlockSchema stores false", p.Pos(fs.Decl), n == 1, "")
	}

	// ---- 2. writers of the metadata hash tables, validation, admin results
	checkC21Meta(c, adminOps, freeze, validate, put)

	// ---- 3. dropIndexes keeps a key
	checkC21DropIndexes(c)

	checkMetaUpdateNotDiscarded(c, "C21.5 K4 an admin operation does not discard changes already recorded in its metaUpdate")
	checkFkRenumberCoversAllLinks(c, "C21.6 K4c foreign-key positions are renumbered for every link in both directions")
	checkBackLinkLiteralsComplete(c, "C21.7 K9 a back link is recorded with all of its fields")
	checkBackLinkStoresIdentified(c, "C21.8 K4c an existing back link is changed only after it was identified")
	checkEnsureLinksOnlyNewIndexes(c, "C21.9 K4c ensure links only the indexes it adds")
	checkRenameCoversNameFields(c, "C21.4 K18 a column rename rewrites every column-name field of every index")
	return "Static shape of schema changes: the exported Database methods that apply a Meta admin operation (discovered: " + strings.Join(names, ", ") + ") take the schema lock first and release it with a defer; " +
		"every admin operation is applied to the Meta of the state handed to an UpdateState callback that is itself nested in a RunExclusive/RunEndExclusive callback, and its result is what is stored to state.Meta; " +
		"AddExclusive is followed by a deferred recover that ends exclusivity only when a panic is in flight and re-panics, and by RunEndExclusive on every normal path, all with the same table expression; " +
		"the schema lock is a CAS(false,true) that panics when held; Meta.schema/info (and their Hamt) are assigned only in Put, freeze, Apply, LayeredOnto, Write, ReadMeta; freeze validates before it builds the new Meta; " +
		"every admin method returns nil or the result of freeze/Put; dropIndexes checks mustHaveKey on the list it then assigns, mustHaveKey returns only on Mode=='k'. " +
		"Not decided: the semantic correctness of foreign-key relinking (createFkeys/dropFkeys/renameFkey), index data of rebuilt indexes (C06.4)."
}

func constBool(info *types.Info, e ast.Expr, want bool) bool {
	v := ConstVal(info, e)
	return v != nil && v.String() == fmt.Sprint(want)
}

type changerAnchors struct {
	lockS, unlockS, runEx, runEndEx, addEx, endEx, updState, buildIdx *types.Func
	metaF                                                             *types.Var
	evAdmin, evHelper                                                 Ev
	adminOps                                                          []*types.Func
}

// enclosingCallbackOf: the innermost function literal around n that is an argument of a
// call; returns the literal and the call.
func enclosingCallback(par map[ast.Node]ast.Node, n ast.Node) (*ast.FuncLit, *ast.CallExpr) {
	for x := par[n]; x != nil; x = par[x] {
		if lit, ok := x.(*ast.FuncLit); ok {
			call, _ := par[lit].(*ast.CallExpr)
			return lit, call
		}
	}
	return nil, nil
}

func checkC21Changer(c *Ctx, r1 string, fs *FuncSrc, a changerAnchors) {
	p := c.P
	info := fs.Info()
	par := parentMap(fs.Body)
	defs := buildDefs(fs)
	name := "Database." + fs.Obj.Name()
	deferOf := func(label string, f *types.Func) Ev {
		return Ev{label, func(s *FuncSrc, n ast.Node) bool {
			d, ok := n.(*ast.DeferStmt)
			return ok && sameFunc(Callee(s.Info(), d.Call), f)
		}}
	}
	// defer func() { if e := recover(); e != nil { db.EndExclusive(t); panic(e) } }()
	isRecoverDefer := func(s *FuncSrc, n ast.Node) *FuncSrc {
		d, ok := n.(*ast.DeferStmt)
		if !ok {
			return nil
		}
		lit, ok := d.Call.Fun.(*ast.FuncLit)
		if !ok {
			return nil
		}
		ls := p.Lits[lit]
		if ls == nil || len(p.CallsIn(ls, a.endEx)) == 0 {
			return nil
		}
		return ls
	}
	fl := &Flow{P: p, Callback: db19Callbacks(p), Node: Labeler(
		CallOf("lockSchema", a.lockS), deferOf("defer unlockSchema", a.unlockS), CallOf("unlockSchema", a.unlockS),
		CallOf("RunExclusive", a.runEx), CallOf("RunEndExclusive", a.runEndEx), CallOf("AddExclusive", a.addEx), CallOf("EndExclusive", a.endEx),
		CallOf("UpdateState", a.updState), CallOf("buildIndexes", a.buildIdx), a.evAdmin, a.evHelper, StoreTo("Meta=", false, a.metaF),
		Ev{"defer recover→EndExclusive", func(s *FuncSrc, n ast.Node) bool { return isRecoverDefer(s, n) != nil }})}
	res := fl.Analyze(fs)

	// (a) lock first, unlock deferred
	nguard := 0
	for _, l := range []string{"RunExclusive", "RunEndExclusive", "AddExclusive", "UpdateState", "adminOp", "adminHelper", "buildIndexes", "Meta="} {
		for _, s := range res.Of(l) {
			if !s.Direct {
				continue
			}
			nguard++
			c.Obl(r1, name+": "+l+" happens under the schema lock", p.Pos(s.Node), s.Before.Has("lockSchema"),
				"a step of the schema change runs on a path where lockSchema was not called: two schema changes interleave (lost update of the table's schema, index lists of different length)")
			c.Obl(r1, name+": "+l+" happens after the unlock was deferred", p.Pos(s.Node), s.Before.Has("defer unlockSchema"),
				"admin requests panic on invalid input as their normal way of refusing; without a deferred unlock the schema lock stays held and every later schema change fails")
		}
	}
	c.Floor(r1, nguard, 3, "guarded steps in "+name)
	c.Floor(r1, len(res.Of("lockSchema")), 1, "lockSchema calls in "+name)
	for _, s := range res.Of("unlockSchema") {
		if _, isDefer := par[s.Node].(*ast.DeferStmt); !isDefer && s.Direct {
			c.Obl(r1, name+": the schema lock is released only by the deferred call", p.Pos(s.Node), false, "an explicit unlockSchema releases the lock while the change is still in progress (or twice)")
		}
	}

	// (b) the admin operation runs on the state given to an UpdateState callback nested in RunExclusive/RunEndExclusive
	nops := 0
	for _, l := range []string{"adminOp", "adminHelper"} {
		for _, s := range res.Of(l) {
			if !s.Direct {
				continue
			}
			nops++
			call := s.Node.(*ast.CallExpr)
			lit, outerCall := enclosingCallback(par, call)
			inUpd := lit != nil && outerCall != nil && sameFunc(Callee(info, outerCall), a.updState)
			c.Obl(r1, name+": the admin operation is applied inside an UpdateState callback", p.Pos(call), inUpd,
				"the metadata change is computed outside UpdateState: it is based on a state that commits may have replaced meanwhile, and storing it loses those commits' metadata")
			if !inUpd {
				continue
			}
			lit2, outer2 := enclosingCallback(par, outerCall)
			inEx := lit2 != nil && outer2 != nil && (sameFunc(Callee(info, outer2), a.runEx) || sameFunc(Callee(info, outer2), a.runEndEx))
			c.Obl(r1, name+": that UpdateState runs inside RunExclusive / RunEndExclusive", p.Pos(outerCall), inEx,
				"the schema change is not serialised with the checker/merger: a merge of the table's indexes can run against the old index list while the new one is installed")
			// the state operated on is the callback's parameter
			var stateParam types.Object
			if lit.Type.Params != nil && len(lit.Type.Params.List) == 1 && len(lit.Type.Params.List[0].Names) == 1 {
				stateParam = info.Defs[lit.Type.Params.List[0].Names[0]]
			}
			onParam := false
			if l == "adminOp" {
				if sel, ok := ast.Unparen(call.Fun).(*ast.SelectorExpr); ok && FieldOf(info, sel.X) == a.metaF {
					if root := rootIdent(sel.X); root != nil && stateParam != nil && info.Uses[root] == stateParam {
						onParam = true
					}
				}
			} else {
				for _, arg := range call.Args {
					if id := identOf(arg); id != nil && stateParam != nil && info.Uses[id] == stateParam {
						onParam = true
					}
				}
			}
			c.Obl(r1, name+": the admin operation works on the Meta of the state passed to the callback", p.Pos(call), onParam,
				"the operation is applied to some other Meta (e.g. a snapshot taken earlier with GetState) than the one UpdateState hands in")
		}
	}
	c.Floor(r1, nops, 1, "admin operations in "+name)

	// (c) stores of state.Meta: in an UpdateState callback, value from the admin operation
	for _, s := range res.Of("Meta=") {
		if !s.Direct {
			continue
		}
		as, ok := s.Node.(*ast.AssignStmt)
		if !ok || len(as.Lhs) != 1 || len(as.Rhs) != 1 {
			continue
		}
		lit, outerCall := enclosingCallback(par, as)
		inUpd := lit != nil && outerCall != nil && sameFunc(Callee(info, outerCall), a.updState)
		c.Obl(r1, name+": state.Meta is stored inside the UpdateState callback", p.Pos(as), inUpd, "")
		c.Obl(r1, name+": the Meta stored is the result of the admin operation", p.Pos(as), defs.MentionsEv(fs, as.Rhs[0], a.evAdmin),
			"the new state's Meta does not come from the validated result of the Meta admin method")
	}

	// (d) AddExclusive ⇒ deferred recover ending exclusivity, RunEndExclusive on the normal path
	for _, s := range res.Of("AddExclusive") {
		if !s.Direct {
			continue
		}
		addCall := s.Node.(*ast.CallExpr)
		c.Obl(r1, name+": AddExclusive is followed by RunEndExclusive on every normal path", p.Pos(addCall), s.Follows("RunEndExclusive"),
			"a normal path leaves the table exclusively locked forever: every later transaction touching it conflicts")
		// the steps after it are protected by the deferred recover
		for _, l := range []string{"buildIndexes", "RunEndExclusive", "UpdateState"} {
			for _, t := range res.Of(l) {
				if t.Direct && t.Before.Has("AddExclusive") && t.Node.Pos() > addCall.Pos() {
					c.Obl(r1, name+": "+l+" after AddExclusive is covered by the deferred recover that ends exclusivity", p.Pos(t.Node), t.Before.Has("defer recover→EndExclusive"),
						"a panic (duplicate key while building the index, invalid request) between AddExclusive and RunEndExclusive leaves the table exclusively locked")
				}
			}
		}
		// same table expression everywhere
		for _, l := range []string{"RunEndExclusive", "EndExclusive"} {
			for _, t := range res.Of(l) {
				if call, ok := t.Node.(*ast.CallExpr); ok && t.Direct && len(call.Args) >= 1 && len(addCall.Args) == 1 {
					c.Obl(r1, name+": "+l+" names the table AddExclusive locked", p.Pos(call), sameExprObj(info, call.Args[0], addCall.Args[0]),
						"exclusivity is ended for a different table than the one it was acquired for")
				}
			}
		}
	}
	// shape of the deferred literal
	ForEachNode(fs, func(n ast.Node) {
		ls := isRecoverDefer(fs, n)
		if ls == nil {
			return
		}
		ldefs := buildDefs(ls)
		lfl := &Flow{P: p, Node: Labeler(CallOf("EndExclusive", a.endEx), PanicCall("panic")),
			Edge: func(f *FuncSrc, cond ast.Expr, truth bool) []string {
				be, ok := cond.(*ast.BinaryExpr)
				if !ok || (be.Op != token.NEQ && be.Op != token.EQL) {
					return nil
				}
				for _, pr := range [][2]ast.Expr{{be.X, be.Y}, {be.Y, be.X}} {
					if isNilIdent(f.Info(), pr[1]) && ldefs.Mentions(f.Info(), pr[0], func(m ast.Node) bool {
						call, ok := m.(*ast.CallExpr)
						return ok && IsBuiltin(f.Info(), call, "recover")
					}) {
						if (be.Op == token.NEQ) == truth {
							return []string{"@panicking"}
						}
						return []string{"@normal"}
					}
				}
				return nil
			}}
		lres := lfl.Analyze(ls)
		for _, s := range lres.Of("EndExclusive") {
			c.Obl(r1, name+": the deferred EndExclusive runs only when a panic is in flight", p.Pos(s.Node), s.Before.Has("@panicking"),
				"on the normal path RunEndExclusive already ended exclusivity; ending it again can end the exclusivity someone else acquired in between")
			c.Obl(r1, name+": the deferred recover re-panics after ending exclusivity", p.Pos(s.Node), s.Follows("panic"),
				"the failure of the schema change is swallowed: the request appears to succeed")
		}
	})
	if len(res.Of("AddExclusive")) > 0 {
		c.Floor(r1, len(res.Of("defer recover→EndExclusive")), 1, "deferred recover ending exclusivity in "+name)
	}
}

func checkC21Meta(c *Ctx, adminOps []*types.Func, freeze, validate, put *types.Func) {
	p := c.P
	r2 := "C21.2 K2 the metadata hash tables are replaced only by the known constructors"
	schemaF, infoF := metaChainFields(p)
	chainHamt := p.Field("util/hamt", "Chain", "Hamt")
	if !c.need(r2, "meta.Meta.schema", schemaF) || !c.need(r2, "meta.Meta.info", infoF) || !c.need(r2, "hamt.Chain.Hamt", chainHamt) {
		return
	}
	isChain := func(info *types.Info, e ast.Expr) bool {
		f := FieldOf(info, e)
		return f != nil && (f == schemaF || f == infoF)
	}
	evStore := Ev{"", func(fs *FuncSrc, n ast.Node) bool {
		info := fs.Info()
		switch s := n.(type) {
		case *ast.AssignStmt:
			for _, l := range s.Lhs {
				l = ast.Unparen(l)
				if isChain(info, l) {
					return true // m.schema = …
				}
				if sel, ok := l.(*ast.SelectorExpr); ok {
					if f := FieldOf(info, sel); f != nil && f.Origin() == chainHamt && isChain(info, sel.X) {
						return true // m.schema.Hamt = …
					}
				}
			}
		case *ast.KeyValueExpr:
			if id, ok := s.Key.(*ast.Ident); ok {
				if v, ok := info.Uses[id].(*types.Var); ok && (v == schemaF || v == infoF) {
					return true // Meta{schema: …}
				}
			}
		}
		return false
	}}
	c.Writers(r2, "Meta.schema/info (and .Hamt)", []string{"db19/meta"}, evStore,
		[]string{"db19/meta.(*Meta).Put", "db19/meta.(*metaUpdate).freeze", "db19/meta.Apply", "db19/meta.(*Meta).LayeredOnto", "db19/meta.(*Meta).Write", "db19/meta.ReadMeta"}, 6)

	r2b := "C21.2 K4 freeze validates the changed schemas before it builds the new Meta"
	if fs := c.src(r2b, freeze, "meta.metaUpdate.freeze"); fs != nil {
		fl := &Flow{P: p, Node: Labeler(CallOf("validate", validate), Ev{"Hamt=", evStore.Match})}
		res := fl.Analyze(fs)
		c.RequireBefore(r2b, res, "Hamt=", 2, "validate")
		for _, r := range res.Returns {
			c.Obl(r2b, "freeze returns only after validate", p.Pos(r.Node), r.Before.Has("validate"), "a Meta with an unchecked schema (no key, index on a missing column, dangling foreign key) becomes the database state")
		}
	}
	if fs := c.src(r2b, validate, "meta.metaUpdate.validate"); fs != nil {
		check := p.DeclaredMethod("db19/meta", "Schema", "Check")
		if c.need(r2b, "meta.Schema.Check", check) {
			c.Obl(r2b, "validate runs Schema.Check on the changed schemas", p.Pos(fs.Decl), len(p.CallsIn(fs, check)) >= 1, "validate no longer checks anything")
		}
	}

	r2c := "C21.2 K11 every admin method of Meta returns nil or the result of freeze / Put"
	// admin methods: those returning through freeze, plus the methods that only call Put (AddView)
	evFinal := CallOf("", freeze, put)
	n := 0
	cands := append([]*types.Func{}, adminOps...)
	for _, m := range p.MethodsOf("db19/meta", "Meta") {
		fs := p.Src(m)
		if fs == nil || sameFunc(m, put) || len(p.CallsIn(fs, put)) == 0 {
			continue
		}
		dup := false
		for _, x := range cands {
			if sameFunc(x, m) {
				dup = true
			}
		}
		if !dup {
			cands = append(cands, m)
		}
	}
	sort.Slice(cands, func(i, j int) bool { return cands[i].Name() < cands[j].Name() })
	metaT := p.NamedType("db19/meta", "Meta")
	for _, m := range cands {
		fs := p.Src(m)
		sig := m.Type().(*types.Signature)
		ri := -1
		for i := 0; i < sig.Results().Len(); i++ {
			if pt, ok := sig.Results().At(i).Type().(*types.Pointer); ok && metaT != nil && types.Identical(pt.Elem(), metaT) {
				ri = i
			}
		}
		if ri < 0 {
			continue
		}
		defs := buildDefs(fs)
		ForEachNode(fs, func(nd ast.Node) {
			r, ok := nd.(*ast.ReturnStmt)
			if !ok || ri >= len(r.Results) {
				return
			}
			// returns of nested literals are not this method's
			if lit, _ := enclosingCallback(parentMap(fs.Body), r); lit != nil {
				return
			}
			n++
			e := r.Results[ri]
			okr := isNilIdent(fs.Info(), e) || defs.MentionsEv(fs, e, evFinal)
			c.Obl(r2c, "Meta."+m.Name()+" returns nil or freeze()/Put()", p.Pos(r), okr,
				"the admin method hands back a Meta that did not go through freeze (validation + frozen hash tables) or Put")
		})
	}
	c.Floor(r2c, n, 10, "returns of Meta admin methods")
}

func checkC21DropIndexes(c *Ctx) {
	p := c.P
	r3 := "C21.3 K4 dropping indexes keeps at least one key"
	fs := c.function(r3, "db19/meta", "dropIndexes")
	must := p.Func("db19/meta", "mustHaveKey")
	idxF := p.Field("db19/meta/schema", "Schema", "Indexes")
	modeF := p.Field("db19/meta/schema", "Index", "Mode")
	if fs == nil || !c.need(r3, "meta.mustHaveKey", must) || !c.need(r3, "schema.Schema.Indexes", idxF) || !c.need(r3, "schema.Index.Mode", modeF) {
		return
	}
	info := fs.Info()
	fl := &Flow{P: p, Node: Labeler(CallOf("mustHaveKey", must), StoreTo("ts.Indexes=", false, idxF))}
	res := fl.Analyze(fs)
	c.RequireBefore(r3, res, "ts.Indexes=", 1, "mustHaveKey")
	var checked []ast.Expr
	for _, s := range res.Of("mustHaveKey") {
		checked = append(checked, callArg(s.Node.(*ast.CallExpr), 0))
	}
	for _, s := range res.Of("ts.Indexes=") {
		as, ok := s.Node.(*ast.AssignStmt)
		if !ok || len(as.Rhs) != 1 {
			continue
		}
		same := false
		for _, e := range checked {
			if e != nil && sameExprObj(info, e, as.Rhs[0]) {
				same = true
			}
		}
		c.Obl(r3, "dropIndexes assigns the list that mustHaveKey checked", p.Pos(as), same,
			"the index list stored in the schema is not the one that was checked for a remaining key: a table can end up without any key")
	}
	// AlterDrop goes through dropIndexes
	if ad := c.method(r3, "db19/meta", "Meta", "AlterDrop"); ad != nil {
		c.Obl(r3, "Meta.AlterDrop drops indexes through dropIndexes", p.Pos(ad.Decl), len(p.CallsIn(ad, fs.Obj)) == 1, "")
		c.Callers(r3+" (K3)", []*types.Func{fs.Obj}, []string{"db19/meta.(*Meta).AlterDrop"}, 1)
	}
	// mustHaveKey: returns only on Mode == 'k', otherwise panics
	if ms := c.src(r3, must, "meta.mustHaveKey"); ms != nil {
		mfl := &Flow{P: p, Edge: func(f *FuncSrc, cond ast.Expr, truth bool) []string {
			be, ok := cond.(*ast.BinaryExpr)
			if !ok || (be.Op != token.EQL && be.Op != token.NEQ) {
				return nil
			}
			for _, pr := range [][2]ast.Expr{{be.X, be.Y}, {be.Y, be.X}} {
				if FieldOf(f.Info(), pr[0]) == modeF {
					if v := ConstVal(f.Info(), pr[1]); v != nil && v.String() == fmt.Sprint(int('k')) {
						if (be.Op == token.EQL) == truth {
							return []string{"@mode==k"}
						}
					}
				}
			}
			return nil
		}}
		mres := mfl.Analyze(ms)
		for _, r := range mres.Returns {
			c.Obl(r3, "mustHaveKey returns only when it saw an index with Mode == 'k'", p.Pos(r.Node), r.Before.Has("@mode==k"), "")
		}
		c.Floor(r3, len(mres.Returns), 1, "returns of mustHaveKey")
		c.Obl(r3, "mustHaveKey panics when no key is left", p.Pos(ms.Decl), mres.Exit.top || len(mres.Returns) > 0 && !mres.Exit.done.Has("impossible") && exitOnlyByReturn(mfl, ms),
			"mustHaveKey can fall off its end without panicking")
	}
}

// exitOnlyByReturn: the function body's last statement does not complete normally
// (ends in panic / a never-returning call), so the only normal exits are return statements.
func exitOnlyByReturn(fl *Flow, fs *FuncSrc) bool {
	if len(fs.Body.List) == 0 {
		return false
	}
	last := fs.Body.List[len(fs.Body.List)-1]
	es, ok := last.(*ast.ExprStmt)
	if !ok {
		_, isRet := last.(*ast.ReturnStmt)
		return isRet
	}
	call, ok := es.X.(*ast.CallExpr)
	if !ok {
		return false
	}
	if IsBuiltin(fs.Info(), call, "panic") {
		return true
	}
	if f := Callee(fs.Info(), call); f != nil {
		return fl.NoReturn(f)
	}
	return false
}

package main

// C20 dump / load / compact — one clause: the bulk builder's duplicate verdict stops the
// build, the replacement file is complete (state written, closed / flushed) before it is
// renamed over the target, the row-count assertions are present.

import (
	"go/ast"
	"go/token"
	"go/types"
	"sort"

	"golang.org/x/tools/go/cfg"
)

func init() { register("C20", checkC20, "./db19/...") }

// sameExprObj: a and b are the same chain of identifiers / field selections (by object).
func sameExprObj(info *types.Info, a, b ast.Expr) bool {
	a, b = ast.Unparen(a), ast.Unparen(b)
	switch x := a.(type) {
	case *ast.Ident:
		y, ok := b.(*ast.Ident)
		return ok && ObjOf(info, x) != nil && ObjOf(info, x) == ObjOf(info, y)
	case *ast.SelectorExpr:
		y, ok := b.(*ast.SelectorExpr)
		return ok && ObjOf(info, x) != nil && ObjOf(info, x) == ObjOf(info, y) && sameExprObj(info, x.X, y.X)
	}
	return false
}

// directFuncs: every function (declaration or literal) whose own body — not a nested
// literal — contains a node matching ev, with those nodes.
func directFuncs(p *Prog, ev Ev) map[*FuncSrc][]ast.Node {
	out := map[*FuncSrc][]ast.Node{}
	for _, fs := range p.AllSrcs {
		if fs.Body == nil {
			continue
		}
		ast.Inspect(fs.Body, func(n ast.Node) bool {
			if n == nil {
				return false
			}
			if l, ok := n.(*ast.FuncLit); ok && l != fs.Lit {
				return false
			}
			if ev.Match(fs, n) {
				out[fs] = append(out[fs], n)
			}
			return true
		})
	}
	return out
}

func sortedSrcs[T any](m map[*FuncSrc]T) []*FuncSrc {
	var l []*FuncSrc
	for fs := range m {
		l = append(l, fs)
	}
	sort.Slice(l, func(i, j int) bool { return l[i].name < l[j].name })
	return l
}

func checkC20(c *Ctx) string {
	p := c.P
	// ---- 1. the builder's verdict
	r1 := "C20.1 K8+K4c a key refused by the bulk index builder stops the build"
	checkBuilderAddUsed(c, r1)
	add := p.DeclaredMethod("db19/index/btree", "Builder", "Add")
	if c.need(r1, "btree.Builder.Add", add) {
		evAdd := CallOf("Add", add)
		m := directFuncs(p, evAdd)
		nloops := 0
		for _, fs := range sortedSrcs(m) {
			par := parentMap(fs.Outer().Body)
			adefs := buildDefs(fs)
			fl := &Flow{P: p, Node: Labeler(evAdd),
				Edge: func(f *FuncSrc, cond ast.Expr, truth bool) []string {
					isAdd := false
					if call, ok := cond.(*ast.CallExpr); ok && sameFunc(Callee(f.Info(), call), add) {
						isAdd = true
					} else if id, ok := cond.(*ast.Ident); ok && adefs.MentionsEv(f, id, evAdd) {
						isAdd = true // ok := bldr.Add(…); if !ok
					}
					if isAdd {
						if truth {
							return []string{"@added"}
						}
						return []string{"@refused"}
					}
					return nil
				},
				BlockEntry: func(f *FuncSrc, b *cfg.Block) []string {
					if b.Kind == cfg.KindForBody || b.Kind == cfg.KindRangeBody {
						return []string{"-@added"}
					}
					return nil
				}}
			res := fl.Analyze(fs)
			loops := map[ast.Stmt]bool{}
			for _, nd := range m[fs] {
				if ls := enclosingLoops(par, nd); len(ls) > 0 {
					// only loops inside this function
					if ls[0].Pos() >= fs.Body.Pos() && ls[0].End() <= fs.Body.End() {
						loops[ls[0]] = true
					}
				}
			}
			for _, le := range res.Loops {
				if !loops[le.Loop] || le.Fn != fs {
					continue
				}
				nloops++
				c.Obl(r1, fs.Outer().name+": an iteration of the build loop ends only after Builder.Add accepted the key", p.Pos(le.Loop), le.Before.Has("@added"),
					"the loop that feeds the builder continues (or is left normally) on a path where Builder.Add returned false: a duplicate key is silently skipped, the key index loses a row that the other indexes have")
			}
			for _, r := range res.Returns {
				if r.Fn != fs {
					continue
				}
				for l := range loops {
					if l.Pos() <= r.Node.Pos() && r.Node.End() <= l.End() {
						c.Obl(r1, fs.Outer().name+": no normal return from inside the build loop without an accepted key", p.Pos(r.Node), r.Before.Has("@added"), "")
					}
				}
			}
		}
		c.Floor(r1, nloops, 2, "ends of iterations of loops around Builder.Add")
	}

	// ---- 2. the new file is complete before it replaces the old one
	r2 := "C20.2 K4 the replacement file is complete before it is renamed over the target"
	rename := p.Func("util/system", "RenameBak")
	dbCloseM := p.DeclaredMethod("db19", "Database", "Close")
	dsWrite := p.DeclaredMethod("db19", "DbState", "Write")
	getState := p.DeclaredMethod("db19", "Database", "GetState")
	if c.need(r2, "system.RenameBak", rename) && c.need(r2, "db19.Database.Close", dbCloseM) && c.need(r2, "db19.DbState.Write", dsWrite) && c.need(r2, "db19.Database.GetState", getState) {
		users := p.FuncsWith([]string{"db19/tools"}, CallOf("", rename))
		ndb, nfile := 0, 0
		for _, fs := range sortedSrcs(users) {
			info := fs.Info()
			par := parentMap(fs.Body)
			// the database whose state is written: X in X.GetState().Write()
			var dbObj types.Object
			ForEachNode(fs, func(n ast.Node) {
				call, ok := n.(*ast.CallExpr)
				if !ok || !sameFunc(Callee(info, call), dsWrite) {
					return
				}
				if sel, ok := ast.Unparen(call.Fun).(*ast.SelectorExpr); ok {
					if inner, ok := ast.Unparen(sel.X).(*ast.CallExpr); ok && sameFunc(Callee(info, inner), getState) {
						if s2, ok := ast.Unparen(inner.Fun).(*ast.SelectorExpr); ok {
							if id := identOf(s2.X); id != nil {
								dbObj = info.Uses[id]
							}
						}
					}
				}
			})
			recvIs := func(f *FuncSrc, call *ast.CallExpr, o types.Object) bool {
				sel, ok := ast.Unparen(call.Fun).(*ast.SelectorExpr)
				if !ok {
					return false
				}
				id := identOf(sel.X)
				return id != nil && o != nil && f.Info().Uses[id] == o
			}
			// the temp file: X in X.Close() with X an *os.File whose Name() is the renamed file
			var fileObj types.Object
			ForEachNode(fs, func(n ast.Node) {
				call, ok := n.(*ast.CallExpr)
				if !ok {
					return
				}
				if f := Callee(info, call); f != nil && isOsFileMethod(f) && f.Name() == "Name" {
					if sel, ok := ast.Unparen(call.Fun).(*ast.SelectorExpr); ok {
						if id := identOf(sel.X); id != nil {
							fileObj = info.Uses[id]
						}
					}
				}
			})
			evFlush := Ev{"Flush", func(f *FuncSrc, n ast.Node) bool {
				call, ok := n.(*ast.CallExpr)
				if !ok {
					return false
				}
				cal := Callee(f.Info(), call)
				return cal != nil && cal.Name() == "Flush" && len(call.Args) == 0 && cal.Type().(*types.Signature).Results().Len() == 1
			}}
			fl := &Flow{P: p, Node: Labeler(
				CallOf("RenameBak", rename),
				Ev{"Write(new db)", func(f *FuncSrc, n ast.Node) bool {
					call, ok := n.(*ast.CallExpr)
					return ok && sameFunc(Callee(f.Info(), call), dsWrite) && dbObj != nil
				}},
				Ev{"Close(new db)", func(f *FuncSrc, n ast.Node) bool {
					call, ok := n.(*ast.CallExpr)
					return ok && sameFunc(Callee(f.Info(), call), dbCloseM) && recvIs(f, call, dbObj)
				}},
				Ev{"Close(file)", func(f *FuncSrc, n ast.Node) bool {
					call, ok := n.(*ast.CallExpr)
					if !ok {
						return false
					}
					cal := Callee(f.Info(), call)
					return cal != nil && isOsFileMethod(cal) && cal.Name() == "Close" && recvIs(f, call, fileObj)
				}},
				evFlush)}
			res := fl.Analyze(fs)
			for _, s := range res.Of("RenameBak") {
				if s.Fn != fs {
					continue
				}
				_, dropped := par[s.Node].(*ast.ExprStmt)
				c.Obl(r2, fs.name+": the result of RenameBak is used", p.Pos(s.Node), !dropped, "a failed rename is reported as a successful dump/load/compact")
				switch {
				case dbObj != nil:
					ndb++
					c.Obl(r2, fs.name+": the new database's state is written before the rename", p.Pos(s.Node), s.Before.Has("Write(new db)"),
						"the temporary database replaces the original without a state record: it cannot be opened")
					c.Obl(r2, fs.name+": the new database is closed before the rename", p.Pos(s.Node), s.Before.Has("Close(new db)"),
						"the temporary database replaces the original before Close wrote the shutdown marker and truncated the file")
				case fileObj != nil:
					nfile++
					c.Obl(r2, fs.name+": the writer is flushed before the rename", p.Pos(s.Node), s.Before.Has("Flush"),
						"buffered dump data is not flushed before the file replaces the previous dump: truncated dump")
					c.Obl(r2, fs.name+": the file is closed before the rename", p.Pos(s.Node), s.Before.Has("Close(file)"), "")
				default:
					c.Obl(r2, fs.name+": what is renamed is recognised (a new database or a dump file)", p.Pos(s.Node), false,
						"the function renames a file over its target but neither X.GetState().Write() nor an *os.File was found")
				}
			}
			for _, s := range res.Of("Close(new db)") {
				if s.Fn == fs {
					c.Obl(r2, fs.name+": the state is written before the new database is closed", p.Pos(s.Node), s.Before.Has("Write(new db)"),
						"Close (shutdown marker) precedes the state record: the marker is not the last thing in the file and open reads garbage as the state")
				}
			}
			for _, s := range res.Of("Flush") {
				if s.Fn == fs {
					_, dropped := par[s.Node].(*ast.ExprStmt)
					c.Obl(r2, fs.name+": the result of Flush is used", p.Pos(s.Node), !dropped, "a failed flush yields a truncated dump that replaces the previous one")
				}
			}
		}
		c.Floor(r2, ndb, 2, "renames of a freshly built database (compact, load)")
		c.Floor(r2, nfile, 2, "renames of a dump file")
	}

	// ---- 3. row count assertions
	r3 := "C20.3 K13 the copied / indexed row counts are asserted"
	assertThat := p.Func("util/assert", "That")
	checkBtree := p.DeclaredMethod("db19/index", "Overlay", "CheckBtree")
	nrowsF := p.Field("db19/meta", "Info", "Nrows")
	addNew := p.DeclaredMethod("db19", "Database", "AddNewTable")
	newInfo := p.Func("db19/meta", "NewInfo")
	if c.need(r3, "assert.That", assertThat) && c.need(r3, "index.Overlay.CheckBtree", checkBtree) && c.need(r3, "meta.Info.Nrows", nrowsF) &&
		c.need(r3, "db19.Database.AddNewTable", addNew) && c.need(r3, "meta.NewInfo", newInfo) {
		if fs := c.function(r3, "db19/tools", "compactTable"); fs != nil {
			defs := buildDefs(fs)
			evCB := CallOf("", checkBtree)
			evAssert := Ev{"assert(nrows==info.Nrows)", func(f *FuncSrc, n ast.Node) bool {
				call, ok := n.(*ast.CallExpr)
				if !ok || !sameFunc(Callee(f.Info(), call), assertThat) || len(call.Args) != 1 {
					return false
				}
				be, ok := ast.Unparen(call.Args[0]).(*ast.BinaryExpr)
				if !ok || be.Op != token.EQL {
					return false
				}
				for _, pr := range [][2]ast.Expr{{be.X, be.Y}, {be.Y, be.X}} {
					if FieldOf(f.Info(), pr[0]) == nrowsF && defs.MentionsEv(f, pr[1], evCB) {
						return true
					}
				}
				return false
			}}
			fl := &Flow{P: p, Node: Labeler(evAssert, CallOf("AddNewTable", addNew), CallOf("NewInfo", newInfo))}
			res := fl.Analyze(fs)
			c.RequireBefore(r3, res, "AddNewTable", 1, "assert(nrows==info.Nrows)")
			for _, s := range res.Of("NewInfo") {
				call := s.Node.(*ast.CallExpr)
				c.Obl(r3, "compactTable: the new table's row count is the number of rows copied", p.Pos(call), len(call.Args) == 4 && defs.MentionsEv(fs, call.Args[2], evCB),
					"the Info of the compacted table is not built from the count of rows actually copied")
			}
			c.Floor(r3, len(res.Of("NewInfo")), 1, "meta.NewInfo in compactTable")
		}
		// tools.buildIndexes: every index gets as many entries as there are records
		if add != nil {
			if fs := c.function(r3, "db19/tools", "buildIndexes"); fs != nil {
				found := false
				for _, lf := range append([]*FuncSrc{fs}, p.LitsOf(fs)...) {
					info := lf.Info()
					incd := map[types.Object]bool{}
					ast.Inspect(lf.Body, func(n ast.Node) bool {
						if s, ok := n.(*ast.IncDecStmt); ok && s.Tok == token.INC {
							if id := identOf(s.X); id != nil {
								incd[info.Uses[id]] = true
							}
						}
						return true
					})
					ast.Inspect(lf.Body, func(n ast.Node) bool {
						call, ok := n.(*ast.CallExpr)
						if !ok || !sameFunc(Callee(info, call), assertThat) || len(call.Args) != 1 {
							return true
						}
						be, ok := ast.Unparen(call.Args[0]).(*ast.BinaryExpr)
						if !ok || be.Op != token.EQL {
							return true
						}
						for _, pr := range [][2]ast.Expr{{be.X, be.Y}, {be.Y, be.X}} {
							a, b := identOf(pr[0]), identOf(pr[1])
							if a != nil && b != nil && incd[info.Uses[a]] && paramIndex(fs, b) >= 0 && len(p.CallsIn(lf, add)) > 0 {
								found = true
							}
						}
						return true
					})
				}
				c.Obl(r3, "tools.buildIndexes asserts that each index received as many keys as records were loaded", p.Pos(fs.Decl), found,
					"the assertion count-of-added-keys == number of records is gone: an index shorter than the table goes unnoticed")
			}
		}
	}
	checkCompactColumnsAfterCopy(c, "C20.4 K4 compact rewrites the column list only after the records were copied")
	checkWorkersJoinedBeforeVerdict(c, "C20.5 K4c load reports success only after its workers were joined and reported no error")
	checkDumpFraming(c, "C20.6 K9 dump and load agree on the record framing")
	checkLoadRecordLoop(c, "C20.7 K5 every loaded record is checksummed, listed and counted")
	return "One clause of dump/load/compact: the result of btree.Builder.Add is used and an iteration of every loop that feeds a builder can only end on the edge where Add accepted the key; " +
		"in every function of db19/tools that renames a file over its target the new database's state is written before it is closed and both precede the rename (compact, load), " +
		"dump files are flushed (result used) and closed first, the rename's result is used; compactTable asserts copied rows == Info.Nrows before adding the table and builds the new Info from that count; " +
		"tools.buildIndexes asserts keys added == records. Dump framing: writeInt folded to 4 big-endian bytes, the loader decodes BigEndian.Uint32 from a 4-byte buffer and stops at zero, every length prefix is the length of the value written after it, tables end with a zero. Loader: every record stored is checksummed, added to the index list, counted and sized on every path. Not decided: content equivalence of the copied data, which fields squeeze removes, foreign keys on load."
}

package main

// Regular expressions over wire tokens and the automata used to compare them (C40 K20).

import (
	"sort"
	"strings"
)

const (
	c40Empty = iota // ∅ (no word)
	c40Eps
	c40Tok
	c40Seq
	c40Alt
	c40Star
)

type c40Re struct {
	kind int
	tok  string
	subs []*c40Re
}

var c40ReEmpty = &c40Re{kind: c40Empty}
var c40ReEps = &c40Re{kind: c40Eps}

func c40T(tok string) *c40Re { return &c40Re{kind: c40Tok, tok: tok} }

func c40SeqOf(rs ...*c40Re) *c40Re {
	var subs []*c40Re
	for _, r := range rs {
		if r == nil || r.kind == c40Empty {
			return c40ReEmpty
		}
		if r.kind == c40Eps {
			continue
		}
		if r.kind == c40Seq {
			subs = append(subs, r.subs...)
		} else {
			subs = append(subs, r)
		}
	}
	switch len(subs) {
	case 0:
		return c40ReEps
	case 1:
		return subs[0]
	}
	return &c40Re{kind: c40Seq, subs: subs}
}

func c40AltOf(rs ...*c40Re) *c40Re {
	var subs []*c40Re
	seen := map[string]bool{}
	for _, r := range rs {
		if r == nil || r.kind == c40Empty {
			continue
		}
		list := []*c40Re{r}
		if r.kind == c40Alt {
			list = r.subs
		}
		for _, x := range list {
			s := x.String()
			if !seen[s] {
				seen[s] = true
				subs = append(subs, x)
			}
		}
	}
	switch len(subs) {
	case 0:
		return c40ReEmpty
	case 1:
		return subs[0]
	}
	return &c40Re{kind: c40Alt, subs: subs}
}

func c40StarOf(r *c40Re) *c40Re {
	if r == nil || r.kind == c40Empty || r.kind == c40Eps {
		return c40ReEps
	}
	if r.kind == c40Star {
		return r
	}
	return &c40Re{kind: c40Star, subs: []*c40Re{r}}
}

func (r *c40Re) String() string {
	switch r.kind {
	case c40Empty:
		return "∅"
	case c40Eps:
		return "ε"
	case c40Tok:
		return r.tok
	case c40Seq:
		var p []string
		for _, s := range r.subs {
			if s.kind == c40Alt {
				p = append(p, "("+s.String()+")")
			} else {
				p = append(p, s.String())
			}
		}
		return strings.Join(p, " ")
	case c40Alt:
		var p []string
		for _, s := range r.subs {
			p = append(p, s.String())
		}
		return strings.Join(p, " | ")
	case c40Star:
		return "(" + r.subs[0].String() + ")*"
	}
	return "?"
}

// mapTok rewrites every token.
func (r *c40Re) mapTok(f func(string) *c40Re) *c40Re {
	switch r.kind {
	case c40Tok:
		return f(r.tok)
	case c40Seq:
		var s []*c40Re
		for _, x := range r.subs {
			s = append(s, x.mapTok(f))
		}
		return c40SeqOf(s...)
	case c40Alt:
		var s []*c40Re
		for _, x := range r.subs {
			s = append(s, x.mapTok(f))
		}
		return c40AltOf(s...)
	case c40Star:
		return c40StarOf(r.subs[0].mapTok(f))
	}
	return r
}

func (r *c40Re) hasTok(t string) bool {
	if r.kind == c40Tok {
		return r.tok == t
	}
	for _, s := range r.subs {
		if s.hasTok(t) {
			return true
		}
	}
	return false
}

// ---- Thompson NFA

type c40NFA struct {
	eps   [][]int
	tr    []map[string][]int
	start int
	acc   int
}

func (n *c40NFA) newState() int {
	n.eps = append(n.eps, nil)
	n.tr = append(n.tr, map[string][]int{})
	return len(n.eps) - 1
}

func (n *c40NFA) build(r *c40Re) (s, e int) {
	s, e = n.newState(), n.newState()
	switch r.kind {
	case c40Empty:
	case c40Eps:
		n.eps[s] = append(n.eps[s], e)
	case c40Tok:
		n.tr[s][r.tok] = append(n.tr[s][r.tok], e)
	case c40Seq:
		cur := s
		for _, x := range r.subs {
			a, b := n.build(x)
			n.eps[cur] = append(n.eps[cur], a)
			cur = b
		}
		n.eps[cur] = append(n.eps[cur], e)
	case c40Alt:
		for _, x := range r.subs {
			a, b := n.build(x)
			n.eps[s] = append(n.eps[s], a)
			n.eps[b] = append(n.eps[b], e)
		}
	case c40Star:
		a, b := n.build(r.subs[0])
		n.eps[s] = append(n.eps[s], a, e)
		n.eps[b] = append(n.eps[b], a, e)
	}
	return
}

type c40DFA struct {
	tr  []map[string]int
	acc []bool
}

func c40Key(set []int) string {
	var sb strings.Builder
	for _, s := range set {
		sb.WriteString(itoa(s))
		sb.WriteString(",")
	}
	return sb.String()
}

func itoa(n int) string {
	if n == 0 {
		return "0"
	}
	neg := n < 0
	if neg {
		n = -n
	}
	var b []byte
	for n > 0 {
		b = append([]byte{byte('0' + n%10)}, b...)
		n /= 10
	}
	if neg {
		return "-" + string(b)
	}
	return string(b)
}

// generic subset construction: nstates, eps-closure and transitions given as functions.
func c40Subset(starts []int, eps func(int) []int, tr func(int) map[string][]int, isAcc func(int) bool, drop string) *c40DFA {
	closure := func(set []int) []int {
		seen := map[int]bool{}
		var stack []int
		for _, s := range set {
			if !seen[s] {
				seen[s] = true
				stack = append(stack, s)
			}
		}
		for len(stack) > 0 {
			s := stack[len(stack)-1]
			stack = stack[:len(stack)-1]
			for _, t := range eps(s) {
				if !seen[t] {
					seen[t] = true
					stack = append(stack, t)
				}
			}
		}
		out := make([]int, 0, len(seen))
		for s := range seen {
			out = append(out, s)
		}
		sort.Ints(out)
		return out
	}
	d := &c40DFA{}
	idx := map[string]int{}
	var sets [][]int
	add := func(set []int) int {
		k := c40Key(set)
		if i, ok := idx[k]; ok {
			return i
		}
		i := len(sets)
		idx[k] = i
		sets = append(sets, set)
		d.tr = append(d.tr, map[string]int{})
		a := false
		for _, s := range set {
			if isAcc(s) {
				a = true
			}
		}
		d.acc = append(d.acc, a)
		return i
	}
	add(closure(starts))
	for i := 0; i < len(sets); i++ {
		moves := map[string][]int{}
		for _, s := range sets[i] {
			for tok, ts := range tr(s) {
				if tok == drop {
					continue
				}
				moves[tok] = append(moves[tok], ts...)
			}
		}
		for tok, ts := range moves {
			d.tr[i][tok] = add(closure(ts))
		}
	}
	return d
}

func c40ToDFA(r *c40Re) *c40DFA {
	n := &c40NFA{}
	s, e := n.build(r)
	return c40Subset([]int{s}, func(i int) []int { return n.eps[i] }, func(i int) map[string][]int { return n.tr[i] },
		func(i int) bool { return i == e }, "")
}

// afterTok: { w2 | w1 tok w2 ∈ L(d), w2 without tok }.
func (d *c40DFA) afterTok(tok string) *c40DFA {
	var starts []int
	for _, m := range d.tr {
		if t, ok := m[tok]; ok {
			starts = append(starts, t)
		}
	}
	if len(starts) == 0 {
		return &c40DFA{tr: []map[string]int{{}}, acc: []bool{false}}
	}
	return c40Subset(starts, func(int) []int { return nil }, func(i int) map[string][]int {
		out := map[string][]int{}
		for k, v := range d.tr[i] {
			out[k] = []int{v}
		}
		return out
	}, func(i int) bool { return d.acc[i] }, tok)
}

func (d *c40DFA) empty() bool {
	for _, a := range d.acc {
		if a {
			return false
		}
	}
	return true
}

// c40Included: L(a) ⊆ L(b); otherwise a shortest word of L(a) \ L(b).
func c40Included(a, b *c40DFA) (bool, []string) {
	type pair struct{ x, y int }
	type item struct {
		p    pair
		word []string
	}
	seen := map[pair]bool{{0, 0}: true}
	queue := []item{{pair{0, 0}, nil}}
	for len(queue) > 0 {
		it := queue[0]
		queue = queue[1:]
		if a.acc[it.p.x] && (it.p.y < 0 || !b.acc[it.p.y]) {
			return false, it.word
		}
		var toks []string
		for t := range a.tr[it.p.x] {
			toks = append(toks, t)
		}
		sort.Strings(toks)
		for _, t := range toks {
			nx := a.tr[it.p.x][t]
			ny := -1
			if it.p.y >= 0 {
				if v, ok := b.tr[it.p.y][t]; ok {
					ny = v
				}
			}
			np := pair{nx, ny}
			if !seen[np] {
				seen[np] = true
				queue = append(queue, item{np, append(append([]string{}, it.word...), t)})
			}
		}
	}
	return true, nil
}

// c40Sample lists up to n shortest words of the language (for messages).
func (d *c40DFA) sample(n int) []string {
	type item struct {
		s    int
		word []string
	}
	var out []string
	queue := []item{{0, nil}}
	steps := 0
	for len(queue) > 0 && len(out) < n && steps < 2000 {
		steps++
		it := queue[0]
		queue = queue[1:]
		if d.acc[it.s] {
			w := strings.Join(it.word, " ")
			if w == "" {
				w = "ε"
			}
			out = append(out, w)
		}
		if len(it.word) > 12 {
			continue
		}
		var toks []string
		for t := range d.tr[it.s] {
			toks = append(toks, t)
		}
		sort.Strings(toks)
		for _, t := range toks {
			queue = append(queue, item{d.tr[it.s][t], append(append([]string{}, it.word...), t)})
		}
	}
	return out
}

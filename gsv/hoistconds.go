package main

// `gsv hoistconds`: rewrites (in place, in $GSV_REPO) every `if <cond> {` without an init
// statement, whose condition is not a call and not a single identifier, into
// `hc_q7 := <cond>; if hc_q7 {` (as `if hc_q7 := <cond>; hc_q7 {` so that no scope changes) -
// a behaviour-preserving edit.  Used by tools/robust4.sh.

import (
	"fmt"
	"go/ast"
	"os"
	"sort"
	"strings"
)

func hoistCondsMain() int {
	p, err := Load(LoadOpts{Raw: true})
	if err != nil {
		fmt.Println(err)
		return 2
	}
	type edit struct{ c0, c1 int }
	files := map[string][]edit{}
	for _, pk := range p.Pkgs {
		for _, f := range pk.Syntax {
			fn := p.Fset.Position(f.Pos()).Filename
			if strings.HasSuffix(fn, "_test.go") {
				continue
			}
			ast.Inspect(f, func(n ast.Node) bool {
				ifs, ok := n.(*ast.IfStmt)
				if !ok || ifs.Init != nil {
					return true
				}
				switch ast.Unparen(ifs.Cond).(type) {
				case *ast.Ident, *ast.CallExpr:
					return true
				}
				// conditions containing a function literal are left alone
				hasLit := false
				ast.Inspect(ifs.Cond, func(m ast.Node) bool {
					if _, ok := m.(*ast.FuncLit); ok {
						hasLit = true
					}
					return true
				})
				if hasLit {
					return true
				}
				files[fn] = append(files[fn], edit{p.Fset.Position(ifs.Cond.Pos()).Offset, p.Fset.Position(ifs.Cond.End()).Offset})
				return true
			})
		}
	}
	n, nf := 0, 0
	for fn, eds := range files {
		src, err := os.ReadFile(fn)
		if err != nil {
			continue
		}
		sort.Slice(eds, func(i, j int) bool { return eds[i].c0 > eds[j].c0 })
		s := string(src)
		for _, e := range eds {
			s = s[:e.c0] + "hc_q7 := " + s[e.c0:e.c1] + "; hc_q7" + s[e.c1:]
			n++
		}
		os.WriteFile(fn, []byte(s), 0o644)
		nf++
	}
	fmt.Printf("hoisted %d conditions in %d files\n", n, nf)
	return 0
}

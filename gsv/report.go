package main

// Obligations, verdicts, evidence files, known findings.

import (
	"bufio"
	"encoding/json"
	"fmt"
	"os"
	"path/filepath"
	"sort"
	"strings"
	"time"
)

var verifDir = "/verif"

func init() {
	if d := os.Getenv("GSV_VERIF"); d != "" {
		verifDir = d
	}
}

type Obligation struct {
	Rule   string `json:"rule"`             // e.g. "C18.2 K11 returned offset derives from the Add"
	Key    string `json:"key"`              // stable identity: rule id + construct
	Pos    string `json:"pos,omitempty"`    // file:line (diagnostic only, not part of the key)
	OK     bool   `json:"ok"`               //
	Detail string `json:"detail,omitempty"` // why it failed / what was matched
	Kind   string `json:"kind,omitempty"`   // "mechanism-missing" for unresolved anchors
}

type Ctx struct {
	Prop   string
	Tier   string
	P      *Prog
	Obls   []Obligation
	Stats  map[string]int
	Notes  []string
	Assume []string
	start  time.Time
	seen   map[string]int
}

func NewCtx(prop, tier string) *Ctx {
	return &Ctx{Prop: prop, Tier: tier, Stats: map[string]int{}, start: time.Now(), seen: map[string]int{}}
}

// Obl records one obligation.  The key is made unique with an ordinal when the same
// rule+construct occurs several times (e.g. two calls of the same callee in one function).
func (c *Ctx) Obl(rule, key, pos string, ok bool, detail string) {
	k := rule + " | " + key
	c.seen[k]++
	if n := c.seen[k]; n > 1 {
		key = fmt.Sprintf("%s #%d", key, n)
	}
	c.Obls = append(c.Obls, Obligation{Rule: rule, Key: c.Prop + ":" + ruleID(rule) + ":" + key, Pos: pos, OK: ok, Detail: detail})
}

// Missing records an anchor that could not be resolved.
func (c *Ctx) Missing(rule, what string) {
	c.Obls = append(c.Obls, Obligation{Rule: rule, Key: c.Prop + ":" + ruleID(rule) + ":missing:" + what, OK: false,
		Detail: "mechanism not found: " + what, Kind: "mechanism-missing"})
}

// Floor checks that a rule matched at least n sites (vacuity guard).
func (c *Ctx) Floor(rule string, got, want int, what string) {
	if got < want {
		c.Obls = append(c.Obls, Obligation{Rule: rule, Key: c.Prop + ":" + ruleID(rule) + ":floor:" + what, OK: false,
			Detail: fmt.Sprintf("rule matched %d %s, at least %d confirmed by hand: the mechanism was removed or the matcher no longer sees it", got, what, want),
			Kind:   "mechanism-missing"})
	} else {
		c.Stats["floors_checked"]++
	}
}

func (c *Ctx) Note(format string, a ...any) { c.Notes = append(c.Notes, fmt.Sprintf(format, a...)) }

func ruleID(rule string) string {
	if i := strings.IndexByte(rule, ' '); i > 0 {
		return rule[:i]
	}
	return rule
}

type knownFinding struct {
	Property string `json:"property"`
	Key      string `json:"key"`
	Status   string `json:"status"` // "open" | "fixed"
	Commit   string `json:"commit,omitempty"`
	What     string `json:"what"`
}

// known_findings.txt (committed, never written at run time):
//
//	open: property=<id> key=<obligation key> :: <what fails>
//	fixed: property=<id> <commit> <what failed>
//
// Only "open:" lines suppress (exactly one obligation key each); "fixed:" lines are a
// record and suppress nothing.
func loadKnown() []knownFinding {
	f, err := os.Open(filepath.Join(verifDir, "known_findings.txt"))
	if err != nil {
		return nil
	}
	defer f.Close()
	var out []knownFinding
	sc := bufio.NewScanner(f)
	sc.Buffer(make([]byte, 1<<20), 1<<20)
	for sc.Scan() {
		line := strings.TrimSpace(sc.Text())
		if !strings.HasPrefix(line, "open:") {
			continue
		}
		rest := strings.TrimSpace(strings.TrimPrefix(line, "open:"))
		what := ""
		if i := strings.Index(rest, " :: "); i >= 0 {
			what = rest[i+4:]
			rest = rest[:i]
		}
		k := knownFinding{Status: "open", What: what}
		if strings.HasPrefix(rest, "property=") {
			j := strings.Index(rest, " key=")
			if j < 0 {
				continue
			}
			k.Property = rest[len("property="):j]
			k.Key = rest[j+len(" key="):]
			out = append(out, k)
		}
	}
	return out
}

type evidence struct {
	PropertyID  string         `json:"property_id"`
	Tier        string         `json:"tier"`
	Seed        int            `json:"seed"`
	Level       string         `json:"level"`
	Coverage    map[string]any `json:"coverage"`
	Assumptions []string       `json:"assumptions"`
	WallS       float64        `json:"wall_s"`
	Violations  int            `json:"violations"`
}

// Finish prints the obligations, writes evidence and returns the exit code.
func (c *Ctx) Finish(explanation string) int {
	sort.SliceStable(c.Obls, func(i, j int) bool { return c.Obls[i].Rule < c.Obls[j].Rule })
	known := map[string]knownFinding{}
	for _, k := range loadKnown() {
		if k.Property == c.Prop && k.Status == "open" {
			known[k.Key] = k
		}
	}
	var viol, knownHit []Obligation
	discharged := 0
	rules := map[string]int{}
	ruleTitles := map[string]string{}
	for _, o := range c.Obls {
		rules[ruleID(o.Rule)]++
		if t := strings.TrimSuffix(o.Rule, " [GOOS=windows]"); len(t) > len(ruleTitles[ruleID(o.Rule)]) && !strings.Contains(t, "[GOOS=") {
			ruleTitles[ruleID(o.Rule)] = t
		}
		st := "ok  "
		if !o.OK {
			// the same construct seen in a second build configuration is the same finding
			baseKey := strings.TrimSuffix(o.Key, " [GOOS=windows]")
			if _, isKnown := known[baseKey]; isKnown {
				st = "KNWN"
				knownHit = append(knownHit, o)
			} else {
				st = "FAIL"
				viol = append(viol, o)
			}
		} else {
			discharged++
		}
		fmt.Printf("%s %-60s %s %s", st, o.Rule, o.Pos, strings.TrimPrefix(o.Key, c.Prop+":"))
		if o.Detail != "" {
			fmt.Printf("  -- %s", o.Detail)
		}
		fmt.Println()
	}
	for _, n := range c.Notes {
		fmt.Println("note:", n)
	}
	for _, o := range knownHit {
		fmt.Printf("KNOWN-FINDING: property=%s %s: %s (%s)\n", c.Prop, o.Key, known[strings.TrimSuffix(o.Key, " [GOOS=windows]")].What, o.Pos)
	}
	samples := []any{}
	step := 1
	if len(c.Obls) > 12 {
		step = len(c.Obls) / 12
	}
	for i := 0; i < len(c.Obls); i += step {
		samples = append(samples, c.Obls[i])
	}
	cov := map[string]any{
		"explanation":   explanation,
		"obligations":   len(c.Obls),
		"discharged":    discharged + len(knownHit),
		"known_finding": len(knownHit),
		"rules":         rules,
		"rule_titles":   ruleTitles,
		"samples":       samples,
		"checker_cmd":   "gsv check " + c.Prop + " --tier " + c.Tier,
		"trusted_base":  []string{"go/types (go1.26.8)", "golang.org/x/tools v0.50.0 go/packages, go/cfg, go/ssa", "gsv rule tables and frozen exceptions (see DESIGN.md)"},
		"notes":         c.Notes,
	}
	for k, v := range c.Stats {
		cov[k] = v
	}
	if c.P != nil {
		cov["packages_loaded"] = len(c.P.Pkgs)
		cov["functions_loaded"] = c.P.nfuncs
	}
	seed := 0
	fmt.Sscan(os.Getenv("VERIF_SEED"), &seed)
	ev := evidence{PropertyID: c.Prop, Tier: c.Tier, Seed: seed, Level: "other", Coverage: cov,
		Assumptions: append([]string{
			"the source under /repo is what is built (default build configuration linux/amd64, no tags; thorough adds GOOS=windows; the cgo-only gui configuration is not analysable here)",
			"the decided clause is a structural necessary condition of the property, not the behaviour itself",
		}, c.Assume...),
		WallS: time.Since(c.start).Seconds(), Violations: len(viol)}
	os.MkdirAll(filepath.Join(verifDir, "evidence"), 0o755)
	b, _ := json.MarshalIndent(ev, "", " ")
	evf := filepath.Join(verifDir, "evidence", c.Prop+".json")
	if err := os.WriteFile(evf, append(b, '\n'), 0o644); err != nil {
		fmt.Println("cannot write evidence:", err)
		return 2
	}
	fmt.Printf("%s tier=%s obligations=%d discharged=%d known=%d violations=%d wall=%.1fs\n",
		c.Prop, c.Tier, len(c.Obls), discharged, len(knownHit), len(viol), time.Since(c.start).Seconds())
	if len(viol) > 0 {
		rf := filepath.Join(verifDir, "evidence", c.Prop+".violations.json")
		vb, _ := json.MarshalIndent(viol, "", " ")
		os.WriteFile(rf, append(vb, '\n'), 0o644)
		for _, o := range viol {
			fmt.Printf("violation: %s at %s: %s [%s]\n", o.Rule, o.Pos, o.Detail, o.Key)
		}
		fmt.Printf("VIOLATION property=%s replay=%s\n", c.Prop, rf)
		return 1
	}
	os.Remove(filepath.Join(verifDir, "evidence", c.Prop+".violations.json"))
	return 0
}

// infraFail writes an evidence file that says why there is no verdict and exits 2.
func infraFail(prop, tier string, err error) {
	fmt.Fprintf(os.Stderr, "gsv: infrastructure failure (no verdict): %v\n", err)
	ev := evidence{PropertyID: prop, Tier: tier, Level: "other",
		Coverage: map[string]any{"explanation": "NO VERDICT: " + err.Error(), "obligations": 0, "discharged": 0},
		WallS:    0, Violations: 0}
	os.MkdirAll(filepath.Join(verifDir, "evidence"), 0o755)
	b, _ := json.MarshalIndent(ev, "", " ")
	os.WriteFile(filepath.Join(verifDir, "evidence", prop+".json"), append(b, '\n'), 0o644)
	os.Exit(2)
}

package main

// C40 K20: extraction of the wire sequence of a function as a regular expression over
// the primitive wire tokens
//
//	T F  a bool byte (constant true / false, or the value a correlated GetBool branch saw)
//	B    any other single byte
//	I    a zig-zag varint
//	N    raw bytes
//	C    the command byte (PutCmd); R  ResetWrite
//
// Everything above the leaves (PutStr, PutStrs, PutResult, GetStrs, ValueResult, Request,
// and the helpers of package dbms) is inlined from its source, so the encoding layer of
// package mux is compared too.  Anything the extractor cannot model exactly makes the
// function "inexact": it is then listed as not covered, never compared approximately.

import (
	"fmt"
	"go/ast"
	"go/constant"
	"go/token"
	"go/types"
)

type c40Out struct{ normal, ret, brk, cont *c40Re }

func c40OutSeq(a, b c40Out) c40Out {
	return c40Out{
		normal: c40SeqOf(a.normal, b.normal),
		ret:    c40AltOf(a.ret, c40SeqOf(a.normal, b.ret)),
		brk:    c40AltOf(a.brk, c40SeqOf(a.normal, b.brk)),
		cont:   c40AltOf(a.cont, c40SeqOf(a.normal, b.cont)),
	}
}

func c40OutAlt(a, b c40Out) c40Out {
	return c40Out{c40AltOf(a.normal, b.normal), c40AltOf(a.ret, b.ret), c40AltOf(a.brk, b.brk), c40AltOf(a.cont, b.cont)}
}

func c40Pre(pre *c40Re, o c40Out) c40Out {
	return c40Out{c40SeqOf(pre, o.normal), c40SeqOf(pre, o.ret), c40SeqOf(pre, o.brk), c40SeqOf(pre, o.cont)}
}

var c40Nothing = c40Out{c40ReEmpty, c40ReEmpty, c40ReEmpty, c40ReEmpty}

type c40Wire struct {
	p  *Prog
	fl *Flow
	// resolved leaves
	write1, writeString, write, putInt64 *types.Func
	getByte, getN, getInt64, getBool     *types.Func
	putCmd, resetWrite, request          *types.Func
	wire                                 map[*FuncSrc]int // 1 has wire content, 2 none, 3 in progress
}

func newC40Wire(c *Ctx, rule string) *c40Wire {
	p := c.P
	w := &c40Wire{p: p, fl: &Flow{P: p}, wire: map[*FuncSrc]int{}}
	ok := true
	get := func(typ, name string) *types.Func {
		f := p.DeclaredMethod("dbms/mux", typ, name)
		if f == nil {
			c.Missing(rule, "mux."+typ+"."+name)
			ok = false
		}
		return f
	}
	w.write1, w.writeString, w.write, w.putInt64 = get("WriteBuf", "Write1"), get("WriteBuf", "WriteString"), get("WriteBuf", "Write"), get("WriteBuf", "PutInt64")
	w.getByte, w.getN, w.getInt64, w.getBool = get("ReadBuf", "GetByte"), get("ReadBuf", "GetN"), get("ReadBuf", "GetInt64"), get("ReadBuf", "GetBool")
	w.putCmd, w.resetWrite, w.request = get("WriteBuf", "PutCmd"), get("WriteBuf", "ResetWrite"), get("ClientSession", "Request")
	if !ok {
		return nil
	}
	return w
}

func (w *c40Wire) leaf(f *types.Func) bool {
	for _, g := range []*types.Func{w.write1, w.writeString, w.write, w.putInt64, w.getByte, w.getN, w.getInt64, w.getBool, w.putCmd, w.resetWrite} {
		if sameFunc(f, g) {
			return true
		}
	}
	return false
}

// hasWire: the function (or something it calls statically) performs wire I/O.
func (w *c40Wire) hasWire(fs *FuncSrc) bool {
	if fs == nil || fs.Body == nil {
		return false
	}
	switch w.wire[fs] {
	case 1:
		return true
	case 2, 3:
		return false
	}
	w.wire[fs] = 3
	found := w.nodeHasWire(fs, fs.Body)
	if found {
		w.wire[fs] = 1
	} else {
		w.wire[fs] = 2
	}
	return found
}

func (w *c40Wire) nodeHasWire(fs *FuncSrc, n ast.Node) bool {
	found := false
	if n == nil {
		return false
	}
	ast.Inspect(n, func(m ast.Node) bool {
		if found {
			return false
		}
		if call, ok := m.(*ast.CallExpr); ok {
			if cal := Callee(fs.Info(), call); cal != nil {
				if w.leaf(cal) {
					found = true
				} else if w.fl.isStatic(cal) && w.hasWire(w.p.Src(cal)) {
					found = true
				}
			}
		}
		return true
	})
	return found
}

// c40Ext is one extraction (one direction) of one top-level function.
type c40Ext struct {
	w          *c40Wire
	dir        string // "put" | "get"
	keepPanics bool   // a panicking path ends like a return instead of being dropped
	inexact    []string
	stack      []*FuncSrc
	sawRequest bool
}

type c40Frame struct {
	fs   *FuncSrc
	sess types.Object
	env  map[types.Object]constant.Value
}

func (x *c40Ext) bad(fr *c40Frame, n ast.Node, why string) {
	x.inexact = append(x.inexact, fmt.Sprintf("%s (%s, %s)", why, fr.fs.name, x.w.p.Pos(n)))
}

// c40Root: the variable a receiver expression is rooted at (through selectors, derefs
// and call chains a.F().G()).
func c40Root(info *types.Info, e ast.Expr) types.Object {
	for {
		switch v := ast.Unparen(e).(type) {
		case *ast.Ident:
			return info.Uses[v]
		case *ast.SelectorExpr:
			e = v.X
		case *ast.StarExpr:
			e = v.X
		case *ast.UnaryExpr:
			e = v.X
		case *ast.CallExpr:
			sel, ok := ast.Unparen(v.Fun).(*ast.SelectorExpr)
			if !ok {
				return nil
			}
			e = sel.X
		default:
			return nil
		}
	}
}

func (x *c40Ext) sessOf(fs *FuncSrc) types.Object {
	if r := fs.Recv(); r != nil {
		return r
	}
	if fs.Obj != nil {
		if ps := fs.Obj.Type().(*types.Signature).Params(); ps.Len() > 0 {
			return ps.At(0)
		}
	}
	if fs.Lit != nil && fs.Parent != nil {
		return x.sessOf(fs.Outer())
	}
	return nil
}

// fn: the regular expression of all terminating paths of a function.
func (x *c40Ext) fn(fs *FuncSrc, sess types.Object, env map[types.Object]constant.Value) *c40Re {
	for _, s := range x.stack {
		if s == fs {
			x.inexact = append(x.inexact, "recursion through "+fs.name)
			return c40ReEps
		}
	}
	x.stack = append(x.stack, fs)
	defer func() { x.stack = x.stack[:len(x.stack)-1] }()
	fr := &c40Frame{fs: fs, sess: sess, env: env}
	o := x.block(fr, fs.Body.List)
	if o.brk.kind != c40Empty || o.cont.kind != c40Empty {
		x.bad(fr, fs.Body, "break/continue outside a loop")
	}
	return c40AltOf(o.normal, o.ret)
}

func (x *c40Ext) block(fr *c40Frame, list []ast.Stmt) c40Out {
	out := c40Out{c40ReEps, c40ReEmpty, c40ReEmpty, c40ReEmpty}
	for _, s := range list {
		out = c40OutSeq(out, x.stmt(fr, s))
	}
	return out
}

// exprs evaluates expressions in order; dies: evaluation never completes.
func (x *c40Ext) exprs(fr *c40Frame, es ...ast.Expr) (*c40Re, bool) {
	re := c40ReEps
	for _, e := range es {
		r, dies := x.expr(fr, e)
		re = c40SeqOf(re, r)
		if dies {
			return re, true
		}
	}
	return re, false
}

func (x *c40Ext) simple(re *c40Re, dies bool) c40Out {
	if dies {
		if x.keepPanics && len(x.stack) == 1 {
			return c40Out{c40ReEmpty, re, c40ReEmpty, c40ReEmpty}
		}
		return c40Nothing
	}
	return c40Out{re, c40ReEmpty, c40ReEmpty, c40ReEmpty}
}

func (x *c40Ext) tokFor(f *types.Func, fr *c40Frame, call *ast.CallExpr) *c40Re {
	w := x.w
	if x.dir == "put" {
		switch {
		case sameFunc(f, w.write1):
			if len(call.Args) == 1 {
				v := x.constOf(fr, call.Args[0])
				if v != nil && v.Kind() == constant.Int {
					if n, ok := constant.Int64Val(v); ok && n == 1 {
						return c40T("T")
					} else if ok && n == 0 {
						return c40T("F")
					}
				}
			}
			return c40T("B")
		case sameFunc(f, w.writeString), sameFunc(f, w.write):
			return c40T("N")
		case sameFunc(f, w.putInt64):
			return c40T("I")
		case sameFunc(f, w.resetWrite):
			return c40T("R")
		}
	} else {
		switch {
		case sameFunc(f, w.getByte):
			return c40T("B")
		case sameFunc(f, w.getN):
			return c40T("N")
		case sameFunc(f, w.getInt64):
			return c40T("I")
		case sameFunc(f, w.getBool):
			return c40AltOf(c40T("T"), c40T("F"))
		}
	}
	return c40ReEps
}

func (x *c40Ext) constOf(fr *c40Frame, e ast.Expr) constant.Value {
	env := &AbsEnv{Info: fr.fs.Info(), Locals: fr.env}
	return env.expr(e)
}

func (x *c40Ext) expr(fr *c40Frame, e ast.Expr) (*c40Re, bool) {
	if e == nil {
		return c40ReEps, false
	}
	info := fr.fs.Info()
	w := x.w
	switch v := e.(type) {
	case *ast.ParenExpr:
		return x.expr(fr, v.X)
	case *ast.FuncLit:
		if w.nodeHasWire(fr.fs, v.Body) {
			x.bad(fr, v, "wire I/O inside a function literal")
		}
		return c40ReEps, false
	case *ast.BinaryExpr:
		if v.Op == token.LAND || v.Op == token.LOR {
			re, dies := x.expr(fr, v.X)
			if dies {
				return re, true
			}
			if w.nodeHasWire(fr.fs, v.Y) {
				x.bad(fr, v.Y, "wire I/O in a conditionally evaluated operand")
			}
			return re, false
		}
		return x.exprs(fr, v.X, v.Y)
	case *ast.CallExpr:
		re := c40ReEps
		var dies bool
		var r *c40Re
		if sel, ok := ast.Unparen(v.Fun).(*ast.SelectorExpr); ok {
			r, dies = x.expr(fr, sel.X)
		} else {
			r, dies = x.expr(fr, v.Fun)
		}
		re = c40SeqOf(re, r)
		if dies {
			return re, true
		}
		r, dies = x.exprs(fr, v.Args...)
		re = c40SeqOf(re, r)
		if dies {
			return re, true
		}
		if IsBuiltin(info, v, "panic") {
			return re, true
		}
		cal := Callee(info, v)
		if cal == nil {
			return re, false
		}
		checkStream := func() bool {
			sel, ok := ast.Unparen(v.Fun).(*ast.SelectorExpr)
			if !ok {
				return false
			}
			root := c40Root(info, sel.X)
			return root != nil && root == fr.sess
		}
		if w.leaf(cal) {
			if !checkStream() {
				x.bad(fr, v, "wire call on a value that is not this function's session")
				return re, false
			}
			if sameFunc(cal, w.putCmd) {
				return c40SeqOf(re, c40T("C")), false
			}
			return c40SeqOf(re, x.tokFor(cal, fr, v)), false
		}
		if !w.fl.isStatic(cal) {
			return re, false
		}
		if sameFunc(cal, w.request) {
			x.sawRequest = true
		}
		cs := w.p.Src(cal)
		if cs != nil && w.hasWire(cs) {
			sig := cal.Type().(*types.Signature)
			var sess types.Object
			if sig.Recv() != nil {
				if !checkStream() {
					x.bad(fr, v, "helper with wire I/O called on a value that is not this function's session")
					return re, false
				}
				sess = cs.Recv()
			} else {
				// plain function: the session must be passed as exactly one argument
				n := 0
				for i, a := range v.Args {
					if root := c40Root(info, a); root != nil && root == fr.sess && i < sig.Params().Len() {
						sess = sig.Params().At(i)
						n++
					}
				}
				if n != 1 {
					x.bad(fr, v, "helper with wire I/O does not receive this function's session")
					return re, false
				}
			}
			env := map[types.Object]constant.Value{}
			for i, a := range v.Args {
				if i < sig.Params().Len() && !(sig.Variadic() && i >= sig.Params().Len()-1) {
					if c := x.constOf(fr, a); c != nil {
						env[sig.Params().At(i)] = c
					}
				}
			}
			sub := x.fn(cs, sess, env)
			if sub.kind == c40Empty {
				return re, true // every path of the callee dies
			}
			return c40SeqOf(re, sub), false
		}
		if w.fl.NoReturn(cal) {
			return re, true
		}
		return re, false
	}
	// generic: children in source order
	re := c40ReEps
	dead := false
	children(e, func(c ast.Node) {
		if dead {
			return
		}
		if ce, ok := c.(ast.Expr); ok {
			r, d := x.expr(fr, ce)
			re = c40SeqOf(re, r)
			dead = d
		}
	})
	return re, dead
}

// boolCond: cond is (!)* s.GetBool() directly; returns the call and whether it is negated.
func (x *c40Ext) boolCond(fr *c40Frame, cond ast.Expr) (*ast.CallExpr, bool) {
	neg := false
	for {
		cond = ast.Unparen(cond)
		u, ok := cond.(*ast.UnaryExpr)
		if !ok || u.Op != token.NOT {
			break
		}
		neg = !neg
		cond = u.X
	}
	call, ok := cond.(*ast.CallExpr)
	if !ok || !sameFunc(Callee(fr.fs.Info(), call), x.w.getBool) {
		return nil, false
	}
	return call, neg
}

func (x *c40Ext) stmt(fr *c40Frame, s ast.Stmt) c40Out {
	w := x.w
	switch s := s.(type) {
	case nil, *ast.EmptyStmt:
		return c40Out{c40ReEps, c40ReEmpty, c40ReEmpty, c40ReEmpty}
	case *ast.BlockStmt:
		return x.block(fr, s.List)
	case *ast.ExprStmt:
		return x.simple(x.expr(fr, s.X))
	case *ast.AssignStmt:
		return x.simple(x.exprs(fr, append(append([]ast.Expr{}, s.Rhs...), s.Lhs...)...))
	case *ast.IncDecStmt:
		return x.simple(x.expr(fr, s.X))
	case *ast.SendStmt:
		return x.simple(x.exprs(fr, s.Chan, s.Value))
	case *ast.DeclStmt:
		var es []ast.Expr
		if gd, ok := s.Decl.(*ast.GenDecl); ok {
			for _, sp := range gd.Specs {
				if vs, ok := sp.(*ast.ValueSpec); ok {
					es = append(es, vs.Values...)
				}
			}
		}
		return x.simple(x.exprs(fr, es...))
	case *ast.ReturnStmt:
		re, dies := x.exprs(fr, s.Results...)
		if dies {
			return x.simple(re, true)
		}
		return c40Out{c40ReEmpty, re, c40ReEmpty, c40ReEmpty}
	case *ast.BranchStmt:
		if s.Label == nil && s.Tok == token.BREAK {
			return c40Out{c40ReEmpty, c40ReEmpty, c40ReEps, c40ReEmpty}
		}
		if s.Label == nil && s.Tok == token.CONTINUE {
			return c40Out{c40ReEmpty, c40ReEmpty, c40ReEmpty, c40ReEps}
		}
		x.bad(fr, s, "goto / labelled branch / fallthrough")
		return c40Nothing
	case *ast.DeferStmt:
		if w.nodeHasWire(fr.fs, s.Call) {
			x.bad(fr, s, "wire I/O in a deferred call")
		}
		return c40Out{c40ReEps, c40ReEmpty, c40ReEmpty, c40ReEmpty}
	case *ast.GoStmt:
		if w.nodeHasWire(fr.fs, s.Call) {
			x.bad(fr, s, "wire I/O in a go statement")
		}
		return c40Out{c40ReEps, c40ReEmpty, c40ReEmpty, c40ReEmpty}
	case *ast.IfStmt:
		pre := c40Out{c40ReEps, c40ReEmpty, c40ReEmpty, c40ReEmpty}
		if s.Init != nil {
			pre = x.stmt(fr, s.Init)
		}
		var body c40Out
		elseOf := func() c40Out {
			if s.Else != nil {
				return x.stmt(fr, s.Else)
			}
			return c40Out{c40ReEps, c40ReEmpty, c40ReEmpty, c40ReEmpty}
		}
		if v := x.constOf(fr, s.Cond); v != nil && v.Kind() == constant.Bool && !w.nodeHasWire(fr.fs, s.Cond) {
			if constant.BoolVal(v) {
				body = x.stmt(fr, s.Body)
			} else {
				body = elseOf()
			}
		} else if call, neg := x.boolCond(fr, s.Cond); call != nil && x.dir == "get" {
			// the branch taken tells which bool byte was read
			recv, dies := x.expr(fr, ast.Unparen(call.Fun).(*ast.SelectorExpr).X)
			if root := c40Root(fr.fs.Info(), ast.Unparen(call.Fun).(*ast.SelectorExpr).X); root == nil || root != fr.sess {
				x.bad(fr, call, "wire call on a value that is not this function's session")
			}
			tTok, fTok := c40T("T"), c40T("F")
			if neg {
				tTok, fTok = fTok, tTok
			}
			body = c40OutAlt(c40Pre(tTok, x.stmt(fr, s.Body)), c40Pre(fTok, elseOf()))
			body = c40Pre(recv, body)
			if dies {
				body = c40Nothing
			}
		} else {
			re, dies := x.expr(fr, s.Cond)
			if dies {
				body = x.simple(re, true)
			} else {
				body = c40Pre(re, c40OutAlt(x.stmt(fr, s.Body), elseOf()))
			}
		}
		return c40OutSeq(pre, body)
	case *ast.SwitchStmt, *ast.TypeSwitchStmt:
		pre := c40Out{c40ReEps, c40ReEmpty, c40ReEmpty, c40ReEmpty}
		var clauses []ast.Stmt
		switch sw := s.(type) {
		case *ast.SwitchStmt:
			if sw.Init != nil {
				pre = x.stmt(fr, sw.Init)
			}
			if sw.Tag != nil {
				pre = c40OutSeq(pre, x.simple(x.expr(fr, sw.Tag)))
			}
			clauses = sw.Body.List
		case *ast.TypeSwitchStmt:
			if sw.Init != nil {
				pre = x.stmt(fr, sw.Init)
			}
			pre = c40OutSeq(pre, x.stmt(fr, sw.Assign))
			clauses = sw.Body.List
		}
		alt := c40Nothing
		hasDefault := false
		for _, cl := range clauses {
			cc := cl.(*ast.CaseClause)
			if cc.List == nil {
				hasDefault = true
			}
			for _, ce := range cc.List {
				if w.nodeHasWire(fr.fs, ce) {
					x.bad(fr, ce, "wire I/O in a case expression")
				}
			}
			for _, st := range cc.Body {
				if br, ok := st.(*ast.BranchStmt); ok && br.Tok == token.FALLTHROUGH {
					x.bad(fr, br, "fallthrough")
				}
			}
			o := x.block(fr, cc.Body)
			o.normal = c40AltOf(o.normal, o.brk) // break leaves the switch
			o.brk = c40ReEmpty
			alt = c40OutAlt(alt, o)
		}
		if !hasDefault {
			alt = c40OutAlt(alt, c40Out{c40ReEps, c40ReEmpty, c40ReEmpty, c40ReEmpty})
		}
		return c40OutSeq(pre, alt)
	case *ast.ForStmt:
		pre := c40Out{c40ReEps, c40ReEmpty, c40ReEmpty, c40ReEmpty}
		if s.Init != nil {
			pre = x.stmt(fr, s.Init)
		}
		cond := c40ReEps
		if s.Cond != nil {
			re, dies := x.expr(fr, s.Cond)
			if dies {
				return c40OutSeq(pre, x.simple(re, true))
			}
			cond = re
		}
		body := x.stmt(fr, s.Body)
		post := c40ReEps
		if s.Post != nil {
			po := x.stmt(fr, s.Post)
			post = po.normal
		}
		iter := c40StarOf(c40SeqOf(cond, c40AltOf(body.normal, body.cont), post))
		exit := c40SeqOf(cond, body.brk)
		if s.Cond != nil {
			exit = c40AltOf(cond, exit)
		}
		return c40OutSeq(pre, c40Out{c40SeqOf(iter, exit), c40SeqOf(iter, cond, body.ret), c40ReEmpty, c40ReEmpty})
	case *ast.RangeStmt:
		re, dies := x.expr(fr, s.X)
		if dies {
			return x.simple(re, true)
		}
		body := x.stmt(fr, s.Body)
		iter := c40StarOf(c40AltOf(body.normal, body.cont))
		return c40Pre(re, c40Out{c40SeqOf(iter, c40AltOf(c40ReEps, body.brk)), c40SeqOf(iter, body.ret), c40ReEmpty, c40ReEmpty})
	case *ast.LabeledStmt:
		x.bad(fr, s, "labelled statement")
		return x.stmt(fr, s.Stmt)
	}
	// select, and anything else: exact only if it is irrelevant
	if w.nodeHasWire(fr.fs, s) {
		x.bad(fr, s, fmt.Sprintf("wire I/O inside %T", s))
	}
	hasRet := false
	ast.Inspect(s, func(n ast.Node) bool {
		switch n.(type) {
		case *ast.FuncLit:
			return false
		case *ast.ReturnStmt, *ast.BranchStmt:
			hasRet = true
		}
		return true
	})
	if hasRet {
		x.bad(fr, s, fmt.Sprintf("control flow inside %T", s))
	}
	return c40Out{c40ReEps, c40ReEmpty, c40ReEmpty, c40ReEmpty}
}

// extract runs one direction over a top-level function.
func (w *c40Wire) extract(fs *FuncSrc, dir string, keepPanics bool) (*c40Re, *c40Ext) {
	x := &c40Ext{w: w, dir: dir, keepPanics: keepPanics}
	re := x.fn(fs, x.sessOf(fs), map[types.Object]constant.Value{})
	return re, x
}

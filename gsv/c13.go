package main

// C13 packed values — order classes.  Also the helpers shared with C28 (value types of
// package core with a constant Type(), abstract evaluation of Order and PackedOrd).

import (
	"fmt"
	"go/ast"
	"go/constant"
	"go/token"
	"go/types"
	"sort"
	"strings"
)

func init() {
	register("C13", checkC13, "./core/...", "./db19/index/ixkey", "./util/pack")
}

// ---------------------------------------------------------------- shared: core value types

type coreValType struct {
	named   *types.Named
	name    string
	typeFn  *types.Func    // the Type() method that applies to the type (declared or promoted)
	typeVal constant.Value // the constant it returns
	typePos ast.Node
}

// lookupMethod resolves a method in the method set of *T (declared or promoted).
func lookupMethod(n *types.Named, name string) *types.Func {
	obj, _, _ := types.LookupFieldOrMethod(types.NewPointer(n), true, n.Obj().Pkg(), name)
	f, _ := obj.(*types.Func)
	if f != nil {
		return f.Origin()
	}
	return nil
}

// constReturn: every return of f returns the same single constant.
func constReturn(p *Prog, f *types.Func) (constant.Value, ast.Node) {
	fs := p.Src(f)
	if fs == nil || fs.Body == nil {
		return nil, nil
	}
	var val constant.Value
	var at ast.Node
	ok, n := true, 0
	ast.Inspect(fs.Body, func(nd ast.Node) bool {
		if _, isLit := nd.(*ast.FuncLit); isLit {
			return false
		}
		if r, isRet := nd.(*ast.ReturnStmt); isRet {
			n++
			if len(r.Results) != 1 {
				ok = false
				return true
			}
			v := ConstVal(fs.Info(), r.Results[0])
			if v == nil || (val != nil && !constant.Compare(v, token.EQL, val)) {
				ok = false
				return true
			}
			val, at = v, r
		}
		return true
	})
	if !ok || n == 0 {
		return nil, nil
	}
	return val, at
}

// coreValueTypes lists the named, non-generic, non-interface types of package core whose
// Type() method returns one constant of type types.Type.
func coreValueTypes(p *Prog) []*coreValType {
	pk := p.Pkg("core")
	tt := p.NamedType("core/types", "Type")
	if pk == nil || pk.Types == nil || tt == nil {
		return nil
	}
	var out []*coreValType
	sc := pk.Types.Scope()
	for _, nm := range sc.Names() {
		tn, ok := sc.Lookup(nm).(*types.TypeName)
		if !ok || tn.IsAlias() {
			continue
		}
		n, ok := tn.Type().(*types.Named)
		if !ok || n.TypeParams().Len() > 0 {
			continue
		}
		if _, isIface := n.Underlying().(*types.Interface); isIface {
			continue
		}
		f := lookupMethod(n, "Type")
		if f == nil {
			continue
		}
		sig := f.Type().(*types.Signature)
		if sig.Params().Len() != 0 || sig.Results().Len() != 1 || !types.Identical(sig.Results().At(0).Type(), tt) {
			continue
		}
		v, at := constReturn(p, f)
		if v == nil {
			continue
		}
		out = append(out, &coreValType{named: n, name: nm, typeFn: f, typeVal: v, typePos: at})
	}
	sort.Slice(out, func(i, j int) bool { return out[i].name < out[j].name })
	return out
}

// namedOf strips one pointer and returns the named type, or nil.
func namedOf(t types.Type) *types.Named {
	if t == nil {
		return nil
	}
	t = types.Unalias(t)
	if pt, ok := t.(*types.Pointer); ok {
		t = types.Unalias(pt.Elem())
	}
	n, _ := t.(*types.Named)
	if n != nil {
		return n.Origin()
	}
	return nil
}

// ordEval evaluates core.Order and core.PackedOrd abstractly.
type ordEval struct {
	p         *Prog
	order     *FuncSrc
	packedOrd *FuncSrc
	typeM     *types.Func // interface method core.Value.Type
}

func newOrdEval(c *Ctx, rule string) *ordEval {
	p := c.P
	e := &ordEval{p: p, order: c.function(rule, "core", "Order"), packedOrd: c.function(rule, "core", "PackedOrd"),
		typeM: p.IfaceMethod("core", "Value", "Type")}
	if e.order == nil || e.packedOrd == nil || !c.need(rule, "interface method core.Value.Type", e.typeM) {
		return nil
	}
	return e
}

// Order(x) for a value whose Type() is t; nil if it cannot be evaluated.
func (e *ordEval) orderOf(t constant.Value) (constant.Value, string) {
	info := e.order.Info()
	env := &AbsEnv{Info: info, Atom: func(x ast.Expr) (constant.Value, bool) {
		if call, ok := x.(*ast.CallExpr); ok && sameFunc(Callee(info, call), e.typeM) {
			return t, true
		}
		return nil, false
	}}
	r := env.run(e.order.Body)
	if r.Unknown != "" || r.Panics || len(r.Returns) != 1 || r.Returns[0] == nil {
		return nil, fmt.Sprintf("Order(Type()=%s) not evaluable: %+v", t, r)
	}
	return r.Returns[0], ""
}

// strParamAtom: the string parameter prm has value val (its bytes, its length, prm[k]).
func strParamAtom(info *types.Info, prm *types.Var, val string) func(ast.Expr) (constant.Value, bool) {
	isPrm := func(x ast.Expr) bool {
		id, ok := ast.Unparen(x).(*ast.Ident)
		return ok && info.Uses[id] == types.Object(prm)
	}
	return func(x ast.Expr) (constant.Value, bool) {
		switch y := x.(type) {
		case *ast.Ident:
			if isPrm(y) {
				return constant.MakeString(val), true
			}
		case *ast.IndexExpr:
			if isPrm(y.X) {
				if k := ConstVal(info, y.Index); k != nil {
					if i, ok := constant.Int64Val(k); ok && int(i) < len(val) {
						return constant.MakeInt64(int64(val[i])), true
					}
				}
			}
		case *ast.CallExpr:
			if IsBuiltin(info, y, "len") && len(y.Args) == 1 && isPrm(y.Args[0]) {
				return constant.MakeInt64(int64(len(val))), true
			}
		}
		return nil, false
	}
}

// packedOrdOf evaluates PackedOrd(s) for s = val.
func (e *ordEval) packedOrdOf(val string) (v constant.Value, panics bool, why string) {
	prm := e.packedOrd.Param(0)
	if prm == nil {
		return nil, false, "PackedOrd has no parameter"
	}
	env := &AbsEnv{Info: e.packedOrd.Info(), Atom: strParamAtom(e.packedOrd.Info(), prm, val)}
	r := env.run(e.packedOrd.Body)
	if r.Panics {
		return nil, true, ""
	}
	if r.Unknown != "" || len(r.Returns) != 1 || r.Returns[0] == nil {
		return nil, false, fmt.Sprintf("PackedOrd(%q) not evaluable: %+v", val, r)
	}
	return r.Returns[0], false, ""
}

func cInt(v constant.Value) int64 {
	if v == nil {
		return -1 << 62
	}
	i, _ := constant.Int64Val(constant.ToInt(v))
	return i
}

// ---------------------------------------------------------------- first tag written by Pack

type firstTags struct {
	tags    map[int64]ast.Node // tag value → where it is written
	none    bool               // some path writes nothing at all
	unknown []string           // places the analysis could not follow
	raw     bool               // some path starts with a write that is not Put1(constant)
}

func (a *firstTags) merge(b *firstTags) {
	for k, v := range b.tags {
		if _, ok := a.tags[k]; !ok {
			a.tags[k] = v
		}
	}
	a.none = a.none || b.none
	a.raw = a.raw || b.raw
	a.unknown = append(a.unknown, b.unknown...)
}

type packWalker struct {
	p       *Prog
	encoder *types.Named // util/pack.Encoder
	put1    *types.Func
	depth   int
	defs    map[*FuncSrc]*defIndex
}

// localConsts: e is a local variable all of whose definitions are integer constants.
func (w *packWalker) localConsts(fs *FuncSrc, e ast.Expr) []constant.Value {
	id, ok := ast.Unparen(e).(*ast.Ident)
	if !ok {
		return nil
	}
	o := fs.Info().Uses[id]
	if o == nil {
		return nil
	}
	if v, ok := o.(*types.Var); !ok || isParamOf(fs, v) {
		return nil
	}
	if w.defs == nil {
		w.defs = map[*FuncSrc]*defIndex{}
	}
	d := w.defs[fs.Outer()]
	if d == nil {
		d = buildDefs(fs)
		w.defs[fs.Outer()] = d
	}
	var out []constant.Value
	for _, rhs := range d.defs[o] {
		v := ConstVal(fs.Info(), rhs)
		if v == nil || v.Kind() != constant.Int {
			return nil
		}
		out = append(out, v)
	}
	return out
}

func (w *packWalker) isEncoder(t types.Type) bool {
	n := namedOf(t)
	return n != nil && w.encoder != nil && n.Obj() == w.encoder.Obj()
}

// stmts analyses a statement list; returns (result, done): done = no path falls out of the
// list without having written (or returned).
func (w *packWalker) stmts(fs *FuncSrc, list []ast.Stmt, env map[types.Object]constant.Value, depth int) (*firstTags, bool) {
	res := &firstTags{tags: map[int64]ast.Node{}}
	for _, s := range list {
		r, done := w.stmt(fs, s, env, depth)
		res.merge(r)
		if done {
			return res, true
		}
	}
	return res, false
}

func (w *packWalker) stmt(fs *FuncSrc, s ast.Stmt, env map[types.Object]constant.Value, depth int) (*firstTags, bool) {
	empty := func() *firstTags { return &firstTags{tags: map[int64]ast.Node{}} }
	info := fs.Info()
	switch s := s.(type) {
	case *ast.BlockStmt:
		return w.stmts(fs, s.List, env, depth)
	case *ast.ExprStmt:
		return w.expr(fs, s.X, env, depth)
	case *ast.AssignStmt:
		res := empty()
		for _, r := range s.Rhs {
			x, done := w.expr(fs, r, env, depth)
			res.merge(x)
			if done {
				return res, true
			}
		}
		return res, false
	case *ast.DeclStmt:
		res := empty()
		if gd, ok := s.Decl.(*ast.GenDecl); ok {
			for _, sp := range gd.Specs {
				if vs, ok := sp.(*ast.ValueSpec); ok {
					for _, v := range vs.Values {
						x, done := w.expr(fs, v, env, depth)
						res.merge(x)
						if done {
							return res, true
						}
					}
				}
			}
		}
		return res, false
	case *ast.ReturnStmt:
		res := empty()
		for _, r := range s.Results {
			x, done := w.expr(fs, r, env, depth)
			res.merge(x)
			if done {
				return res, true
			}
		}
		res.none = true // the path ends here without a write
		return res, true
	case *ast.IfStmt:
		res := empty()
		if s.Init != nil {
			x, done := w.stmt(fs, s.Init, env, depth)
			res.merge(x)
			if done {
				return res, true
			}
		}
		x, done := w.expr(fs, s.Cond, env, depth)
		res.merge(x)
		if done {
			return res, true
		}
		// a condition over a constant parameter is decided
		if v := (&AbsEnv{Info: info, Locals: env}).expr(s.Cond); v != nil && v.Kind() == constant.Bool {
			if constant.BoolVal(v) {
				y, d := w.stmt(fs, s.Body, env, depth)
				res.merge(y)
				return res, d
			}
			if s.Else == nil {
				return res, false
			}
			y, d := w.stmt(fs, s.Else, env, depth)
			res.merge(y)
			return res, d
		}
		t, td := w.stmt(fs, s.Body, env, depth)
		res.merge(t)
		ed := false
		if s.Else != nil {
			var e *firstTags
			e, ed = w.stmt(fs, s.Else, env, depth)
			res.merge(e)
		}
		return res, td && ed
	case *ast.SwitchStmt:
		res := empty()
		if s.Init != nil {
			x, done := w.stmt(fs, s.Init, env, depth)
			res.merge(x)
			if done {
				return res, true
			}
		}
		all, hasDefault := true, false
		for _, cl := range s.Body.List {
			cc := cl.(*ast.CaseClause)
			if cc.List == nil {
				hasDefault = true
			}
			x, done := w.stmts(fs, cc.Body, env, depth)
			res.merge(x)
			if !done {
				all = false
			}
			for _, st := range cc.Body {
				if br, ok := st.(*ast.BranchStmt); ok && br.Tok == token.FALLTHROUGH {
					res.unknown = append(res.unknown, w.p.Pos(br)+": fallthrough")
				}
			}
		}
		return res, all && hasDefault
	case *ast.TypeSwitchStmt:
		res := empty()
		all, hasDefault := true, false
		for _, cl := range s.Body.List {
			cc := cl.(*ast.CaseClause)
			if cc.List == nil {
				hasDefault = true
			}
			x, done := w.stmts(fs, cc.Body, env, depth)
			res.merge(x)
			if !done {
				all = false
			}
		}
		return res, all && hasDefault
	case *ast.ForStmt:
		x, _ := w.stmts(fs, s.Body.List, env, depth)
		return x, false
	case *ast.RangeStmt:
		x, _ := w.stmts(fs, s.Body.List, env, depth)
		return x, false
	case *ast.DeferStmt:
		res := empty()
		if w.mentionsEncoder(fs, s.Call) {
			res.unknown = append(res.unknown, w.p.Pos(s)+": deferred call uses the encoder")
		}
		return res, false
	case *ast.IncDecStmt, *ast.EmptyStmt:
		return empty(), false
	case *ast.LabeledStmt:
		return w.stmt(fs, s.Stmt, env, depth)
	case *ast.BranchStmt:
		res := empty()
		res.unknown = append(res.unknown, w.p.Pos(s)+": "+s.Tok.String())
		return res, true
	}
	res := empty()
	res.unknown = append(res.unknown, fmt.Sprintf("%s: %T", w.p.Pos(s), s))
	return res, false
}

func (w *packWalker) mentionsEncoder(fs *FuncSrc, n ast.Node) bool {
	found := false
	ast.Inspect(n, func(m ast.Node) bool {
		if e, ok := m.(ast.Expr); ok && w.isEncoder(fs.Info().TypeOf(e)) {
			found = true
		}
		return !found
	})
	return found
}

// expr analyses an expression in evaluation order (receiver chain, arguments, then the call).
func (w *packWalker) expr(fs *FuncSrc, e ast.Expr, env map[types.Object]constant.Value, depth int) (*firstTags, bool) {
	res := &firstTags{tags: map[int64]ast.Node{}}
	if e == nil {
		return res, false
	}
	info := fs.Info()
	e = ast.Unparen(e)
	switch x := e.(type) {
	case *ast.CallExpr:
		// receiver chain first: buf.Put1(t).PutStr(s) writes t first
		if sel, ok := ast.Unparen(x.Fun).(*ast.SelectorExpr); ok {
			r, done := w.expr(fs, sel.X, env, depth)
			res.merge(r)
			if done {
				return res, true
			}
		}
		for _, a := range x.Args {
			r, done := w.expr(fs, a, env, depth)
			res.merge(r)
			if done {
				return res, true
			}
		}
		if tv, ok := info.Types[x.Fun]; ok && tv.IsType() {
			return res, false // conversion
		}
		if IsBuiltin(info, x, "panic") {
			return res, true // the path ends without a (completed) pack
		}
		callee := Callee(info, x)
		// a method of the encoder itself
		if sel, ok := ast.Unparen(x.Fun).(*ast.SelectorExpr); ok && w.isEncoder(info.TypeOf(sel.X)) && callee != nil {
			switch {
			case sameFunc(callee, w.put1):
				if len(x.Args) == 1 {
					v := ConstVal(info, x.Args[0])
					if v == nil {
						v = (&AbsEnv{Info: info, Locals: env}).expr(x.Args[0])
					}
					if v != nil && v.Kind() == constant.Int {
						res.tags[cInt(v)] = x
						return res, true
					}
					// a local that is only ever assigned constants: every one of them may be the tag
					if vs := w.localConsts(fs, x.Args[0]); len(vs) > 0 {
						for _, v := range vs {
							res.tags[cInt(v)] = x
						}
						return res, true
					}
				}
				res.raw = true
				res.unknown = append(res.unknown, w.p.Pos(x)+": Put1 of a value that is not a constant")
				return res, true
			case callee.Name() == "String" || callee.Name() == "Buffer" || callee.Name() == "Len":
				return res, false // reads
			default:
				res.raw = true
				return res, true
			}
		}
		// a call that hands the encoder on
		passes := false
		for _, a := range x.Args {
			if w.isEncoder(info.TypeOf(a)) {
				passes = true
			}
		}
		if !passes {
			return res, false
		}
		if callee == nil {
			res.unknown = append(res.unknown, w.p.Pos(x)+": encoder passed to a function value")
			return res, true
		}
		sig := callee.Type().(*types.Signature)
		if sig.Recv() != nil {
			if _, isIface := sig.Recv().Type().Underlying().(*types.Interface); isIface {
				res.unknown = append(res.unknown, w.p.Pos(x)+": encoder passed to the interface method "+callee.Name())
				return res, true
			}
		}
		g := w.p.Src(callee)
		if g == nil || g.Body == nil || depth <= 0 {
			res.unknown = append(res.unknown, w.p.Pos(x)+": encoder passed to "+funcName(callee)+" (not followed)")
			return res, true
		}
		// bind constant arguments to the callee's parameters
		genv := map[types.Object]constant.Value{}
		for i, a := range x.Args {
			if prm := g.Param(i); prm != nil {
				v := ConstVal(info, a)
				if v == nil {
					v = (&AbsEnv{Info: info, Locals: env}).expr(a)
				}
				if v != nil {
					genv[prm] = v
				}
			}
		}
		r, done := w.stmts(g, g.Body.List, genv, depth-1)
		calleeNone := r.none || !done // some path of the callee ends without a write: the caller continues there
		r.none = false
		res.merge(r)
		return res, !calleeNone
	case *ast.BinaryExpr:
		r, done := w.expr(fs, x.X, env, depth)
		res.merge(r)
		if done {
			return res, true
		}
		r, _ = w.expr(fs, x.Y, env, depth)
		res.merge(r)
		return res, false
	case *ast.UnaryExpr:
		return w.expr(fs, x.X, env, depth)
	case *ast.SelectorExpr:
		return w.expr(fs, x.X, env, depth)
	case *ast.StarExpr:
		return w.expr(fs, x.X, env, depth)
	case *ast.IndexExpr:
		return w.expr(fs, x.X, env, depth)
	case *ast.TypeAssertExpr:
		return w.expr(fs, x.X, env, depth)
	case *ast.CompositeLit:
		for _, el := range x.Elts {
			if kv, ok := el.(*ast.KeyValueExpr); ok {
				el = kv.Value
			}
			r, done := w.expr(fs, el, env, depth)
			res.merge(r)
			if done {
				return res, true
			}
		}
	case *ast.FuncLit:
		if w.mentionsEncoder(fs, x) {
			res.unknown = append(res.unknown, w.p.Pos(x)+": function literal uses the encoder")
		}
	}
	return res, false
}

// firstTagsOf: the set of tag bytes a Pack method can write first.
func (w *packWalker) firstTagsOf(fs *FuncSrc) *firstTags {
	r, done := w.stmts(fs, fs.Body.List, map[types.Object]constant.Value{}, w.depth)
	if !done {
		r.none = true
	}
	return r
}

// ---------------------------------------------------------------- concrete result types

// concreteResults collects the concrete (non-interface) static types an expression of
// interface type can evaluate to, following calls of functions with source and
// package-level variables with an initialiser (depth-bounded).
func concreteResults(p *Prog, fs *FuncSrc, e ast.Expr, depth int, inits map[types.Object]varInit, out map[*types.Named]ast.Node, unknown *int) {
	info := fs.Info()
	e = ast.Unparen(e)
	t := info.TypeOf(e)
	if t == nil {
		*unknown++
		return
	}
	if _, isIface := t.Underlying().(*types.Interface); !isIface {
		if n := namedOf(t); n != nil {
			if _, ok := out[n]; !ok {
				out[n] = e
			}
		} else {
			*unknown++
		}
		return
	}
	if depth <= 0 {
		*unknown++
		return
	}
	switch x := e.(type) {
	case *ast.CallExpr:
		if f := Callee(info, x); f != nil {
			if g := p.Src(f); g != nil && g.Body != nil {
				ast.Inspect(g.Body, func(n ast.Node) bool {
					if _, isLit := n.(*ast.FuncLit); isLit {
						return false
					}
					if r, ok := n.(*ast.ReturnStmt); ok && len(r.Results) == 1 {
						concreteResults(p, g, r.Results[0], depth-1, inits, out, unknown)
					}
					return true
				})
				return
			}
		}
	case *ast.Ident:
		if o := info.Uses[x]; o != nil {
			if in, ok := inits[o]; ok {
				concreteResults(p, in.fs, in.e, depth-1, inits, out, unknown)
				return
			}
		}
	}
	*unknown++
}

type varInit struct {
	fs *FuncSrc
	e  ast.Expr
}

// pkgVarInits maps the package-level variables of a package to their initialisers.
func pkgVarInits(p *Prog, pkg string) map[types.Object]varInit {
	out := map[types.Object]varInit{}
	pk := p.Pkg(pkg)
	if pk == nil {
		return out
	}
	holder := &FuncSrc{Pkg: pk, name: pkg + ".<init>"}
	for _, f := range pk.Syntax {
		for _, d := range f.Decls {
			gd, ok := d.(*ast.GenDecl)
			if !ok || gd.Tok != token.VAR {
				continue
			}
			for _, sp := range gd.Specs {
				vs := sp.(*ast.ValueSpec)
				if len(vs.Names) != len(vs.Values) {
					continue
				}
				for i, nm := range vs.Names {
					if o := pk.TypesInfo.Defs[nm]; o != nil {
						out[o] = varInit{holder, vs.Values[i]}
					}
				}
			}
		}
	}
	return out
}

// ---------------------------------------------------------------- C13

var packTagNames = []string{"PackFalse", "PackTrue", "PackMinus", "PackPlus", "PackString", "PackDate", "PackObject", "PackRecord"}

func checkC13(c *Ctx) string {
	p := c.P
	r1 := "C13.1 K1 packed type tags are ordered like the value classes"
	tags := make([]int64, len(packTagNames))
	okTags := true
	for i, n := range packTagNames {
		v := p.Const("core", n)
		if v == nil || v.Kind() != constant.Int {
			c.Missing(r1, "constant core."+n)
			okTags = false
			continue
		}
		tags[i] = cInt(v)
	}
	if !okTags {
		return "anchors missing"
	}
	for i := 0; i+1 < len(tags); i++ {
		a, b := packTagNames[i], packTagNames[i+1]
		ok := tags[i] < tags[i+1]
		rel := "<"
		if a == "PackObject" {
			ok = tags[i] <= tags[i+1]
			rel = "<="
		}
		c.Obl(r1, a+" "+rel+" "+b, p.PosOf(p.ConstObj("core", a).Pos()), ok,
			unless(ok, fmt.Sprintf("%s=%d %s=%d: packed keys are compared as bytes, so the first byte must sort the value classes boolean < number < string < date < object (and false < true, negative < positive)", a, tags[i], b, tags[i+1])))
	}
	okByte := tags[0] >= 0 && tags[len(tags)-1] <= 255
	c.Obl(r1, "every tag fits in one byte", "", okByte, unless(okByte, fmt.Sprintf("tags %v", tags)))

	// ---- types.* == ord*
	r2 := "C13.2 K1 types.Boolean..Object are numerically the order classes ordBool..ordObject"
	checkOrdTypesEqual(c, r2)

	ev := newOrdEval(c, "C13.3 K9 PackedOrd")
	if ev == nil {
		return "anchors missing"
	}
	// ---- PackedOrd total and monotone
	r3 := "C13.3 K9 PackedOrd is total and monotone over the storable tags"
	ords := make([]constant.Value, len(tags))
	for i, t := range tags {
		v, panics, why := ev.packedOrdOf(string([]byte{byte(t), 'x'}))
		ok := v != nil
		d := ""
		if panics {
			d = fmt.Sprintf("PackedOrd panics for a value starting with %s (%d): sorting / comparing packed values of that class fails at run time", packTagNames[i], t)
		} else if !ok {
			d = why
		}
		c.Obl(r3, "PackedOrd is defined for tag "+packTagNames[i], p.Pos(ev.packedOrd.Decl), ok, d)
		ords[i] = v
	}
	for i := 0; i+1 < len(tags); i++ {
		if ords[i] == nil || ords[i+1] == nil {
			continue
		}
		ok := cInt(ords[i]) <= cInt(ords[i+1])
		c.Obl(r3, "PackedOrd("+packTagNames[i]+") <= PackedOrd("+packTagNames[i+1]+")", p.Pos(ev.packedOrd.Decl), ok,
			unless(ok, fmt.Sprintf("tag %d has class %s but the greater tag %d has class %s: the byte order of packed values contradicts the class order", tags[i], ords[i], tags[i+1], ords[i+1])))
	}
	// the empty string is a string
	{
		v, panics, why := ev.packedOrdOf("")
		want := p.Const("core", "ordStr")
		ok := v != nil && want != nil && constant.Compare(v, token.EQL, want)
		c.Obl(r3, "PackedOrd(\"\") is the string class (the empty string packs to the empty buffer)", p.Pos(ev.packedOrd.Decl), ok,
			unless(ok, fmt.Sprintf("got %v (panics=%v) %s, want ordStr=%v", v, panics, why, want)))
	}

	// ---- Unpack covers every tag, and returns a value of the tag's class
	r4 := "C13.4 K9 Unpack has a case for every storable tag and yields the tag's class"
	vts := coreValueTypes(p)
	byNamed := map[*types.Named]*coreValType{}
	for _, vt := range vts {
		byNamed[vt.named.Origin()] = vt
	}
	if fs := c.function(r4, "core", "Unpack"); fs != nil && fs.Param(0) != nil {
		inits := pkgVarInits(p, "core")
		for i, t := range tags {
			val := string([]byte{byte(t), 'x', 'y'})
			env := &AbsEnv{Info: fs.Info(), Atom: strParamAtom(fs.Info(), fs.Param(0), val)}
			r := env.run(fs.Body)
			ok := !r.Panics && r.Unknown == "" && len(r.Returns) == 1
			c.Obl(r4, "Unpack accepts tag "+packTagNames[i], p.Pos(fs.Decl), ok,
				unless(ok, fmt.Sprintf("Unpack of a value starting with %s (%d): %+v — a stored value of that class cannot be read back", packTagNames[i], t, r)))
		}
		// class of the value returned per case
		nclass := 0
		ForEachNode(fs, func(n ast.Node) {
			sw, ok := n.(*ast.SwitchStmt)
			if !ok || sw.Tag == nil {
				return
			}
			ix, ok := ast.Unparen(sw.Tag).(*ast.IndexExpr)
			if !ok || ObjOf(fs.Info(), ix.X) != types.Object(fs.Param(0)) {
				return
			}
			for _, cl := range sw.Body.List {
				cc := cl.(*ast.CaseClause)
				for _, ce := range cc.List {
					tv := ConstVal(fs.Info(), ce)
					if tv == nil {
						continue
					}
					want, panics, _ := ev.packedOrdOf(string([]byte{byte(cInt(tv)), 'x'}))
					if want == nil || panics {
						continue
					}
					for _, st := range cc.Body {
						rs, ok := st.(*ast.ReturnStmt)
						if !ok || len(rs.Results) != 1 {
							continue
						}
						res := map[*types.Named]ast.Node{}
						unk := 0
						concreteResults(p, fs, rs.Results[0], 3, inits, res, &unk)
						var names []string
						for nt := range res {
							if byNamed[nt] != nil {
								names = append(names, byNamed[nt].name)
							}
						}
						sort.Strings(names)
						for _, nm := range names {
							vt := byNamed[p.NamedType("core", nm).Origin()]
							got, why := ev.orderOf(vt.typeVal)
							nclass++
							ok := got != nil && constant.Compare(got, token.EQL, want)
							c.Obl(r4, fmt.Sprintf("Unpack case %s can yield %s, whose class is PackedOrd of the tag", exprStr(ce), nm), p.Pos(rs), ok,
								unless(ok, fmt.Sprintf("tag %s has PackedOrd %s but the unpacked %s has Order %v %s: comparing the packed bytes and comparing the values disagree", exprStr(ce), want, nm, got, why)))
						}
					}
				}
			}
		})
		c.Floor(r4, nclass, 6, "concrete result types of Unpack's cases")
	}

	// ---- K19: the first tag written by every Pack
	r5 := "C13.5 K19 the first byte a value type packs has the class of that type"
	enc := p.NamedType("util/pack", "Encoder")
	put1 := p.DeclaredMethod("util/pack", "Encoder", "Put1")
	packIface := p.IfaceMethod("core", "Packable", "Pack")
	if c.need(r5, "type util/pack.Encoder", enc) && c.need(r5, "method util/pack.Encoder.Put1", put1) && c.need(r5, "interface method core.Packable.Pack", packIface) {
		w := &packWalker{p: p, encoder: enc, put1: put1, depth: 4}
		npack := 0
		written := map[int64]bool{}
		for _, vt := range vts {
			pf := lookupMethod(vt.named, "Pack")
			if pf == nil || !types.Identical(pf.Type().(*types.Signature).Params(), packIface.Type().(*types.Signature).Params()) {
				continue
			}
			fs := p.Src(pf)
			if fs == nil || fs.Body == nil {
				continue
			}
			npack++
			want, why := ev.orderOf(vt.typeVal)
			ft := w.firstTagsOf(fs)
			key := vt.name + " (Type() = " + typeConstName(p, vt.typeVal) + ")"
			if want == nil {
				c.Obl(r5, key+": Order of the type is computable", p.Pos(fs.Decl), false, why)
				continue
			}
			okU := len(ft.unknown) == 0 && !ft.raw
			c.Obl(r5, key+": the first write of Pack is Put1 of a constant tag on every path", p.Pos(fs.Decl), okU,
				unless(okU, "cannot determine the first byte written by "+fs.name+": "+strings.Join(ft.unknown, "; ")+map[bool]string{true: " (a path starts with a write other than Put1)", false: ""}[ft.raw]))
			var ts []int64
			for t := range ft.tags {
				ts = append(ts, t)
			}
			sort.Slice(ts, func(i, j int) bool { return ts[i] < ts[j] })
			c.Obl(r5, key+": Pack writes a tag", p.Pos(fs.Decl), len(ts) > 0, unless(len(ts) > 0, "no Put1(constant) found on any path of "+fs.name))
			for _, t := range ts {
				written[t] = true
				got, panics, why := ev.packedOrdOf(string([]byte{byte(t), 'x'}))
				ok := got != nil && constant.Compare(got, token.EQL, want)
				c.Obl(r5, fmt.Sprintf("%s: tag %s maps by PackedOrd to Order of the type", key, tagName(tags, t)), p.Pos(ft.tags[t]), ok,
					unless(ok, fmt.Sprintf("%s starts its packed form with tag %d whose PackedOrd is %v (panics=%v %s) but Order of a %s is %s: packed and unpacked comparisons put the value into different classes", fs.name, t, got, panics, why, vt.name, want)))
			}
			if ft.none {
				// writing nothing is the encoding of the empty string
				got, _, _ := ev.packedOrdOf("")
				ok := got != nil && constant.Compare(got, token.EQL, want)
				c.Obl(r5, key+": a path that writes nothing (the empty encoding) is only taken by a string type", p.Pos(fs.Decl), ok,
					unless(ok, fmt.Sprintf("%s can finish without writing a tag; the empty buffer unpacks as the empty string (class %v) but the type has class %s", fs.name, got, want)))
			}
		}
		c.Floor(r5, npack, 11, "value types of package core with a constant Type() and a Pack method")
		var extra []string
		inDomain := map[int64]bool{}
		for _, t := range tags {
			inDomain[t] = true
		}
		for t := range written {
			if !inDomain[t] {
				extra = append(extra, fmt.Sprint(t))
			}
		}
		sort.Strings(extra)
		c.Obl(r5, "every tag written by a Pack method is one of PackFalse..PackRecord", "", len(extra) == 0,
			unless(len(extra) == 0, "tags "+strings.Join(extra, ",")+" are written first by a Pack method but are outside the domain over which PackedOrd / Unpack were checked"))
		var missing []string
		for i, t := range tags {
			if !written[t] {
				missing = append(missing, packTagNames[i])
			}
		}
		c.Obl(r5, "every tag PackFalse..PackRecord is written by some Pack method", "", len(missing) == 0,
			unless(len(missing) == 0, "no value type writes "+strings.Join(missing, ", ")+" first: the tag analysis no longer sees the packers"))
	}

	// ---- ixkey.Max / Min
	r6 := "C13.6 K1 ixkey.Max sorts after every packed value, ixkey.Min before"
	mx, mn := p.Const("db19/index/ixkey", "Max"), p.Const("db19/index/ixkey", "Min")
	if mx == nil || mx.Kind() != constant.String || mn == nil || mn.Kind() != constant.String {
		c.Missing(r6, "string constants ixkey.Max / ixkey.Min")
	} else {
		ms := constant.StringVal(mx)
		top := tags[len(tags)-1]
		if v := p.Const("core", "PackForward"); v != nil && cInt(v) > top {
			top = cInt(v)
		}
		ok := len(ms) > 0 && int64(ms[0]) > top
		c.Obl(r6, "ixkey.Max[0] exceeds every type tag", p.PosOf(p.ConstObj("db19/index/ixkey", "Max").Pos()), ok,
			unless(ok, fmt.Sprintf("Max=%q, greatest tag %d: a range ending at ixkey.Max would exclude keys whose first field has the greatest class", ms, top)))
		okm := constant.StringVal(mn) == ""
		c.Obl(r6, "ixkey.Min is the empty string", p.PosOf(p.ConstObj("db19/index/ixkey", "Min").Pos()), okm,
			unless(okm, fmt.Sprintf("Min=%q: the empty string (packed empty value) is the smallest key and would fall outside a range starting at Min", constant.StringVal(mn))))
	}
	checkConcatBounded(c, "C13.7 K4c a concatenation packs only its own bytes of the shared buffer")
	return "Decided with go/constant and abstract evaluation: the tag constants PackFalse<PackTrue<PackMinus<PackPlus<PackString<PackDate<PackObject<=PackRecord fit a byte; types.Boolean..Object equal ordBool..ordObject; " +
		"PackedOrd evaluated for every tag is defined, non-decreasing in the tag, and ordStr for the empty buffer; Unpack evaluated for every tag reaches a return (no panic), and every concrete type its cases can yield " +
		"(following UnpackDate/UnpackNumber/… and package variables) has Order equal to PackedOrd of the case's tag; for every type of package core with a constant Type() and a Pack method (declared or promoted) the first byte written " +
		"to the encoder on every path (receiver chains, branches, static callees to depth 4 with constant arguments bound to parameters) is Put1 of a constant whose PackedOrd equals Order of the type, a path writing nothing is " +
		"allowed only for the string class; ixkey.Max[0] exceeds every tag and ixkey.Min is empty. Not decided: round trip, canonical form, the numeric / date encodings, order within a class."
}

func tagName(tags []int64, t int64) string {
	for i, v := range tags {
		if v == t {
			return packTagNames[i]
		}
	}
	return fmt.Sprint(t)
}

// typeConstName names a types.Type constant value.
func typeConstName(p *Prog, v constant.Value) string {
	pk := p.Pkg("core/types")
	tt := p.NamedType("core/types", "Type")
	if pk != nil && tt != nil {
		sc := pk.Types.Scope()
		for _, nm := range sc.Names() {
			if co, ok := sc.Lookup(nm).(*types.Const); ok && types.Identical(co.Type(), tt) && constant.Compare(co.Val(), token.EQL, v) {
				return "types." + nm
			}
		}
	}
	return v.String()
}

var ordTypePairs = [][2]string{{"ordBool", "Boolean"}, {"ordNum", "Number"}, {"ordStr", "String"}, {"ordDate", "Date"}, {"ordObject", "Object"}}

// checkOrdTypesEqual: K1 shared by C13 and C28.
func checkOrdTypesEqual(c *Ctx, rule string) {
	p := c.P
	for _, pr := range ordTypePairs {
		o, t := p.Const("core", pr[0]), p.Const("core/types", pr[1])
		if o == nil {
			c.Missing(rule, "constant core."+pr[0])
			continue
		}
		if t == nil {
			c.Missing(rule, "constant types."+pr[1])
			continue
		}
		ok := constant.Compare(constant.ToInt(o), token.EQL, constant.ToInt(t))
		c.Obl(rule, pr[0]+" == types."+pr[1], p.PosOf(p.ConstObj("core", pr[0]).Pos()), ok,
			unless(ok, fmt.Sprintf("%s=%s types.%s=%s: Order() converts Type() to the class numerically and deepCompare orders by the Type number, so both numberings must coincide on the comparable classes", pr[0], o, pr[1], t)))
	}
}

#!/usr/bin/env python3
"""usage: claim.py ID 'level text' 'technique'   — moves ID from not_applicable to claimed and regenerates MANIFEST.json
          claim.py --na ID 'reason'               — the reverse"""
import json,sys,os,subprocess
here=os.path.dirname(os.path.abspath(__file__))
f=os.path.join(here,'claims.json'); c=json.load(open(f))
if sys.argv[1]=='--na':
    c['claimed'].pop(sys.argv[2],None); c['not_applicable'][sys.argv[2]]=sys.argv[3]
else:
    pid,text,tech=sys.argv[1:4]
    c['not_applicable'].pop(pid,None); c['claimed'][pid]={"text":text,"technique":tech}
json.dump(c,open(f,'w'),indent=1)
subprocess.check_call([sys.executable,os.path.join(here,'mkmanifest.py')])

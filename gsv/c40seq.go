package main

// C40.2 K20: per client function that sends a command, request and response languages.

import (
	"fmt"
	"go/ast"
	"go/token"
	"sort"
	"strings"
)

// accepting side: a byte read accepts a bool byte too
func c40Accept(r *c40Re) *c40Re {
	return r.mapTok(func(t string) *c40Re {
		if t == "B" {
			return c40AltOf(c40T("B"), c40T("T"), c40T("F"))
		}
		return c40T(t)
	})
}

func c40Word(w []string) string {
	if len(w) == 0 {
		return "ε (nothing)"
	}
	return strings.Join(w, " ")
}

func (a *c40A) wireSeqs() {
	c, p, w := a.c, a.p, a.w
	r := "C40.2 K20 wire sequences agree"
	type side struct {
		put, get *c40Re
		inexact  []string
		request  bool
	}
	hcache := map[*FuncSrc]*side{}
	handlerSide := func(h *FuncSrc) *side {
		if s, ok := hcache[h]; ok {
			return s
		}
		put, x1 := w.extract(h, "put", false)
		get, x2 := w.extract(h, "get", false)
		s := &side{put: put, get: get, inexact: append(x1.inexact, x2.inexact...)}
		if put.hasTok("R") || put.hasTok("C") {
			s.inexact = append(s.inexact, "handler resets the write buffer / sends a command byte")
		}
		hcache[h] = s
		return s
	}
	sort.Slice(a.units, func(i, j int) bool {
		if a.units[i].fs.name != a.units[j].fs.name {
			return a.units[i].fs.name < a.units[j].fs.name
		}
		return a.units[i].cmd < a.units[j].cmd
	})
	nExact := 0
	noRespClient := map[int]bool{}
	for _, u := range a.units {
		if len(a.unitsOf[u.fs]) != 1 {
			c.Note("C40.2 not covered: %s sends %d commands in one function", u.fs.name, len(a.unitsOf[u.fs]))
			continue
		}
		e, ok := a.byIdx[u.cmd]
		if !ok || e.IsNil {
			continue // reported by C40.1a
		}
		put, x1 := w.extract(u.fs, "put", false)
		get, x2 := w.extract(u.fs, "get", false)
		inex := append(x1.inexact, x2.inexact...)
		if put.hasTok("R") {
			inex = append(inex, "ResetWrite in a client function")
		}
		hs := handlerSide(e.Src)
		inex = append(inex, hs.inexact...)
		name := fmt.Sprintf("%s (commands.%s ↔ %s)", u.fs.name, a.consts[u.cmd], e.Src.name)
		if len(inex) > 0 {
			c.Note("C40.2 not covered: %s: %s", name, strings.Join(inex, "; "))
			continue
		}
		nExact++
		if !x2.sawRequest {
			noRespClient[u.cmd] = true
		}
		// request: what the client writes after the command byte ⊆ what the handler reads
		cput := c40ToDFA(put).afterTok("C")
		sget := c40ToDFA(c40Accept(hs.get))
		okq, wq := c40Included(cput, sget)
		d := "client writes after the command byte: " + strings.Join(cput.sample(4), " / ") + "   handler reads: " + hs.get.String()
		if !okq {
			d = fmt.Sprintf("the client can send [%s] after the command byte, which the handler does not read exactly (handler reads: %s; client writes e.g. %s): the server's 'consume entire message' assertion fails or fields are misread",
				c40Word(wq), hs.get.String(), strings.Join(cput.sample(3), " / "))
		}
		c.Obl(r, "request of "+name, p.Pos(u.fs.Decl), okq && !cput.empty(), d)
		// response: what the handler writes ⊆ what the client reads after sending
		sput := c40ToDFA(hs.put)
		cget := c40ToDFA(c40Accept(get)).afterTok("C")
		oks, ws := c40Included(sput, cget)
		d = "handler writes: " + hs.put.String() + "   client reads after sending: " + strings.Join(cget.sample(4), " / ")
		if !oks {
			d = fmt.Sprintf("the handler can answer [%s], which the client does not read exactly (handler writes: %s; client reads e.g. %s): the client misreads the result or leaves bytes unread",
				c40Word(ws), hs.put.String(), strings.Join(cget.sample(3), " / "))
		}
		c.Obl(r, "response of "+name, p.Pos(e.Src.Decl), oks, d)
	}
	c.Floor(r, nExact, 38, "client functions whose wire sequence is modelled exactly")
	c.Stats["c40_units_exact"] = nExact

	// ---- the error reply
	r2 := "C40.2e K20 the error reply matches ClientSession.Request"
	reqFs := c.src(r2, w.request, "mux.ClientSession.Request")
	request := c.method(r2, "dbms", "serverSession", "request")
	if reqFs != nil && request != nil {
		keep, xk := w.extract(reqFs, "get", true)
		drop, xd := w.extract(reqFs, "get", false)
		if len(xk.inexact)+len(xd.inexact) > 0 {
			c.Obl(r2, "ClientSession.Request is modelled exactly", p.Pos(reqFs.Decl), false, strings.Join(append(xk.inexact, xd.inexact...), "; "))
		} else {
			// success continues only after a true byte
			okT, wT := c40Included(c40ToDFA(drop), c40ToDFA(c40T("T")))
			c.Obl(r2, "Request returns normally only after reading true", p.Pos(reqFs.Decl), okT && !c40ToDFA(drop).empty(),
				"Request returns normally after reading ["+c40Word(wT)+"]: a failed request is not turned into an exception on the client")
			// the recovering closure of serverSession.request
			var lits []*FuncSrc
			ForEachNode(request, func(n ast.Node) {
				d, ok := n.(*ast.DeferStmt)
				if !ok {
					return
				}
				if l, ok := d.Call.Fun.(*ast.FuncLit); ok && w.nodeHasWire(request, l.Body) {
					lits = append(lits, p.Lits[l])
				}
			})
			c.Floor(r2, len(lits), 1, "deferred closures with wire output in serverSession.request")
			for _, l := range lits {
				cl, xc := w.extract(l, "put", false)
				if len(xc.inexact) > 0 {
					c.Obl(r2, "the error closure is modelled exactly", p.Pos(l.Lit), false, strings.Join(xc.inexact, "; "))
					continue
				}
				// ε (no panic) or: reset, then what Request's failure branch reads
				want := c40AltOf(c40ReEps, c40SeqOf(c40T("R"), c40T("F"), c40ToTail(keep, "F")))
				okC, wC := c40Included(c40ToDFA(cl), c40ToDFA(c40Accept(want)))
				c.Obl(r2, "error reply = ResetWrite, false, then what Request reads after false", p.Pos(l.Lit), okC && cl.hasTok("F"),
					fmt.Sprintf("the closure writes [%s] (all: %s) but Request expects %s", c40Word(wC), cl.String(), want.String()))
			}
		}
		// no response is flushed for exactly the commands whose handler writes nothing and whose client does not wait
		noRespServer := map[int]bool{}
		for _, e := range a.table {
			if e.IsNil {
				continue
			}
			hs := handlerSide(e.Src)
			if len(hs.inexact) == 0 {
				if ok, _ := c40Included(c40ToDFA(hs.put), c40ToDFA(c40ReEps)); ok {
					noRespServer[e.Idx] = true
				}
			}
		}
		skipEnd := map[int]bool{}
		nEnd := 0
		endMsg := p.DeclaredMethod("dbms/mux", "WriteBuf", "EndMsg")
		fl := &Flow{P: p, Node: Labeler(CallOf("EndMsg", endMsg)), Edge: func(fs *FuncSrc, cond ast.Expr, truth bool) []string {
			be, ok := ast.Unparen(cond).(*ast.BinaryExpr)
			if !ok || (be.Op != token.EQL && be.Op != token.NEQ) {
				return nil
			}
			for _, e := range []ast.Expr{be.X, be.Y} {
				if v := ConstVal(fs.Info(), e); v != nil {
					if t := fs.Info().TypeOf(e); t != nil && strings.HasSuffix(t.String(), "commands.Command") {
						if (be.Op == token.NEQ) == truth {
							return []string{"@cmd!=" + v.ExactString()}
						}
						return []string{"@cmd==" + v.ExactString()}
					}
				}
			}
			return nil
		}}
		res := fl.Analyze(request)
		for _, s := range res.Of("EndMsg") {
			if s.Fn != request {
				continue
			}
			nEnd++
			for l := range s.Before {
				if strings.HasPrefix(l, "@cmd!=") {
					var v int
					fmt.Sscan(strings.TrimPrefix(l, "@cmd!="), &v)
					skipEnd[v] = true
				}
			}
		}
		c.Floor(r2, nEnd, 1, "EndMsg after the handler in serverSession.request")
		setStr := func(m map[int]bool) string {
			var ks []int
			for k := range m {
				ks = append(ks, k)
			}
			sort.Ints(ks)
			var out []string
			for _, k := range ks {
				out = append(out, a.consts[k])
			}
			return "{" + strings.Join(out, ",") + "}"
		}
		same := func(x, y map[int]bool) bool {
			if len(x) != len(y) {
				return false
			}
			for k := range x {
				if !y[k] {
					return false
				}
			}
			return true
		}
		c.Obl(r2, "commands without a response: handler writes nothing ⇔ request() does not flush ⇔ client does not wait", p.Pos(request.Decl),
			same(noRespServer, skipEnd) && same(skipEnd, noRespClient),
			fmt.Sprintf("handlers that write nothing %s; commands for which request() skips EndMsg %s; commands whose client function never calls Request %s: "+
				"a client would wait forever for a reply, or a stray reply would be taken for the answer to the next request",
				setStr(noRespServer), setStr(skipEnd), setStr(noRespClient)))
	}
}

// c40ToTail: the part of r's language that follows a leading tok (as a regular expression
// built by structural derivative for the simple shapes that occur: alt / seq with a leading token).
func c40ToTail(r *c40Re, tok string) *c40Re {
	switch r.kind {
	case c40Tok:
		if r.tok == tok {
			return c40ReEps
		}
		return c40ReEmpty
	case c40Alt:
		var out []*c40Re
		for _, s := range r.subs {
			out = append(out, c40ToTail(s, tok))
		}
		return c40AltOf(out...)
	case c40Seq:
		head := c40ToTail(r.subs[0], tok)
		rest := c40SeqOf(r.subs[1:]...)
		out := c40SeqOf(head, rest)
		if c40Nullable(r.subs[0]) {
			out = c40AltOf(out, c40ToTail(rest, tok))
		}
		return out
	case c40Star:
		return c40SeqOf(c40ToTail(r.subs[0], tok), r)
	}
	return c40ReEmpty
}

func c40Nullable(r *c40Re) bool {
	switch r.kind {
	case c40Eps, c40Star:
		return true
	case c40Seq:
		for _, s := range r.subs {
			if !c40Nullable(s) {
				return false
			}
		}
		return true
	case c40Alt:
		for _, s := range r.subs {
			if c40Nullable(s) {
				return true
			}
		}
	}
	return false
}

package main

// C28 comparison order classes: class constants, Order(), the order table used by
// deepCompare, the leading class comparison of every Compare method, and agreement of
// Hash with Equal across the number representations.

import (
	"fmt"
	"go/ast"
	"go/constant"
	"go/token"
	"go/types"
	"math/big"
	"sort"
	"strings"
)

func init() { register("C28", checkC28, "./core/...") }

var ordNames = []string{"ordBool", "ordNum", "ordStr", "ordDate", "ordObject", "ordOther"}

// class every types.* constant must have (all others: ordOther)
var orderSpec = map[string]string{"Boolean": "ordBool", "Number": "ordNum", "String": "ordStr", "Date": "ordDate", "Object": "ordObject",
	"Record": "ordObject", "Except": "ordStr"}

func checkC28(c *Ctx) string {
	p := c.P
	r1 := "C28.1 K1 order classes: boolean < number < string < date < object < other, numbered like types.*"
	ords := map[string]constant.Value{}
	okOrd := true
	for _, n := range ordNames {
		v := p.Const("core", n)
		if v == nil {
			c.Missing(r1, "constant core."+n)
			okOrd = false
		}
		ords[n] = v
	}
	if !okOrd {
		return "anchors missing"
	}
	for i := 0; i+1 < len(ordNames); i++ {
		a, b := ordNames[i], ordNames[i+1]
		ok := constant.Compare(ords[a], token.LSS, ords[b])
		c.Obl(r1, a+" < "+b, p.PosOf(p.ConstObj("core", a).Pos()), ok,
			unless(ok, fmt.Sprintf("%s=%s %s=%s: values of different kinds are ordered by these numbers", a, ords[a], b, ords[b])))
	}
	checkOrdTypesEqual(c, r1)

	ev := newOrdEval(c, "C28.2 K14 Order")
	if ev == nil {
		return "anchors missing"
	}
	// ---- Order() over every types.* constant
	r2 := "C28.2 K14 Order() maps every types.Type to its class"
	typeConsts := typesConstants(p)
	c.Floor(r2, len(typeConsts), 12, "constants of type types.Type")
	classOf := map[int64]constant.Value{} // Type number → Order
	for _, tc := range typeConsts {
		if tc.Name() == "N" {
			continue // the count sentinel
		}
		wantName := orderSpec[tc.Name()]
		if wantName == "" {
			wantName = "ordOther"
		}
		got, why := ev.orderOf(tc.Val())
		ok := got != nil && constant.Compare(got, token.EQL, ords[wantName])
		classOf[cInt(tc.Val())] = got
		c.Obl(r2, "Order(types."+tc.Name()+") == "+wantName, p.Pos(ev.order.Decl), ok,
			unless(ok, fmt.Sprintf("got %v %s: a value of type %s is compared in the wrong class (exceptions must compare as strings, records as objects, everything not comparable after every comparable value)", got, why, tc.Name())))
	}

	// ---- the order table of deepCompare / deepEqual
	checkOrderTable(c, ev, typeConsts, classOf, ords)

	// ---- Compare methods
	vts := coreValueTypes(p)
	checkCompareClasses(c, ev, vts)

	// ---- Hash / Equal of the number representations
	checkNumberHash(c, vts)

	checkConcatBounded(c, "C28.6 K4c equality and hashing of concatenations use only their own bytes of the shared buffer")
	return "Decided: (1) ordBool<ordNum<ordStr<ordDate<ordObject<ordOther and ordBool..ordObject == types.Boolean..Object (go/constant); (2) core.Order evaluated (AbsEnv.run) for every constant of type types.Type against the table " +
		"{Boolean,Number,String,Date,Object → own class, Record → ordObject, Except → ordStr, every other → ordOther}; (3) the table core.order used by deepCompare/deepEqual (constant element stores + the identity loop) gives every " +
		"comparable type the number of its Order class; (4) for every type of package core with a constant Type() whose Compare (declared or promoted) can return: either one cmp.Compare(<constant>, Order(other)) precedes every " +
		"return, its result reaches a return, and the constant equals Order of that type, or every return delegates to a function that orders through the order table; " +
		"(5) for the representations of numbers (types with Type()==types.Number and their own Hash: *smi, SuInt64, SuDnum) that accept each other in Equal (type assertions in Equal and one level of callees): " +
		"every Hash returns uint64(n)*K with one shared K on an interval of n read from the comparisons with constants that dominate that return; on the integers both representations can hold the two intervals must coincide " +
		"(otherwise a witness is printed), and outside the interval both must use the same function. Not decided: order inside a class, lossy int64→decimal equality, hashing of strings/dates/containers."
}

// typesConstants lists the constants of type types.Type in declaration (value) order.
func typesConstants(p *Prog) []*types.Const {
	pk := p.Pkg("core/types")
	tt := p.NamedType("core/types", "Type")
	if pk == nil || tt == nil {
		return nil
	}
	var out []*types.Const
	sc := pk.Types.Scope()
	for _, nm := range sc.Names() {
		if co, ok := sc.Lookup(nm).(*types.Const); ok && types.Identical(co.Type(), tt) {
			out = append(out, co)
		}
	}
	sort.Slice(out, func(i, j int) bool { return cInt(out[i].Val()) < cInt(out[j].Val()) })
	return out
}

// ---------------------------------------------------------------- order table

func checkOrderTable(c *Ctx, ev *ordEval, typeConsts []*types.Const, classOf map[int64]constant.Value, ords map[string]constant.Value) {
	p := c.P
	r3 := "C28.3 K9 the order table used by deepCompare agrees with Order()"
	tbl := p.GlobalVar("core", "order")
	if !c.need(r3, "variable core.order", tbl) {
		return
	}
	over := map[int64]constant.Value{}
	overPos := map[int64]ast.Node{}
	identity := false
	var unknown []string
	nstores := 0
	for _, fs := range p.FuncsIn("core") {
		info := fs.Info()
		ForEachNode(fs, func(n ast.Node) {
			as, ok := n.(*ast.AssignStmt)
			if !ok {
				return
			}
			for i, l := range as.Lhs {
				ix, ok := ast.Unparen(l).(*ast.IndexExpr)
				if !ok || ObjOf(info, ix.X) != types.Object(tbl) {
					continue
				}
				nstores++
				if len(as.Lhs) != len(as.Rhs) || as.Tok != token.ASSIGN {
					unknown = append(unknown, p.Pos(as))
					continue
				}
				k, v := ConstVal(info, ix.Index), ConstVal(info, as.Rhs[i])
				switch {
				case k != nil && v != nil:
					over[cInt(k)] = v
					overPos[cInt(k)] = as
				case k == nil && v == nil && ObjOf(info, ix.Index) != nil && ObjOf(info, ix.Index) == ObjOf(info, as.Rhs[i]):
					identity = true // order[i] = i
				default:
					unknown = append(unknown, p.Pos(as))
				}
			}
		})
	}
	c.Floor(r3, nstores, 2, "stores into core.order")
	c.Obl(r3, "every store into the table is order[constant] = constant or the identity fill", "", len(unknown) == 0,
		unless(len(unknown) == 0, "cannot evaluate the stores at "+strings.Join(unknown, ", ")))
	c.Obl(r3, "the table is filled with the identity before the overrides", "", identity,
		unless(identity, "no order[i] = i fill: every type without an override would compare as types.Boolean"))
	if len(unknown) > 0 {
		return
	}
	for _, tc := range typeConsts {
		if tc.Name() == "N" {
			continue
		}
		t := cInt(tc.Val())
		cls := classOf[t]
		if cls == nil || constant.Compare(cls, token.EQL, ords["ordOther"]) {
			continue
		}
		tv := tc.Val()
		pos := ""
		if v, ok := over[t]; ok {
			tv = v
			pos = p.Pos(overPos[t])
		} else if !identity {
			tv = constant.MakeInt64(0)
		}
		ok := cInt(tv) == cInt(cls)
		c.Obl(r3, "order[types."+tc.Name()+"] is the number of Order's class for that type", pos, ok,
			unless(ok, fmt.Sprintf("order[types.%s]=%s but Order gives class %s: a %s nested in an object is ordered differently from the same value compared directly (deepCompare uses the table, Compare methods use Order)", tc.Name(), tv, cls, tc.Name())))
	}
}

// ---------------------------------------------------------------- Compare

type cmpClass struct {
	kind string // "const": leading cmp.Compare(val, Order(other)); "table": orders through core.order; "none"
	val  constant.Value
	at   ast.Node
	why  string
}

func checkCompareClasses(c *Ctx, ev *ordEval, vts []*coreValType) {
	p := c.P
	r4 := "C28.4 K19 every Compare orders by class first, with the class of its own type"
	cmpFn := p.Func("cmp", "Compare")
	orderFn := p.Func("core", "Order")
	tbl := p.GlobalVar("core", "order")
	if !c.need(r4, "function cmp.Compare", cmpFn) || !c.need(r4, "function core.Order", orderFn) || !c.need(r4, "variable core.order", tbl) {
		return
	}
	fl := &Flow{P: p}
	memo := map[*types.Func]*cmpClass{}
	var classify func(f *types.Func, depth int) *cmpClass
	classify = func(f *types.Func, depth int) *cmpClass {
		if r := memo[f]; r != nil {
			return r
		}
		fs := p.Src(f)
		if fs == nil || fs.Body == nil {
			return &cmpClass{kind: "none", why: "no source for " + funcName(f)}
		}
		memo[f] = &cmpClass{kind: "none", why: "recursive"}
		info := fs.Info()
		defs := buildDefs(fs)
		var other *types.Var
		if sig := f.Type().(*types.Signature); sig.Params().Len() >= 1 {
			other = sig.Params().At(sig.Params().Len() - 1)
		}
		// (a) cmp.Compare(<const>, Order(other))
		var classCalls []*ast.CallExpr
		tableCmp := false
		ForEachNode(fs, func(n ast.Node) {
			call, ok := n.(*ast.CallExpr)
			if !ok || !sameFunc(Callee(info, call), cmpFn) || len(call.Args) != 2 {
				return
			}
			if oc, ok := ast.Unparen(call.Args[1]).(*ast.CallExpr); ok && sameFunc(Callee(info, oc), orderFn) && len(oc.Args) == 1 &&
				other != nil && ObjOf(info, oc.Args[0]) == types.Object(other) && ConstVal(info, call.Args[0]) != nil {
				classCalls = append(classCalls, call)
				return
			}
			// (b) both operands come out of the order table
			fromTbl := func(e ast.Expr) bool {
				return defs.Mentions(info, e, func(m ast.Node) bool {
					ix, ok := m.(*ast.IndexExpr)
					return ok && ObjOf(info, ix.X) == types.Object(tbl)
				})
			}
			if fromTbl(call.Args[0]) && fromTbl(call.Args[1]) {
				tableCmp = true
			}
		})
		var res *cmpClass
		switch {
		case len(classCalls) == 1:
			call := classCalls[0]
			f2 := &Flow{P: p, Node: func(g *FuncSrc, n ast.Node) []string {
				if n == ast.Node(call) {
					return []string{"classcmp"}
				}
				return nil
			}}
			an := f2.Analyze(fs)
			res = &cmpClass{kind: "const", val: ConstVal(info, call.Args[0]), at: call}
			used := false
			for _, r := range an.Returns {
				if !r.Before.Has("classcmp") {
					res = &cmpClass{kind: "none", at: r.Node, why: "a return of " + fs.name + " at " + p.Pos(r.Node) + " is reached without the class comparison"}
					break
				}
				for _, e := range r.Node.Results {
					if defs.Mentions(info, e, func(m ast.Node) bool { return m == ast.Node(call) }) {
						used = true
					}
				}
			}
			if res.kind == "const" && !used {
				res = &cmpClass{kind: "none", at: call, why: "the result of the class comparison in " + fs.name + " never reaches a return"}
			}
		case len(classCalls) > 1:
			res = &cmpClass{kind: "none", at: classCalls[1], why: fs.name + " has several class comparisons"}
		case tableCmp:
			res = &cmpClass{kind: "table", at: fs.Decl}
		default:
			// (c) pure delegation
			res = &cmpClass{kind: "none", at: fs.Decl, why: fs.name + " neither compares a class constant with Order(other) nor delegates to a function that orders by class"}
			if depth > 0 {
				var sub *cmpClass
				okAll, nret := true, 0
				ast.Inspect(fs.Body, func(n ast.Node) bool {
					if _, isLit := n.(*ast.FuncLit); isLit {
						return false
					}
					r, ok := n.(*ast.ReturnStmt)
					if !ok {
						return true
					}
					nret++
					if len(r.Results) != 1 {
						okAll = false
						return true
					}
					call, ok := ast.Unparen(r.Results[0]).(*ast.CallExpr)
					if !ok {
						okAll = false
						return true
					}
					g := Callee(info, call)
					if g == nil || !fl.isStatic(g) {
						okAll = false
						return true
					}
					k := classify(g, depth-1)
					if k.kind == "none" || (sub != nil && (sub.kind != k.kind || sub.kind == "const" && !constant.Compare(sub.val, token.EQL, k.val))) {
						okAll = false
						return true
					}
					sub = k
					return true
				})
				if okAll && nret > 0 && sub != nil {
					res = &cmpClass{kind: sub.kind, val: sub.val, at: sub.at}
				}
			}
		}
		memo[f] = res
		return res
	}
	nConst, nTable, nNone := 0, 0, 0
	for _, vt := range vts {
		f := lookupMethod(vt.named, "Compare")
		if f == nil || fl.NoReturn(f) {
			continue // not comparable: Compare always panics
		}
		want, why := ev.orderOf(vt.typeVal)
		key := vt.name + " (Type() = " + typeConstName(p, vt.typeVal) + ")"
		if want == nil {
			c.Obl(r4, key+": Order of the type is computable", "", false, why)
			continue
		}
		k := classify(f, 3)
		switch k.kind {
		case "const":
			nConst++
			ok := constant.Compare(constant.ToInt(k.val), token.EQL, constant.ToInt(want))
			c.Obl(r4, key+": Compare leads with cmp.Compare(<class of the type>, Order(other))", p.Pos(k.at), ok,
				unless(ok, fmt.Sprintf("%s compares class %s with Order(other) but Order of a %s is %s: x.Compare(y) and y.Compare(x) disagree about which class is smaller (antisymmetry is lost)", funcName(f), k.val, vt.name, want)))
		case "table":
			nTable++
			c.Obl(r4, key+": Compare orders through the order table", p.Pos(k.at), true, "")
		default:
			nNone++
			c.Obl(r4, key+": Compare orders by class first", p.Pos(k.at), false, k.why+": values of different kinds are no longer ordered boolean < number < string < date < object")
		}
	}
	c.Floor(r4, nConst+nTable+nNone, 13, "types of package core with a constant Type() and a Compare that can return (9 leading with a class constant + SuExcept + 3 through the order table)")
	c.Stats["compare_leading_constant"] = nConst
	c.Stats["compare_through_table"] = nTable
}

// ---------------------------------------------------------------- Hash / Equal of numbers

type ival struct{ lo, hi *big.Int } // closed; empty when lo > hi

func (a ival) empty() bool { return a.lo.Cmp(a.hi) > 0 }
func (a ival) meet(b ival) ival {
	r := ival{new(big.Int).Set(a.lo), new(big.Int).Set(a.hi)}
	if b.lo.Cmp(r.lo) > 0 {
		r.lo.Set(b.lo)
	}
	if b.hi.Cmp(r.hi) < 0 {
		r.hi.Set(b.hi)
	}
	return r
}
func (a ival) hull(b ival) ival {
	if a.empty() {
		return b
	}
	if b.empty() {
		return a
	}
	r := ival{new(big.Int).Set(a.lo), new(big.Int).Set(a.hi)}
	if b.lo.Cmp(r.lo) < 0 {
		r.lo.Set(b.lo)
	}
	if b.hi.Cmp(r.hi) > 0 {
		r.hi.Set(b.hi)
	}
	return r
}
func (a ival) eq(b ival) bool {
	if a.empty() || b.empty() {
		return a.empty() && b.empty()
	}
	return a.lo.Cmp(b.lo) == 0 && a.hi.Cmp(b.hi) == 0
}
func (a ival) has(v *big.Int) bool { return !a.empty() && a.lo.Cmp(v) <= 0 && v.Cmp(a.hi) <= 0 }
func (a ival) String() string {
	if a.empty() {
		return "∅"
	}
	return "[" + a.lo.String() + ", " + a.hi.String() + "]"
}

func intTypeRange(t types.Type) (ival, bool) {
	b, ok := t.Underlying().(*types.Basic)
	if !ok {
		return ival{}, false
	}
	bits, signed := 0, true
	switch b.Kind() {
	case types.Int, types.Int64:
		bits = 64
	case types.Int32:
		bits = 32
	case types.Int16:
		bits = 16
	case types.Int8:
		bits = 8
	case types.Uint, types.Uint64, types.Uintptr:
		bits, signed = 64, false
	case types.Uint32:
		bits, signed = 32, false
	case types.Uint16:
		bits, signed = 16, false
	case types.Uint8:
		bits, signed = 8, false
	default:
		return ival{}, false
	}
	one := big.NewInt(1)
	if signed {
		h := new(big.Int).Lsh(one, uint(bits-1))
		return ival{new(big.Int).Neg(h), new(big.Int).Sub(h, one)}, true
	}
	return ival{big.NewInt(0), new(big.Int).Sub(new(big.Int).Lsh(one, uint(bits)), one)}, true
}

func bigOf(v constant.Value) *big.Int {
	v = constant.ToInt(v)
	if v.Kind() != constant.Int {
		return nil
	}
	b, ok := new(big.Int).SetString(v.ExactString(), 10)
	if !ok {
		return nil
	}
	return b
}

type hashRep struct {
	vt       *coreValType
	fs       *FuncSrc
	mults    []constant.Value
	formula  ival // hull of the intervals on which the integer formula is returned
	nFormula int
	others   map[string]bool // callees of the returns that are not the integer formula
	otherBad []string        // returns that are neither
	guardUnk bool            // a formula return is guarded by a condition the analysis does not understand
	vrange   ival            // integers the representation can hold
	accepts  map[*types.Named]bool
}

func checkNumberHash(c *Ctx, vts []*coreValType) {
	p := c.P
	r5 := "C28.5 K23+K9 number representations that are Equal hash equally"
	numT := p.Const("core/types", "Number")
	if numT == nil {
		c.Missing(r5, "constant types.Number")
		return
	}
	smiT := p.NamedType("core", "smi")
	minSmi, maxSmi := p.Const("core", "MinSuInt"), p.Const("core", "MaxSuInt")
	var reps []*hashRep
	byNamed := map[*types.Named]*hashRep{}
	for _, vt := range vts {
		if !constant.Compare(vt.typeVal, token.EQL, numT) {
			continue
		}
		hf := p.DeclaredMethod("core", vt.name, "Hash")
		if hf == nil {
			continue
		}
		fs := p.Src(hf)
		if fs == nil || fs.Body == nil {
			continue
		}
		r := &hashRep{vt: vt, fs: fs, others: map[string]bool{}, accepts: map[*types.Named]bool{}}
		reps = append(reps, r)
		byNamed[vt.named.Origin()] = r
	}
	c.Floor(r5, len(reps), 3, "representations of numbers with their own Hash (*smi, SuInt64, SuDnum)")
	if len(reps) < 2 {
		return
	}
	for _, r := range reps {
		analyseHash(p, r)
		// the integers the representation can hold
		if smiT != nil && r.vt.named.Origin() == smiT.Origin() {
			if minSmi == nil || maxSmi == nil {
				c.Missing(r5, "constants core.MinSuInt / core.MaxSuInt (range of *smi)")
				r.vrange = ival{big.NewInt(1), big.NewInt(0)}
			} else {
				r.vrange = ival{bigOf(minSmi), bigOf(maxSmi)}
				// the constants really are the capacity of the representation
				if sp := p.GlobalVar("core", "smispace"); sp != nil {
					if at, ok := sp.Type().Underlying().(*types.Array); ok {
						n := new(big.Int).Sub(r.vrange.hi, r.vrange.lo)
						n.Add(n, big.NewInt(1))
						ok := n.Cmp(big.NewInt(at.Len())) == 0
						c.Obl(r5, "MinSuInt..MaxSuInt is exactly the capacity of the small-integer space", p.PosOf(sp.Pos()), ok,
							unless(ok, fmt.Sprintf("len(smispace)=%d but MaxSuInt-MinSuInt+1=%s", at.Len(), n)))
					}
				}
			}
		}
		ok := r.nFormula > 0 && len(r.otherBad) == 0
		c.Obl(r5, r.vt.name+".Hash returns uint64(<integer value>) * <constant> for integers", p.Pos(r.fs.Decl), ok,
			unless(ok, fmt.Sprintf("%d integer-formula returns; returns that are neither the formula nor a call: %v — equal integers in different representations need one common hash function", r.nFormula, r.otherBad)))
	}
	// one multiplier
	var ms []string
	seen := map[string]bool{}
	for _, r := range reps {
		for _, m := range r.mults {
			if !seen[m.ExactString()] {
				seen[m.ExactString()] = true
				ms = append(ms, fmt.Sprintf("%s (%s)", m.ExactString(), r.vt.name))
			}
		}
	}
	c.Obl(r5, "all representations multiply by the same constant", "", len(ms) == 1, unless(len(ms) == 1, "multipliers: "+strings.Join(ms, ", ")))

	// who accepts whom in Equal
	repOf := func(t types.Type) *hashRep {
		if n := namedOf(t); n != nil {
			return byNamed[n]
		}
		return nil
	}
	for _, r := range reps {
		ef := p.DeclaredMethod("core", r.vt.name, "Equal")
		if ef == nil {
			c.Missing(r5, "method core."+r.vt.name+".Equal")
			continue
		}
		var scan func(fs *FuncSrc, depth int)
		scan = func(fs *FuncSrc, depth int) {
			if fs == nil || fs.Body == nil {
				return
			}
			ForEachNode(fs, func(n ast.Node) {
				switch x := n.(type) {
				case *ast.TypeAssertExpr:
					if x.Type != nil {
						if o := repOf(fs.Info().TypeOf(x.Type)); o != nil {
							r.accepts[o.vt.named.Origin()] = true
						}
					}
				case *ast.CaseClause:
					for _, e := range x.List {
						if tv, ok := fs.Info().Types[e]; ok && tv.IsType() {
							if o := repOf(tv.Type); o != nil {
								r.accepts[o.vt.named.Origin()] = true
							}
						}
					}
				case *ast.CallExpr:
					if depth > 0 {
						if g := Callee(fs.Info(), x); g != nil && g.Pkg() != nil && g.Pkg() == fs.Pkg.Types {
							scan(p.Src(g), depth-1)
						}
					}
				}
			})
		}
		scan(p.Src(ef), 1)
	}
	npairs := 0
	for i := 0; i < len(reps); i++ {
		for j := i + 1; j < len(reps); j++ {
			a, b := reps[i], reps[j]
			if !a.accepts[b.vt.named.Origin()] && !b.accepts[a.vt.named.Origin()] {
				continue
			}
			npairs++
			key := a.vt.name + " ~ " + b.vt.name + ": integers both can hold hash with the same function"
			if a.nFormula == 0 || b.nFormula == 0 {
				c.Obl(r5, key, p.Pos(b.fs.Decl), false, "one of the two Hash methods has no integer formula (see above)")
				continue
			}
			common := a.vrange.meet(b.vrange)
			fa, fb := a.formula.meet(common), b.formula.meet(common)
			if fa.eq(fb) {
				ok, d := true, ""
				if !fa.eq(common) {
					// outside the formula interval both use something else: it has to be the same function
					oa, ob := keys(a.others), keys(b.others)
					if len(oa) == 0 || strings.Join(oa, ",") != strings.Join(ob, ",") {
						ok = false
						d = fmt.Sprintf("outside %s, %s.Hash uses %v and %s.Hash uses %v", fa, a.vt.name, oa, b.vt.name, ob)
					}
				}
				c.Obl(r5, key, p.Pos(b.fs.Decl), ok, d)
				continue
			}
			// witness: an integer in the common range on which exactly one side uses the formula
			var wit *big.Int
			for _, cand := range []*big.Int{fa.lo, fa.hi, fb.lo, fb.hi} {
				if cand == nil {
					continue
				}
				for _, d := range []int64{0, 1, -1} {
					v := new(big.Int).Add(cand, big.NewInt(d))
					if common.has(v) && fa.has(v) != fb.has(v) && (wit == nil || v.CmpAbs(wit) < 0) {
						wit = v
					}
				}
			}
			ws := "?"
			if wit != nil {
				ws = wit.String()
			}
			onlyIn, other := a, b
			if wit != nil && fb.has(wit) {
				onlyIn, other = b, a
			}
			site := other
			extra := ""
			if a.guardUnk || b.guardUnk {
				extra = " (a guard of the formula was not understood; the interval may be too wide)"
			}
			c.Obl(r5, key, p.Pos(site.fs.Decl), false,
				fmt.Sprintf("both can hold %s; %s.Hash returns uint64(n)*K on n ∈ %s, %s.Hash on n ∈ %s (others: %v): for n = %s the two values are Equal (%s.Equal accepts %s) but %s hashes with the integer formula and %s with %v — a member stored under one representation is not found under the other%s",
					common, a.vt.name, fa, b.vt.name, fb, keys(other.others), ws, onlyIn.vt.name, other.vt.name, onlyIn.vt.name, other.vt.name, keys(other.others), extra))
		}
	}
	c.Floor(r5, npairs, 3, "pairs of number representations that accept each other in Equal")
}

func keys(m map[string]bool) []string {
	var out []string
	for k := range m {
		out = append(out, k)
	}
	sort.Strings(out)
	return out
}

// analyseHash finds the returns of a Hash method that are uint64(n)*K and the interval of
// n on which each of them is taken.
func analyseHash(p *Prog, r *hashRep) {
	fs := r.fs
	info := fs.Info()
	defs := buildDefs(fs)
	objID := func(o types.Object) string { return fmt.Sprintf("%p", o) }
	edge := func(f *FuncSrc, cond ast.Expr, truth bool) []string {
		be, ok := ast.Unparen(cond).(*ast.BinaryExpr)
		if !ok {
			if _, isId := ast.Unparen(cond).(*ast.Ident); isId {
				return nil // a bool such as the ok of a comma-ok call: says "is an integer", not which
			}
			return []string{"@guard?"}
		}
		op := be.Op
		var id *ast.Ident
		var cv constant.Value
		if x, ok := ast.Unparen(be.X).(*ast.Ident); ok && ConstVal(info, be.Y) != nil && ConstVal(info, be.X) == nil {
			id, cv = x, ConstVal(info, be.Y)
		} else if y, ok := ast.Unparen(be.Y).(*ast.Ident); ok && ConstVal(info, be.X) != nil && ConstVal(info, be.Y) == nil {
			id, cv = y, ConstVal(info, be.X)
			switch op { // c OP n  ⇒  n OP' c
			case token.LSS:
				op = token.GTR
			case token.LEQ:
				op = token.GEQ
			case token.GTR:
				op = token.LSS
			case token.GEQ:
				op = token.LEQ
			}
		} else {
			return []string{"@guard?"}
		}
		o := info.Uses[id]
		k := bigOf(cv)
		if o == nil || k == nil {
			return []string{"@guard?"}
		}
		if !truth {
			switch op {
			case token.LSS:
				op = token.GEQ
			case token.LEQ:
				op = token.GTR
			case token.GTR:
				op = token.LEQ
			case token.GEQ:
				op = token.LSS
			case token.EQL:
				op = token.NEQ
			case token.NEQ:
				op = token.EQL
			}
		}
		one := big.NewInt(1)
		switch op {
		case token.GEQ:
			return []string{"@ge:" + objID(o) + ":" + k.String()}
		case token.GTR:
			return []string{"@ge:" + objID(o) + ":" + new(big.Int).Add(k, one).String()}
		case token.LEQ:
			return []string{"@le:" + objID(o) + ":" + k.String()}
		case token.LSS:
			return []string{"@le:" + objID(o) + ":" + new(big.Int).Sub(k, one).String()}
		case token.EQL:
			return []string{"@ge:" + objID(o) + ":" + k.String(), "@le:" + objID(o) + ":" + k.String()}
		}
		return []string{"@guard?"}
	}
	fl := &Flow{P: p, Edge: edge}
	res := fl.Analyze(fs)
	r.formula = ival{big.NewInt(1), big.NewInt(0)}
	for _, ret := range res.Returns {
		if len(ret.Node.Results) != 1 {
			r.otherBad = append(r.otherBad, p.Pos(ret.Node))
			continue
		}
		e := ast.Unparen(ret.Node.Results[0])
		// a local holding the hash
		if id, ok := e.(*ast.Ident); ok {
			if o := info.Uses[id]; o != nil && len(defs.defs[o]) == 1 {
				e = ast.Unparen(defs.defs[o][0])
			}
		}
		operand, mult := intFormula(info, e)
		if operand == nil {
			if call, ok := e.(*ast.CallExpr); ok {
				if g := Callee(info, call); g != nil {
					r.others[funcName(g)] = true
					continue
				}
			}
			r.otherBad = append(r.otherBad, p.Pos(ret.Node)+": "+exprStr(e))
			continue
		}
		r.nFormula++
		r.mults = append(r.mults, mult)
		rng, ok := intTypeRange(info.TypeOf(operand))
		if !ok {
			r.otherBad = append(r.otherBad, p.Pos(ret.Node)+": operand of the formula is not an integer")
			continue
		}
		if r.vrange.lo == nil {
			r.vrange = rng
		} else {
			r.vrange = r.vrange.hull(rng)
		}
		if id, ok := ast.Unparen(operand).(*ast.Ident); ok {
			if o := info.Uses[id]; o != nil {
				for l := range ret.Before {
					var bound *big.Int
					parts := strings.SplitN(l, ":", 3)
					if len(parts) != 3 || parts[1] != objID(o) {
						continue
					}
					bound, _ = new(big.Int).SetString(parts[2], 10)
					if bound == nil {
						continue
					}
					switch parts[0] {
					case "@ge":
						if bound.Cmp(rng.lo) > 0 {
							rng.lo = bound
						}
					case "@le":
						if bound.Cmp(rng.hi) < 0 {
							rng.hi = bound
						}
					}
				}
			}
		}
		if ret.Before.Has("@guard?") {
			r.guardUnk = true
		}
		r.formula = r.formula.hull(rng)
	}
	if r.vrange.lo == nil {
		r.vrange = ival{big.NewInt(1), big.NewInt(0)}
	}
}

// intFormula matches uint64(<integer expr>) * <constant> (either order).
func intFormula(info *types.Info, e ast.Expr) (operand ast.Expr, mult constant.Value) {
	be, ok := ast.Unparen(e).(*ast.BinaryExpr)
	if !ok || be.Op != token.MUL {
		return nil, nil
	}
	for _, pr := range [][2]ast.Expr{{be.X, be.Y}, {be.Y, be.X}} {
		k := ConstVal(info, pr[1])
		if k == nil || ConstVal(info, pr[0]) != nil {
			continue
		}
		call, ok := ast.Unparen(pr[0]).(*ast.CallExpr)
		if !ok || len(call.Args) != 1 {
			continue
		}
		tv, ok := info.Types[call.Fun]
		if !ok || !tv.IsType() {
			continue
		}
		if b, ok := tv.Type.Underlying().(*types.Basic); !ok || b.Kind() != types.Uint64 {
			continue
		}
		return call.Args[0], k
	}
	return nil, nil
}

#!/bin/bash
# Robustness of the checks against behaviour-preserving edits that move every position:
# all top-level functions of every file in reverse order.  Every check must stay silent.
D=/tmp/gsvrobust.$$
mkdir -p $D/repo $D/verif
rsync -a --exclude .git --exclude '*.syso' --exclude '*.tmp' /repo/ $D/repo/
cp /verif/known_findings.txt $D/verif/
/verif/gsv/gsv shuffle $D/repo
bad=0
for id in $(/verif/gsv/gsv list); do
  out=$(GSV_REPO=$D/repo GSV_VERIF=$D/verif /verif/gsv/gsv check $id 2>&1 | grep -E "^violation|^C[0-9]+ tier|gsv:")
  echo "$out" | tail -1
  if echo "$out" | grep -q "^violation\|gsv:"; then echo "$out" | grep "^violation\|gsv:" | cut -c1-300; bad=$((bad+1)); fi
done
rm -rf $D
echo "robust: $bad checks fired on the reordered tree"

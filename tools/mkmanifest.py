#!/usr/bin/env python3
"""Regenerates /verif/MANIFEST.json from tools/claims.json (claimed checks) and the
not-applicable table below.  Properties themselves are never touched."""
import json, os
here = os.path.dirname(os.path.abspath(__file__))
root = os.path.dirname(here)
claims = json.load(open(os.path.join(here, 'claims.json')))
props = [json.loads(l) for l in open(os.path.join(root, 'properties.jsonl')) if l.strip()]
ids = [p['id'] for p in props]
checks = []
for pid in ids:
    if pid not in claims['claimed']:
        continue
    c = claims['claimed'][pid]
    checks.append({
        "property_id": pid,
        "quick_cmd": f"./check.sh {pid} quick",
        "thorough_cmd": f"./check.sh {pid} thorough",
        "evidence_file": f"/verif/evidence/{pid}.json",
        "replay_cmd_template": f"./check.sh {pid} thorough  # re-runs the rule; the violations file {{path}} lists rule, construct and position",
        "engine": "gsv",
        "level_claimed": {"category": "other", "text": c['text'], "design_ref": c.get('design_ref', f"DESIGN.md §5 {pid}")},
        "level_note": c.get('note', "Trusted: Go type checker (go1.26.8), x/tools v0.50.0 go/packages+go/cfg(+go/ssa), the rule tables and frozen exceptions in gsv (each with a reason). Decides a structural necessary condition, not the behaviour."),
        "technique": c['technique'],
    })
na = [{"property_id": pid, "reason": claims['not_applicable'][pid]} for pid in ids if pid in claims['not_applicable']]
missing = [pid for pid in ids if pid not in claims['claimed'] and pid not in claims['not_applicable']]
assert not missing, missing
m = {
    "version": 1,
    "setup_cmd": "cd gsv && GOFLAGS=-mod=mod GOPROXY=off GOSUMDB=off GOTOOLCHAIN=local GOWORK=off go1.26.8 build -o gsv .",
    "hooks": {
        "guard": "verif",
        "enable": "none: static analysis reads /repo's source; no instrumentation is compiled in",
        "baseline_off_cmd": "for m in $(cat /w/out/gomods.txt); do MF=$(cd /repo/$m && . /w/out/goenv.sh && gomodflag); (cd /repo/$m && go test $MF -json -vet=off -count=1 -timeout 25m ./...); done",
        "source_commits": [],
        "add_only": True,
    },
    "engines": [{"name": "gsv", "path": "/verif/gsv", "serves_properties": [c['property_id'] for c in checks],
                 "kind_free_text": "repository-specific static analyser (go/packages + go/types + go/cfg data-flow + def-use + call graph); every verdict is computed from /repo's current source, nothing is executed"}],
    "checks": checks,
    "notes": claims.get('notes', ''),
    "not_applicable": na,
}
json.dump(m, open(os.path.join(root, 'MANIFEST.json'), 'w'), indent=1)
print(len(checks), "claimed;", len(na), "not applicable")

package main

// `gsv flipifs`: rewrites (in place, in $GSV_REPO) every innermost `if c { A } else { B }`
// (no init statement, no else-if, no if-else nested inside A or B) of the module's non-test
// files into `if !(c) { B } else { A }` - a behaviour-preserving edit that exercises the
// polarity handling of every rule that uses branch facts.  Used by tools/robust3.sh.

import (
	"fmt"
	"go/ast"
	"os"
	"sort"
	"strings"
)

func flipIfsMain() int {
	p, err := Load(LoadOpts{Raw: true})
	if err != nil {
		fmt.Println(err)
		return 2
	}
	type edit struct {
		c0, c1, b0, b1, e0, e1 int
	}
	files := map[string][]edit{}
	hasIfElse := func(n ast.Node) bool {
		found := false
		ast.Inspect(n, func(m ast.Node) bool {
			if ifs, ok := m.(*ast.IfStmt); ok && ifs.Else != nil {
				found = true
			}
			return !found
		})
		return found
	}
	for _, pk := range p.Pkgs {
		for _, f := range pk.Syntax {
			fn := p.Fset.Position(f.Pos()).Filename
			if strings.HasSuffix(fn, "_test.go") {
				continue
			}
			elseIfs := map[*ast.IfStmt]bool{}
			ast.Inspect(f, func(n ast.Node) bool {
				if ifs, ok := n.(*ast.IfStmt); ok {
					if e, ok := ifs.Else.(*ast.IfStmt); ok {
						elseIfs[e] = true
					}
				}
				return true
			})
			ast.Inspect(f, func(n ast.Node) bool {
				ifs, ok := n.(*ast.IfStmt)
				if !ok || ifs.Init != nil || elseIfs[ifs] {
					return true
				}
				eb, ok := ifs.Else.(*ast.BlockStmt)
				if !ok || hasIfElse(ifs.Body) || hasIfElse(eb) {
					return true
				}
				off := func(pos interface{ IsValid() bool }) int { return 0 }
				_ = off
				o := func(n ast.Node, end bool) int {
					if end {
						return p.Fset.Position(n.End()).Offset
					}
					return p.Fset.Position(n.Pos()).Offset
				}
				files[fn] = append(files[fn], edit{o(ifs.Cond, false), o(ifs.Cond, true), o(ifs.Body, false), o(ifs.Body, true), o(eb, false), o(eb, true)})
				return true
			})
		}
	}
	n, nf := 0, 0
	for fn, eds := range files {
		src, err := os.ReadFile(fn)
		if err != nil {
			continue
		}
		sort.Slice(eds, func(i, j int) bool { return eds[i].c0 > eds[j].c0 })
		s := string(src)
		for _, e := range eds {
			s = s[:e.c0] + "!(" + s[e.c0:e.c1] + ")" + s[e.c1:e.b0] + s[e.e0:e.e1] + s[e.b1:e.e0] + s[e.b0:e.b1] + s[e.e1:]
			n++
		}
		os.WriteFile(fn, []byte(s), 0o644)
		nf++
	}
	fmt.Printf("flipped %d if-else statements in %d files\n", n, nf)
	return 0
}

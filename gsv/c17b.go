package main

// C17.6 (added after seeded change C17-2): in PriorityQueue.Get a message other than the
// head of the queue becomes the delivery candidate only on the true edge of isOldest
// (no earlier message of the same transaction id is pending) - for every id, including 0.

import (
	"go/ast"
	"go/types"
)

func checkQueueCandidateIsOldest(c *Ctx, rule string) {
	p := c.P
	fs := c.method(rule, "util/queue", "PriorityQueue", "Get")
	isOldest := p.DeclaredMethod("util/queue", "PriorityQueue", "isOldest")
	items := p.Field("util/queue", "PriorityQueue", "items")
	if fs == nil || !c.need(rule, "queue.PriorityQueue.isOldest", isOldest) || !c.need(rule, "queue.PriorityQueue.items", items) {
		return
	}
	info := fs.Info()
	defs := buildDefs(fs)
	// the selection variable: the index of items in the expression the result derives from
	var sel types.Object
	ForEachNode(fs, func(nd ast.Node) {
		r, ok := nd.(*ast.ReturnStmt)
		if !ok || len(r.Results) != 1 {
			return
		}
		defs.Mentions(info, r.Results[0], func(m ast.Node) bool {
			ix, ok := m.(*ast.IndexExpr)
			if ok && FieldOf(info, ix.X) == items {
				if id := identOf(ix.Index); id != nil {
					sel = info.Uses[id]
				}
			}
			return false
		})
	})
	if sel == nil {
		c.Missing(rule, "the variable that selects the delivered item in PriorityQueue.Get")
		return
	}
	fl := &Flow{P: p,
		Node: func(s *FuncSrc, nd ast.Node) []string {
			as, ok := nd.(*ast.AssignStmt)
			if !ok {
				return nil
			}
			for i, l := range as.Lhs {
				id := identOf(l)
				if id == nil {
					continue
				}
				o := info.Defs[id]
				if o == nil {
					o = info.Uses[id]
				}
				if o == sel && i < len(as.Rhs) {
					if v := ConstVal(info, as.Rhs[i]); v != nil && v.String() == "0" {
						return []string{"select:head"}
					}
					return []string{"select:other"}
				}
			}
			return nil
		},
		Edge: func(s *FuncSrc, cond ast.Expr, truth bool) []string {
			if call, ok := cond.(*ast.CallExpr); ok && sameFunc(Callee(info, call), isOldest) && truth {
				return []string{"@isOldest"}
			}
			return nil
		}}
	res := fl.Analyze(fs)
	n := 0
	for _, s := range res.Of("select:other") {
		n++
		c.Obl(rule, "PriorityQueue.Get: a later message is selected only when it is the oldest of its transaction id", p.Pos(s.Node), s.Before.Has("@isOldest"),
			"a message that is not at the head of the queue can be selected on a path where isOldest was not (definitely) true: it overtakes an earlier message with the same id")
	}
	c.Floor(rule, n, 1, "selections of a non-head message in PriorityQueue.Get")
}

package main

// Rules added after the sixth round of seeded changes (C40.6, C40.7, C34.6).

import (
	"go/ast"
	"go/types"

	"golang.org/x/tools/go/cfg"
)

// checkWorkerTaskBinding (C40.6): a pooled worker serves tasks of different connections and
// sessions; before it runs a task's handler it points its write buffer at that task's
// connection and session id — on every iteration of its loop.
func checkWorkerTaskBinding(c *Ctx, rule string) {
	p := c.P
	fs := c.method(rule, "dbms/mux", "Workers", "worker")
	connF := p.Field("dbms/mux", "WriteBuf", "conn")
	idF := p.Field("dbms/mux", "WriteBuf", "id")
	hF := p.Field("dbms/mux", "Workers", "h")
	taskC := p.Field("dbms/mux", "task", "c")
	taskID := p.Field("dbms/mux", "task", "id")
	if fs == nil || !c.need(rule, "mux.WriteBuf.conn", connF) || !c.need(rule, "mux.WriteBuf.id", idF) || !c.need(rule, "mux.Workers.h", hF) ||
		!c.need(rule, "mux.task.c", taskC) || !c.need(rule, "mux.task.id", taskID) {
		return
	}
	info := fs.Info()
	store := func(f, from *types.Var, label string) Ev {
		return Ev{label, func(_ *FuncSrc, nd ast.Node) bool {
			as, ok := nd.(*ast.AssignStmt)
			if !ok || len(as.Lhs) != 1 || len(as.Rhs) != 1 || lhsField(info, as.Lhs[0], false) != f {
				return false
			}
			found := false
			ast.Inspect(as.Rhs[0], func(m ast.Node) bool {
				if e, ok := m.(ast.Expr); ok && FieldOf(info, e) == from {
					found = true
				}
				return true
			})
			return found
		}}
	}
	handler := Ev{"handler", func(_ *FuncSrc, nd ast.Node) bool {
		call, ok := nd.(*ast.CallExpr)
		return ok && FieldOf(info, call.Fun) == hF
	}}
	fl := &Flow{P: p, Node: Labeler(store(connF, taskC, "conn=task"), store(idF, taskID, "id=task"), handler),
		BlockEntry: func(_ *FuncSrc, b *cfg.Block) []string {
			if b.Kind == cfg.KindForBody || b.Kind == cfg.KindRangeBody {
				return []string{"-conn=task", "-id=task"}
			}
			return nil
		}}
	res := fl.Analyze(fs)
	sites := res.Of("handler")
	c.Floor(rule, len(sites), 1, "handler calls of the worker loop")
	for _, s := range sites {
		c.Obl(rule, "Workers.worker: the write buffer is bound to the task's connection and session before the task runs, for every task", p.Pos(s.Node),
			s.Before.Has("conn=task") && s.Before.Has("id=task"),
			"a pooled worker that is reused for a task of another connection / session answers on the connection (session) of the task it served before: the asking session gets no answer and another one gets a response it did not ask for")
	}
}

// checkHandlerResultsUsed (C40.7): a server command handler does not throw away what the
// database operation it ran returned (the client-side stub returns what the handler sends).
func checkHandlerResultsUsed(c *Ctx, rule string) {
	p := c.P
	n := 0
	ifaces := map[string]bool{"IDbms": true, "ITran": true, "IQuery": true, "ICursor": true, "IQueryCursor": true}
	for _, fs := range p.FuncsIn("dbms") {
		if fs.Body == nil || fs.Obj == nil {
			continue
		}
		sig := fs.Obj.Type().(*types.Signature)
		if sig.Recv() != nil || sig.Params().Len() != 1 {
			continue
		}
		if nt := c17NamedOf(sig.Params().At(0).Type()); nt == nil || nt.Obj().Name() != "serverSession" {
			continue
		}
		info := fs.Info()
		par := parentMap(fs.Body)
		ast.Inspect(fs.Body, func(nd ast.Node) bool {
			call, ok := nd.(*ast.CallExpr)
			if !ok {
				return true
			}
			cal := Callee(info, call)
			if cal == nil {
				return true
			}
			csig, _ := cal.Type().(*types.Signature)
			if csig == nil || csig.Recv() == nil || csig.Results().Len() == 0 {
				return true
			}
			rn := c17NamedOf(csig.Recv().Type())
			if rn == nil || rn.Obj().Pkg() == nil || rn.Obj().Pkg().Name() != "core" || !ifaces[rn.Obj().Name()] {
				return true
			}
			n++
			_, dropped := par[call].(*ast.ExprStmt)
			if fs.name == "dbms.cmdAbort" && cal.Name() == "Abort" {
				// frozen exception: the Abort response of the protocol carries no result (the client stub
				// answers ""); Abort reports a failure only for a transaction that has already ended
				c.Note("%s: dbms.cmdAbort discards ITran.Abort's result by protocol design (frozen exception)", rule)
				return true
			}
			c.Obl(rule, fs.name+": the result of "+rn.Obj().Name()+"."+cal.Name()+" is used", p.Pos(call), !dropped,
				"the handler discards what the operation returned and answers with something else: through the protocol the call returns a different value than directly on the database")
			return true
		})
	}
	c.Floor(rule, n, 20, "value-returning database operations in server handlers")
}

// checkTimestampFetchUnderLock (C34.6): the client's slow path keeps tsLock from the decision to
// fetch a new batch until the batch is installed — the request to the server is made with the
// lock held (otherwise two threads fetch at once and the older answer overwrites the newer batch).
func checkTimestampFetchUnderLock(c *Ctx, rule string) {
	p := c.P
	fs := c.method(rule, "core", "Thread", "Timestamp")
	lock := p.GlobalVar("core", "tsLock")
	ts := p.IfaceMethod("core", "IDbms", "Timestamp")
	if fs == nil || !c.need(rule, "core.tsLock", lock) || !c.need(rule, "core.IDbms.Timestamp", ts) {
		return
	}
	info := fs.Info()
	onLock := func(name string) func(*FuncSrc, ast.Node) bool {
		return func(_ *FuncSrc, nd ast.Node) bool {
			call, ok := nd.(*ast.CallExpr)
			if !ok {
				return false
			}
			sel, ok := call.Fun.(*ast.SelectorExpr)
			return ok && sel.Sel.Name == name && ObjOf(info, sel.X) == types.Object(lock)
		}
	}
	fl := &Flow{P: p, Node: func(s *FuncSrc, nd ast.Node) []string {
		if _, isDefer := nd.(*ast.DeferStmt); isDefer {
			return nil
		}
		switch {
		case onLock("Lock")(s, nd):
			return []string{"held"}
		case onLock("Unlock")(s, nd):
			return []string{"-held"}
		}
		if call, ok := nd.(*ast.CallExpr); ok && sameFunc(Callee(info, call), ts) {
			return []string{"fetch"}
		}
		return nil
	}, NoSummary: func(*types.Func) bool { return true }}
	res := fl.Analyze(fs)
	sites := res.Of("fetch")
	c.Floor(rule, len(sites), 1, "server timestamp requests in Thread.Timestamp")
	for _, s := range sites {
		c.Obl(rule, "Thread.Timestamp asks the server for a new batch while holding tsLock", p.Pos(s.Node), s.Before.Has("held"),
			"tsLock is released around the request: two threads of one client can fetch at the same time and the answer that arrives last (possibly the older one) replaces the newer batch, so a thread gets a timestamp smaller than one already handed out")
	}
}

#!/bin/bash
# usage: baseline.sh <worktree>  — runs the repository's test command there and compares with the stable baseline
D=${1:-/repo}
export TMPDIR=/tmp/gsv-baseline-tmp-$(basename $D); mkdir -p $TMPDIR
cd $D && go test -mod=mod -p 4 -json -vet=off -count=1 -timeout 25m ./... > $TMPDIR/baseline.json 2>/dev/null
python3 - $TMPDIR/baseline.json <<'PY'
import json,sys
b=json.load(open('/root/.vp/BASELINE.json'))
stable=set(b['stable_pass'])
passed=set()
for l in open(sys.argv[1]):
    try: e=json.loads(l)
    except: continue
    if e.get('Action')=='pass' and e.get('Test'):
        passed.add(e['Package']+'::'+e['Test'])
missing=sorted(stable-passed)
print("stable:",len(stable),"passed now:",len(passed),"stable tests not passing:",len(missing))
for m in missing[:40]: print("  MISSING",m)
PY
rm -rf $TMPDIR

package main

import (
	"fmt"
	"go/ast"
	"go/token"
	"go/types"
	"sort"
	"strings"
)

func init() { register("C01", checkC01, "./db19/...") }

// db19 anchors shared by several properties
type db19A struct {
	ovInsert, ovDelete, ovUpdate, ovLookup *types.Func
	utRead, utCk                           *types.Func
	ckRead, ckOutput, ckDelete, ckUpdate   *types.Func // Checker interface methods
	mutators                               []*FuncSrc  // functions of db19 that mutate an index overlay
}

func getDb19(c *Ctx, rule string) *db19A {
	p := c.P
	a := &db19A{
		ovInsert: p.DeclaredMethod("db19/index", "Overlay", "Insert"),
		ovDelete: p.DeclaredMethod("db19/index", "Overlay", "Delete"),
		ovUpdate: p.DeclaredMethod("db19/index", "Overlay", "Update"),
		ovLookup: p.DeclaredMethod("db19/index", "Overlay", "Lookup"),
		utRead:   p.DeclaredMethod("db19", "UpdateTran", "Read"),
		utCk:     p.DeclaredMethod("db19", "UpdateTran", "ck"),
		ckRead:   p.IfaceMethod("db19", "Checker", "Read"),
		ckOutput: p.IfaceMethod("db19", "Checker", "Output"),
		ckDelete: p.IfaceMethod("db19", "Checker", "Delete"),
		ckUpdate: p.IfaceMethod("db19", "Checker", "Update"),
	}
	ok := true
	for n, f := range map[string]*types.Func{"index.Overlay.Insert": a.ovInsert, "index.Overlay.Delete": a.ovDelete,
		"index.Overlay.Update": a.ovUpdate, "index.Overlay.Lookup": a.ovLookup, "db19.UpdateTran.Read": a.utRead,
		"db19.UpdateTran.ck": a.utCk, "db19.Checker.Read": a.ckRead, "db19.Checker.Output": a.ckOutput,
		"db19.Checker.Delete": a.ckDelete, "db19.Checker.Update": a.ckUpdate} {
		if f == nil {
			c.Missing(rule, n)
			ok = false
		}
	}
	if !ok {
		return nil
	}
	m := p.FuncsWith([]string{"db19"}, CallOf("", a.ovInsert, a.ovDelete, a.ovUpdate))
	for fs := range m {
		a.mutators = append(a.mutators, fs)
	}
	sort.Slice(a.mutators, func(i, j int) bool { return a.mutators[i].name < a.mutators[j].name })
	return a
}

// ckChecked matches t.ck(<Checker method call>)
func ckChecked(a *db19A, label string, m *types.Func) Ev {
	return Ev{label, func(fs *FuncSrc, n ast.Node) bool {
		call, ok := n.(*ast.CallExpr)
		if !ok || !sameFunc(Callee(fs.Info(), call), a.utCk) || len(call.Args) != 1 {
			return false
		}
		inner, ok := ast.Unparen(call.Args[0]).(*ast.CallExpr)
		return ok && sameFunc(Callee(fs.Info(), inner), m)
	}}
}

func checkC01(c *Ctx) string {
	p := c.P
	a := getDb19(c, "C01.0 anchors")
	if a == nil {
		return "anchors missing"
	}

	// ---- 1. iterator read registration
	r1 := "C01.1 K5 iterator movement registers the range it moved over"
	curKey := p.Field("db19/index", "OverIter", "curKey")
	stateF := p.Field("db19/index", "OverIter", "state")
	rngF := p.Field("db19/index", "OverIter", "rng")
	oiRead := p.IfaceMethod("db19/index", "oiTran", "Read")
	eofC := p.ConstObj("db19/index", "eof")
	if c.need(r1, "index.OverIter.curKey", curKey) && c.need(r1, "index.oiTran.Read", oiRead) &&
		c.need(r1, "index.OverIter.state", stateF) && c.need(r1, "index.OverIter.rng", rngF) && c.need(r1, "index.eof", eofC) {
		movers := p.FuncsWith([]string{"db19/index"}, StoreTo("", false, curKey))
		var ms []*FuncSrc
		for fs := range movers {
			ms = append(ms, fs)
		}
		sort.Slice(ms, func(i, j int) bool { return ms[i].name < ms[j].name })
		nreg := 0
		for _, fs := range ms {
			if fs.name == "db19/index.(*OverIter).Rewind" {
				// frozen exception: Rewind resets the position, reads nothing, has no transaction
				lit := false
				ForEachNode(fs, func(n ast.Node) {
					if as, ok := n.(*ast.AssignStmt); ok && lhsField(fs.Info(), as.Lhs[0], false) == curKey {
						if bl, ok := as.Rhs[0].(*ast.BasicLit); ok && bl.Value == `""` {
							lit = true
						}
					}
				})
				c.Obl(r1, "exception Rewind only clears the position", p.Pos(fs.Decl), lit, "Rewind stores something other than \"\" to curKey")
				continue
			}
			isEofStore := Ev{"state=eof", func(f *FuncSrc, n ast.Node) bool {
				as, ok := n.(*ast.AssignStmt)
				if !ok || len(as.Lhs) != 1 || lhsField(f.Info(), as.Lhs[0], false) != stateF {
					return false
				}
				return ObjOf(f.Info(), as.Rhs[0]) == types.Object(eofC)
			}}
			fl := &Flow{P: p, Depth: 0, Node: Labeler(StoreTo("curKey=", false, curKey), CallOf("Read", oiRead), isEofStore)}
			res := fl.Analyze(fs)
			for _, s := range res.Of("curKey=") {
				nreg++
				c.Obl(r1, fs.name+": store of the position is followed by t.Read on every normal path", p.Pos(s.Node), s.Follows("Read"),
					"a path moves the iterator and returns without registering the range with the transaction (phantom reads become invisible to the conflict checker)")
			}
			// the end-of-range registration: after state=eof the Read must cover to the range bound
			for _, s := range res.Of("state=eof") {
				c.Obl(r1, fs.name+": reaching the end registers a read up to the range bound", p.Pos(s.Node), s.Follows("Read"),
					"the iterator reaches eof without registering the gap to the end of its range")
			}
			// shape of the registered range
			for _, s := range res.Of("Read") {
				call := s.Node.(*ast.CallExpr)
				ok, why := readArgsShape(p, fs, call, curKey, rngF, s.Before.Has("state=eof"))
				c.Obl(r1, fs.name+": registered range spans previous position to new position / range bound", p.Pos(call), ok, why)
			}
		}
		c.Floor(r1, nreg, 4, "position stores in OverIter movers")
	}

	// ---- 2. point lookups of update transactions are registered
	r2 := "C01.2 K6 point lookups of an update transaction are registered"
	rtLookup := p.DeclaredMethod("db19", "ReadTran", "Lookup")
	rtFkExists := p.DeclaredMethod("db19", "ReadTran", "fkeyOutputExists")
	if c.need(r2, "db19.ReadTran.Lookup", rtLookup) && c.need(r2, "db19.ReadTran.fkeyOutputExists", rtFkExists) {
		n := 0
		for _, m := range p.MethodsOf("db19", "UpdateTran") {
			fs := p.Src(m)
			if fs == nil || fs.Body == nil {
				continue
			}
			fl := &Flow{P: p, Depth: 1, Node: Labeler(CallOf("lookup", a.ovLookup, rtLookup, rtFkExists), CallOf("Read", a.utRead))}
			res := fl.Analyze(fs)
			for _, s := range res.Of("lookup") {
				if !s.Direct {
					continue
				}
				n++
				ok := s.Before.Has("Read") || s.Follows("Read")
				c.Obl(r2, fs.name+": lookup paired with UpdateTran.Read", p.Pos(s.Node), ok,
					"an index lookup in an update transaction can return normally without telling the checker which key was read")
			}
		}
		c.Floor(r2, n, 3, "lookups in UpdateTran methods")
	}

	// ---- 3. silent readers
	checkSilentScans(c, a, "C01.3 K6+K9 iterators driven with a non-registering transaction are registered by hand")

	// ---- 4. overrides
	r4 := "C01.4 K15 UpdateTran overrides the non-tracking ReadTran methods"
	for _, m := range []string{"Read", "Lookup", "IndexIter", "fkeyOutputExists", "Output", "Delete", "Update", "Asof",
		"ReadCount", "WriteCount", "Complete", "Abort", "Num", "String"} {
		f := p.DeclaredMethod("db19", "UpdateTran", m)
		c.Obl(r4, "UpdateTran declares "+m, "", f != nil,
			"method "+m+" is no longer declared on *UpdateTran: calls are promoted to the embedded ReadTran, whose version does not track / refuses")
	}
	simple := p.Func("db19/index", "NewSimpleIter")
	if c.need(r4, "index.NewSimpleIter", simple) {
		c.Callers("C01.4 K3 the non-tracking SimpleIter is created only for read transactions", []*types.Func{simple},
			[]string{"db19.(*ReadTran).IndexIter"}, 1)
	}

	// ---- 5. write registration
	r5 := "C01.5 K4+K8 every index write is preceded by a checked checker call"
	nmut := 0
	for _, fs := range a.mutators {
		fl := &Flow{P: p, Depth: 0, Node: Labeler(
			CallOf("ov.Insert", a.ovInsert), CallOf("ov.Delete", a.ovDelete), CallOf("ov.Update", a.ovUpdate),
			ckChecked(a, "ck(Output)", a.ckOutput), ckChecked(a, "ck(Delete)", a.ckDelete), ckChecked(a, "ck(Update)", a.ckUpdate))}
		res := fl.Analyze(fs)
		need := map[string][]string{"ov.Insert": {"ck(Output)", "ck(Update)"}, "ov.Delete": {"ck(Delete)", "ck(Update)"}, "ov.Update": {"ck(Update)"}}
		for _, l := range []string{"ov.Insert", "ov.Delete", "ov.Update"} {
			for _, s := range res.Of(l) {
				nmut++
				c.Obl(r5, fs.name+": "+l+" dominated by t.ck(checker call)", p.Pos(s.Node), s.Before.HasAny(need[l]...),
					fmt.Sprintf("the index is changed on a path where none of %v has been executed: the conflict checker never sees this write, or its verdict is ignored", need[l]))
			}
		}
	}
	c.Floor(r5, nmut, 5, "overlay mutations in db19")
	// results of the Checker's Read/Output/Delete/Update are never dropped
	nck := 0
	for _, fs := range p.FuncsIn("db19") {
		if fs.Body == nil {
			continue
		}
		parents := parentMap(fs.Body)
		ForEachNode(fs, func(n ast.Node) {
			call, ok := n.(*ast.CallExpr)
			if !ok {
				return
			}
			cal := Callee(fs.Info(), call)
			if !sameFunc(cal, a.ckRead) && !sameFunc(cal, a.ckOutput) && !sameFunc(cal, a.ckDelete) && !sameFunc(cal, a.ckUpdate) {
				return
			}
			nck++
			par, _ := parents[call].(*ast.CallExpr)
			ok = par != nil && sameFunc(Callee(fs.Info(), par), a.utCk)
			c.Obl("C01.5 K8 verdict of the checker is passed to UpdateTran.ck", fs.name+": "+cal.Name(), p.Pos(call), ok,
				"the boolean verdict of the conflict checker is not handed to UpdateTran.ck (which aborts the operation)")
		})
	}
	c.Floor("C01.5 K8 verdict of the checker is passed to UpdateTran.ck", nck, 4, "Checker calls in db19")

	// ---- 6. conflict matrix wiring
	checkC01Matrix(c, "C01.6 K13+K4 conflict matrix wiring of the checker")
	checkKeysLoopCoverage(c, "C01.6b K18 per-index conflict tests range over the keys themselves")

	// ---- 7. commit serialisation
	r7 := "C01.7 K3+K2 commits are applied one at a time by the checker goroutine"
	utCommit := p.DeclaredMethod("db19", "UpdateTran", "commit")
	dispatch := p.DeclaredMethod("db19", "Check", "dispatch")
	checkerFn := p.Func("db19", "checker")
	if c.need(r7, "db19.UpdateTran.commit", utCommit) && c.need(r7, "db19.Check.dispatch", dispatch) && c.need(r7, "db19.checker", checkerFn) {
		c.Callers(r7, []*types.Func{utCommit}, []string{"db19.(*Check).dispatch", "db19.(*Database).CommitMerge"}, 1)
		c.Callers(r7, []*types.Func{dispatch}, []string{"db19.checker"}, 1)
		c.Callers(r7, []*types.Func{checkerFn}, []string{"db19.StartCheckCo"}, 1)
		// CommitMerge is a test helper: never called in non-test code
		if cm := p.DeclaredMethod("db19", "Database", "CommitMerge"); cm != nil {
			c.Callers(r7+" (CommitMerge is test-only)", []*types.Func{cm}, []string{}, 0)
		}
		if sc := p.Func("db19", "StartCheckCo"); sc != nil {
			// started exactly once per StartCheckCo, with go
			fs := p.Src(sc)
			ngo := 0
			ForEachNode(fs, func(n ast.Node) {
				if g, ok := n.(*ast.GoStmt); ok && sameFunc(Callee(fs.Info(), g.Call), checkerFn) {
					ngo++
				}
			})
			c.Obl(r7, "StartCheckCo starts exactly one checker goroutine", p.Pos(fs.Decl), ngo == 1, fmt.Sprintf("%d go statements start the checker", ngo))
		}
	}
	seq := p.Field("db19", "Check", "seq")
	end := p.Field("db19", "CkTran", "end")
	actv := p.Field("db19", "Check", "actvTran")
	cmtd := p.Field("db19", "Check", "cmtdTran")
	ckNext := p.DeclaredMethod("db19", "Check", "next")
	ckCommit := p.DeclaredMethod("db19", "Check", "commit")
	if c.need(r7, "db19.Check.seq", seq) && c.need(r7, "db19.CkTran.end", end) && c.need(r7, "db19.Check.actvTran", actv) &&
		c.need(r7, "db19.Check.cmtdTran", cmtd) && c.need(r7, "db19.Check.next", ckNext) && c.need(r7, "db19.Check.commit", ckCommit) {
		c.Writers(r7, "Check.seq", []string{"db19"}, StoreTo("", false, seq), []string{"db19.(*Check).next"}, 1)
		c.Writers(r7, "CkTran.end", []string{"db19"}, StoreTo("", false, end), []string{"db19.(*Check).commit"}, 1)
		fs := p.Src(ckCommit)
		defs := buildDefs(fs)
		evEnd := Ev{"end=next()", func(f *FuncSrc, n ast.Node) bool {
			as, ok := n.(*ast.AssignStmt)
			if !ok || len(as.Lhs) != 1 || lhsField(f.Info(), as.Lhs[0], false) != end {
				return false
			}
			return defs.MentionsEv(f, as.Rhs[0], CallOf("", ckNext))
		}}
		evDelActv := Ev{"delete(actvTran)", func(f *FuncSrc, n ast.Node) bool {
			call, ok := n.(*ast.CallExpr)
			return ok && IsBuiltin(f.Info(), call, "delete") && len(call.Args) == 2 && FieldOf(f.Info(), call.Args[0]) == actv
		}}
		fl := &Flow{P: p, Node: Labeler(evEnd, evDelActv, StoreTo("cmtdTran[]=", true, cmtd))}
		res := fl.Analyze(fs)
		c.RequireBefore(r7+" (commit time assigned before the move)", res, "delete(actvTran)", 1, "end=next()")
		c.RequireBefore(r7+" (commit time assigned before the move)", res, "cmtdTran[]=", 1, "end=next()")
		c.RequireBefore(r7+" (removed from active before listed as committed)", res, "cmtdTran[]=", 1, "delete(actvTran)")
	}
	// ---- 8. the checker's ordered sets
	checkBoundedSlotReads(c, "C01.8 K4c the checker's read/write sets compare a slot only inside their size (every written key is recorded)")
	return "Static wiring of the optimistic concurrency control: every store of an OverIter position is followed on all normal paths by a read registration whose range spans " +
		"old position..new position (or ..range bound at eof); point lookups in UpdateTran methods are paired with UpdateTran.Read; scans driven by the non-registering fkeyTran " +
		"register by hand; UpdateTran declares (does not inherit) the tracking methods; every Overlay.Insert/Delete/Update in db19 is dominated by t.ck(Checker.X(...)); the conflict " +
		"matrix of Check.Read/Output/Delete/Update consults the sets the documented table requires and reaches abort1of; commit is called only from the checker goroutine and " +
		"assigns the commit time before moving the transaction. Not decided: correctness of ranges/ordset, overlap(), the abort choice."
}

func parentMap(root ast.Node) map[ast.Node]ast.Node {
	m := map[ast.Node]ast.Node{}
	var stack []ast.Node
	ast.Inspect(root, func(n ast.Node) bool {
		if n == nil {
			stack = stack[:len(stack)-1]
			return false
		}
		if len(stack) > 0 {
			p := stack[len(stack)-1]
			if pe, ok := p.(*ast.ParenExpr); ok {
				_ = pe
			}
			m[n] = p
		}
		stack = append(stack, n)
		return true
	})
	// skip parentheses
	for n, p := range m {
		for {
			pe, ok := p.(*ast.ParenExpr)
			if !ok {
				break
			}
			p = m[pe]
		}
		m[n] = p
	}
	return m
}

// iterDirection: +1 if fs drives the underlying iterators forward (references
// iface.Iter.Next only), -1 if backward (Prev only), 0 if it cannot be told.
func iterDirection(p *Prog, fs *FuncSrc) int {
	itNext := p.IfaceMethod("db19/index/iface", "Iter", "Next")
	itPrev := p.IfaceMethod("db19/index/iface", "Iter", "Prev")
	if itNext == nil || itPrev == nil {
		return 0
	}
	n, pv := 0, 0
	ForEachNode(fs, func(nd ast.Node) {
		sel, ok := nd.(*ast.SelectorExpr)
		if !ok {
			return
		}
		if s := fs.Info().Selections[sel]; s != nil {
			if f, ok := s.Obj().(*types.Func); ok {
				if sameFunc(f, itNext) {
					n++
				}
				if sameFunc(f, itPrev) {
					pv++
				}
			}
		}
	})
	switch {
	case n > 0 && pv == 0:
		return 1
	case pv > 0 && n == 0:
		return -1
	}
	return 0
}

// readArgsShape: t.Read(oi.table, oi.iIndex, from, to) must span, in key order,
// forward:  (previous position | range origin) .. (new position | range end)
// backward: (new position | range origin) .. (previous position | range end)
// A range registered the wrong way round (from > to) matches nothing in the checker.
func readArgsShape(p *Prog, fs *FuncSrc, call *ast.CallExpr, curKey, rng *types.Var, atEof bool) (bool, string) {
	if len(call.Args) != 4 {
		return false, "unexpected arity"
	}
	info := fs.Info()
	defs := buildDefs(fs)
	org := p.Field("db19/index/iface", "Range", "Org")
	end := p.Field("db19/index/iface", "Range", "End")
	isCur := func(e ast.Expr) bool { return FieldOf(info, e) == curKey }
	boundOf := func(e ast.Expr) *types.Var {
		sel, ok := ast.Unparen(e).(*ast.SelectorExpr)
		if !ok || FieldOf(info, sel.X) != rng {
			return nil
		}
		return FieldOf(info, sel)
	}
	// prevLike: a local/parameter holding the previous position; wrong = the range bound it must not derive from
	prevLike := func(e ast.Expr, wrong *types.Var) bool {
		id, ok := ast.Unparen(e).(*ast.Ident)
		if !ok {
			return false
		}
		o := info.Uses[id]
		v, ok := o.(*types.Var)
		if !ok || v.IsField() {
			return false
		}
		if len(defs.defs[o]) == 0 {
			return true // parameter (fastNext/fastPrev receive it from Next/Prev)
		}
		okDef := defs.Mentions(info, id, func(n ast.Node) bool {
			x, ok := n.(ast.Expr)
			return ok && (isCur(x) || boundOf(x) != nil)
		})
		bad := wrong != nil && defs.Mentions(info, id, func(n ast.Node) bool {
			x, ok := n.(ast.Expr)
			return ok && boundOf(x) == wrong
		})
		return okDef && !bad
	}
	from, to := call.Args[2], call.Args[3]
	dir := iterDirection(p, fs)
	fwd := func() bool {
		if atEof {
			return prevLike(from, end) && boundOf(to) == end && end != nil
		}
		return prevLike(from, end) && isCur(to)
	}
	bwd := func() bool {
		if atEof {
			return boundOf(from) == org && org != nil && prevLike(to, org)
		}
		return isCur(from) && prevLike(to, org)
	}
	what := "between the previous and the new position"
	if atEof {
		what = "from the previous position to the bound of the iterator's range"
	}
	switch dir {
	case 1:
		if fwd() {
			return true, ""
		}
		return false, "moving forward the registered range must run " + what + " in ascending key order (from = previous position); got (" + exprStr(from) + ", " + exprStr(to) + ")"
	case -1:
		if bwd() {
			return true, ""
		}
		return false, "moving backward the registered range must run " + what + " in ascending key order (to = previous position); got (" + exprStr(from) + ", " + exprStr(to) + "): a range with from > to matches nothing in the conflict checker"
	}
	if fwd() || bwd() {
		return true, ""
	}
	return false, "the registered range must run " + what + "; got (" + exprStr(from) + ", " + exprStr(to) + ")"
}

// checkSilentScans: the set of oiTran implementations whose Read registers nothing is
// frozen, and every iterator move driven with the non-registering fkeyTran is paired
// with an explicit UpdateTran.Read.
func checkSilentScans(c *Ctx, a *db19A, r3 string) {
	p := c.P
	oiTran := p.NamedType("db19/index", "oiTran")
	if c.need(r3, "index.oiTran", oiTran) {
		iface := oiTran.Underlying().(*types.Interface)
		var silent []string
		silentT := map[string]types.Type{}
		for _, pk := range p.Pkgs {
			sc := pk.Types.Scope()
			for _, nm := range sc.Names() {
				tn, ok := sc.Lookup(nm).(*types.TypeName)
				if !ok || tn.IsAlias() {
					continue
				}
				for _, t := range []types.Type{tn.Type(), types.NewPointer(tn.Type())} {
					if _, isI := tn.Type().Underlying().(*types.Interface); isI {
						continue
					}
					if !types.Implements(t, iface) {
						continue
					}
					obj, _, _ := types.LookupFieldOrMethod(t, true, pk.Types, "Read")
					f, _ := obj.(*types.Func)
					fs := p.Src(f)
					if fs != nil && fs.Body != nil && len(fs.Body.List) == 0 {
						name := pkgShort(pk.PkgPath) + "." + nm
						if silentT[name] == nil {
							silentT[name] = tn.Type()
							silent = append(silent, name)
						}
					}
					break
				}
			}
		}
		sort.Strings(silent)
		// dbms/query.testTran is test support (testdb.go): tolerated, not required
		silent = slicesDelete(silent, "dbms/query.testTran")
		want := []string{"db19.ReadTran", "db19.fkeyTran"}
		c.Obl(r3, "types whose Read registers nothing", "", fmt.Sprint(silent) == fmt.Sprint(want),
			fmt.Sprintf("non-registering implementations of oiTran are %v, confirmed %v: UpdateTran would be silent if its Read override disappeared; a new silent type needs a by-hand registration rule", silent, want))
		// every Next/Prev call with a fkeyTran argument
		oiNext := p.DeclaredMethod("db19/index", "OverIter", "Next")
		oiPrev := p.DeclaredMethod("db19/index", "OverIter", "Prev")
		fkT := p.NamedType("db19", "fkeyTran")
		if c.need(r3, "index.OverIter.Next", oiNext) && c.need(r3, "index.OverIter.Prev", oiPrev) && c.need(r3, "db19.fkeyTran", fkT) {
			evSilentMove := Ev{"silentmove", func(fs *FuncSrc, n ast.Node) bool {
				call, ok := n.(*ast.CallExpr)
				if !ok || len(call.Args) != 1 {
					return false
				}
				cal := Callee(fs.Info(), call)
				if !sameFunc(cal, oiNext) && !sameFunc(cal, oiPrev) {
					return false
				}
				t := fs.Info().TypeOf(call.Args[0])
				return t != nil && types.Identical(t, fkT)
			}}
			users := p.FuncsWith([]string{"db19"}, evSilentMove)
			var us []*FuncSrc
			for fs := range users {
				us = append(us, fs)
			}
			sort.Slice(us, func(i, j int) bool { return us[i].name < us[j].name })
			n := 0
			for _, fs := range us {
				fl := &Flow{P: p, Depth: 2, Node: Labeler(evSilentMove, CallOf("Read", a.utRead))}
				res := fl.Analyze(fs)
				for _, s := range res.Of("silentmove") {
					n++
					ok := s.Before.Has("Read") || s.Follows("Read")
					c.Obl(r3, fs.name+": scan with fkeyTran registers its range with UpdateTran.Read", p.Pos(s.Node), ok,
						"a foreign-key scan moves an iterator with the non-registering fkeyTran and no UpdateTran.Read is guaranteed on the path")
				}
			}
			c.Floor(r3, n, 5, "iterator moves with fkeyTran")
		}
	}

}

// ---- conflict matrix

func checkC01Matrix(c *Ctx, r6 string) {
	p := c.P
	outputs := p.Field("db19", "actions", "outputs")
	deletes := p.Field("db19", "actions", "deletes")
	reads := p.Field("db19", "actions", "reads")
	actv := p.Field("db19", "Check", "actvTran")
	excl := p.Field("db19", "Check", "exclusive")
	anyIn := p.DeclaredMethod("db19", "ckwrites", "anyInRange")
	contains := p.DeclaredMethod("db19", "ckreads", "contains")
	abort1of := p.DeclaredMethod("db19", "Check", "abort1of")
	gotUpdate := p.DeclaredMethod("db19", "Check", "gotUpdate")
	overlap := p.Func("db19", "overlap")
	saveRead := p.DeclaredMethod("db19", "Check", "saveRead")
	saveOutput := p.DeclaredMethod("db19", "Check", "saveOutput")
	saveDelete := p.DeclaredMethod("db19", "Check", "saveDelete")
	readConflict := p.Field("db19", "CkTran", "readConflict")
	for n, v := range map[string]any{"actions.outputs": outputs, "actions.deletes": deletes, "actions.reads": reads, "Check.actvTran": actv,
		"Check.exclusive": excl, "ckwrites.anyInRange": anyIn, "ckreads.contains": contains, "Check.abort1of": abort1of, "Check.gotUpdate": gotUpdate,
		"overlap": overlap, "Check.saveRead": saveRead, "Check.saveOutput": saveOutput, "Check.saveDelete": saveDelete, "CkTran.readConflict": readConflict} {
		if !c.need(r6, "db19."+n, v) {
			return
		}
	}
	recvField := func(fs *FuncSrc, call *ast.CallExpr) *types.Var {
		sel, ok := ast.Unparen(call.Fun).(*ast.SelectorExpr)
		if !ok {
			return nil
		}
		return FieldOf(fs.Info(), sel.X)
	}
	onField := func(label string, m *types.Func, f *types.Var) Ev {
		return Ev{label, func(fs *FuncSrc, n ast.Node) bool {
			call, ok := n.(*ast.CallExpr)
			return ok && sameFunc(Callee(fs.Info(), call), m) && recvField(fs, call) == f
		}}
	}
	idxOf := func(label string, f *types.Var) Ev {
		return Ev{label, func(fs *FuncSrc, n ast.Node) bool {
			ix, ok := n.(*ast.IndexExpr)
			return ok && FieldOf(fs.Info(), ix.X) == f
		}}
	}
	evs := []Ev{
		onField("outputs.anyInRange", anyIn, outputs), onField("deletes.anyInRange", anyIn, deletes),
		onField("reads.contains", contains, reads), CallOf("abort1of", abort1of), CallOf("gotUpdate", gotUpdate),
		CallOf("overlap", overlap), idxOf("actvTran[]", actv), idxOf("exclusive[]", excl),
		CallOf("saveRead", saveRead), CallOf("saveOutput", saveOutput), CallOf("saveDelete", saveDelete),
	}
	edge := func(fs *FuncSrc, cond ast.Expr, truth bool) []string {
		// t.readConflict != ""  (the "already in conflict, read-only so far" early exit)
		if be, ok := cond.(*ast.BinaryExpr); ok && (be.Op == token.NEQ || be.Op == token.EQL) {
			if FieldOf(fs.Info(), be.X) == readConflict || FieldOf(fs.Info(), be.Y) == readConflict {
				if (be.Op == token.NEQ) == truth {
					return []string{"@readConflict!=\"\""}
				}
			}
		}
		// result of abort1of / gotUpdate / membership
		if call, ok := cond.(*ast.CallExpr); ok {
			if sameFunc(Callee(fs.Info(), call), abort1of) && truth {
				return []string{"@abort1of"}
			}
		}
		return nil
	}
	type want struct {
		fn       string
		present  []string // must occur in the function
		beforeOK []string // must dominate every return that can be true
		save     []string
	}
	for _, w := range []want{
		{"Read", []string{"outputs.anyInRange", "deletes.anyInRange", "abort1of", "overlap", "saveRead"}, []string{"actvTran[]"}, []string{"saveRead"}},
		{"Output", []string{"reads.contains", "abort1of", "overlap", "saveOutput"}, []string{"gotUpdate", "actvTran[]", "exclusive[]"}, []string{"saveOutput"}},
		{"Delete", []string{"reads.contains", "abort1of", "overlap", "saveDelete"}, []string{"gotUpdate", "actvTran[]", "exclusive[]"}, []string{"saveDelete"}},
		{"Update", []string{"reads.contains", "abort1of", "overlap", "saveDelete", "saveOutput"}, []string{"gotUpdate", "actvTran[]", "exclusive[]"}, []string{"saveDelete", "saveOutput"}},
	} {
		fs := c.method(r6, "db19", "Check", w.fn)
		if fs == nil {
			continue
		}
		fl := &Flow{P: p, Node: Labeler(evs...), Edge: edge}
		res := fl.Analyze(fs)
		for _, l := range w.present {
			c.Obl(r6, "Check."+w.fn+" consults "+l, p.Pos(fs.Decl), len(res.Of(l)) > 0,
				"Check."+w.fn+" no longer contains "+l+": the corresponding cell of the conflict table (db19/check.go header) is not checked")
		}
		// the result of abort1of is tested and leads to 'return false'
		for _, s := range res.Of("abort1of") {
			par := parentMap(fs.Body)[s.Node]
			_, inIf := par.(*ast.IfStmt)
			c.Obl(r6, "Check."+w.fn+": verdict of abort1of is tested", p.Pos(s.Node), inIf, "the result of abort1of (this transaction was aborted) is not tested")
		}
		for _, r := range res.Returns {
			if r.Fn != fs || len(r.Node.Results) != 1 {
				continue
			}
			if v := ConstVal(fs.Info(), r.Node.Results[0]); v != nil && v.String() == "false" {
				continue
			}
			if r.Before.Has("@readConflict!=\"\"") && w.fn == "Read" {
				continue // documented early exit: conflict already recorded, transaction read-only so far
			}
			for _, b := range w.beforeOK {
				c.Obl(r6, "Check."+w.fn+": "+b+" dominates a successful return", p.Pos(r.Node), r.Before.Has(b),
					"Check."+w.fn+" can report success without "+b)
			}
			// the action is saved on the successful return (in the return expression or before)
			saved := true
			for _, sv := range w.save {
				in := false
				ast.Inspect(r.Node, func(n ast.Node) bool {
					if call, ok := n.(*ast.CallExpr); ok {
						cal := Callee(fs.Info(), call)
						if cal != nil && strings.HasPrefix(sv, "save") && cal.Name() == sv && cal.Pkg().Path() == fs.Pkg.PkgPath {
							in = true
						}
					}
					return true
				})
				if !in && !r.Before.Has(sv) {
					saved = false
				}
			}
			c.Obl(r6, "Check."+w.fn+": action recorded on the successful return", p.Pos(r.Node), saved,
				fmt.Sprintf("Check.%s can report success without %v: later transactions cannot conflict with this action", w.fn, w.save))
		}
	}
	// abort: failure stored before removal (shared with C03.4) is in C03
}

package main

// C06 indexes agree with the table, C07 key/unique constraints, C08 foreign keys,
// C44 triggers: all anchored in the mutating methods of db19.UpdateTran.

import (
	"fmt"
	"go/ast"
	"go/constant"
	"go/token"
	"go/types"
	"sort"
	"strings"

	"golang.org/x/tools/go/cfg"
)

func init() {
	register("C06", checkC06, "./db19/...")
	register("C07", checkC07, "./db19/...")
	register("C08", checkC08, "./db19/...", "./dbms/query/...")
	register("C44", checkC44, "./db19/...", "./core/...")
}

// enclosingLoops returns the loops (innermost first) around node n in fs.
func enclosingLoops(par map[ast.Node]ast.Node, n ast.Node) []ast.Stmt {
	var out []ast.Stmt
	for p := par[n]; p != nil; p = par[p] {
		switch l := p.(type) {
		case *ast.RangeStmt:
			out = append(out, l)
		case *ast.ForStmt:
			out = append(out, l)
		case *ast.FuncLit:
			// keep going: an immediately invoked literal is part of the enclosing loop
			_ = l
		}
	}
	return out
}

// loopOverField: loop is `for i := range X.f` / `for i, v := range X.f` /
// `for i := 0; i < len(X.f); i++` with f one of fields; returns the induction variable.
func loopOverField(info *types.Info, loop ast.Stmt, fields ...*types.Var) types.Object {
	is := func(e ast.Expr) bool {
		f := FieldOf(info, e)
		for _, g := range fields {
			if f != nil && f == g {
				return true
			}
		}
		return false
	}
	switch l := loop.(type) {
	case *ast.RangeStmt:
		if !is(l.X) {
			return nil
		}
		if id, ok := l.Key.(*ast.Ident); ok {
			return info.Defs[id]
		}
	case *ast.ForStmt:
		be, ok := l.Cond.(*ast.BinaryExpr)
		if !ok || be.Op != token.LSS {
			return nil
		}
		call, ok := ast.Unparen(be.Y).(*ast.CallExpr)
		if !ok || !IsBuiltin(info, call, "len") || !is(call.Args[0]) {
			return nil
		}
		if id, ok := ast.Unparen(be.X).(*ast.Ident); ok {
			return info.Uses[id]
		}
	}
	return nil
}

// indexedBy: e (after resolving one level of single-definition locals) is X[i] with i == iv;
// returns X.
func indexedBy(info *types.Info, defs *defIndex, e ast.Expr, iv types.Object) ast.Expr {
	e = ast.Unparen(e)
	if id, ok := e.(*ast.Ident); ok {
		if o := info.Uses[id]; o != nil && len(defs.defs[o]) == 1 {
			e = ast.Unparen(defs.defs[o][0])
		}
	}
	ix, ok := e.(*ast.IndexExpr)
	if !ok {
		return nil
	}
	id, ok := ast.Unparen(ix.Index).(*ast.Ident)
	if !ok || info.Uses[id] != iv {
		return nil
	}
	return ix.X
}

type tranAnchors struct {
	*db19A
	schemaIdx  *types.Var // schema.Schema.Indexes
	infoIdx    *types.Var // meta.Info.Indexes
	dupBlock   *types.Func
	fkOutBlock *types.Func
	fkDelBlock *types.Func
	fkDelCasc  *types.Func
	fkUpdCasc  *types.Func
	callTrig   *types.Func
}

func getTranAnchors(c *Ctx, rule string) *tranAnchors {
	a := getDb19(c, rule)
	if a == nil {
		return nil
	}
	p := c.P
	t := &tranAnchors{db19A: a,
		schemaIdx:  p.Field("db19/meta/schema", "Schema", "Indexes"),
		infoIdx:    p.Field("db19/meta", "Info", "Indexes"),
		dupBlock:   p.DeclaredMethod("db19", "UpdateTran", "dupOutputBlock"),
		fkOutBlock: p.DeclaredMethod("db19", "UpdateTran", "fkeyOutputBlock"),
		fkDelBlock: p.DeclaredMethod("db19", "UpdateTran", "fkeyDeleteBlock"),
		fkDelCasc:  p.DeclaredMethod("db19", "UpdateTran", "fkeyDeleteCascade"),
		fkUpdCasc:  p.DeclaredMethod("db19", "UpdateTran", "fkeyUpdateCascade"),
		callTrig:   p.DeclaredMethod("db19", "triggers", "CallTrigger"),
	}
	ok := c.need(rule, "schema.Schema.Indexes", t.schemaIdx) && c.need(rule, "meta.Info.Indexes", t.infoIdx) &&
		c.need(rule, "db19.UpdateTran.dupOutputBlock", t.dupBlock) && c.need(rule, "db19.UpdateTran.fkeyOutputBlock", t.fkOutBlock) &&
		c.need(rule, "db19.UpdateTran.fkeyDeleteBlock", t.fkDelBlock) && c.need(rule, "db19.UpdateTran.fkeyDeleteCascade", t.fkDelCasc) &&
		c.need(rule, "db19.UpdateTran.fkeyUpdateCascade", t.fkUpdCasc) && c.need(rule, "db19.triggers.CallTrigger", t.callTrig)
	if !ok {
		return nil
	}
	return t
}

// keyCmpEdge labels the comparison oldkeys[i] ==/!= newkeys[i] (two different slices,
// same index) as @same / @diff, and every other condition as @cond:<text>.
func keyCmpEdge(fs *FuncSrc, cond ast.Expr, truth bool) []string {
	if be, ok := cond.(*ast.BinaryExpr); ok && (be.Op == token.EQL || be.Op == token.NEQ) {
		x, okx := ast.Unparen(be.X).(*ast.IndexExpr)
		y, oky := ast.Unparen(be.Y).(*ast.IndexExpr)
		if okx && oky && exprStr(x.Index) == exprStr(y.Index) && exprStr(x.X) != exprStr(y.X) {
			if (be.Op == token.EQL) == truth {
				return []string{"@same"}
			}
			return []string{"@diff"}
		}
	}
	return []string{condLabel(cond, truth)}
}

var condByPos = map[string]ast.Expr{}

// condLabel is the generic branch fact "@cond:T|F:<pos>:<text>"; the expression is
// remembered so that rules can evaluate it instead of looking at its text.
func condLabel(cond ast.Expr, truth bool) string {
	t := "T"
	if !truth {
		t = "F"
	}
	condByPos[fmt.Sprintf("%d:%s", cond.Pos(), exprStr(cond))] = cond
	return fmt.Sprintf("@cond:%s:%d:%s", t, cond.Pos(), exprStr(cond))
}

type brFact struct {
	Truth bool
	Expr  ast.Expr
}

func (f brFact) String() string {
	if f.Truth {
		return "T:" + exprStr(f.Expr)
	}
	return "F:" + exprStr(f.Expr)
}

// condFactsOf lists the generic branch facts in s whose condition lies inside node
// within (nil = anywhere).
func condFactsOf(s Set, within ast.Node) []brFact {
	var out []brFact
	for l := range s {
		if !strings.HasPrefix(l, "@cond:") {
			continue
		}
		parts := strings.SplitN(l, ":", 4)
		if len(parts) != 4 {
			continue
		}
		var pos int
		fmt.Sscan(parts[2], &pos)
		if within != nil && (token.Pos(pos) < within.Pos() || token.Pos(pos) > within.End()) {
			continue
		}
		e := condByPos[parts[2]+":"+parts[3]]
		if e == nil {
			continue
		}
		out = append(out, brFact{parts[1] == "T", e})
	}
	sort.Slice(out, func(i, j int) bool { return out[i].Expr.Pos() < out[j].Expr.Pos() })
	return out
}

// mentionsField: e contains a selection of field f.
func mentionsField(info *types.Info, e ast.Expr, f *types.Var) bool {
	found := false
	ast.Inspect(e, func(n ast.Node) bool {
		if x, ok := n.(ast.Expr); ok && FieldOf(info, x) == f {
			found = true
		}
		return !found
	})
	return found
}

// evalWithField evaluates a condition with field f bound to the integer v.
func evalWithField(info *types.Info, e ast.Expr, f *types.Var, v int64) (bool, bool) {
	env := &AbsEnv{Info: info, Atom: func(x ast.Expr) (constant.Value, bool) {
		if FieldOf(info, x) == f {
			return constant.MakeInt64(v), true
		}
		return nil, false
	}}
	r := env.expr(e)
	if r == nil || r.Kind() != constant.Bool {
		return false, false
	}
	return constant.BoolVal(r), true
}

// perIteration returns a BlockEntry hook that kills the given labels on entry to the
// body of every loop over the schema's index list.
func perIteration(t *tranAnchors, labels ...string) func(fs *FuncSrc, b *cfg.Block) []string {
	return perIterationOver(t.schemaIdx, labels...)
}

func perIterationOver(field *types.Var, labels ...string) func(fs *FuncSrc, b *cfg.Block) []string {
	return func(fs *FuncSrc, b *cfg.Block) []string {
		if b.Kind != cfg.KindRangeBody && b.Kind != cfg.KindForBody {
			return nil
		}
		if loopOverField(fs.Info(), b.Stmt, field) == nil {
			return nil
		}
		out := make([]string, len(labels))
		for i, l := range labels {
			out[i] = "-" + l
		}
		return out
	}
}

func mutatorLabeler(t *tranAnchors) func(*FuncSrc, ast.Node) []string {
	return Labeler(
		CallOf("ov.Insert", t.ovInsert), CallOf("ov.Delete", t.ovDelete), CallOf("ov.Update", t.ovUpdate),
		ckChecked(t.db19A, "ck(Output)", t.ckOutput), ckChecked(t.db19A, "ck(Delete)", t.ckDelete), ckChecked(t.db19A, "ck(Update)", t.ckUpdate),
		CallOf("dupOutputBlock", t.dupBlock), CallOf("fkeyOutputBlock", t.fkOutBlock), CallOf("fkeyDeleteBlock", t.fkDelBlock),
		CallOf("fkeyDeleteCascade", t.fkDelCasc), CallOf("fkeyUpdateCascade", t.fkUpdCasc), CallOf("CallTrigger", t.callTrig),
		CallOf("Read", t.utRead),
	)
}

// ---------------------------------------------------------------- C06

func checkC06(c *Ctx) string {
	p := c.P
	t := getTranAnchors(c, "C06.0 anchors")
	if t == nil {
		return "anchors missing"
	}
	r1 := "C06.1 K18 every row change touches every index of the table"
	nm := 0
	for _, fs := range t.mutators {
		par := parentMap(fs.Body)
		defs := buildDefs(fs)
		info := fs.Info()
		fl := &Flow{P: p, Node: mutatorLabeler(t), Edge: keyCmpEdge, BlockEntry: perIteration(t, "ov.Insert", "ov.Delete", "ov.Update", "mut"),
			Implies: map[string][]string{"ov.Insert": {"mut"}, "ov.Delete": {"mut"}, "ov.Update": {"mut"}}}
		res := fl.Analyze(fs)
		mutLoops := map[ast.Stmt]bool{}
		for _, s := range append(append(res.Of("ov.Insert"), res.Of("ov.Delete")...), res.Of("ov.Update")...) {
			nm++
			call := s.Node.(*ast.CallExpr)
			loops := enclosingLoops(par, call)
			var iv types.Object
			var loop ast.Stmt
			if len(loops) > 0 {
				loop = loops[0]
				iv = loopOverField(info, loop, t.schemaIdx)
			}
			c.Obl(r1, fs.name+": "+s.Label+" sits directly in a loop over the schema's index list", p.Pos(call), iv != nil,
				"the index mutation is not inside a loop over ts.Indexes (innermost loop is not over Schema.Indexes): some index of the table is not maintained")
			if iv == nil {
				continue
			}
			mutLoops[loop] = true
			sel := call.Fun.(*ast.SelectorExpr)
			base := indexedBy(info, defs, sel.X, iv)
			c.Obl(r1, fs.name+": "+s.Label+" receiver is Info.Indexes[i] for the loop variable", p.Pos(call), base != nil && FieldOf(info, base) == t.infoIdx,
				"the overlay mutated is not ti.Indexes[i] with i the loop variable over ts.Indexes")
			kb := indexedBy(info, defs, callArg(call, 0), iv)
			c.Obl(r1, fs.name+": "+s.Label+" key is keys[i] for the same loop variable", p.Pos(call), kb != nil,
				"the key passed to the index is not selected by the loop variable: index i would receive the key of another index")
		}
		// every iteration of such a loop performs a mutation; no early exit from the loop
		for _, le := range res.Loops {
			if !mutLoops[le.Loop] {
				continue
			}
			switch le.Kind {
			case "back":
				c.Obl(r1, fs.name+": every iteration of the index loop mutates its index", p.Pos(le.Loop), le.Before.Has("mut"),
					"an iteration of the per-index loop can finish (continue / conditional) without changing that index")
			case "break":
				c.Obl(r1, fs.name+": the index loop is not left early", p.Pos(le.Loop), false, "break out of the per-index mutation loop leaves the remaining indexes unchanged")
			}
		}
		for _, r := range res.Returns {
			for l := range mutLoops {
				if l.Pos() <= r.Node.Pos() && r.Node.End() <= l.End() && r.Node.Pos() != token.NoPos {
					c.Obl(r1, fs.name+": no return from inside the index loop", p.Pos(r.Node), false, "return inside the per-index mutation loop leaves the remaining indexes unchanged")
				}
			}
		}
		// 2. update: same key => Update, else Delete + Insert
		r2 := "C06.2 K6 an updated row keeps one entry per index: same key ⇒ update in place, else delete + insert"
		if len(res.Of("ov.Update")) > 0 {
			for _, s := range res.Of("ov.Update") {
				c.Obl(r2, fs.name+": Overlay.Update only when the key is unchanged", p.Pos(s.Node), s.Before.Has("@same"), "Overlay.Update (which keeps the key) is used on a path where old and new key were not compared equal")
			}
			for _, s := range res.Of("ov.Delete") {
				c.Obl(r2, fs.name+": old key deleted only when the key changed, and the new key is inserted", p.Pos(s.Node),
					s.Before.Has("@diff") && (s.Follows("ov.Insert") || s.Before.Has("ov.Insert")), "delete of the old entry without the insert of the new entry on the changed-key branch")
			}
			for _, s := range res.Of("ov.Insert") {
				c.Obl(r2, fs.name+": new key inserted only together with the delete of the old key", p.Pos(s.Node),
					s.Before.Has("@diff") && (s.Before.Has("ov.Delete") || s.Follows("ov.Delete")), "insert of the new entry without deleting the old entry")
			}
		}
	}
	c.Floor(r1, nm, 5, "index mutations in UpdateTran")

	// 3. meta.Apply: Apply2 for every element of ti.Indexes, stored back, on a clone
	r3 := "C06.3 K18+K4 merge/persist results are applied to every index"
	if fs := c.function(r3, "db19/meta", "Apply"); fs != nil {
		par := parentMap(fs.Body)
		info := fs.Info()
		n := 0
		ForEachNode(fs, func(nd ast.Node) {
			call, ok := nd.(*ast.CallExpr)
			if !ok {
				return
			}
			cal := Callee(info, call)
			if cal == nil || cal.Name() != "Apply2" {
				return
			}
			n++
			loops := enclosingLoops(par, call)
			var iv types.Object
			if len(loops) > 0 {
				iv = loopOverField(info, loops[0], t.infoIdx)
			}
			c.Obl(r3, "Apply2 is called in a loop over ti.Indexes", p.Pos(call), iv != nil, "Apply2 is not applied to every index of the table")
			as, isAs := par[call].(*ast.AssignStmt)
			okStore := false
			if isAs && iv != nil && len(as.Lhs) == 1 {
				if ix, ok := as.Lhs[0].(*ast.IndexExpr); ok && FieldOf(info, ix.X) == t.infoIdx {
					if id, ok := ix.Index.(*ast.Ident); ok && info.Uses[id] == iv {
						okStore = true
					}
				}
			}
			c.Obl(r3, "result of Apply2 is stored back to ti.Indexes[i]", p.Pos(call), okStore, "the merged/saved overlay is not stored back into the table's index list")
		})
		c.Floor(r3, n, 1, "Apply2 calls in meta.Apply")
		// Indexes cloned before element stores
		clone := p.Func("util/slc", "Clone")
		fl := &Flow{P: p, Node: Labeler(
			Ev{"Indexes=Clone", func(f *FuncSrc, nd ast.Node) bool {
				as, ok := nd.(*ast.AssignStmt)
				if !ok || len(as.Lhs) != 1 || FieldOf(f.Info(), as.Lhs[0]) != t.infoIdx {
					return false
				}
				call, ok := as.Rhs[0].(*ast.CallExpr)
				return ok && sameFunc(Callee(f.Info(), call), clone)
			}},
			Ev{"Indexes[i]=", func(f *FuncSrc, nd ast.Node) bool {
				as, ok := nd.(*ast.AssignStmt)
				if !ok {
					return false
				}
				for _, l := range as.Lhs {
					if ix, ok := l.(*ast.IndexExpr); ok && FieldOf(f.Info(), ix.X) == t.infoIdx {
						return true
					}
				}
				return false
			}})}
		fl.BlockEntry = perIterationOver(t.infoIdx, "Indexes[i]=")
		res := fl.Analyze(fs)
		c.RequireBefore(r3+" (on a private copy of the index list)", res, "Indexes[i]=", 1, "Indexes=Clone")
		nback := 0
		for _, le := range res.Loops {
			if loopOverField(fs.Info(), le.Loop, t.infoIdx) == nil {
				continue
			}
			if le.Kind == "back" {
				nback++
				c.Obl(r3, "every iteration of the loop over ti.Indexes stores the applied overlay", p.Pos(le.Loop), le.Before.Has("Indexes[i]="),
					"an iteration can finish without storing the merged/saved overlay: that index keeps its old layers while the deltas were already folded")
			} else {
				c.Obl(r3, "the loop over ti.Indexes is not left early", p.Pos(le.Loop), false, "break in the apply loop")
			}
		}
		c.Floor(r3, nback, 1, "loops over ti.Indexes in meta.Apply")
	}
	// 4. bulk builders: overlay for every new index; Builder.Add result used
	r4 := "C06.4 K8+K18 bulk index builders cover every index and honour the builder's verdict"
	checkBuilderAddUsed(c, r4)
	// 5. writers that predate an exclusive period (index build on a populated table) are refused by all three write actions
	checkC01Matrix(c, "C06.5 K9 all write actions of the checker refuse transactions that predate an exclusive index build")
	// 6. persisted key composition of existing indexes
	checkBestKeyStability(c, "C06.6 K2+K11 BestKey is computed only for indexes being added")
	checkDropIndexesLockstep(c, "C06.9 K18 dropping indexes filters schema and overlays in lockstep")
	// 7. a failing index mutation kills the transaction
	checkMutationAbortWrapper(c, t, "C06.7 K4 index mutations run under recover→Abort→re-panic")
	return "Static shape of index maintenance: every Overlay.Insert/Delete/Update in UpdateTran is ti.Indexes[i].m(keys[i],…) directly inside a loop over the schema's index list with the same " +
		"induction variable, every iteration mutates, the loop is never left early; in update the same-key branch uses Update and the changed-key branch Delete+Insert; meta.Apply applies Apply2 " +
		"to every index on a cloned list and stores the result back; bulk builders use the result of Builder.Add. Not decided: key computation, merge algorithms."
}

func checkBuilderAddUsed(c *Ctx, rule string) {
	p := c.P
	add := p.DeclaredMethod("db19/index/btree", "Builder", "Add")
	if !c.need(rule, "btree.Builder.Add", add) {
		return
	}
	n := 0
	for _, fs := range p.AllSrcs {
		if fs.Body == nil || fs.Lit != nil {
			continue
		}
		calls := p.CallsIn(fs, add)
		if len(calls) == 0 {
			continue
		}
		par := parentMap(fs.Body)
		for _, call := range calls {
			n++
			_, dropped := par[call].(*ast.ExprStmt)
			tested := false
			switch pn := par[call].(type) {
			case *ast.IfStmt:
				tested = true
			case *ast.UnaryExpr:
				_, tested = par[pn].(*ast.IfStmt)
			case *ast.AssignStmt:
				tested = len(pn.Lhs) == 1 && exprStr(pn.Lhs[0]) != "_"
			case *ast.ReturnStmt:
				tested = true
			}
			c.Obl(rule, fs.name+": result of Builder.Add (false = duplicate / out of order) is used", p.Pos(call), !dropped && tested,
				"the bulk index builder's verdict is ignored: duplicate keys would be written into a key index")
		}
	}
	c.Floor(rule, n, 2, "calls of btree.Builder.Add")
}

// ---------------------------------------------------------------- C07

func checkC07(c *Ctx) string {
	p := c.P
	t := getTranAnchors(c, "C07.0 anchors")
	if t == nil {
		return "anchors missing"
	}
	r1 := "C07.1 K4 duplicate check and read registration for every index before the checker sees the output"
	nrows := p.Field("db19/meta", "Info", "Nrows")
	ndup := 0
	for _, fs := range t.mutators {
		fl := &Flow{P: p, Node: combine(mutatorLabeler(t), Labeler(PanicCall("panic"))), Edge: keyCmpEdge, BlockEntry: perIteration(t, "dupOutputBlock", "Read", "dupok"),
			Implies: map[string][]string{"dupOutputBlock": {"dupok"}, "@same": {"dupok"}, "Read": {"dupok"}}}
		res := fl.Analyze(fs)
		hasInsert := len(res.Of("ov.Insert")) > 0
		if !hasInsert {
			continue // a pure delete cannot create a duplicate
		}
		isUpdate := len(res.Of("ov.Update")) > 0 || len(res.Of("ov.Delete")) > 0
		ckl := "ck(Output)"
		if isUpdate {
			ckl = "ck(Update)"
		}
		dupLoops := map[ast.Stmt]bool{}
		par := parentMap(fs.Body)
		for _, s := range res.Of("dupOutputBlock") {
			ndup++
			loops := enclosingLoops(par, s.Node)
			iv := types.Object(nil)
			if len(loops) > 0 {
				iv = loopOverField(fs.Info(), loops[0], t.schemaIdx)
				dupLoops[loops[0]] = true
			}
			call := s.Node.(*ast.CallExpr)
			c.Obl(r1, fs.name+": dupOutputBlock runs in the loop over the schema's indexes with that loop's variable", p.Pos(s.Node),
				iv != nil && len(call.Args) >= 2 && fs.Info().Uses[identOf(call.Args[1])] == iv, "the duplicate check is not performed per index")
			c.Obl(r1, fs.name+": duplicate check happens before the checker call and the checker call always follows", p.Pos(s.Node),
				!s.Before.Has(ckl) && s.Follows(ckl), "the duplicate check is after (or not followed by) "+ckl)
			var loop0 ast.Node
			if len(loops) > 0 {
				loop0 = loops[0]
			}
			facts := condFactsOf(s.Before, loop0)
			if isUpdate {
				c.Obl(r1, fs.name+": duplicate check guarded only by 'key changed'", p.Pos(s.Node), s.Before.Has("@diff") && len(facts) == 0,
					fmt.Sprintf("in update the duplicate check must run exactly when the key changed; guards seen: @diff=%v, other=%v", s.Before.Has("@diff"), facts))
			} else {
				// Output: the duplicate check is the else-arm of the empty-key test (a conjunction, so no
				// single condition is known false there); any definite guard means it can be skipped
				// (the conjunction itself is known false there; it must be false for every index with columns)
				var unexpected []brFact
				for _, f := range facts {
					if !f.Truth && emptyKeyTestOnly(p, fs.Info(), f.Expr) {
						continue
					}
					unexpected = append(unexpected, f)
				}
				c.Obl(r1, fs.name+": duplicate check unconditional except for the empty-key case", p.Pos(s.Node), len(unexpected) == 0, fmt.Sprintf("unexpected guards %v", unexpected))
			}
		}
		for _, le := range res.Loops {
			if !dupLoops[le.Loop] || le.Kind != "back" {
				if dupLoops[le.Loop] && le.Kind == "break" {
					c.Obl(r1, fs.name+": the constraint loop is not left early", p.Pos(le.Loop), false, "break out of the per-index constraint loop")
				}
				continue
			}
			ok := le.Before.Has("dupok")
			c.Obl(r1, fs.name+": every iteration checks for duplicates (or the key is unchanged / the empty key is handled)", p.Pos(le.Loop), ok,
				"an iteration of the per-index loop finishes without a duplicate check")
		}
		// empty-key branch: Nrows > 0 ⇒ panic, then Read("", "")
		if !isUpdate && c.need(r1, "meta.Info.Nrows", nrows) {
			nEmpty := 0
			for _, s := range res.Of("Read") {
				call := s.Node.(*ast.CallExpr)
				if len(call.Args) == 4 && isEmptyStr(fs.Info(), call.Args[2]) && isEmptyStr(fs.Info(), call.Args[3]) {
					nEmpty++
					// dominated by the false edge of a test on Nrows that is true exactly when a row exists
					guard := false
					for _, f := range condFactsOf(s.Before, nil) {
						if f.Truth || !mentionsField(fs.Info(), f.Expr, nrows) {
							continue
						}
						v0, ok0 := evalWithField(fs.Info(), f.Expr, nrows, 0)
						v1, ok1 := evalWithField(fs.Info(), f.Expr, nrows, 1)
						v2, ok2 := evalWithField(fs.Info(), f.Expr, nrows, 2)
						if ok0 && ok1 && ok2 && !v0 && v1 && v2 {
							guard = true
						}
					}
					c.Obl(r1, fs.name+": empty key: a second row is refused before the whole-index read is registered", p.Pos(s.Node), guard,
						"the empty-key branch registers its read without first refusing (test true for Nrows>=1, false for 0) when the table already has a row")
				}
			}
			c.Floor(r1, nEmpty, 1, "empty-key branches in "+fs.name)
			np := 0
			for _, s := range res.Of("panic") {
				for _, f := range condFactsOf(s.Before, nil) {
					if f.Truth && mentionsField(fs.Info(), f.Expr, nrows) {
						np++
					}
				}
			}
			c.Obl(r1, fs.name+": empty key: the refusal is a panic on the true edge of the row-count test", p.Pos(fs.Decl), np >= 1, "no panic guarded by the Nrows test")
		}
	}
	c.Floor(r1, ndup, 2, "dupOutputBlock call sites")
	checkDupRecArg(c, t, "C07.1b K11 the duplicate check judges the record whose key it checks")

	// 2. dupOutputBlock itself
	r2 := "C07.2 K4c dupOutputBlock: needsDupCheck ⇒ lookup ⇒ panic on hit, read registered on miss"
	needs := p.Func("db19", "needsDupCheck")
	if fs := c.src(r2, t.dupBlock, "db19.UpdateTran.dupOutputBlock"); fs != nil && c.need(r2, "db19.needsDupCheck", needs) {
		fl := &Flow{P: p, Node: Labeler(CallOf("Lookup", t.ovLookup), CallOf("Read", t.utRead), PanicCall("panic"), CallOf("needsDupCheck", needs)),
			Edge: func(f *FuncSrc, cond ast.Expr, truth bool) []string {
				tf := map[bool]string{true: "T", false: "F"}[truth]
				if call, ok := cond.(*ast.CallExpr); ok && sameFunc(Callee(f.Info(), call), needs) {
					return []string{"@needs:" + tf}
				}
				if be, ok := cond.(*ast.BinaryExpr); ok && (be.Op == token.NEQ || be.Op == token.EQL) {
					for _, pr := range [][2]ast.Expr{{be.X, be.Y}, {be.Y, be.X}} {
						if call, ok := ast.Unparen(pr[0]).(*ast.CallExpr); ok && sameFunc(Callee(f.Info(), call), t.ovLookup) {
							if v := ConstVal(f.Info(), pr[1]); v != nil && v.String() == "0" {
								if (be.Op == token.NEQ) == truth {
									return []string{"@found"}
								}
								return []string{"@notfound"}
							}
						}
					}
				}
				_ = tf
				return []string{condLabel(cond, truth)}
			}}
		res := fl.Analyze(fs)
		for _, s := range res.Of("Lookup") {
			c.Obl(r2, "lookup is performed whenever needsDupCheck says so", p.Pos(s.Node), s.Before.Has("@needs:T") && len(condFactsOf(s.Before, nil)) == 0,
				fmt.Sprintf("extra guards before the duplicate lookup: %v", condFactsOf(s.Before, nil)))
			c.Obl(r2, "after the lookup every normal path registers the point read", p.Pos(s.Node), s.Follows("Read"),
				"dupOutputBlock can return normally after the lookup without registering the point read that protects uniqueness against concurrent inserts")
		}
		for _, s := range res.Of("Read") {
			c.Obl(r2, "the read is registered on the not-found edge of the lookup", p.Pos(s.Node), s.Before.Has("@notfound") || s.Before.Has("Lookup"), "")
		}
		c.Floor(r2, len(res.Of("Lookup")), 1, "Overlay.Lookup in dupOutputBlock")
		np := 0
		for _, s := range res.Of("panic") {
			if s.Before.Has("@found") {
				np++
			}
		}
		c.Obl(r2, "a found key panics (duplicate key)", p.Pos(fs.Decl), np >= 1, "no panic on the edge where the lookup found an existing entry")
		_ = res.Returns
	}

	// 3. needsDupCheck truth table
	r3 := "C07.3 K14 needsDupCheck truth table"
	if fs := c.src(r3, needs, "db19.needsDupCheck"); fs != nil {
		primary := p.Field("db19/meta/schema", "Index", "Primary")
		mode := p.Field("db19/meta/schema", "Index", "Mode")
		contains := p.Field("db19/meta/schema", "Index", "ContainsKey")
		empty := p.Func("db19", "uniqueIndexEmpty")
		if c.need(r3, "schema.Index.Primary", primary) && c.need(r3, "schema.Index.Mode", mode) && c.need(r3, "schema.Index.ContainsKey", contains) && c.need(r3, "db19.uniqueIndexEmpty", empty) {
			n, bad := 0, []string{}
			for _, pr := range []bool{false, true} {
				for _, md := range []byte{'k', 'i', 'u'} {
					for _, ck := range []bool{false, true} {
						for _, em := range []bool{false, true} {
							if pr && md != 'k' {
								continue // Primary is only set for keys (schema.SetupIndexes)
							}
							env := &AbsEnv{Info: fs.Info(), Atom: func(e ast.Expr) (constant.Value, bool) {
								switch FieldOf(fs.Info(), e) {
								case primary:
									return constant.MakeBool(pr), true
								case mode:
									return constant.MakeInt64(int64(md)), true
								case contains:
									return constant.MakeBool(ck), true
								}
								if call, ok := e.(*ast.CallExpr); ok && sameFunc(Callee(fs.Info(), call), empty) {
									return constant.MakeBool(em), true
								}
								return nil, false
							}}
							got := env.run(fs.Body)
							want := pr || (md == 'u' && !ck && !em)
							n++
							if got.Unknown != "" || got.Panics || len(got.Returns) != 1 || got.Returns[0] == nil || constant.BoolVal(got.Returns[0]) != want {
								bad = append(bad, fmt.Sprintf("Primary=%v Mode=%c ContainsKey=%v allEmpty=%v: want %v got %+v", pr, md, ck, em, want, got))
							}
						}
					}
				}
			}
			c.Stats["needsDupCheck_cases"] = n
			c.Obl(r3, "needsDupCheck(ix, rec) == Primary || (Mode=='u' && !ContainsKey && !allEmpty) on all cases", p.Pos(fs.Decl), len(bad) == 0, strings.Join(bad, "; "))
		}
	}
	// 4. bulk builders
	checkBuilderAddUsed(c, "C07.4 K8 bulk index builders refuse duplicates")
	checkSpecFieldsSignAware(c, "C07.6 K4c index field numbers are sign-checked before they address a record")
	checkKeysLoopCoverage(c, "C07.7 K18 per-index conflict tests cover the old and the new keys")
	checkUniqueIndexEmptyFold(c, "C07.8 K14 uniqueIndexEmpty means all fields empty")
	// 5. the checker's write set must be able to hold the empty key
	checkBoundedSlotReads(c, "C07.5 K4c the checker's key sets compare a slot only inside their size (empty keys are recorded)")
	return "Static shape of key enforcement: in every inserting method of UpdateTran the per-index loop runs dupOutputBlock (guarded only by 'key changed' in update, unconditional in Output except the " +
		"empty-key branch, which refuses a second row and registers a whole-index read) before the checker call; dupOutputBlock looks the key up whenever needsDupCheck holds, panics on a hit and registers the point read on a miss; " +
		"needsDupCheck is evaluated over its whole finite input domain against Primary || (unique && !ContainsKey && !allEmpty); Builder.Add's verdict is used. The concurrent part is C01 (write vs. registered read)."
}

func identOf(e ast.Expr) *ast.Ident {
	id, _ := ast.Unparen(e).(*ast.Ident)
	return id
}

func isEmptyStr(info *types.Info, e ast.Expr) bool {
	v := ConstVal(info, e)
	return v != nil && v.Kind() == constant.String && constant.StringVal(v) == ""
}

// ---------------------------------------------------------------- C08

// stmtBefore: in the nearest common enclosing block, the statement containing a comes
// before the one containing b.
func stmtBefore(par map[ast.Node]ast.Node, a, b ast.Node) bool {
	chain := func(n ast.Node) []ast.Node {
		var out []ast.Node
		for ; n != nil; n = par[n] {
			out = append(out, n)
		}
		return out
	}
	ca, cb := chain(a), chain(b)
	// find deepest common ancestor
	i, j := len(ca)-1, len(cb)-1
	for i > 0 && j > 0 && ca[i-1] == cb[j-1] {
		i--
		j--
	}
	if i == 0 || j == 0 {
		return false // one contains the other
	}
	blk, ok := ca[i].(*ast.BlockStmt)
	if !ok {
		return false
	}
	ia, ib := -1, -1
	for k, s := range blk.List {
		if ast.Node(s) == ca[i-1] {
			ia = k
		}
		if ast.Node(s) == cb[j-1] {
			ib = k
		}
	}
	return ia >= 0 && ib >= 0 && ia < ib
}

func checkC08(c *Ctx) string {
	p := c.P
	t := getTranAnchors(c, "C08.0 anchors")
	if t == nil {
		return "anchors missing"
	}
	r1 := "C08.1 K4 foreign-key block/cascade calls are ordered around the checker call for every index"
	n := 0
	for _, fs := range t.mutators {
		par := parentMap(fs.Body)
		blockParam := boolParam(fs) // update(…, block bool): false for cascaded updates
		edge := func(f *FuncSrc, cond ast.Expr, truth bool) []string {
			if id, ok := cond.(*ast.Ident); ok && blockParam != nil && f.Info().Uses[id] == types.Object(blockParam) {
				if truth {
					return []string{"@block"}
				}
				return []string{"@!block"}
			}
			return keyCmpEdge(f, cond, truth)
		}
		fl := &Flow{P: p, Node: mutatorLabeler(t), Edge: edge,
			BlockEntry: perIteration(t, "fkeyOutputBlock", "fkeyDeleteBlock", "fkeyDeleteCascade", "fkeyUpdateCascade", "ok:fkeyOutputBlock", "ok:fkeyDeleteBlock", "ok:fkeyDeleteCascade", "ok:fkeyUpdateCascade"),
			Implies: map[string][]string{"fkeyOutputBlock": {"ok:fkeyOutputBlock"}, "fkeyDeleteBlock": {"ok:fkeyDeleteBlock"}, "fkeyDeleteCascade": {"ok:fkeyDeleteCascade"},
				"fkeyUpdateCascade": {"ok:fkeyUpdateCascade"}}}
		if len(p.CallsIn(fs, t.ovUpdate)) > 0 || (len(p.CallsIn(fs, t.ovInsert)) > 0 && len(p.CallsIn(fs, t.ovDelete)) > 0) {
			// update: unchanged keys need no foreign-key action; cascaded updates (block=false) skip the output test
			fl.Implies["@same"] = []string{"ok:fkeyOutputBlock", "ok:fkeyDeleteBlock", "ok:fkeyUpdateCascade"}
			fl.Implies["@!block"] = []string{"ok:fkeyOutputBlock"}
		}
		res := fl.Analyze(fs)
		ins, del, upd := len(res.Of("ov.Insert")) > 0, len(res.Of("ov.Delete")) > 0, len(res.Of("ov.Update")) > 0
		kind := "update"
		ckl := "ck(Update)"
		if ins && !del && !upd {
			kind, ckl = "insert", "ck(Output)"
		} else if del && !ins && !upd {
			kind, ckl = "delete", "ck(Delete)"
		}
		loopsOf := func(label string) map[ast.Stmt]bool {
			m := map[ast.Stmt]bool{}
			for _, s := range res.Of(label) {
				if ls := enclosingLoops(par, s.Node); len(ls) > 0 && loopOverField(fs.Info(), ls[0], t.schemaIdx) != nil {
					m[ls[0]] = true
				}
			}
			return m
		}
		backOK := func(label string, alt ...string) {
			loops := loopsOf(label)
			c.Obl(r1, fs.name+" ("+kind+"): "+label+" is called in a loop over the schema's indexes", p.Pos(fs.Decl), len(loops) > 0,
				label+" is not called per index in "+fs.name)
			for _, le := range res.Loops {
				if !loops[le.Loop] {
					continue
				}
				if le.Kind == "break" {
					c.Obl(r1, fs.name+": "+label+" loop is not left early", p.Pos(le.Loop), false, "break in the foreign-key loop")
					continue
				}
				ok := le.Before.Has("ok:" + label)
				c.Obl(r1, fs.name+" ("+kind+"): every index passes through "+label, p.Pos(le.Loop), ok,
					"an iteration of the per-index loop finishes without "+label+fmt.Sprintf(" (allowed alternatives %v)", alt))
			}
		}
		before := func(label string) {
			for _, s := range res.Of(label) {
				n++
				c.Obl(r1, fs.name+" ("+kind+"): "+label+" precedes "+ckl+", which always follows", p.Pos(s.Node), !s.Before.Has(ckl) && s.Follows(ckl),
					label+" must veto the change before the checker is told about it and before any index is changed")
			}
		}
		after := func(label string, muts ...string) {
			for _, s := range res.Of(label) {
				n++
				c.Obl(r1, fs.name+" ("+kind+"): "+label+" runs after "+ckl, p.Pos(s.Node), s.Before.Has(ckl), label+" is not dominated by the checked checker call")
				for _, m := range muts {
					for _, ms := range res.Of(m) {
						c.Obl(r1, fs.name+" ("+kind+"): "+label+" runs before the index changes ("+m+")", p.Pos(s.Node), stmtBefore(par, s.Node, ms.Node),
							"the cascade must see the referencing rows through the old key: it has to run before this table's own index entries change")
					}
				}
			}
		}
		switch kind {
		case "insert":
			backOK("fkeyOutputBlock")
			before("fkeyOutputBlock")
		case "delete":
			backOK("fkeyDeleteBlock")
			before("fkeyDeleteBlock")
			backOK("fkeyDeleteCascade")
			after("fkeyDeleteCascade", "ov.Delete")
		default:
			backOK("fkeyDeleteBlock", "@same")
			before("fkeyDeleteBlock")
			backOK("fkeyOutputBlock", "@same", "@!block")
			before("fkeyOutputBlock")
			backOK("fkeyUpdateCascade", "@same")
			after("fkeyUpdateCascade", "ov.Delete", "ov.Insert", "ov.Update")
			for _, l := range []string{"fkeyDeleteBlock", "fkeyOutputBlock", "fkeyUpdateCascade"} {
				for _, s := range res.Of(l) {
					c.Obl(r1, fs.name+" (update): "+l+" only for changed keys", p.Pos(s.Node), s.Before.Has("@diff"), "")
				}
			}
			for _, s := range res.Of("fkeyOutputBlock") {
				var loop0 ast.Node
				if ls := enclosingLoops(par, s.Node); len(ls) > 0 {
					loop0 = ls[0]
				}
				facts := condFactsOf(s.Before, loop0)
				c.Obl(r1, fs.name+" (update): fkeyOutputBlock skipped only for cascaded updates (block=false)", p.Pos(s.Node), len(facts) == 0,
					fmt.Sprintf("unexpected guards %v", facts))
			}
		}
	}
	c.Floor(r1, n, 6, "foreign-key call sites in mutators")

	// ---- 2. mode predicates over the finite domain of Fkey.Mode
	checkC08Modes(c, t)

	// ---- 3. every foreign-key scan registers its range (shared with C01.3)
	checkSilentScans(c, t.db19A, "C08.3 K6 foreign-key scans register the range they looked at")
	checkCascadeValueMapping(c, t, "C08.6 K11 cascaded key values are read by column position in the target table")
	checkBackLinkLoops(c, "C08.7 K4c a back link is skipped only because of its mode", "C08.8 K4 the key for a back link is chosen per link")
	checkBackLinkLiteralsComplete(c, "C08.9 K9 a back link is recorded with all of its fields")
	checkBackLinkStoresIdentified(c, "C08.10 K4c an existing back link is changed only after it was identified")

	// ---- 3/4. cascades recurse through Delete / update (so C06/C07/C44 apply to cascaded rows)
	r4 := "C08.4 K13 cascades go through UpdateTran.Delete / update"
	utDelete := p.DeclaredMethod("db19", "UpdateTran", "Delete")
	utUpdate := p.DeclaredMethod("db19", "UpdateTran", "update")
	if c.need(r4, "db19.UpdateTran.Delete", utDelete) && c.need(r4, "db19.UpdateTran.update", utUpdate) {
		if fs := p.Src(t.fkDelCasc); fs != nil {
			c.Obl(r4, "fkeyDeleteCascade deletes through UpdateTran.Delete", p.Pos(fs.Decl), len(p.CallsIn(fs, utDelete)) > 0, "")
			c.Obl(r4, "fkeyDeleteCascade does not touch overlays directly", p.Pos(fs.Decl), len(p.CallsIn(fs, t.ovDelete, t.ovInsert, t.ovUpdate)) == 0, "")
		}
		if fs := p.Src(t.fkUpdCasc); fs != nil {
			c.Obl(r4, "fkeyUpdateCascade updates through UpdateTran.update", p.Pos(fs.Decl), len(p.CallsIn(fs, utUpdate)) > 0, "")
			c.Obl(r4, "fkeyUpdateCascade does not touch overlays directly", p.Pos(fs.Decl), len(p.CallsIn(fs, t.ovDelete, t.ovInsert, t.ovUpdate)) == 0, "")
		}
	}
	// fkeyOutputBlock: panics when the target does not exist (and key non-empty)
	r5 := "C08.5 K4c fkeyOutputBlock refuses a non-empty key without a target row"
	fkExists := p.DeclaredMethod("db19", "UpdateTran", "fkeyOutputExists")
	if fs := p.Src(t.fkOutBlock); fs != nil && c.need(r5, "db19.UpdateTran.fkeyOutputExists", fkExists) {
		fl := &Flow{P: p, Node: Labeler(PanicCall("panic"), CallOf("exists", fkExists))}
		res := fl.Analyze(fs)
		c.Obl(r5, "fkeyOutputBlock consults fkeyOutputExists and can panic", p.Pos(fs.Decl), len(res.Of("panic")) > 0 && len(res.OfPrefix("exists")) > 0,
			"the output-side foreign key test no longer looks the target up / no longer refuses")
		// evaluate the guard: panic iff key != "" && !exists
		var cond ast.Expr
		ForEachNode(fs, func(nd ast.Node) {
			if is, ok := nd.(*ast.IfStmt); ok {
				for _, st := range is.Body.List {
					if es, ok := st.(*ast.ExprStmt); ok {
						if call, ok := es.X.(*ast.CallExpr); ok && IsBuiltin(fs.Info(), call, "panic") {
							cond = is.Cond
						}
					}
				}
			}
		})
		if cond == nil {
			c.Missing(r5, "guard of the panic in fkeyOutputBlock")
		} else {
			bad := []string{}
			for _, keyEmpty := range []bool{false, true} {
				for _, ex := range []bool{false, true} {
					env := &AbsEnv{Info: fs.Info(), Atom: func(e ast.Expr) (constant.Value, bool) {
						// the key under test: the string-typed local compared in the guard
						if id, ok := e.(*ast.Ident); ok {
							if v, isVar := fs.Info().Uses[id].(*types.Var); isVar && !v.IsField() && types.Identical(v.Type().Underlying(), types.Typ[types.String]) {
								if keyEmpty {
									return constant.MakeString(""), true
								}
								return constant.MakeString("k"), true
							}
						}
						if call, ok := e.(*ast.CallExpr); ok && sameFunc(Callee(fs.Info(), call), fkExists) {
							return constant.MakeBool(ex), true
						}
						return nil, false
					}}
					v := env.expr(cond)
					want := !keyEmpty && !ex
					if v == nil || constant.BoolVal(v) != want {
						bad = append(bad, fmt.Sprintf("keyEmpty=%v targetExists=%v: want blocked=%v got %v", keyEmpty, ex, want, v))
					}
				}
			}
			c.Obl(r5, "output is blocked exactly when the key is non-empty and the target row is missing", p.Pos(cond), len(bad) == 0, strings.Join(bad, "; "))
		}
	}
	return "Static shape of foreign-key enforcement: per-index fkeyOutputBlock / fkeyDeleteBlock before the checker call, fkeyDeleteCascade / fkeyUpdateCascade after it and before the table's own index changes, " +
		"each for every index (loop coverage); finite evaluation of the Mode predicates on the delete path and the key-change path over the set of mode constants the parser can store: every mode must either block or cascade; " +
		"cascades recurse through Delete/update; the output-side guard is evaluated over its 4 cases. Not decided: rangeEnd byte logic, FkToHere maintenance."
}

func checkC08Modes(c *Ctx, t *tranAnchors) {
	p := c.P
	r2 := "C08.2 K1+K14 every foreign-key mode either blocks or cascades"
	modeF := p.Field("db19/meta/schema", "Fkey", "Mode")
	if !c.need(r2, "schema.Fkey.Mode", modeF) {
		return
	}
	blockC, cuC, cdC, cC := p.Const("db19/meta/schema", "Block"), p.Const("db19/meta/schema", "CascadeUpdates"), p.Const("db19/meta/schema", "CascadeDeletes"), p.Const("db19/meta/schema", "Cascade")
	if blockC == nil || cuC == nil || cdC == nil || cC == nil {
		c.Missing(r2, "schema mode constants Block/CascadeUpdates/CascadeDeletes/Cascade")
		return
	}
	i := func(v constant.Value) int64 { n, _ := constant.Int64Val(v); return n }
	c.Obl(r2, "mode constants: Block, CascadeUpdates, CascadeDeletes distinct; Cascade is both bits", "",
		i(blockC) != i(cuC) && i(blockC) != i(cdC) && i(cuC) != i(cdC) && i(cC) == i(cuC)|i(cdC) && i(cuC)&i(cdC) == 0 && i(blockC) == 0,
		"the foreign-key mode constants are no longer a two-bit set with Block == 0")
	// domain: constants stored to Fkey.Mode anywhere in the module
	dom := map[int64]string{}
	for _, fs := range p.AllSrcs {
		if fs.Body == nil || fs.Lit != nil {
			continue
		}
		ForEachNode(fs, func(nd ast.Node) {
			switch s := nd.(type) {
			case *ast.AssignStmt:
				for k, l := range s.Lhs {
					if lhsField(fs.Info(), l, false) == modeF && k < len(s.Rhs) {
						if v := ConstVal(fs.Info(), s.Rhs[k]); v != nil {
							dom[i(v)] = p.Pos(s)
						}
					}
				}
			case *ast.KeyValueExpr:
				if id, ok := s.Key.(*ast.Ident); ok && fs.Info().Uses[id] == types.Object(modeF) {
					if v := ConstVal(fs.Info(), s.Value); v != nil {
						dom[i(v)] = p.Pos(s)
					}
				}
			}
		})
	}
	var ds []int64
	for v := range dom {
		ds = append(ds, v)
	}
	sort.Slice(ds, func(a, b int) bool { return ds[a] < ds[b] })
	c.Floor(r2, len(ds), 3, "distinct mode constants stored to Fkey.Mode")
	c.Stats["fkey_modes_in_domain"] = len(ds)
	name := func(v int64) string {
		switch v {
		case i(blockC):
			return "Block"
		case i(cuC):
			return "CascadeUpdates"
		case i(cdC):
			return "CascadeDeletes"
		case i(cC):
			return "Cascade"
		}
		return fmt.Sprint(v)
	}
	// predicates: conditions mentioning Fkey.Mode in the four functions
	modeConds := func(f *types.Func) []ast.Expr {
		fs := p.Src(f)
		var out []ast.Expr
		if fs == nil {
			return nil
		}
		seen := map[ast.Expr]bool{}
		ForEachNode(fs, func(nd ast.Node) {
			var cond ast.Expr
			switch s := nd.(type) {
			case *ast.IfStmt:
				cond = s.Cond
			}
			if cond == nil || seen[cond] {
				return
			}
			mentions := false
			ast.Inspect(cond, func(m ast.Node) bool {
				if e, ok := m.(ast.Expr); ok && FieldOf(fs.Info(), e) == modeF {
					mentions = true
				}
				return true
			})
			if mentions {
				seen[cond] = true
				out = append(out, cond)
			}
		})
		return out
	}
	// evalMode: value of cond for Mode=m, with every other leaf (calls) assumed "a referencing row exists" = true
	evalMode := func(f *types.Func, cond ast.Expr, m int64) (bool, bool) {
		fs := p.Src(f)
		env := &AbsEnv{Info: fs.Info(), Atom: func(e ast.Expr) (constant.Value, bool) {
			if FieldOf(fs.Info(), e) == modeF {
				return constant.MakeInt64(m), true
			}
			if _, ok := e.(*ast.CallExpr); ok {
				if tv, ok := fs.Info().Types[e]; ok && tv.Type != nil && types.Identical(tv.Type.Underlying(), types.Typ[types.Bool]) {
					return constant.MakeBool(true), true
				}
			}
			return nil, false
		}}
		v := env.expr(cond)
		if v == nil {
			return false, false
		}
		return constant.BoolVal(v), true
	}
	// the guard of a panic: `if cond { panic }` blocks when cond; the guard of a cascade loop:
	// either `if cond { ...cascade... }` or `if cond { continue }` (negated)
	type pred struct {
		fn     *types.Func
		cond   ast.Expr
		negate bool
	}
	classify := func(f *types.Func) (blocks, cascades []pred) {
		fs := p.Src(f)
		for _, cond := range modeConds(f) {
			var is *ast.IfStmt
			ForEachNode(fs, func(nd ast.Node) {
				if s, ok := nd.(*ast.IfStmt); ok && s.Cond == cond {
					is = s
				}
			})
			hasPanic, hasContinue := false, false
			for _, st := range is.Body.List {
				if es, ok := st.(*ast.ExprStmt); ok {
					if call, ok := es.X.(*ast.CallExpr); ok && IsBuiltin(fs.Info(), call, "panic") {
						hasPanic = true
					}
				}
				if br, ok := st.(*ast.BranchStmt); ok && br.Tok == token.CONTINUE {
					hasContinue = true
				}
			}
			switch {
			case hasPanic:
				blocks = append(blocks, pred{f, cond, false})
			case hasContinue:
				cascades = append(cascades, pred{f, cond, true})
			default:
				cascades = append(cascades, pred{f, cond, false})
			}
		}
		return
	}
	delBlocks, _ := classify(t.fkDelBlock)
	_, delCasc := classify(t.fkDelCasc)
	_, updCasc := classify(t.fkUpdCasc)
	c.Obl(r2, "predicates found: one blocking test in fkeyDeleteBlock, one cascade test each in fkeyDeleteCascade and fkeyUpdateCascade", "",
		len(delBlocks) == 1 && len(delCasc) == 1 && len(updCasc) == 1,
		fmt.Sprintf("found %d blocking / %d delete-cascade / %d update-cascade predicates on Fkey.Mode", len(delBlocks), len(delCasc), len(updCasc)))
	if len(delBlocks) != 1 || len(delCasc) != 1 || len(updCasc) != 1 {
		return
	}
	// which path is the block test evaluated on?  fkeyDeleteBlock is shared by the delete
	// path and the key-change path; if it takes a parameter that distinguishes them the
	// call sites' constant arguments are propagated one level.
	paths := []struct {
		name    string
		caller  string
		cascade pred
	}{{"delete of a referenced row", "db19.(*UpdateTran).Delete", delCasc[0]}, {"key change of a referenced row", "db19.(*UpdateTran).update", updCasc[0]}}
	for _, path := range paths {
		for _, m := range ds {
			// constant arguments at the call site of fkeyDeleteBlock in this path's mutator
			fsBlock := p.Src(t.fkDelBlock)
			extra := map[types.Object]constant.Value{}
			for _, fs := range t.mutators {
				if fs.name != path.caller {
					continue
				}
				for _, call := range p.CallsIn(fs, t.fkDelBlock) {
					for k, a := range call.Args {
						if v := ConstVal(fs.Info(), a); v != nil {
							if prm := fsBlock.Param(k); prm != nil {
								extra[prm] = v
							}
						}
					}
				}
			}
			env := &AbsEnv{Info: fsBlock.Info(), Atom: func(e ast.Expr) (constant.Value, bool) {
				if FieldOf(fsBlock.Info(), e) == modeF {
					return constant.MakeInt64(m), true
				}
				if id, ok := e.(*ast.Ident); ok {
					if v, ok := extra[fsBlock.Info().Uses[id]]; ok {
						return v, true
					}
				}
				if _, ok := e.(*ast.CallExpr); ok {
					if tv, ok := fsBlock.Info().Types[e]; ok && tv.Type != nil && types.Identical(tv.Type.Underlying(), types.Typ[types.Bool]) {
						return constant.MakeBool(true), true
					}
				}
				return nil, false
			}}
			bv := env.expr(delBlocks[0].cond)
			cv, cok := evalMode(path.cascade.fn, path.cascade.cond, m)
			if path.cascade.negate {
				cv = !cv
			}
			if bv == nil || !cok {
				c.Obl(r2, fmt.Sprintf("%s, mode %s: predicates can be evaluated", path.name, name(m)), p.Pos(delBlocks[0].cond), false,
					"the mode predicate depends on something other than Fkey.Mode, constants and boolean calls")
				continue
			}
			blocks := constant.BoolVal(bv)
			ok := blocks != cv
			c.Obl(r2, fmt.Sprintf("%s with referencing rows, mode %s: exactly one of {refused, cascaded}", path.name, name(m)), p.Pos(delBlocks[0].cond), ok,
				fmt.Sprintf("mode %s (stored at %s): refused=%v cascaded=%v — the change goes through and leaves referencing rows without a target (documentation: 'Removing or updating a target row will fail if there are matching source rows' unless cascade covers that operation)",
					name(m), dom[m], blocks, cv))
		}
	}
}

// ---------------------------------------------------------------- C44

func checkC44(c *Ctx) string {
	p := c.P
	t := getTranAnchors(c, "C44.0 anchors")
	if t == nil {
		return "anchors missing"
	}
	r1 := "C44.1 K5 every row change is followed by the table's trigger on every normal path"
	n := 0
	for _, fs := range t.mutators {
		fl := &Flow{P: p, Node: mutatorLabeler(t)}
		res := fl.Analyze(fs)
		for _, l := range []string{"ov.Insert", "ov.Delete", "ov.Update"} {
			for _, s := range res.Of(l) {
				n++
				c.Obl(r1, fs.name+": "+l+" is followed by CallTrigger", p.Pos(s.Node), s.Follows("CallTrigger"),
					"a normal path from the index mutation to the return avoids CallTrigger: the row changes but the table's trigger does not run")
			}
		}
		// the trigger is called after the change, not before
		for _, s := range res.Of("CallTrigger") {
			c.Obl(r1, fs.name+": CallTrigger runs after the checker accepted the change", p.Pos(s.Node), s.Before.HasAny("ck(Output)", "ck(Delete)", "ck(Update)"), "")
			call := s.Node.(*ast.CallExpr)
			// the arguments: (th, t, table, old, new) — insert: old == "", delete: new == ""
			ins, del, upd := len(res.Of("ov.Insert")) > 0, len(res.Of("ov.Delete")) > 0, len(res.Of("ov.Update")) > 0
			if len(call.Args) == 5 {
				oldE, newE := isEmptyStr(fs.Info(), call.Args[3]), isEmptyStr(fs.Info(), call.Args[4])
				switch {
				case ins && !del && !upd:
					c.Obl(r1, fs.name+": insert trigger gets (\"\", new)", p.Pos(call), oldE && !newE, "")
				case del && !ins && !upd:
					c.Obl(r1, fs.name+": delete trigger gets (old, \"\")", p.Pos(call), !oldE && newE, "")
				default:
					c.Obl(r1, fs.name+": update trigger gets (old, new)", p.Pos(call), !oldE && !newE && exprStr(call.Args[3]) != exprStr(call.Args[4]), "")
				}
			}
		}
	}
	c.Floor(r1, n, 5, "index mutations in UpdateTran")

	// ---- 2. disable counter
	r2 := "C44.2 K7 the trigger-disable counter is guarded and symmetric"
	disabled := p.Field("db19", "triggers", "disabled")
	lock := p.Field("db19", "triggers", "lock")
	if c.need(r2, "db19.triggers.disabled", disabled) && c.need(r2, "db19.triggers.lock", lock) {
		useEv := Ev{"use(disabled)", func(fs *FuncSrc, n ast.Node) bool {
			sel, ok := n.(*ast.SelectorExpr)
			return ok && FieldOf(fs.Info(), sel) == disabled
		}}
		m := p.FuncsWith([]string{"db19"}, useEv)
		var fns []*FuncSrc
		for fs := range m {
			fns = append(fns, fs)
		}
		sort.Slice(fns, func(i, j int) bool { return fns[i].name < fns[j].name })
		nuse := 0
		deltas := map[string]int{}
		for _, fs := range fns {
			fl := &Flow{P: p, Node: Labeler(MethodOnField("lock", lock, "Lock"), MethodOnField("-lock", lock, "Unlock"), useEv)}
			res := fl.Analyze(fs)
			for _, s := range res.Of("use(disabled)") {
				nuse++
				c.Obl(r2, fs.name+": triggers.disabled accessed under triggers.lock", p.Pos(s.Node), s.Before.Has("lock"), "the disable map is accessed without holding its mutex")
			}
			ForEachNode(fs, func(nd ast.Node) {
				if id, ok := nd.(*ast.IncDecStmt); ok && lhsField(fs.Info(), id.X, true) == disabled {
					if id.Tok == token.INC {
						deltas[fs.name]++
					} else {
						deltas[fs.name]--
					}
				}
				if as, ok := nd.(*ast.AssignStmt); ok && (as.Tok == token.ADD_ASSIGN || as.Tok == token.SUB_ASSIGN) && lhsField(fs.Info(), as.Lhs[0], true) == disabled {
					v := ConstVal(fs.Info(), as.Rhs[0])
					d := 0
					if v != nil {
						k, _ := constant.Int64Val(v)
						d = int(k)
					}
					if as.Tok == token.SUB_ASSIGN {
						d = -d
					}
					deltas[fs.name] += d
				}
			})
		}
		c.Floor(r2, nuse, 4, "accesses of triggers.disabled")
		c.Obl(r2, "DisableTrigger adds exactly what EnableTrigger removes", "", deltas["db19.(*triggers).DisableTrigger"] == 1 && deltas["db19.(*triggers).EnableTrigger"] == -1 && len(deltas) == 2,
			fmt.Sprintf("counter changes per function: %v", deltas))
	}
	checkEnabledDecides(c, "C44.2b K11 enabled(table) decides from that table's disable count")
	checkMutationAbortWrapper(c, t, "C44.4 K4 cascades and index changes run under recover→Abort→re-panic", t.fkDelCasc, t.fkUpdCasc)
	checkUnloadClearsMissCache(c, "C44.5 K5 unloading a name clears its cached not-defined answer")
	checkTriggerVetoAborts(c, t, "C44.6 K4 a trigger exception aborts the transaction")
	// call2 dominated by enabled(table) true edge
	r3 := "C44.3 K4c the trigger runs only while enabled, and its failure propagates"
	enabled := p.DeclaredMethod("db19", "triggers", "enabled")
	thCall := p.DeclaredMethod("core", "Thread", "Call")
	wrap := p.Func("core", "WrapPanic")
	if fs := c.method(r3, "db19", "triggers", "call2"); fs != nil && c.need(r3, "db19.triggers.enabled", enabled) && c.need(r3, "core.Thread.Call", thCall) && c.need(r3, "core.WrapPanic", wrap) {
		fl := &Flow{P: p, Node: Labeler(CallOf("th.Call", thCall)), Edge: func(f *FuncSrc, cond ast.Expr, truth bool) []string {
			if call, ok := cond.(*ast.CallExpr); ok && sameFunc(Callee(f.Info(), call), enabled) {
				if truth {
					return []string{"@enabled"}
				}
				return []string{"@disabled"}
			}
			return nil
		}}
		res := fl.Analyze(fs)
		c.RequireBefore(r3, res, "th.Call", 1, "@enabled")
		// WrapPanic never returns: so the deferred recover always re-raises
		c.Obl(r3, "core.WrapPanic never returns normally (K22)", p.Pos(p.Src(wrap).Decl), fl.NoReturn(wrap),
			"WrapPanic has a normal return: a panic inside a trigger would be swallowed by call2's deferred recover")
		c.Obl(r3, "call2 does not swallow a panic of the trigger", p.Pos(fs.Decl), !fl.Swallows(fs), "call2 has a deferred recover that does not re-panic")
		// CallTrigger reaches call2
		if ct := p.Src(t.callTrig); ct != nil {
			c.Obl(r3, "CallTrigger calls call2", p.Pos(ct.Decl), len(p.CallsIn(ct, fs.Obj)) == 1, "")
		}
	}
	return "Static shape of trigger invocation: from every index mutation in UpdateTran every normal path reaches CallTrigger, with (\"\",new)/(old,\"\")/(old,new) arguments per kind of change, after the checker " +
		"accepted the change; the disable counter is accessed only under its mutex and changed by +1/-1 symmetrically; the trigger function is called only on the enabled edge; WrapPanic has no normal return so the deferred recover re-raises. " +
		"Cascaded changes go through Delete/update (C08.4) and therefore call triggers too."
}

// emptyKeyTestOnly: the condition e is false for every index that has columns, whatever its
// mode (so a path on which e is false is taken by all of them).
func emptyKeyTestOnly(p *Prog, info *types.Info, e ast.Expr) bool {
	colsF := p.Field("db19/meta/schema", "Index", "Columns")
	modeF := p.Field("db19/meta/schema", "Index", "Mode")
	if colsF == nil || modeF == nil {
		return false
	}
	for _, mode := range []int64{'k', 'i', 'u'} {
		for _, ncols := range []int64{1, 3} {
			env := &AbsEnv{Info: info, Atom: func(x ast.Expr) (constant.Value, bool) {
				if FieldOf(info, x) == modeF {
					return constant.MakeInt64(mode), true
				}
				if call, ok := x.(*ast.CallExpr); ok && IsBuiltin(info, call, "len") && len(call.Args) == 1 && FieldOf(info, call.Args[0]) == colsF {
					return constant.MakeInt64(ncols), true
				}
				return nil, false
			}}
			v := env.expr(e)
			if v == nil || v.Kind() != constant.Bool || constant.BoolVal(v) {
				return false
			}
		}
	}
	return true
}

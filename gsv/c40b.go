package main

// Rules added after the second round of seeded changes (DESIGN.md §8.2): C40.4, C40.5,
// C41.4d, C21.5.

import (
	"go/ast"
	"go/token"
	"go/types"
)

// checkPerRequestState (C40.4): the worker function that runs a request hands its own
// parameters (the worker's write buffer, the request bytes, the thread) to the session
// on EVERY path before the request is executed - not only when the session is created:
// a session is served by different workers over time, and a buffer remembered from an
// earlier request carries another session's id.
func checkPerRequestState(c *Ctx, rule string) {
	p := c.P
	fs := c.function(rule, "dbms", "doRequest")
	request := p.DeclaredMethod("dbms", "serverSession", "request")
	if fs == nil || !c.need(rule, "dbms.serverSession.request", request) {
		return
	}
	info := fs.Info()
	sig := fs.Obj.Type().(*types.Signature)
	// pointer / slice parameters of doRequest are per-request resources
	var params []*types.Var
	for i := 0; i < sig.Params().Len(); i++ {
		v := sig.Params().At(i)
		switch v.Type().Underlying().(type) {
		case *types.Pointer, *types.Slice:
			params = append(params, v)
		}
	}
	var evs []Ev
	for _, v := range params {
		v := v
		evs = append(evs, Ev{"handed:" + v.Name(), func(s *FuncSrc, n ast.Node) bool {
			mentions := func(e ast.Expr) bool {
				id := identOf(e)
				return id != nil && info.Uses[id] == types.Object(v)
			}
			switch x := n.(type) {
			case *ast.AssignStmt:
				// ss.Field = param   (not a composite literal field, which only runs when the session is new)
				for i, l := range x.Lhs {
					if i < len(x.Rhs) && mentions(x.Rhs[i]) {
						if _, isSel := ast.Unparen(l).(*ast.SelectorExpr); isSel {
							return true
						}
					}
				}
			case *ast.CallExpr:
				// ss.X.SetBuf(param), th.SetY(param) ... : a setter receiving the parameter
				if sel, ok := x.Fun.(*ast.SelectorExpr); ok && len(x.Args) == 1 && mentions(x.Args[0]) {
					if cal := Callee(info, x); cal != nil && len(sel.Sel.Name) > 3 && sel.Sel.Name[:3] == "Set" {
						return true
					}
				}
			}
			return false
		}})
	}
	inLiteral := map[*types.Var]bool{}
	ForEachNode(fs, func(nd ast.Node) {
		if kv, ok := nd.(*ast.KeyValueExpr); ok {
			if id := identOf(kv.Value); id != nil {
				for _, v := range params {
					if info.Uses[id] == types.Object(v) {
						inLiteral[v] = true
					}
				}
			}
		}
	})
	evs = append(evs, CallOf("request", request))
	fl := &Flow{P: p, Node: Labeler(evs...)}
	res := fl.Analyze(fs)
	n := 0
	for _, s := range res.Of("request") {
		for _, v := range params {
			// only parameters that are handed over at all (by assignment / setter, or only in the literal
			// that creates a new session - which does not run for an existing session)
			if len(res.Of("handed:"+v.Name())) == 0 && !inLiteral[v] {
				continue
			}
			n++
			c.Obl(rule, "doRequest: parameter "+v.Name()+" reaches the session on every path before the request runs", p.Pos(s.Node), s.Before.Has("handed:"+v.Name()),
				"on some path (e.g. an existing session) the request runs with the "+v.Name()+" remembered from an earlier request: responses go out under another session's id / from another worker's buffer")
		}
	}
	c.Floor(rule, n, 2, "per-request parameters handed to the session")
}

// checkTranFallback (C40.5): a handler that reads an optional transaction number uses
// the connection-level operation only when there is no transaction, and the
// transaction's own operation otherwise (a read transaction must answer from its own
// snapshot, as it does locally).
func checkTranFallback(c *Ctx, rule string) {
	p := c.P
	getTran := p.DeclaredMethod("dbms", "serverSession", "getTran")
	scDbms := p.Field("dbms", "serverConn", "dbms")
	itran := p.NamedType("core", "ITran")
	if !c.need(rule, "dbms.serverSession.getTran", getTran) || !c.need(rule, "dbms.serverConn.dbms", scDbms) || !c.need(rule, "core.ITran", itran) {
		return
	}
	tranIface := itran.Underlying().(*types.Interface)
	hasTranMethod := func(name string) bool {
		for i := 0; i < tranIface.NumMethods(); i++ {
			if tranIface.Method(i).Name() == name {
				return true
			}
		}
		return false
	}
	n := 0
	for _, fs := range p.FuncsIn("dbms") {
		if fs.Body == nil || len(p.CallsIn(fs, getTran)) == 0 || fs.Obj == getTran {
			continue
		}
		info := fs.Info()
		defs := buildDefs(fs)
		// the variable holding the transaction
		var tranVar types.Object
		ForEachNode(fs, func(nd ast.Node) {
			as, ok := nd.(*ast.AssignStmt)
			if !ok || len(as.Rhs) != 1 {
				return
			}
			call, ok := ast.Unparen(as.Rhs[0]).(*ast.CallExpr)
			if !ok || !sameFunc(Callee(info, call), getTran) || len(as.Lhs) == 0 {
				return
			}
			if id := identOf(as.Lhs[0]); id != nil {
				tranVar = info.Defs[id]
				if tranVar == nil {
					tranVar = info.Uses[id]
				}
			}
		})
		if tranVar == nil {
			continue
		}
		_ = defs
		isConnOp := func(nd ast.Node) bool {
			sel, ok := nd.(*ast.SelectorExpr)
			return ok && FieldOf(info, sel.X) == scDbms && hasTranMethod(sel.Sel.Name)
		}
		isTranOp := func(nd ast.Node) bool {
			sel, ok := nd.(*ast.SelectorExpr)
			if !ok {
				return false
			}
			id := identOf(sel.X)
			return id != nil && info.Uses[id] == tranVar && hasTranMethod(sel.Sel.Name)
		}
		fl := &Flow{P: p,
			Node: Labeler(Ev{"connop", func(s *FuncSrc, nd ast.Node) bool { return isConnOp(nd) }}, Ev{"tranop", func(s *FuncSrc, nd ast.Node) bool { return isTranOp(nd) }}),
			Edge: func(s *FuncSrc, cond ast.Expr, truth bool) []string {
				be, ok := cond.(*ast.BinaryExpr)
				if !ok || (be.Op != token.EQL && be.Op != token.NEQ) {
					return nil
				}
				for _, pr := range [][2]ast.Expr{{be.X, be.Y}, {be.Y, be.X}} {
					id := identOf(pr[0])
					if id != nil && info.Uses[id] == tranVar && isNilIdent(info, pr[1]) {
						if (be.Op == token.EQL) == truth {
							return []string{"@notran"}
						}
						return []string{"@tran"}
					}
				}
				return nil
			}}
		res := fl.Analyze(fs)
		for _, s := range res.Of("connop") {
			n++
			c.Obl(rule, fs.name+": the connection-level operation is used only when the request names no transaction", p.Pos(s.Node), s.Before.Has("@notran"),
				"the handler can answer through the connection's dbms although the request named a transaction: the answer comes from the current state instead of the transaction's snapshot (differs from local access)")
		}
	}
	c.Floor(rule, n, 1, "connection-level fallbacks in handlers with an optional transaction")
}

// checkAuthCompares (C41.4d): AuthUser's success value is an equality, from an enumerated
// set of whole-value comparisons, between the client's answer and the expected answer.
func checkAuthCompares(c *Ctx, rule string) {
	p := c.P
	fs := c.function(rule, "dbms", "AuthUser")
	if fs == nil {
		return
	}
	info := fs.Info()
	accepted := map[string]bool{"crypto/subtle.ConstantTimeCompare": true, "crypto/hmac.Equal": true, "bytes.Equal": true, "strings.EqualFold": false}
	n := 0
	ForEachNode(fs, func(nd ast.Node) {
		r, ok := nd.(*ast.ReturnStmt)
		if !ok || len(r.Results) != 1 {
			return
		}
		if v := ConstVal(info, r.Results[0]); v != nil {
			return
		}
		n++
		okCmp := false
		var walk func(e ast.Expr) bool
		walk = func(e ast.Expr) bool {
			switch x := ast.Unparen(e).(type) {
			case *ast.BinaryExpr:
				if x.Op == token.EQL {
					if t := info.TypeOf(x.X); t != nil && types.Identical(t.Underlying(), types.Typ[types.String]) {
						return true
					}
					// ConstantTimeCompare(a,b) == 1
					if call, ok := ast.Unparen(x.X).(*ast.CallExpr); ok {
						if cal := Callee(info, call); cal != nil && cal.Pkg() != nil && accepted[cal.Pkg().Path()+"."+cal.Name()] {
							return true
						}
					}
				}
				if x.Op == token.LAND {
					return walk(x.X) || walk(x.Y)
				}
			case *ast.CallExpr:
				if cal := Callee(info, x); cal != nil && cal.Pkg() != nil && accepted[cal.Pkg().Path()+"."+cal.Name()] {
					return true
				}
			case *ast.Ident:
				defs := buildDefs(fs)
				for _, rhs := range defs.defs[info.Uses[x]] {
					if walk(rhs) {
						return true
					}
				}
			}
			return false
		}
		okCmp = walk(r.Results[0])
		c.Obl(rule, "AuthUser's verdict is a whole-value equality (==, subtle.ConstantTimeCompare, hmac.Equal, bytes.Equal)", p.Pos(r), okCmp,
			"the verdict is computed by something other than the enumerated whole-value comparisons: a hand-written comparison that stops at the shorter length accepts any prefix of the expected answer (including the empty string)")
	})
	c.Floor(rule, n, 1, "non-constant returns of AuthUser")
}

// checkMetaUpdateNotDiscarded (C21.5): inside an admin operation, replacing the pending
// schema/info map of a metaUpdate (mu.schema = …) after something already used that
// metaUpdate discards those pending changes (e.g. the unlinking of foreign keys).
func checkMetaUpdateNotDiscarded(c *Ctx, rule string) {
	p := c.P
	muT := p.NamedType("db19/meta", "metaUpdate")
	schemaF := p.Field("db19/meta", "metaUpdate", "schema")
	infoF := p.Field("db19/meta", "metaUpdate", "info")
	if !c.need(rule, "meta.metaUpdate", muT) || !c.need(rule, "meta.metaUpdate.schema", schemaF) || !c.need(rule, "meta.metaUpdate.info", infoF) {
		return
	}
	n := 0
	for _, fs := range p.FuncsIn("db19/meta") {
		if fs.Body == nil {
			continue
		}
		info := fs.Info()
		isMu := func(e ast.Expr) bool {
			t := info.TypeOf(e)
			if t == nil {
				return false
			}
			if pt, ok := t.(*types.Pointer); ok {
				t = pt.Elem()
			}
			return types.Identical(t, muT)
		}
		// skip the metaUpdate's own methods (they legitimately initialise the maps lazily)
		if fs.Obj != nil {
			if recv := fs.Obj.Type().(*types.Signature).Recv(); recv != nil && isMuType(recv.Type(), muT) {
				continue
			}
		}
		fl := &Flow{P: p, Node: func(s *FuncSrc, nd ast.Node) []string {
			switch x := nd.(type) {
			case *ast.AssignStmt:
				for _, l := range x.Lhs {
					if f := lhsField(info, l, false); f == schemaF {
						return []string{"replace:schema"}
					} else if f == infoF {
						return []string{"replace:info"}
					}
				}
			case *ast.CallExpr:
				// a call that receives the metaUpdate (receiver or argument) may have put something
				// (mutators of the maps themselves, e.g. mu.schema.Delete, come after the replacement and are fine)
				if sel, ok := x.Fun.(*ast.SelectorExpr); ok && isMu(sel.X) {
					// a method of metaUpdate: which of the two maps does it touch?
					if cs := p.Src(Callee(info, x)); cs != nil && cs.Body != nil {
						var out []string
						ForEachNode(cs, func(m ast.Node) {
							if e, ok := m.(ast.Expr); ok {
								switch FieldOf(cs.Info(), e) {
								case schemaF:
									out = append(out, "used:schema")
								case infoF:
									out = append(out, "used:info")
								}
							}
						})
						return out
					}
					return []string{"used:schema", "used:info"}
				}
				for _, a := range x.Args {
					if isMu(a) {
						return []string{"used:schema", "used:info"}
					}
				}
			}
			return nil
		}}
		res := fl.Analyze(fs)
		for _, l := range []string{"replace:schema", "replace:info"} {
			for _, s := range res.Of(l) {
				n++
				c.Obl(rule, fs.name+": "+l+" does not discard pending changes", p.Pos(s.Node), !s.Before.Has("used:"+l[len("replace:"):]),
					"the pending map of the metaUpdate is replaced after the metaUpdate was already handed to a function that records changes in it: those changes (e.g. removing the back links of the dropped table's foreign keys) are lost")
			}
		}
	}
	c.Floor(rule, n, 2, "replacements of a metaUpdate's pending maps")
}

func isMuType(t types.Type, muT *types.Named) bool {
	if pt, ok := t.(*types.Pointer); ok {
		t = pt.Elem()
	}
	return types.Identical(t, muT)
}

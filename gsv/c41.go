package main

// C41 unauthenticated access: classification of the DbmsUnauth wrapper (K10, K22),
// classification of what every server command handler can reach (package-level state of
// dbms, *DbmsLocal / *db19.Database values, IDbms values that do not come from
// serverConn.dbms), writers of the authorisation state (K2, K4c), nonce/token single use
// and the locks of tokens / serverConns (K7).

import (
	"fmt"
	"go/ast"
	"go/constant"
	"go/token"
	"go/types"
	"sort"
	"strings"
)

func init() { register("C41", checkC41, "./dbms/...") }

// ---- the server's command table (shared with C40)

type cmdEntry struct {
	Idx   int
	Fn    *types.Func // nil for a nil entry or a literal
	Src   *FuncSrc    // nil for a nil entry
	Node  ast.Expr
	IsNil bool
}

// cmdsTable reads the composite literal of dbms.cmds from the AST with resolved
// function objects.  Returns nil (and records the missing mechanism) if it cannot.
func cmdsTable(c *Ctx, rule string) ([]cmdEntry, *types.Var) {
	p := c.P
	v := p.GlobalVar("dbms", "cmds")
	if !c.need(rule, "dbms.cmds (the server's command table)", v) {
		return nil, nil
	}
	pk := p.Pkg("dbms")
	var lit *ast.CompositeLit
	for _, f := range pk.Syntax {
		for _, d := range f.Decls {
			gd, ok := d.(*ast.GenDecl)
			if !ok || gd.Tok != token.VAR {
				continue
			}
			for _, sp := range gd.Specs {
				vs := sp.(*ast.ValueSpec)
				for i, nm := range vs.Names {
					if pk.TypesInfo.Defs[nm] == types.Object(v) && i < len(vs.Values) {
						lit, _ = ast.Unparen(vs.Values[i]).(*ast.CompositeLit)
					}
				}
			}
		}
	}
	if lit == nil {
		c.Missing(rule, "dbms.cmds is not initialised with a composite literal")
		return nil, nil
	}
	info := pk.TypesInfo
	var out []cmdEntry
	next := 0
	for _, el := range lit.Elts {
		val := el
		if kv, ok := el.(*ast.KeyValueExpr); ok {
			k := ConstVal(info, kv.Key)
			if k == nil {
				c.Missing(rule, "dbms.cmds: non-constant index")
				return nil, nil
			}
			n, _ := constant.Int64Val(k)
			next = int(n)
			val = kv.Value
		}
		e := cmdEntry{Idx: next, Node: val}
		next++
		switch {
		case isNilIdent(info, val):
			e.IsNil = true
		default:
			if l, ok := ast.Unparen(val).(*ast.FuncLit); ok {
				e.Src = p.Lits[l]
			} else if f, ok := ObjOf(info, val).(*types.Func); ok {
				e.Fn = f
				e.Src = p.Src(f)
			}
			if e.Src == nil || e.Src.Body == nil {
				c.Missing(rule, fmt.Sprintf("dbms.cmds[%d]: the handler does not resolve to a function with source", e.Idx))
				return nil, nil
			}
		}
		out = append(out, e)
	}
	sort.SliceStable(out, func(i, j int) bool { return out[i].Idx < out[j].Idx })
	return out, v
}

// commandConsts returns the constants of type commands.Command by value.
func commandConsts(p *Prog) (map[int]string, *types.Named) {
	t := p.NamedType("dbms/commands", "Command")
	pk := p.Pkg("dbms/commands")
	if t == nil || pk == nil {
		return nil, nil
	}
	out := map[int]string{}
	sc := pk.Types.Scope()
	for _, nm := range sc.Names() {
		if k, ok := sc.Lookup(nm).(*types.Const); ok && types.Identical(k.Type(), t) {
			if n, ok := constant.Int64Val(k.Val()); ok {
				out[int(n)] = nm
			}
		}
	}
	return out, t
}

// ---- what a function of package dbms can reach

type c41Effect struct {
	Node ast.Node
	What string
}

type c41Reach struct {
	p         *Prog
	pkg       *types.Package
	benign    map[string]string // package-level variable -> reason
	privTypes []*types.Named
	idbms     *types.Named
	memo      map[*FuncSrc][]c41Effect
	inprog    map[*FuncSrc]bool
}

func (a *c41Reach) privType(t types.Type) string {
	if t == nil {
		return ""
	}
	if pt, ok := types.Unalias(t).(*types.Pointer); ok {
		t = pt.Elem()
	}
	n, ok := types.Unalias(t).(*types.Named)
	if !ok {
		return ""
	}
	for _, q := range a.privTypes {
		if n.Origin() == q {
			return pkgShort(q.Obj().Pkg().Path()) + "." + q.Obj().Name()
		}
	}
	return ""
}

func (a *c41Reach) isIDbms(t types.Type) bool {
	n, ok := types.Unalias(t).(*types.Named)
	return ok && a.idbms != nil && n.Origin() == a.idbms
}

// effects lists the privileged effects of fs: direct ones and calls of functions of
// package dbms that have some (transitively).  Literals inside fs are included.
func (a *c41Reach) effects(fs *FuncSrc) []c41Effect {
	if e, ok := a.memo[fs]; ok {
		return e
	}
	if a.inprog[fs] {
		return nil
	}
	a.inprog[fs] = true
	defer delete(a.inprog, fs)
	info := fs.Info()
	var out []c41Effect
	seenTyped := map[ast.Node]bool{}
	var visit func(n ast.Node) bool
	visit = func(n ast.Node) bool {
		switch x := n.(type) {
		case *ast.Ident:
			if v, ok := info.Uses[x].(*types.Var); ok && v.Pkg() == a.pkg && v.Parent() == a.pkg.Scope() {
				if _, ok := a.benign[v.Name()]; !ok {
					out = append(out, c41Effect{x, "package-level state " + v.Name()})
				}
			}
		case *ast.CallExpr:
			cal := Callee(info, x)
			if tv, ok := info.Types[x]; ok && !tv.IsType() {
				res := tv.Type
				var rs []types.Type
				if tup, ok := res.(*types.Tuple); ok {
					for i := 0; i < tup.Len(); i++ {
						rs = append(rs, tup.At(i).Type())
					}
				} else if res != nil {
					rs = []types.Type{res}
				}
				for _, r := range rs {
					if a.isIDbms(r) {
						nm := "a function value"
						if cal != nil {
							nm = funcName(cal)
						}
						out = append(out, c41Effect{x, "an IDbms obtained from " + nm + " (not the connection's serverConn.dbms)"})
					}
				}
			}
			if cal != nil && cal.Pkg() == a.pkg {
				if cs := a.p.Src(cal); cs != nil && cs.Body != nil && cs != fs {
					if sub := a.effects(cs); len(sub) > 0 {
						whats := map[string]bool{}
						for _, s := range sub {
							w := s.What
							if i := strings.Index(w, " → "); i >= 0 {
								w = w[i+len(" → "):]
							}
							whats[w] = true
						}
						var ws []string
						for w := range whats {
							ws = append(ws, w)
						}
						sort.Strings(ws)
						out = append(out, c41Effect{x, "call of " + funcName(cal) + " → " + strings.Join(ws, ", ")})
					}
				}
			}
		}
		if e, ok := n.(ast.Expr); ok && !seenTyped[n] {
			if tv, ok := info.Types[e]; ok && !tv.IsType() {
				if w := a.privType(tv.Type); w != "" {
					// report the outermost typed expression only
					ast.Inspect(e, func(m ast.Node) bool {
						if m != nil {
							seenTyped[m] = true
						}
						return true
					})
					out = append(out, c41Effect{e, "a value of type " + w})
				}
			}
		}
		return true
	}
	ast.Inspect(fs.Body, func(n ast.Node) bool {
		if n == nil {
			return false
		}
		return visit(n)
	})
	a.memo[fs] = out
	return out
}

func checkC41(c *Ctx) string {
	p := c.P
	r0 := "C41.0 anchors"
	duType := p.NamedType("dbms", "DbmsUnauth")
	duInner := p.Field("dbms", "DbmsUnauth", "dbms")
	scDbms := p.Field("dbms", "serverConn", "dbms")
	idbms := p.NamedType("core", "IDbms")
	local := p.NamedType("dbms", "DbmsLocal")
	database := p.NamedType("db19", "Database")
	ok := c.need(r0, "dbms.DbmsUnauth", duType)
	ok = c.need(r0, "dbms.DbmsUnauth.dbms", duInner) && ok
	ok = c.need(r0, "dbms.serverConn.dbms", scDbms) && ok
	ok = c.need(r0, "core.IDbms", idbms) && ok
	ok = c.need(r0, "dbms.DbmsLocal", local) && ok
	ok = c.need(r0, "db19.Database", database) && ok
	if !ok {
		return "anchors missing"
	}
	fl0 := &Flow{P: p}

	// ---- 1. the wrapper
	r1 := "C41.1 K10+K22 DbmsUnauth: only the frozen methods delegate, every other method never returns"
	allowed := map[string]string{
		"Auth":      "the property allows authenticating",
		"Nonce":     "the property allows obtaining a nonce",
		"SessionId": "the property allows setting / reading the session id",
		"LibGet":    "the property allows fetching library code",
		"Libraries": "the property allows listing libraries",
		"Close":     "ending the session; not invoked by any server handler (C41.1b)",
		"Use":       "standalone start-up only; not invoked by any server handler (C41.1b)",
		"Unuse":     "standalone start-up only; not invoked by any server handler (C41.1b)",
		"Unwrap":    "returns the inner dbms only under core.DbmsAuth (standalone); not invoked by any server handler (C41.1b)",
	}
	protocolAllowed := map[string]bool{"Auth": true, "Nonce": true, "SessionId": true, "LibGet": true, "Libraries": true}
	it := idbms.Underlying().(*types.Interface)
	nDeleg, nRefuse := 0, 0
	delegating := map[*types.Func]bool{} // interface method objects
	for i := 0; i < it.NumMethods(); i++ {
		m := it.Method(i)
		impl := p.DeclaredMethod("dbms", "DbmsUnauth", m.Name())
		if impl == nil {
			c.Obl(r1, "DbmsUnauth."+m.Name()+" is declared on the wrapper itself", "", false,
				"the method is missing or promoted from an embedded value: it would delegate to the real dbms without authorisation")
			continue
		}
		fs := p.Src(impl)
		if fs == nil || fs.Body == nil {
			c.Missing(r1, "source of DbmsUnauth."+m.Name())
			continue
		}
		uses := false
		var otherCalls []string
		ForEachNode(fs, func(n ast.Node) {
			if sel, ok := n.(*ast.SelectorExpr); ok && FieldOf(fs.Info(), sel) == duInner {
				uses = true
			}
		})
		// a delegating method may only call the method of the same name on the inner dbms
		par := parentMap(fs.Body)
		ForEachNode(fs, func(n ast.Node) {
			sel, ok := n.(*ast.SelectorExpr)
			if !ok || FieldOf(fs.Info(), sel) != duInner {
				return
			}
			if outer, ok := par[sel].(*ast.SelectorExpr); ok && outer.X == ast.Expr(sel) {
				if outer.Sel.Name != m.Name() {
					otherCalls = append(otherCalls, outer.Sel.Name)
				}
			}
		})
		if uses {
			nDeleg++
			delegating[m] = true
			_, isAllowed := allowed[m.Name()]
			d := ""
			if !isAllowed {
				d = "DbmsUnauth." + m.Name() + " uses the wrapped dbms: an unauthenticated connection reaches the database through it"
			}
			c.Obl(r1, "DbmsUnauth."+m.Name()+" delegates", p.Pos(fs.Decl), isAllowed, d)
			d2 := ""
			if len(otherCalls) > 0 {
				d2 = fmt.Sprintf("calls %v on the wrapped dbms: an allowed request is turned into a different, not allowed operation", otherCalls)
			}
			c.Obl(r1, "DbmsUnauth."+m.Name()+" delegates only to the method of the same name", p.Pos(fs.Decl), len(otherCalls) == 0, d2)
		} else {
			nRefuse++
			c.Obl(r1, "DbmsUnauth."+m.Name()+" refuses (no normal return)", p.Pos(fs.Decl), fl0.NoReturn(impl),
				"the method neither delegates nor panics on every path: an unauthenticated request gets a normal answer")
		}
	}
	c.Floor(r1, nDeleg, 9, "delegating methods of DbmsUnauth")
	c.Floor(r1, nRefuse, 20, "refusing methods of DbmsUnauth")
	// every other method declared on the wrapper (not in IDbms) must refuse too
	for _, m := range p.MethodsOf("dbms", "DbmsUnauth") {
		if obj, _, _ := types.LookupFieldOrMethod(idbms, false, m.Pkg(), m.Name()); obj != nil {
			continue
		}
		fs := p.Src(m)
		if fs == nil || fs.Body == nil {
			continue
		}
		uses := false
		ForEachNode(fs, func(n ast.Node) {
			if sel, ok := n.(*ast.SelectorExpr); ok && FieldOf(fs.Info(), sel) == duInner {
				uses = true
			}
		})
		c.Obl(r1, "DbmsUnauth."+m.Name()+" (not in IDbms) refuses", p.Pos(fs.Decl), !uses && fl0.NoReturn(m),
			"a method outside the interface reaches the wrapped dbms or returns normally")
	}
	// the inner dbms is read only by the wrapper's own methods and the two places that unwrap on purpose
	r1c := "C41.1c K2 readers of the wrapped dbms"
	readers := append(c41DelegNames(allowed),
		"dbms.cmdAuth",     // removes the wrapper after a successful authentication (C41.3)
		"dbms.getPassHash", // reads the users table to verify the password hash; reached only from AuthUser
	)
	rd := p.FuncsWith(nil, UseOfField("", duInner))
	var rfs []*FuncSrc
	for fs := range rd {
		rfs = append(rfs, fs)
	}
	sort.Slice(rfs, func(i, j int) bool { return rfs[i].name < rfs[j].name })
	for _, fs := range rfs {
		okR := inList(fs.name, readers)
		d := ""
		if !okR {
			d = "DbmsUnauth.dbms is read in " + fs.name + ": the real dbms is taken out of the wrapper outside the wrapper's own methods, cmdAuth and getPassHash"
		}
		c.Obl(r1c, "reader of DbmsUnauth.dbms: "+fs.name, p.Pos(rd[fs][0]), okR, d)
	}
	c.Floor(r1c, len(rfs), 10, "functions reading DbmsUnauth.dbms")

	// ---- 2. handlers
	r2 := "C41.2 K10 what a command handler reaches without authorisation"
	table, _ := cmdsTable(c, r2)
	if table == nil {
		return "command table missing"
	}
	reach := &c41Reach{p: p, pkg: p.Pkg("dbms").Types, idbms: idbms, privTypes: []*types.Named{local, database},
		memo: map[*FuncSrc][]c41Effect{}, inprog: map[*FuncSrc]bool{},
		benign: map[string]string{
			"lastNum": "monotonic id source for queries and cursors; carries no data",
		}}
	exemptHandlers := map[string]string{
		"dbms.cmdAuth": "the authentication command itself: verifies the password hash / token (AuthUser, AuthToken) and removes the wrapper on success (C41.3, C41.4)",
	}
	nHandlers, nExempt := 0, 0
	var handlers []*FuncSrc
	seenH := map[*FuncSrc]bool{}
	for _, e := range table {
		if e.IsNil || seenH[e.Src] {
			continue
		}
		seenH[e.Src] = true
		handlers = append(handlers, e.Src)
	}
	for _, h := range handlers {
		nHandlers++
		if _, ex := exemptHandlers[h.name]; ex {
			nExempt++
			continue
		}
		effs := reach.effects(h)
		if len(effs) == 0 {
			c.Obl(r2, h.name+": reaches nothing privileged", p.Pos(h.Decl), true, "")
			continue
		}
		// authorisation guard: the false edge of `_, ok := ss.sc.dbms.(*DbmsUnauth)`
		defs := buildDefs(h)
		isGuardVar := func(fs *FuncSrc, e ast.Expr) bool {
			id, ok := ast.Unparen(e).(*ast.Ident)
			if !ok {
				return false
			}
			o := fs.Info().Uses[id]
			for _, rhs := range defs.defs[o] {
				ta, ok := ast.Unparen(rhs).(*ast.TypeAssertExpr)
				if !ok || ta.Type == nil {
					continue
				}
				if t := fs.Info().TypeOf(ta.Type); t != nil && types.Identical(t, types.NewPointer(duType)) && FieldOf(fs.Info(), ta.X) == scDbms {
					return true
				}
			}
			return false
		}
		effNodes := map[ast.Node]bool{}
		for _, e := range effs {
			effNodes[e.Node] = true
		}
		fl := &Flow{P: p,
			Node: func(fs *FuncSrc, n ast.Node) []string {
				if effNodes[n] {
					return []string{"priv"}
				}
				return nil
			},
			Edge: func(fs *FuncSrc, cond ast.Expr, truth bool) []string {
				if isGuardVar(fs, cond) {
					if truth {
						return []string{"@unauthenticated"}
					}
					return []string{"@authorised"}
				}
				return nil
			}}
		res := fl.Analyze(h)
		guarded := map[ast.Node]bool{}
		for _, s := range res.Of("priv") {
			if s.Before.Has("@authorised") {
				guarded[s.Node] = true
			}
		}
		byWhat := map[string][]c41Effect{}
		var order []string
		for _, e := range effs {
			if _, ok := byWhat[e.What]; !ok {
				order = append(order, e.What)
			}
			byWhat[e.What] = append(byWhat[e.What], e)
		}
		sort.Strings(order)
		for _, w := range order {
			allOK := true
			for _, e := range byWhat[w] {
				if !guarded[e.Node] {
					allOK = false
				}
			}
			key := w
			if i := strings.Index(key, " → "); i >= 0 {
				key = key[:i]
			}
			c.Obl(r2, h.name+": "+key, p.Pos(byWhat[w][0].Node), allOK,
				"the handler reaches "+w+" without going through the interface value in serverConn.dbms and without an authorisation test: "+
					"on a connection that still has the DbmsUnauth wrapper the request is served instead of refused")
		}
	}
	c.Floor(r2, nHandlers, 40, "handlers in dbms.cmds")
	c.Floor(r2, nExempt, 1, "frozen unauthenticated handlers (cmdAuth)")

	// 1b. which IDbms methods the protocol reaches
	r1b := "C41.1b K13 delegating wrapper methods reachable from the protocol"
	scope := map[*FuncSrc]bool{}
	var addScope func(fs *FuncSrc, depth int)
	addScope = func(fs *FuncSrc, depth int) {
		if scope[fs] || depth > 4 {
			return
		}
		scope[fs] = true
		ForEachNode(fs, func(n ast.Node) {
			if call, ok := n.(*ast.CallExpr); ok {
				if cal := Callee(fs.Info(), call); cal != nil && cal.Pkg() == reach.pkg {
					if cs := p.Src(cal); cs != nil && cs.Body != nil {
						addScope(cs, depth+1)
					}
				}
			}
		})
	}
	for _, h := range handlers {
		addScope(h, 0)
	}
	nInv := 0
	var sfs []*FuncSrc
	for fs := range scope {
		sfs = append(sfs, fs)
	}
	sort.Slice(sfs, func(i, j int) bool { return sfs[i].name < sfs[j].name })
	for _, fs := range sfs {
		ForEachNode(fs, func(n ast.Node) {
			sel, ok := n.(*ast.SelectorExpr)
			if !ok {
				return
			}
			s := fs.Info().Selections[sel]
			if s == nil {
				return
			}
			m, ok := s.Obj().(*types.Func)
			if !ok || !delegating[m.Origin()] {
				return
			}
			nInv++
			c.Obl(r1b, fs.name+" invokes IDbms."+m.Name(), p.Pos(sel), protocolAllowed[m.Name()],
				"a server handler invokes IDbms."+m.Name()+", which the DbmsUnauth wrapper passes on to the real dbms although the property does not allow it to unauthenticated clients")
		})
	}
	c.Floor(r1b, nInv, 2, "invocations of delegating IDbms methods in handlers (LibGet, Libraries)")

	// insertions into the session's maps
	c41Insertions(c, scDbms)

	// ---- 3. writers of serverConn.dbms
	c41Writers(c, duType, duInner, scDbms)

	// ---- 4. single use, locks
	c41SingleUse(c)

	checkAuthCompares(c, "C41.4d K9 the password verdict is a whole-value equality")
	checkAuthRefusesUnknownUser(c, "C41.4c K4c the password check refuses the not-found answer of the hash lookup")
	checkDecodersNeverExitServer(c, "C41.8 K4c a malformed request cannot exit the server process")
	return "Static classification for unauthenticated access. Decided: every IDbms method is declared on *DbmsUnauth itself; the ones that touch the wrapped dbms are exactly the frozen nine and " +
		"call only the method of the same name, every other method never returns normally; DbmsUnauth.dbms is read nowhere else except cmdAuth and getPassHash; of the delegating methods only " +
		"Auth/Nonce/SessionId/LibGet/Libraries may be invoked from code reachable from the command table; for every handler in dbms.cmds (read from the composite literal) except cmdAuth, nothing " +
		"reachable through static calls inside package dbms touches package-level variables of dbms (tokens, serverConns, their locks, ...), a *DbmsLocal / *db19.Database value or an IDbms obtained " +
		"from a call, unless dominated by the false edge of `_, ok := ss.sc.dbms.(*DbmsUnauth)`; values stored into ss.trans / ss.cursors / ss.queries come from an interface call on serverConn.dbms or " +
		"on a transaction taken from ss.trans; serverConn.dbms is written only in newServerConn and cmdAuth, wrapped on the HaveUsers edge before the connection is published, unwrapped only on the " +
		"success edge of serverSession.auth with the wrapper's own inner dbms; the auth functions return true only on the AuthUser-true edge or as AuthToken's result; the nonce is cleared on every path " +
		"through serverSession.auth and AuthUser refuses the empty nonce; AuthToken returns true only after delete(tokens, s); tokens and serverConns are accessed only under their locks. " +
		"Not decided: code executed on behalf of a handler in other packages through ss.thread, the cryptographic strength of nonce/token, races on serverConn.nonce."
}

func c41DelegNames(allowed map[string]string) []string {
	var out []string
	for m := range allowed {
		out = append(out, "dbms.(*DbmsUnauth)."+m)
	}
	sort.Strings(out)
	return out
}

// c41Insertions: values put into ss.trans / ss.cursors / ss.queries.
func c41Insertions(c *Ctx, scDbms *types.Var) {
	p := c.P
	r := "C41.2b K11 the session's transactions, cursors and queries come from the connection's dbms"
	trans := p.Field("dbms", "serverSession", "trans")
	cursors := p.Field("dbms", "serverSession", "cursors")
	queries := p.Field("dbms", "serverSession", "queries")
	idbms := p.NamedType("core", "IDbms")
	itran := p.NamedType("core", "ITran")
	if !c.need(r, "serverSession.trans", trans) || !c.need(r, "serverSession.cursors", cursors) || !c.need(r, "serverSession.queries", queries) ||
		!c.need(r, "core.ITran", itran) {
		return
	}
	ifaceOf := func(f *types.Func) *types.Named {
		if f == nil {
			return nil
		}
		sig := f.Type().(*types.Signature)
		if sig.Recv() == nil {
			return nil
		}
		n, _ := types.Unalias(sig.Recv().Type()).(*types.Named)
		if n == nil {
			return nil
		}
		if _, ok := n.Underlying().(*types.Interface); !ok {
			return nil
		}
		return n
	}
	// tranSource: function of dbms whose ITran results all come from ss.trans (or nil)
	var tranSource func(f *types.Func, depth int) bool
	fromTrans := func(fs *FuncSrc, defs *defIndex, e ast.Expr, depth int) bool {
		return defs.Mentions(fs.Info(), e, func(n ast.Node) bool {
			switch x := n.(type) {
			case *ast.IndexExpr:
				return FieldOf(fs.Info(), x.X) == trans
			case *ast.CallExpr:
				if cal := Callee(fs.Info(), x); cal != nil && depth > 0 {
					return tranSource(cal, depth-1)
				}
			}
			return false
		})
	}
	tsMemo := map[*types.Func]int{}
	tranSource = func(f *types.Func, depth int) bool {
		if v := tsMemo[f]; v != 0 {
			return v == 1
		}
		fs := p.Src(f)
		if fs == nil || fs.Body == nil || fs.Pkg != p.Pkg("dbms") {
			return false
		}
		sig := f.Type().(*types.Signature)
		idx := -1
		for i := 0; i < sig.Results().Len(); i++ {
			if n, ok := types.Unalias(sig.Results().At(i).Type()).(*types.Named); ok && n.Origin() == itran {
				idx = i
			}
		}
		if idx < 0 {
			return false
		}
		tsMemo[f] = 2
		defs := buildDefs(fs)
		ok, nret := true, 0
		ast.Inspect(fs.Body, func(n ast.Node) bool {
			if _, isLit := n.(*ast.FuncLit); isLit {
				return false
			}
			rs, isRet := n.(*ast.ReturnStmt)
			if !isRet {
				return true
			}
			nret++
			if len(rs.Results) == 0 {
				// named results: look at every definition of the result variable
				if v := sig.Results().At(idx); v.Name() != "" {
					for _, rhs := range defs.defs[v] {
						if !isNilIdent(fs.Info(), rhs) && !fromTrans(fs, defs, rhs, depth) {
							ok = false
						}
					}
					return true
				}
				ok = false
				return true
			}
			if len(rs.Results) != sig.Results().Len() {
				// return f() with several results
				if call, isCall := ast.Unparen(rs.Results[0]).(*ast.CallExpr); isCall {
					if cal := Callee(fs.Info(), call); cal != nil && depth > 0 && tranSource(cal, depth-1) {
						return true
					}
				}
				ok = false
				return true
			}
			e := rs.Results[idx]
			if !isNilIdent(fs.Info(), e) && !fromTrans(fs, defs, e, depth) {
				ok = false
			}
			return true
		})
		if ok && nret > 0 {
			tsMemo[f] = 1
		}
		return tsMemo[f] == 1
	}
	n := 0
	m := p.FuncsWith([]string{"dbms"}, StoreTo("", true, trans, cursors, queries))
	var fns []*FuncSrc
	for fs := range m {
		fns = append(fns, fs)
	}
	sort.Slice(fns, func(i, j int) bool { return fns[i].name < fns[j].name })
	for _, fs := range fns {
		defs := buildDefs(fs)
		for _, nd := range m[fs] {
			as, ok := nd.(*ast.AssignStmt)
			if !ok {
				continue
			}
			for i, l := range as.Lhs {
				f := lhsField(fs.Info(), l, true)
				if f != trans && f != cursors && f != queries {
					continue
				}
				n++
				good := false
				if i < len(as.Rhs) && len(as.Lhs) == len(as.Rhs) {
					if _, isIdx := ast.Unparen(l).(*ast.IndexExpr); isIdx {
						good = defs.Mentions(fs.Info(), as.Rhs[i], func(x ast.Node) bool {
							call, ok := x.(*ast.CallExpr)
							if !ok {
								return false
							}
							cal := Callee(fs.Info(), call)
							sel, isSel := ast.Unparen(call.Fun).(*ast.SelectorExpr)
							if cal == nil || !isSel {
								return false
							}
							switch ifaceOf(cal) {
							case idbms:
								return FieldOf(fs.Info(), sel.X) == scDbms
							case itran:
								return fromTrans(fs, defs, sel.X, 3)
							}
							return false
						})
					}
				}
				c.Obl(r, fs.name+": value stored into serverSession."+f.Name(), p.Pos(nd), good,
					"the stored value is not the result of an interface call on serverConn.dbms (which the DbmsUnauth wrapper can refuse) or on a transaction of this session: "+
						"an object obtained behind the wrapper's back would be usable by later, unauthenticated requests")
			}
		}
	}
	c.Floor(r, n, 3, "stores into serverSession.trans / cursors / queries")
}

func c41Writers(c *Ctx, duType *types.Named, duInner, scDbms *types.Var) {
	p := c.P
	r3 := "C41.3 K2+K4c writers of serverConn.dbms"
	c.Writers(r3, "serverConn.dbms", []string{"dbms"}, StoreTo("", true, scDbms), []string{"dbms.newServerConn", "dbms.cmdAuth"}, 2)
	scType := p.NamedType("dbms", "serverConn")
	if c.need(r3, "dbms.serverConn", scType) {
		isSC := Ev{"", func(fs *FuncSrc, n ast.Node) bool {
			cl, ok := n.(*ast.CompositeLit)
			if !ok {
				return false
			}
			t := fs.Info().TypeOf(cl)
			nt, _ := types.Unalias(t).(*types.Named)
			return nt != nil && nt.Origin() == scType
		}}
		c.Writers(r3, "serverConn{…} (construction)", []string{"dbms"}, isSC, []string{"dbms.newServerConn"}, 1)
	}
	isWrap := func(fs *FuncSrc, e ast.Expr) bool {
		t := fs.Info().TypeOf(e)
		return t != nil && types.Identical(t, types.NewPointer(duType))
	}
	// newServerConn: wrapped on the HaveUsers edge before the connection is published / served
	haveUsers := p.DeclaredMethod("db19", "Database", "HaveUsers")
	serverConns := p.GlobalVar("dbms", "serverConns")
	run := p.DeclaredMethod("dbms/mux", "ServerConn", "Run")
	if fs := c.function(r3, "dbms", "newServerConn"); fs != nil && c.need(r3, "db19.Database.HaveUsers", haveUsers) &&
		c.need(r3, "dbms.serverConns", serverConns) && c.need(r3, "mux.ServerConn.Run", run) {
		wrapEv := func(f *FuncSrc, n ast.Node) []string {
			as, ok := n.(*ast.AssignStmt)
			if !ok || len(as.Lhs) != len(as.Rhs) {
				return nil
			}
			for i, l := range as.Lhs {
				if lhsField(f.Info(), l, false) == scDbms {
					if isWrap(f, as.Rhs[i]) {
						return []string{"wrap"}
					}
					return []string{"-wrap", "-wrapOrNoUsers"}
				}
			}
			return nil
		}
		fl := &Flow{P: p, Node: combine(wrapEv, Labeler(StoreToVar("publish", true, serverConns), CallOf("serve", run))),
			Edge: func(f *FuncSrc, cond ast.Expr, truth bool) []string {
				if call, ok := ast.Unparen(cond).(*ast.CallExpr); ok && sameFunc(Callee(f.Info(), call), haveUsers) {
					if truth {
						return []string{"@haveUsers"}
					}
					return []string{"@noUsers"}
				}
				return nil
			},
			Implies: map[string][]string{"wrap": {"wrapOrNoUsers"}, "@noUsers": {"wrapOrNoUsers"}}}
		res := fl.Analyze(fs)
		for _, l := range []string{"publish", "serve"} {
			sites := res.Of(l)
			for _, s := range sites {
				c.Obl(r3, "newServerConn: the connection is wrapped (or the database has no users) before "+l, p.Pos(s.Node), s.Before.Has("wrapOrNoUsers"),
					"on a path where HaveUsers() was not seen false, the connection is made reachable while serverConn.dbms is still the bare DbmsLocal")
			}
			c.Floor(r3, len(sites), 1, l+" sites in newServerConn")
		}
		nw := 0
		for _, s := range res.Of("wrap") {
			nw++
			c.Obl(r3, "newServerConn: wrapper installed exactly when the database has users", p.Pos(s.Node), s.Before.Has("@haveUsers"), "")
		}
		c.Floor(r3, nw, 1, "stores of &DbmsUnauth{} in newServerConn")
		// the wrapper wraps the dbms the connection was given
		nlit := 0
		ForEachNode(fs, func(n ast.Node) {
			cl, ok := n.(*ast.CompositeLit)
			if !ok {
				return
			}
			if nt, _ := types.Unalias(fs.Info().TypeOf(cl)).(*types.Named); nt == nil || nt.Origin() != duType {
				return
			}
			nlit++
			good := false
			for _, el := range cl.Elts {
				if kv, ok := el.(*ast.KeyValueExpr); ok {
					if id, ok := kv.Key.(*ast.Ident); ok && fs.Info().Uses[id] == types.Object(duInner) {
						if v, ok := ast.Unparen(kv.Value).(*ast.Ident); ok && fs.Info().Uses[v] == types.Object(fs.Param(0)) {
							good = true
						}
					}
				}
			}
			c.Obl(r3, "newServerConn: the wrapper wraps the server's dbms", p.Pos(cl), good, "")
		})
		c.Floor(r3, nlit, 1, "DbmsUnauth literals in newServerConn")
	}
	// cmdAuth: unwrap only on the success edge, with the wrapper's own inner dbms
	authM := p.DeclaredMethod("dbms", "serverSession", "auth")
	if fs := c.function(r3, "dbms", "cmdAuth"); fs != nil && c.need(r3, "dbms.serverSession.auth", authM) {
		defs := buildDefs(fs)
		evAuth := CallOf("auth", authM)
		fl := &Flow{P: p, Node: Labeler(StoreTo("dbms=", false, scDbms), evAuth),
			Edge: func(f *FuncSrc, cond ast.Expr, truth bool) []string {
				cond = ast.Unparen(cond)
				if _, isBin := cond.(*ast.BinaryExpr); isBin {
					return nil
				}
				if defs.MentionsEv(f, cond, evAuth) {
					if truth {
						return []string{"@authOK"}
					}
					return []string{"@authFailed"}
				}
				return nil
			}}
		res := fl.Analyze(fs)
		sites := res.Of("dbms=")
		for _, s := range sites {
			c.Obl(r3, "cmdAuth: the wrapper is removed only on the success edge of auth", p.Pos(s.Node), s.Before.Has("@authOK"),
				"serverConn.dbms is replaced on a path where serverSession.auth did not return true: a failed (or skipped) authentication authorises the connection")
			as := s.Node.(*ast.AssignStmt)
			good := len(as.Rhs) == 1 && FieldOf(fs.Info(), as.Rhs[0]) == duInner
			if good {
				// … of the wrapper currently installed on this connection
				sel := ast.Unparen(as.Rhs[0]).(*ast.SelectorExpr)
				ta, isTA := ast.Unparen(sel.X).(*ast.TypeAssertExpr)
				good = isTA && FieldOf(fs.Info(), ta.X) == scDbms
				if !good {
					good = defs.Mentions(fs.Info(), sel.X, func(n ast.Node) bool {
						t, ok := n.(*ast.TypeAssertExpr)
						return ok && FieldOf(fs.Info(), t.X) == scDbms
					})
				}
			}
			c.Obl(r3, "cmdAuth: the stored value is the inner dbms of this connection's wrapper", p.Pos(s.Node), good,
				"after authentication the connection must use exactly the dbms it was wrapped around")
		}
		c.Floor(r3, len(sites), 1, "stores to serverConn.dbms in cmdAuth")
	}
}

func c41SingleUse(c *Ctx) {
	p := c.P
	r4 := "C41.4 K4c authentication succeeds only through AuthUser / AuthToken; nonce and token are single use"
	authUser := p.Func("dbms", "AuthUser")
	authToken := p.Func("dbms", "AuthToken")
	nonceF := p.Field("dbms", "serverConn", "nonce")
	tokens := p.GlobalVar("dbms", "tokens")
	tokensLock := p.GlobalVar("dbms", "tokensLock")
	serverConns := p.GlobalVar("dbms", "serverConns")
	serverConnsLock := p.GlobalVar("dbms", "serverConnsLock")
	if !c.need(r4, "dbms.AuthUser", authUser) || !c.need(r4, "dbms.AuthToken", authToken) || !c.need(r4, "serverConn.nonce", nonceF) ||
		!c.need(r4, "dbms.tokens", tokens) || !c.need(r4, "dbms.tokensLock", tokensLock) ||
		!c.need(r4, "dbms.serverConns", serverConns) || !c.need(r4, "dbms.serverConnsLock", serverConnsLock) {
		return
	}
	evUser, evTok := CallOf("AuthUser", authUser), CallOf("AuthToken", authToken)
	// the auth functions: every function of dbms that calls AuthUser
	var authFns []*FuncSrc
	for fs := range p.FuncsWith([]string{"dbms"}, evUser) {
		authFns = append(authFns, fs)
	}
	sort.Slice(authFns, func(i, j int) bool { return authFns[i].name < authFns[j].name })
	nonceArg := -1
	for _, fs := range authFns {
		defs := buildDefs(fs)
		fl := &Flow{P: p, Node: Labeler(evUser, evTok),
			Edge: func(f *FuncSrc, cond ast.Expr, truth bool) []string {
				cond = ast.Unparen(cond)
				if _, isBin := cond.(*ast.BinaryExpr); isBin {
					return nil
				}
				var out []string
				if defs.MentionsEv(f, cond, evUser) && truth {
					out = append(out, "@userOK")
				}
				if defs.MentionsEv(f, cond, evTok) && truth {
					out = append(out, "@tokenOK")
				}
				return out
			}}
		res := fl.Analyze(fs)
		nret := 0
		for _, r := range res.Returns {
			if r.Fn != fs || len(r.Node.Results) != 1 {
				continue
			}
			nret++
			e := r.Node.Results[0]
			v := ConstVal(fs.Info(), e)
			good := false
			switch {
			case v != nil && v.Kind() == constant.Bool && !constant.BoolVal(v):
				good = true
			case v != nil:
				good = r.Before.HasAny("@userOK", "@tokenOK")
			default:
				// the verdict of AuthUser / AuthToken itself
				call, ok := ast.Unparen(e).(*ast.CallExpr)
				good = ok && (sameFunc(Callee(fs.Info(), call), authUser) || sameFunc(Callee(fs.Info(), call), authToken))
				if !good {
					if id, ok := ast.Unparen(e).(*ast.Ident); ok {
						rhss := defs.defs[fs.Info().Uses[id]]
						good = len(rhss) > 0
						for _, rhs := range rhss {
							call, ok := ast.Unparen(rhs).(*ast.CallExpr)
							if !ok || !(sameFunc(Callee(fs.Info(), call), authUser) || sameFunc(Callee(fs.Info(), call), authToken)) {
								good = false
							}
						}
					}
				}
			}
			c.Obl(r4, fs.name+": returns true only when AuthUser or AuthToken said so", p.Pos(r.Node), good,
				"the function reports a successful authentication on a path where neither AuthUser nor AuthToken returned true")
		}
		c.Floor(r4, nret, 2, "returns in "+fs.name)
		// nonce handling (the server session's auth reads serverConn.nonce)
		usesNonce := false
		ForEachNode(fs, func(n ast.Node) {
			if sel, ok := n.(*ast.SelectorExpr); ok && FieldOf(fs.Info(), sel) == nonceF {
				usesNonce = true
			}
		})
		if !usesNonce {
			continue
		}
		clear := Ev{"nonce=\"\"", func(f *FuncSrc, n ast.Node) bool {
			as, ok := n.(*ast.AssignStmt)
			if !ok || len(as.Lhs) != len(as.Rhs) {
				return false
			}
			for i, l := range as.Lhs {
				if lhsField(f.Info(), l, false) == nonceF && isEmptyStr(f.Info(), as.Rhs[i]) {
					return true
				}
			}
			return false
		}}
		fl2 := &Flow{P: p, Node: Labeler(evUser, evTok, clear)}
		res2 := fl2.Analyze(fs)
		for _, s := range res2.Of("AuthUser") {
			c.Obl(r4, fs.name+": the connection's nonce is cleared on every path through the password check", p.Pos(s.Node),
				s.Before.Has("nonce=\"\"") || s.Follows("nonce=\"\""),
				"a nonce that survives an authentication attempt can be replayed")
			call := s.Node.(*ast.CallExpr)
			for i, a := range call.Args {
				if defs.Mentions(fs.Info(), a, func(n ast.Node) bool {
					sel, ok := n.(*ast.SelectorExpr)
					return ok && FieldOf(fs.Info(), sel) == nonceF
				}) {
					nonceArg = i
				}
			}
			c.Obl(r4, fs.name+": AuthUser is given this connection's nonce", p.Pos(s.Node), nonceArg >= 0, "")
		}
	}
	c.Floor(r4, len(authFns), 2, "functions that call AuthUser (serverSession.auth, auth)")

	// AuthUser refuses the empty nonce
	if fs := c.src(r4, authUser, "dbms.AuthUser"); fs != nil && nonceArg >= 0 {
		param := fs.Param(nonceArg)
		fl := &Flow{P: p, Edge: func(f *FuncSrc, cond ast.Expr, truth bool) []string {
			be, ok := ast.Unparen(cond).(*ast.BinaryExpr)
			if !ok || (be.Op != token.EQL && be.Op != token.NEQ) {
				return nil
			}
			for _, pr := range [][2]ast.Expr{{be.X, be.Y}, {be.Y, be.X}} {
				if id, ok := ast.Unparen(pr[0]).(*ast.Ident); ok && f.Info().Uses[id] == types.Object(param) && isEmptyStr(f.Info(), pr[1]) {
					if (be.Op == token.NEQ) == truth {
						return []string{"@nonce!=\"\""}
					}
					return []string{"@nonce==\"\""}
				}
			}
			return nil
		}}
		res := fl.Analyze(fs)
		n := 0
		for _, r := range res.Returns {
			if r.Fn != fs || len(r.Node.Results) != 1 {
				continue
			}
			v := ConstVal(fs.Info(), r.Node.Results[0])
			if v != nil && v.Kind() == constant.Bool && !constant.BoolVal(v) {
				continue
			}
			n++
			c.Obl(r4, "AuthUser: can succeed only with a non-empty nonce", p.Pos(r.Node), r.Before.Has("@nonce!=\"\""),
				"AuthUser may return true although no nonce was issued (or it was already used): the hash of an empty nonce is a fixed, replayable value")
		}
		c.Floor(r4, n, 1, "non-false returns of AuthUser")
	}

	// AuthToken: true only after delete(tokens, s)
	if fs := c.src(r4, authToken, "dbms.AuthToken"); fs != nil {
		param := fs.Param(0)
		del := Ev{"delete(tokens,s)", func(f *FuncSrc, n ast.Node) bool {
			call, ok := n.(*ast.CallExpr)
			if !ok || !IsBuiltin(f.Info(), call, "delete") || len(call.Args) != 2 {
				return false
			}
			if ObjOf(f.Info(), call.Args[0]) != types.Object(tokens) {
				return false
			}
			id, ok := ast.Unparen(call.Args[1]).(*ast.Ident)
			return ok && f.Info().Uses[id] == types.Object(param)
		}}
		fl := &Flow{P: p, Node: Labeler(del)}
		res := fl.Analyze(fs)
		n := 0
		for _, r := range res.Returns {
			if r.Fn != fs || len(r.Node.Results) != 1 {
				continue
			}
			v := ConstVal(fs.Info(), r.Node.Results[0])
			if v != nil && v.Kind() == constant.Bool && !constant.BoolVal(v) {
				continue
			}
			n++
			c.Obl(r4, "AuthToken: succeeds only after removing the token", p.Pos(r.Node), r.Before.Has("delete(tokens,s)"),
				"a token that is accepted without being deleted can be used again")
		}
		c.Floor(r4, n, 1, "non-false returns of AuthToken")
	}

	// ---- K7 locks
	r5 := "C41.5 K7 tokens under tokensLock, serverConns under serverConnsLock"
	requires := map[string]string{
		"dbms.(*serverConn).close": "documented 'MUST hold serverConnsLock'; every call site is checked instead",
	}
	for _, g := range []struct {
		v, l  *types.Var
		floor int
	}{{tokens, tokensLock, 5}, {serverConns, serverConnsLock, 10}} {
		useEv := Ev{"use", func(f *FuncSrc, n ast.Node) bool {
			id, ok := n.(*ast.Ident)
			return ok && f.Info().Uses[id] == types.Object(g.v)
		}}
		lockEvs := []Ev{MethodOnVar("held", g.l, "Lock"), MethodOnVar("-held", g.l, "Unlock")}
		m := p.FuncsWith(nil, useEv)
		var fns []*FuncSrc
		for fs := range m {
			fns = append(fns, fs)
		}
		sort.Slice(fns, func(i, j int) bool { return fns[i].name < fns[j].name })
		n := 0
		for _, fs := range fns {
			fl := &Flow{P: p, Node: Labeler(append(lockEvs, useEv)...)}
			res := fl.Analyze(fs)
			_, req := requires[fs.name]
			all := true
			cnt := 0
			for _, s := range res.Of("use") {
				cnt++
				if !s.Before.Has("held") {
					all = false
				}
			}
			if cnt < len(m[fs]) {
				all = false // a use the path engine did not reach (e.g. inside a stored literal)
			}
			n += len(m[fs])
			if req {
				// every call site holds the lock
				for _, cs := range p.CallersOf(fs.Obj) {
					okc := false
					if cs.Call != nil {
						fl2 := &Flow{P: p, Node: Labeler(append(lockEvs, CallOf("call", fs.Obj))...)}
						for _, s := range fl2.Analyze(cs.Fn).Of("call") {
							if s.Node == ast.Node(cs.Call) {
								okc = s.Before.Has("held")
							}
						}
					}
					c.Obl(r5, cs.Fn.name+": holds "+g.l.Name()+" when calling "+fs.name, p.Pos(cs.In.Body), okc,
						fs.name+" accesses "+g.v.Name()+" and relies on its caller for the lock")
				}
				continue
			}
			c.Obl(r5, fs.name+": "+g.v.Name()+" accessed under "+g.l.Name(), p.Pos(m[fs][0]), all,
				"the map is read or written on a path without the lock: concurrent requests race on the authorisation state (a token could be accepted twice, a connection table entry lost)")
		}
		c.Floor(r5, n, g.floor, "accesses of "+g.v.Name())
	}
}

package main

// C36.7: routing of a key between the list part and the named part of an object.
// For every method of SuObject that classifies its key with IfInt, the body is folded with
// the key being the integer v and len(list) == 3, for v in {-1,0,2,3,4}, with every boolean
// field of the receiver both false and true:
//   - v inside the list (0, 2): no access to the named part with that key is executed;
//   - v == len(list) (3): no store into the named part with that key is executed
//     (the member belongs at the end of the list);
//   - v outside the list (-1, 3, 4): no element access list[v] is executed, and the named part
//     is consulted with the key (except v == 3 in a storing method, which appends).

import (
	"fmt"
	"go/ast"
	"go/constant"
	"go/types"
	"sort"
	"strings"
)

func checkKeyRouting(c *Ctx, rule string) {
	p := c.P
	obT := p.NamedType("core", "SuObject")
	listF := p.Field("core", "SuObject", "list")
	namedF := p.Field("core", "SuObject", "named")
	namedGet := p.DeclaredMethod("core", "SuObject", "NamedGet")
	listDelete := p.DeclaredMethod("core", "SuObject", "listDelete") // optional helper
	var ifInt *types.Func
	if vt := p.NamedType("core", "Value"); vt != nil {
		if it, ok := vt.Underlying().(*types.Interface); ok {
			for i := 0; i < it.NumMethods(); i++ {
				if it.Method(i).Name() == "IfInt" {
					ifInt = it.Method(i)
				}
			}
		}
	}
	if !c.need(rule, "core.SuObject", obT) || !c.need(rule, "core.SuObject.list", listF) || !c.need(rule, "core.SuObject.named", namedF) ||
		!c.need(rule, "core.SuObject.NamedGet", namedGet) || !c.need(rule, "core.Value.IfInt", ifInt) {
		return
	}
	const n = 3
	nfuncs := 0
	for _, mf := range p.MethodsOf("core", "SuObject") {
		fs := p.Src(mf)
		if fs == nil || fs.Body == nil {
			continue
		}
		info := fs.Info()
		// i, ok := key.IfInt() with key a parameter
		var iv, okv types.Object
		var keyv *types.Var
		ast.Inspect(fs.Body, func(nd ast.Node) bool {
			as, ok := nd.(*ast.AssignStmt)
			if !ok || len(as.Lhs) != 2 || len(as.Rhs) != 1 {
				return true
			}
			call, ok := ast.Unparen(as.Rhs[0]).(*ast.CallExpr)
			if !ok {
				return true
			}
			sel, ok := call.Fun.(*ast.SelectorExpr)
			if !ok || sel.Sel.Name != "IfInt" || info.Uses[sel.Sel] != types.Object(ifInt) {
				return true
			}
			kid := identOf(sel.X)
			if kid == nil {
				return true
			}
			kv, _ := info.Uses[kid].(*types.Var)
			if kv == nil || !c36IsParamOf(fs, kv) {
				return true
			}
			a, b := identOf(as.Lhs[0]), identOf(as.Lhs[1])
			if a == nil || b == nil || iv != nil {
				return true
			}
			iv, okv, keyv = info.ObjectOf(a), info.ObjectOf(b), kv
			return true
		})
		if iv == nil {
			continue
		}
		nfuncs++
		usesKey := func(call *ast.CallExpr) bool {
			for _, a := range call.Args {
				if id := identOf(a); id != nil && info.Uses[id] == types.Object(keyv) {
					return true
				}
			}
			return false
		}
		type access struct {
			kind string // "named-read", "named-store", "list"
			pos  string
		}
		classify := func(nd ast.Node, out *[]access) {
			ast.Inspect(nd, func(m ast.Node) bool {
				switch x := m.(type) {
				case *ast.FuncLit:
					return false
				case *ast.CallExpr:
					if sel, ok := x.Fun.(*ast.SelectorExpr); ok && usesKey(x) {
						if FieldOf(info, sel.X) == namedF {
							k := "named-read"
							if sel.Sel.Name == "Put" {
								k = "named-store"
							}
							*out = append(*out, access{k, p.Pos(x)})
						} else if sameFunc(Callee(info, x), namedGet) {
							*out = append(*out, access{"named-read", p.Pos(x)})
						}
					}
					if listDelete != nil && sameFunc(Callee(info, x), listDelete) && len(x.Args) == 1 {
						if id := identOf(x.Args[0]); id != nil && info.ObjectOf(id) == iv {
							*out = append(*out, access{"list", p.Pos(x)})
						}
					}
				case *ast.IndexExpr:
					if FieldOf(info, x.X) == listF {
						if id := identOf(x.Index); id != nil && info.ObjectOf(id) == iv {
							*out = append(*out, access{"list", p.Pos(x)})
						}
					}
				}
				return true
			})
		}
		var problems []string
		hasStore := false
		{
			var all []access
			classify(fs.Body, &all)
			for _, a := range all {
				if a.kind == "named-store" {
					hasStore = true
				}
			}
		}
		for _, v := range []int64{-1, 0, n - 1, n, n + 1} {
			for _, flag := range []bool{false, true} {
				var acc []access
				env := &AbsEnv{Info: info, SkipLoops: true, Locals: map[types.Object]constant.Value{iv: constant.MakeInt64(v), okv: constant.MakeBool(true)}}
				// short-circuit aware recording: only expressions the fold evaluates are classified
				env.Atom = func(e ast.Expr) (constant.Value, bool) {
					switch x := e.(type) {
					case *ast.CallExpr:
						if IsBuiltin(info, x, "len") && len(x.Args) == 1 && FieldOf(info, x.Args[0]) == listF {
							return constant.MakeInt64(n), true
						}
						classify(x, &acc)
						return nil, true
					case *ast.IndexExpr:
						classify(x, &acc)
						return nil, true
					case *ast.SelectorExpr:
						if fv := FieldOf(info, x); fv != nil {
							if b, ok := fv.Type().Underlying().(*types.Basic); ok && b.Info()&types.IsBoolean != 0 {
								return constant.MakeBool(flag), true
							}
						}
					}
					return nil, false
				}
				env.OnExec = func(nd ast.Node) {
					switch x := nd.(type) {
					case *ast.ExprStmt:
						classify(x, &acc)
					case *ast.AssignStmt:
						for _, l := range x.Lhs {
							classify(l, &acc)
						}
						if len(x.Lhs) == len(x.Rhs) {
							return // right-hand sides go through expr
						}
						if len(x.Lhs) == 2 && len(x.Rhs) == 1 {
							if call, ok := ast.Unparen(x.Rhs[0]).(*ast.CallExpr); ok {
								if sel, ok := call.Fun.(*ast.SelectorExpr); ok && info.Uses[sel.Sel] == types.Object(ifInt) {
									return
								}
							}
							classify(x.Rhs[0], &acc)
						}
					case *ast.ReturnStmt, *ast.DeferStmt, *ast.ForStmt, *ast.RangeStmt:
						// results go through expr; deferred bookkeeping and migration loops do not use the key
					}
				}
				res := env.run(fs.Body)
				if res.Unknown != "" {
					problems = append(problems, fmt.Sprintf("key %d of a %d-element list: cannot fold (%s)", v, n, res.Unknown))
					continue
				}
				inList := v >= 0 && v < n
				if !inList && !(v == n && hasStore) {
					reached := false
					for _, a := range acc {
						if strings.HasPrefix(a.kind, "named") {
							reached = true
						}
					}
					if !reached {
						problems = append(problems, fmt.Sprintf("integer key %d outside a %d-element list never reaches the named part", v, n))
					}
				}
				for _, a := range acc {
					switch {
					case inList && strings.HasPrefix(a.kind, "named"):
						problems = append(problems, fmt.Sprintf("integer key %d of a %d-element list reaches the named part (%s at %s)", v, n, a.kind, a.pos))
					case v == n && a.kind == "named-store":
						problems = append(problems, fmt.Sprintf("integer key %d == len(list) is stored in the named part (%s) instead of being appended", v, a.pos))
					case !inList && a.kind == "list":
						problems = append(problems, fmt.Sprintf("integer key %d outside a %d-element list indexes the list (%s)", v, n, a.pos))
					}
				}
			}
		}
		sort.Strings(problems)
		problems = uniqStrings(problems)
		if len(problems) > 3 {
			problems = problems[:3]
		}
		c.Obl(rule, fs.name+": an integer key goes to the list part exactly when 0 <= key < len(list)", p.Pos(fs.Decl), len(problems) == 0, strings.Join(problems, "; "))
	}
	c.Floor(rule, nfuncs, 4, "SuObject methods that classify their key with IfInt")
}

func c36IsParamOf(fs *FuncSrc, v *types.Var) bool {
	if fs.Obj == nil {
		return false
	}
	ps := fs.Obj.Type().(*types.Signature).Params()
	for i := 0; i < ps.Len(); i++ {
		if ps.At(i) == v {
			return true
		}
	}
	return false
}

// simulateFor runs only the control part (init; cond; post) of a counted for statement in env
// and returns the values the loop variable takes at the start of each iteration.
func simulateFor(env *AbsEnv, f *ast.ForStmt, limit int) ([]int64, string) {
	if f.Init == nil || f.Cond == nil || f.Post == nil {
		return nil, "not a counted loop"
	}
	as, ok := f.Init.(*ast.AssignStmt)
	if !ok || len(as.Lhs) != 1 {
		return nil, "init is not a single assignment"
	}
	id := identOf(as.Lhs[0])
	if id == nil {
		return nil, "init does not define a variable"
	}
	v := env.Info.ObjectOf(id)
	if r, done := env.stmt(as); done || r.Unknown != "" {
		return nil, "init cannot be folded"
	}
	var out []int64
	for k := 0; k <= limit; k++ {
		cv := env.expr(f.Cond)
		if cv == nil || cv.Kind() != constant.Bool {
			return nil, "condition cannot be folded"
		}
		if !constant.BoolVal(cv) {
			return out, ""
		}
		cur := env.Locals[v]
		if cur == nil {
			return nil, "loop variable unknown"
		}
		x, _ := constant.Int64Val(cur)
		out = append(out, x)
		switch p := f.Post.(type) {
		case *ast.IncDecStmt:
			d := int64(1)
			if p.Tok.String() == "--" {
				d = -1
			}
			if pid := identOf(p.X); pid == nil || env.Info.ObjectOf(pid) != v {
				return nil, "post does not step the loop variable"
			}
			env.Locals[v] = constant.MakeInt64(x + d)
		case *ast.AssignStmt:
			if len(p.Lhs) != 1 || len(p.Rhs) != 1 {
				return nil, "post is not a single assignment"
			}
			nv := env.expr(p.Rhs[0])
			if nv == nil {
				return nil, "post cannot be folded"
			}
			switch p.Tok.String() {
			case "=":
				env.Locals[v] = nv
			case "+=":
				y, _ := constant.Int64Val(nv)
				env.Locals[v] = constant.MakeInt64(x + y)
			case "-=":
				y, _ := constant.Int64Val(nv)
				env.Locals[v] = constant.MakeInt64(x - y)
			default:
				return nil, "post operator"
			}
		default:
			return nil, "post statement"
		}
	}
	return nil, "loop does not terminate within the bound"
}

// checkEraseMigratesTail (C36.8): Erase of list element i moves exactly the elements
// i+1 .. len-1 to the named part under their own index, then cuts the list at i.
func checkEraseMigratesTail(c *Ctx, rule string) {
	p := c.P
	fs := c.method(rule, "core", "SuObject", "erase")
	listF := p.Field("core", "SuObject", "list")
	namedF := p.Field("core", "SuObject", "named")
	if fs == nil || !c.need(rule, "core.SuObject.list", listF) || !c.need(rule, "core.SuObject.named", namedF) {
		return
	}
	info := fs.Info()
	var loop *ast.ForStmt
	var cut *ast.AssignStmt
	ast.Inspect(fs.Body, func(nd ast.Node) bool {
		switch x := nd.(type) {
		case *ast.ForStmt:
			if loop == nil {
				loop = x
			}
		case *ast.AssignStmt:
			if len(x.Lhs) == 1 && len(x.Rhs) == 1 && lhsField(info, x.Lhs[0], false) == listF {
				if se, ok := ast.Unparen(x.Rhs[0]).(*ast.SliceExpr); ok && FieldOf(info, se.X) == listF && se.Low == nil && se.High != nil {
					cut = x
				}
			}
		}
		return true
	})
	if loop == nil || cut == nil {
		c.Missing(rule, "erase: migration loop and list cut")
		return
	}
	// the erased position: the variable the cut uses as its bound
	hid := identOf(cut.Rhs[0].(*ast.SliceExpr).High)
	if hid == nil {
		c.Obl(rule, "erase cuts the list at the erased position", p.Pos(cut), false, "the new length is not the erased position itself")
		return
	}
	iv := info.ObjectOf(hid)
	// body: named.Put(IntVal(j), list[j])
	var put *ast.CallExpr
	ast.Inspect(loop.Body, func(nd ast.Node) bool {
		if call, ok := nd.(*ast.CallExpr); ok && put == nil {
			if sel, ok := call.Fun.(*ast.SelectorExpr); ok && sel.Sel.Name == "Put" && FieldOf(info, sel.X) == namedF && len(call.Args) == 2 {
				put = call
			}
		}
		return true
	})
	if put == nil {
		c.Missing(rule, "erase: named.Put in the migration loop")
		return
	}
	var bad []string
	const n = 5
	for _, i := range []int64{0, 2, n - 1} {
		env := &AbsEnv{Info: info, Locals: map[types.Object]constant.Value{iv: constant.MakeInt64(i)}}
		env.Atom = func(e ast.Expr) (constant.Value, bool) {
			if call, ok := e.(*ast.CallExpr); ok && IsBuiltin(info, call, "len") && len(call.Args) == 1 && FieldOf(info, call.Args[0]) == listF {
				return constant.MakeInt64(n), true
			}
			return nil, false
		}
		js, why := simulateFor(env, loop, 3*n)
		if why != "" {
			bad = append(bad, "the migration loop cannot be folded: "+why)
			break
		}
		sort.Slice(js, func(a, b int) bool { return js[a] < js[b] })
		want := []int64{}
		for j := i + 1; j < n; j++ {
			want = append(want, j)
		}
		if fmt.Sprint(js) != fmt.Sprint(want) {
			bad = append(bad, fmt.Sprintf("erasing element %d of %d moves positions %v to the named part, want %v", i, n, js, want))
		}
	}
	// key and value of the Put use the loop variable
	lid := identOf(loop.Init.(*ast.AssignStmt).Lhs[0])
	lv := info.ObjectOf(lid)
	usesOnly := func(e ast.Expr) bool {
		ok := false
		ast.Inspect(e, func(nd ast.Node) bool {
			if id, isId := nd.(*ast.Ident); isId && info.ObjectOf(id) == lv {
				ok = true
			}
			return true
		})
		return ok
	}
	keyOK := false
	if kc, ok := ast.Unparen(put.Args[0]).(*ast.CallExpr); ok && len(kc.Args) == 1 {
		if id := identOf(kc.Args[0]); id != nil && info.ObjectOf(id) == lv {
			keyOK = true
		}
	}
	valOK := false
	if ix, ok := ast.Unparen(put.Args[1]).(*ast.IndexExpr); ok && FieldOf(info, ix.X) == listF {
		if id := identOf(ix.Index); id != nil && info.ObjectOf(id) == lv {
			valOK = true
		}
	}
	_ = usesOnly
	if !keyOK || !valOK {
		bad = append(bad, "the member stored is not list[j] under the key j")
	}
	c.Obl(rule, "erase moves exactly the elements after the erased one to the named part, each under its own index", p.Pos(loop), len(bad) == 0, strings.Join(bad, "; "))
}

package main

import (
	"go/ast"
	"go/token"
	"golang.org/x/tools/go/cfg"
)

func init() { register("C18", checkC18, "./db19/stor/...") }

var atomicMut = []string{"Store", "Add", "Swap", "CompareAndSwap", "And", "Or"}

func checkC18(c *Ctx) string {
	p := c.P
	size := p.Field("db19/stor", "Stor", "size")
	allocChunk := p.Field("db19/stor", "Stor", "allocChunk")
	chunks := p.Field("db19/stor", "Stor", "chunks")
	lock := p.Field("db19/stor", "Stor", "lock")
	r1 := "C18.1 K2 writers of the allocation cursor"
	if !c.need(r1, "field stor.Stor.size", size) || !c.need(r1, "field stor.Stor.allocChunk", allocChunk) ||
		!c.need(r1, "field stor.Stor.chunks", chunks) || !c.need(r1, "field stor.Stor.lock", lock) {
		return "anchors missing"
	}
	pk := []string{"db19/stor"}
	c.Writers(r1, "Stor.size", pk, MethodOnField("", size, atomicMut...),
		[]string{"db19/stor.NewStor", "db19/stor.(*Stor).Alloc", "db19/stor.(*Stor).extend", "db19/stor.(*Stor).Close"}, 3)
	c.Writers(r1, "Stor.allocChunk", pk, MethodOnField("", allocChunk, atomicMut...),
		[]string{"db19/stor.NewStor", "db19/stor.(*Stor).extend"}, 2)
	c.Writers(r1, "Stor.chunks", pk, MethodOnField("", chunks, atomicMut...),
		[]string{"db19/stor.NewStor", "db19/stor.(*Stor).extend"}, 2)
	// the fields are atomics: a plain assignment would replace the whole atomic value
	c.Writers(r1, "Stor.size/allocChunk/chunks (plain store)", pk, StoreTo("", true, size, allocChunk, chunks), []string{}, 0)

	// ---- Alloc
	r2 := "C18.2 K11+K4 Alloc reserves with one atomic Add"
	alloc := c.method(r2, "db19/stor", "Stor", "Alloc")
	extendFn := p.DeclaredMethod("db19/stor", "Stor", "extend")
	if alloc != nil {
		evAdd := MethodOnField("size.Add", size, "Add")
		evMut := MethodOnField("size.mut", size, atomicMut...)
		evLoadAC := MethodOnField("allocChunk.Load", allocChunk, "Load")
		_ = p.DeclaredMethod("db19/stor", "Stor", "offsetToChunk")
		defs := buildDefs(alloc)
		fl := &Flow{P: p, Node: Labeler(evAdd, evMut, evLoadAC, CallOf("extend", extendFn)),
			Edge: func(fs *FuncSrc, cond ast.Expr, truth bool) []string {
				be, ok := cond.(*ast.BinaryExpr)
				if !ok || be.Op != token.EQL && be.Op != token.NEQ {
					return nil
				}
				eq := (be.Op == token.EQL) == truth
				x, y := be.X, be.Y
				for i := 0; i < 2; i++ {
					if defs.MentionsEv(fs, x, evAdd) && defs.MentionsEv(fs, y, evLoadAC) && !defs.MentionsEv(fs, y, evAdd) {
						if eq {
							return []string{"@endChunk==allocChunk"}
						}
						return []string{"@endChunk!=allocChunk"}
					}
					x, y = y, x
				}
				return nil
			}}
		res := fl.Analyze(alloc)
		muts := res.Of("size.mut")
		adds := res.Of("size.Add")
		c.Obl(r2, "Alloc: exactly one mutation of size and it is Add", c.P.Pos(alloc.Decl),
			len(muts) == 1 && len(adds) == 1, "a reservation made of several atomic steps lets two goroutines obtain the same range")
		c.RequireBefore(r2, res, "size.Add", 1, "allocChunk.Load")
		nret := 0
		for _, r := range res.Returns {
			if len(r.Node.Results) < 2 {
				continue
			}
			nret++
			ok := r.Before.Has("@endChunk==allocChunk")
			c.Obl(r2, "Alloc: return guarded by chunk check", p.Pos(r.Node), ok,
				"an offset is returned on a path where the end-chunk of the reservation was not compared equal to the allocChunk loaded before the Add")
			ok = defs.MentionsEv(alloc, r.Node.Results[0], evAdd)
			c.Obl(r2, "Alloc: returned offset derives from the Add result", p.Pos(r.Node), ok,
				"the returned offset does not depend on the value returned by size.Add")
			ok = defs.Mentions(alloc.Info(), r.Node.Results[1], func(n ast.Node) bool { return n == ast.Node(nil) }) ||
				exprMentionsExpr(defs, alloc, r.Node.Results[1], r.Node.Results[0])
			c.Obl(r2, "Alloc: returned slice is the data at the returned offset", p.Pos(r.Node), ok,
				"the returned byte slice is not taken at the returned offset")
		}
		c.Floor(r2, nret, 1, "value returns in Alloc")
		c.Obl(r2, "Alloc: falling out of the retry loop does not return", p.Pos(alloc.Decl), nret == len(res.Returns),
			"Alloc has a return without values / implicit return")
		// the chunk number compared with is the one loaded BEFORE the reservation: a load made after
		// size.Add can already show the next chunk, whose cursor extend() is about to reset
		fl2 := &Flow{P: p, Node: Labeler(evAdd, evLoadAC), BlockEntry: func(fs *FuncSrc, b *cfg.Block) []string {
			if b.Kind == cfg.KindRangeBody || b.Kind == cfg.KindForBody {
				return []string{"-size.Add"}
			}
			return nil
		}}
		for _, s := range fl2.Analyze(alloc).Of("allocChunk.Load") {
			c.Obl(r2, "Alloc: allocChunk is loaded before the reservation of the same attempt, never after it", p.Pos(s.Node), !s.Before.Has("size.Add"),
				"allocChunk is loaded after size.Add in the same attempt: a range reserved beyond the old chunk can be accepted against the already advanced chunk number while extend() resets the cursor, and is handed out twice")
		}
		// extend is called only on the mismatch edge
		for _, s := range res.Of("extend") {
			c.Obl(r2, "Alloc: extend only after a failed chunk check", p.Pos(s.Node), s.Before.Has("@endChunk!=allocChunk"), "")
		}
	}

	// ---- extend
	r3 := "C18.3 K7+K4 extend under the lock, in store order"
	ext := c.src(r3, extendFn, "stor.(*Stor).extend")
	if ext != nil {
		defs := buildDefs(ext)
		evChunksLoad := MethodOnField("chunks.Load", chunks, "Load")
		param := ext.Param(0)
		fl := &Flow{P: p, Node: Labeler(
			MethodOnField("lock", lock, "Lock"), MethodOnField("-lock", lock, "Unlock"),
			MethodOnField("chunks.Store", chunks, "Store"),
			MethodOnField("size.Store", size, atomicMut...),
			MethodOnField("allocChunk.Add", allocChunk, atomicMut...)),
			Edge: func(fs *FuncSrc, cond ast.Expr, truth bool) []string {
				be, ok := cond.(*ast.BinaryExpr)
				if !ok {
					return nil
				}
				switch be.Op {
				case token.LSS, token.LEQ, token.GTR, token.GEQ:
				default:
					return nil
				}
				x, y := be.X, be.Y
				for i := 0; i < 2; i++ {
					if param != nil && defs.MentionsObj(fs.Info(), x, param) && isLenOf(fs, defs, y, evChunksLoad) {
						return []string{"@cmp(allocChunk,len(chunks))"}
					}
					x, y = y, x
				}
				return nil
			}}
		res := fl.Analyze(ext)
		for _, l := range []string{"chunks.Store", "size.Store", "allocChunk.Add"} {
			c.RequireBefore(r3, res, l, 1, "lock")
			c.RequireBefore(r3+" (already-extended test)", res, l, 1, "@cmp(allocChunk,len(chunks))")
		}
		c.RequireBefore(r3+" (order)", res, "size.Store", 1, "chunks.Store")
		c.RequireBefore(r3+" (order)", res, "allocChunk.Add", 1, "size.Store")
		// lock released only at exit (deferred) : Exit must not hold it, handled by kill on
		// a non-deferred Unlock before the stores (then "lock" is not in Before).
	}
	// callers of extend
	c.Callers("C18.3 K3 extend is called only from Alloc", []*funcT{extendFn}, []string{"db19/stor.(*Stor).Alloc"}, 1)
	return "Static shape of the storage allocator: the cursor Stor.size is mutated only in NewStor/Alloc/extend/Close (allocChunk, chunks only in NewStor/extend); " +
		"Alloc reserves with exactly one atomic Add whose result yields the returned offset, loads allocChunk before the Add, returns only on the edge where the " +
		"end chunk of the reservation equals that allocChunk, and never falls out of its loop normally; extend holds the lock over its stores, tests for 'already extended' " +
		"first, and stores chunks, then size, then allocChunk. Not decided: arithmetic of offsets, mmap behaviour."
}

func isLenOf(fs *FuncSrc, defs *defIndex, e ast.Expr, ev Ev) bool {
	call, ok := ast.Unparen(e).(*ast.CallExpr)
	if !ok || !IsBuiltin(fs.Info(), call, "len") || len(call.Args) != 1 {
		return false
	}
	return defs.MentionsEv(fs, call.Args[0], ev)
}

// exprMentionsExpr: a mentions every variable of b (or b's call), i.e. a is computed from b.
func exprMentionsExpr(defs *defIndex, fs *FuncSrc, a, b ast.Expr) bool {
	info := fs.Info()
	ok := true
	any := false
	ast.Inspect(b, func(n ast.Node) bool {
		if id, isId := n.(*ast.Ident); isId {
			if o := info.Uses[id]; o != nil {
				if _, isVar := o.(*typesVar); isVar {
					any = true
					if !defs.MentionsObj(info, a, o) {
						ok = false
					}
				}
			}
		}
		return true
	})
	return ok && any
}

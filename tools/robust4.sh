#!/bin/bash
# Robustness against hoisted conditions: every if condition of the
# module is first assigned to a boolean local (if hc := cond; hc {).  Every check must stay silent.
D=/tmp/gsvrobust4.$$
mkdir -p $D/repo $D/verif
rsync -a --exclude .git --exclude '*.syso' --exclude '*.tmp' /repo/ $D/repo/
cp /verif/known_findings.txt $D/verif/
GSV_REPO=$D/repo /verif/gsv/gsv hoistconds
bad=0
for id in ${@:-$(/verif/gsv/gsv list)}; do
  out=$(GSV_REPO=$D/repo GSV_VERIF=$D/verif /verif/gsv/gsv check $id 2>&1 | grep -E "^violation|^C[0-9]+ tier|gsv:|type errors|^/tmp")
  echo "$out" | grep "tier=" | tail -1
  if echo "$out" | grep -q "^violation\|gsv:"; then echo "$out" | grep -v "tier=" | cut -c1-330 | head -12; bad=$((bad+1)); fi
done
rm -rf $D
echo "robust4: $bad checks fired on the hoisted tree"

package main

// C09.4: the iteration mode an OverIter remembers (rng, skipRng, skipStart) always equals the
// mode its source iterators were put into — newIters() re-creates the sources from the
// remembered mode whenever the overlay changes, so a stale copy silently changes what the
// iterator returns after an index change.  Added after seeded change R5-C09-1.
// C06.9: Meta.dropIndexes filters the schema's index list and the info's overlay list in
// lockstep.  Added after seeded change R5-C06-2.

import (
	"go/ast"
	"go/constant"
	"go/token"
	"go/types"
)

func checkOverIterModeCopy(c *Ctx, rule string) {
	p := c.P
	iterT := p.NamedType("db19/index", "iterT")
	fields := map[string]*types.Var{}
	for _, nm := range []string{"rng", "skipRng", "skipStart"} {
		fields[nm] = p.Field("db19/index", "OverIter", nm)
		if !c.need(rule, "index.OverIter."+nm, fields[nm]) {
			return
		}
	}
	if !c.need(rule, "index.iterT", iterT) {
		return
	}
	it, _ := iterT.Underlying().(*types.Interface)
	var mRange, mSkip *types.Func
	for i := 0; it != nil && i < it.NumMethods(); i++ {
		switch it.Method(i).Name() {
		case "Range":
			mRange = it.Method(i)
		case "SkipScan":
			mSkip = it.Method(i)
		}
	}
	if !c.need(rule, "index.iterT.Range", mRange) || !c.need(rule, "index.iterT.SkipScan", mSkip) {
		return
	}
	n := 0
	for _, mf := range p.MethodsOf("db19/index", "OverIter") {
		fs := p.Src(mf)
		if fs == nil || fs.Body == nil || len(p.CallsIn(fs, mRange, mSkip)) == 0 {
			continue
		}
		info := fs.Info()
		store := func(_ *FuncSrc, nd ast.Node) []string {
			as, ok := nd.(*ast.AssignStmt)
			if !ok || len(as.Lhs) != len(as.Rhs) {
				return nil
			}
			var out []string
			for i, l := range as.Lhs {
				for nm, f := range fields {
					if lhsField(info, l, false) != f {
						continue
					}
					if id := identOf(as.Rhs[i]); id != nil {
						out = append(out, nm+"="+id.Name)
					} else if v := ConstVal(info, as.Rhs[i]); v != nil && v.Kind() == constant.Int && constant.Sign(v) == 0 {
						out = append(out, nm+"=0")
					} else {
						out = append(out, nm+"=?")
					}
				}
			}
			return out
		}
		edge := func(_ *FuncSrc, cond ast.Expr, truth bool) []string {
			be, ok := ast.Unparen(cond).(*ast.BinaryExpr)
			if !ok || (be.Op != token.EQL && be.Op != token.NEQ) {
				return nil
			}
			if FieldOf(info, be.X) == fields["skipStart"] {
				if v := ConstVal(info, be.Y); v != nil && constant.Sign(v) == 0 && (be.Op == token.EQL) == truth {
					return []string{"skipStart=0"}
				}
			}
			return nil
		}
		fl := &Flow{P: p, Node: combine(Labeler(CallOf("it.Range", mRange), CallOf("it.SkipScan", mSkip)), store), Edge: edge}
		res := fl.Analyze(fs)
		agrees := func(s *Site, nm string, arg ast.Expr) bool {
			if FieldOf(info, arg) == fields[nm] {
				return true // the remembered value itself is handed on
			}
			if id := identOf(arg); id != nil {
				return s.Before.Has(nm + "=" + id.Name)
			}
			return false
		}
		for _, s := range res.Of("it.Range") {
			call := s.Node.(*ast.CallExpr)
			n++
			ok := len(call.Args) == 1 && agrees(s, "rng", call.Args[0]) && s.Before.Has("skipStart=0")
			c.Obl(rule, fs.name+": sources put into plain range mode ⇒ the OverIter remembers that range and no skip-scan", p.Pos(call), ok,
				"the sources are given a range while OverIter.rng / skipStart say something else: after the next index change newIters() re-creates the sources in the remembered (stale) mode and keys of the range are dropped")
		}
		for _, s := range res.Of("it.SkipScan") {
			call := s.Node.(*ast.CallExpr)
			n++
			ok := len(call.Args) == 3 && agrees(s, "rng", call.Args[0]) && agrees(s, "skipRng", call.Args[1]) && agrees(s, "skipStart", call.Args[2])
			c.Obl(rule, fs.name+": sources put into skip-scan mode ⇒ the OverIter remembers the same prefix range, suffix range and start", p.Pos(call), ok,
				"the skip-scan parameters handed to the sources differ from the ones the OverIter remembers")
		}
	}
	c.Floor(rule, n, 4, "mode changes of OverIter sources")
}

func checkDropIndexesLockstep(c *Ctx, rule string) {
	p := c.P
	fs := c.function(rule, "db19/meta", "dropIndexes")
	sIdx := p.Field("db19/meta/schema", "Schema", "Indexes")
	iIdx := p.Field("db19/meta", "Info", "Indexes")
	if fs == nil || !c.need(rule, "schema.Schema.Indexes", sIdx) || !c.need(rule, "meta.Info.Indexes", iIdx) {
		return
	}
	info := fs.Info()
	// lists built by `L = append(L, X.<field>[i])`
	type app struct {
		list  types.Object
		field *types.Var
		idx   types.Object
		blk   ast.Node
	}
	var apps []app
	par := parentMap(fs.Body)
	ast.Inspect(fs.Body, func(nd ast.Node) bool {
		as, ok := nd.(*ast.AssignStmt)
		if !ok || len(as.Lhs) != 1 || len(as.Rhs) != 1 {
			return true
		}
		call, ok := ast.Unparen(as.Rhs[0]).(*ast.CallExpr)
		if !ok || !IsBuiltin(info, call, "append") || len(call.Args) != 2 {
			return true
		}
		l := identOf(as.Lhs[0])
		ix, ok2 := ast.Unparen(call.Args[1]).(*ast.IndexExpr)
		if l == nil || !ok2 {
			return true
		}
		f := FieldOf(info, ix.X)
		iv := identOf(ix.Index)
		if (f != sIdx && f != iIdx) || iv == nil {
			return true
		}
		apps = append(apps, app{info.ObjectOf(l), f, info.ObjectOf(iv), par[as]})
		return true
	})
	// the stores into the two fields
	var sRHS, iRHS ast.Expr
	ast.Inspect(fs.Body, func(nd ast.Node) bool {
		as, ok := nd.(*ast.AssignStmt)
		if !ok || len(as.Lhs) != 1 || len(as.Rhs) != 1 {
			return true
		}
		switch lhsField(info, as.Lhs[0], false) {
		case sIdx:
			sRHS = as.Rhs[0]
		case iIdx:
			iRHS = as.Rhs[0]
		}
		return true
	})
	if sRHS == nil || iRHS == nil {
		c.Missing(rule, "dropIndexes: stores of the remaining Schema.Indexes and Info.Indexes")
		return
	}
	ok, why := true, ""
	sl, il := identOf(sRHS), identOf(iRHS)
	if sl == nil || il == nil {
		ok, why = false, "a remaining list is not a local built element by element"
	} else {
		var sa, ia []app
		for _, a := range apps {
			if a.list == info.ObjectOf(sl) && a.field == sIdx {
				sa = append(sa, a)
			}
			if a.list == info.ObjectOf(il) && a.field == iIdx {
				ia = append(ia, a)
			}
		}
		if len(sa) == 0 || len(sa) != len(ia) {
			ok, why = false, "the two lists are not built by the same number of appends"
		} else {
			for k := range sa {
				if sa[k].idx != ia[k].idx || sa[k].blk != ia[k].blk {
					ok, why = false, "an index is kept without keeping the overlay at the same position (or the other way round)"
				}
			}
		}
	}
	c.Obl(rule, "dropIndexes keeps the overlay of exactly every index it keeps", p.Pos(fs.Decl), ok,
		why+": after dropping an index that is not the last one, an index is served by another index's btree and buffers")
}

#!/bin/bash
# usage: sh2mut.sh <agent verif dir> <ID...>   — converts an agent's mutants/<ID>/*.sh (mut.sh command lines) into .mut files in /verif/gsv
A=$1; shift
cp $A/tools/mut.sh $A/tools/mut.sh.orig
cat > $A/tools/mut.sh <<'STUB'
#!/bin/bash
ID=$1; shift
out=$MUTOUT
{
  echo "# $MUTDESC"
  if [ "$1" = "-e" ]; then
    echo "file: $3"
    echo "sed: $2"
  else
    b=$(basename "$1")
    cp "$1" "$(dirname $out)/$b"
    echo "patch: $b"
  fi
} > $out
STUB
chmod +x $A/tools/mut.sh
for ID in "$@"; do
  for f in $A/gsv/mutants/$ID/*.sh $A/gsv/mutants/$ID/preserve/*.sh $A/gsv/mutants/$ID/silent/*.sh $A/gsv/mutants/$ID/preserving/*.sh $A/gsv/benign/$ID/*.sh; do
    [ -f "$f" ] || continue
    name=$(basename $f .sh)
    kind=mutants
    case "$name" in ok_*|silent-*|keep_*) kind=benign;; esac
    case "$f" in */preserve/*|*/preserving/*|*/benign/*|*/silent/*) kind=benign;; esac
    mkdir -p /verif/gsv/$kind/$ID
    desc=$(grep -m1 '^# ' $f | sed 's/^# //')
    MUTOUT=/verif/gsv/$kind/$ID/$name.mut MUTDESC="$desc" bash $f >/dev/null 2>&1 || echo "convert failed: $f"
  done
done
mv $A/tools/mut.sh.orig $A/tools/mut.sh

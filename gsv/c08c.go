package main

// C08.7 / C08.8: the loops over an index's back links (FkToHere) in db19/tran.go.

import (
	"go/ast"
	"go/types"

	"golang.org/x/tools/go/cfg"
)

func checkBackLinkLoops(c *Ctx, rule7, rule8 string) {
	p := c.P
	toHere := p.Field("db19/meta/schema", "Index", "FkToHere")
	modeF := p.Field("db19/meta/schema", "Fkey", "Mode")
	cascadeRange := p.DeclaredMethod("db19", "UpdateTran", "cascadeRange")
	delExists := p.DeclaredMethod("db19", "UpdateTran", "fkeyDeleteExists")
	if !c.need(rule7, "schema.Index.FkToHere", toHere) || !c.need(rule7, "schema.Fkey.Mode", modeF) ||
		!c.need(rule7, "db19.UpdateTran.cascadeRange", cascadeRange) || !c.need(rule7, "db19.UpdateTran.fkeyDeleteExists", delExists) {
		return
	}
	n7, n8 := 0, 0
	for _, fs := range p.FuncsIn("db19") {
		if fs.Body == nil || len(p.CallsIn(fs, cascadeRange, delExists)) == 0 || fs.Obj == cascadeRange || fs.Obj == delExists {
			continue
		}
		info := fs.Info()
		defs := buildDefs(fs)
		// the loop over the back links
		var loop *ast.RangeStmt
		ast.Inspect(fs.Body, func(nd ast.Node) bool {
			if r, ok := nd.(*ast.RangeStmt); ok && loop == nil {
				if defs.Mentions(info, r.X, func(m ast.Node) bool {
					e, ok := m.(ast.Expr)
					return ok && FieldOf(info, e) == toHere
				}) {
					loop = r
				}
			}
			return true
		})
		if loop == nil {
			c.Missing(rule7, fs.name+": loop over the index's back links")
			continue
		}
		// variables assigned inside the loop (candidates for rule 8)
		assigned := func(_ *FuncSrc, nd ast.Node) []string {
			as, ok := nd.(*ast.AssignStmt)
			if !ok || as.Pos() < loop.Body.Pos() || as.End() > loop.Body.End() {
				return nil
			}
			var out []string
			for _, l := range as.Lhs {
				if id := identOf(l); id != nil {
					if v, ok := info.ObjectOf(id).(*types.Var); ok {
						out = append(out, "def:"+v.Name())
					}
				}
			}
			return out
		}
		var perIter []string
		ast.Inspect(loop.Body, func(nd ast.Node) bool {
			if as, ok := nd.(*ast.AssignStmt); ok {
				for _, l := range as.Lhs {
					if id := identOf(l); id != nil {
						perIter = append(perIter, "-def:"+id.Name)
					}
				}
			}
			return true
		})
		fl := &Flow{P: p, Node: combine(Labeler(CallOf("act", cascadeRange), CallOf("act", delExists)), assigned),
			Edge: func(s *FuncSrc, cond ast.Expr, truth bool) []string { return []string{condLabel(cond, truth)} },
			BlockEntry: func(_ *FuncSrc, b *cfg.Block) []string {
				if b.Stmt == ast.Stmt(loop) && b.Kind == cfg.KindRangeBody {
					return perIter
				}
				return nil
			}}
		res := fl.Analyze(fs)
		for _, s := range res.Of("act") {
			call := s.Node.(*ast.CallExpr)
			if call.Pos() < loop.Body.Pos() || call.End() > loop.Body.End() {
				continue
			}
			n7++
			bad := ""
			for _, f := range condFactsOf(s.Before, loop) {
				if !defs.Mentions(info, f.Expr, func(m ast.Node) bool {
					e, ok := m.(ast.Expr)
					return ok && FieldOf(info, e) == modeF
				}) {
					bad = f.String()
				}
			}
			c.Obl(rule7, fs.name+": a back link is skipped only because of its mode", p.Pos(call), bad == "",
				"the scan of the referencing index is guarded by "+bad+": links for which that holds are neither blocked nor cascaded (e.g. a self-referencing key)")
			// rule 8: the key handed over is chosen afresh for this link
			if len(call.Args) >= 2 {
				idx := 1
				if sameFunc(Callee(info, call), cascadeRange) {
					idx = 2
				}
				if idx < len(call.Args) {
					if id := identOf(call.Args[idx]); id != nil {
						assignedInLoop := false
						for _, k := range perIter {
							if k == "-def:"+id.Name {
								assignedInLoop = true
							}
						}
						if assignedInLoop {
							n8++
							c.Obl(rule8, fs.name+": the key used for a back link is set for that link on every path", p.Pos(call), s.Before.Has("def:"+id.Name),
								"the key variable "+id.Name+" is assigned inside the loop only on some paths: the (encoded) key chosen for one referencing index is carried over to the next, which is then searched with the wrong form of the key")
						}
					}
				}
			}
		}
	}
	c.Floor(rule7, n7, 3, "scans of referencing indexes in the back-link loops")
	c.Floor(rule8, n8, 1, "per-link key variables")
}

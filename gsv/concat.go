package main

// The append buffer of string concatenations (core.SuConcat) is shared: several concats
// point to one scbuf and each owns only the prefix bs[:n].  Every read of the bytes must
// be bounded by the owner's n; equality must depend on the lengths.  (Found by the seeded
// changes C13-2 and C28-1: Pack / Equal looking at the whole shared buffer.)

import (
	"go/ast"
	"go/constant"
	"go/token"
	"go/types"
)

func checkConcatBounded(c *Ctx, rule string) {
	p := c.P
	bs := p.Field("core", "scbuf", "bs")
	nF := p.Field("core", "SuConcat", "n")
	bufF := p.Field("core", "SuConcat", "buf")
	if !c.need(rule, "core.scbuf.bs", bs) || !c.need(rule, "core.SuConcat.n", nF) || !c.need(rule, "core.SuConcat.buf", bufF) {
		return
	}
	n := 0
	for _, fs := range p.FuncsIn("core") {
		if fs.Body == nil {
			continue
		}
		info := fs.Info()
		par := parentMap(fs.Body)
		defs := buildDefs(fs)
		mentionsN := func(e ast.Node) bool {
			found := false
			ast.Inspect(e, func(m ast.Node) bool {
				if x, ok := m.(ast.Expr); ok && FieldOf(info, x) == nF {
					found = true
				}
				return !found
			})
			return found
		}
		ForEachNode(fs, func(nd ast.Node) {
			sel, ok := nd.(*ast.SelectorExpr)
			if !ok || FieldOf(info, sel) != bs {
				return
			}
			n++
			ok2, why := false, ""
			switch pn := par[sel].(type) {
			case *ast.SliceExpr:
				if pn.X == ast.Expr(sel) && pn.High != nil && mentionsN(pn.High) {
					ok2 = true
				} else {
					why = "sliced without the owner's length n as upper bound"
				}
			case *ast.CallExpr:
				switch {
				case IsBuiltin(info, pn, "len"):
					// only as a comparison with n ("has somebody else appended?")
					if be, isBin := par[pn].(*ast.BinaryExpr); isBin && (be.Op == token.EQL || be.Op == token.NEQ) && mentionsN(be) {
						ok2 = true
					} else {
						why = "len(bs) used as a value: the buffer may hold bytes appended by other concats"
					}
				case IsBuiltin(info, pn, "append"):
					ok2 = len(pn.Args) > 0 && pn.Args[0] == ast.Expr(sel) // extending the shared buffer (Add, after the ownership test)
					why = "bs passed to append other than as the buffer being extended"
				default:
					// conversion / helper whose result is sliced to n before it leaves the function
					if as, isAs := par[pn].(*ast.AssignStmt); isAs && len(as.Lhs) == 1 {
						if id := identOf(as.Lhs[0]); id != nil {
							o := info.Defs[id]
							bounded := true
							used := false
							ForEachNode(fs, func(m ast.Node) {
								if u, isId := m.(*ast.Ident); isId && info.Uses[u] == o {
									used = true
									se, isSlice := par[u].(*ast.SliceExpr)
									if !isSlice || se.High == nil || !mentionsN(se.High) {
										bounded = false
									}
								}
							})
							ok2 = used && bounded
						}
					}
					if !ok2 {
						why = "bs handed to a call whose result is not cut to the owner's length n"
					}
				}
			case *ast.AssignStmt:
				// buf.bs = append(buf.bs, …) / composite literal initialisation handled elsewhere
				for _, l := range pn.Lhs {
					if l == ast.Expr(sel) {
						ok2 = true
					}
				}
				if !ok2 {
					why = "bs copied into a variable"
				}
			default:
				why = "unrecognised use of the shared buffer"
			}
			_ = defs
			c.Obl(rule, fs.name+": bytes of the shared concat buffer are read only up to the owner's length", p.Pos(sel), ok2,
				why+": a concat that was extended by another concatenation shares its buffer; reading beyond n packs / hashes / compares bytes that belong to the other value")
		})
	}
	c.Floor(rule, n, 6, "uses of scbuf.bs")
	// equality depends on the lengths
	if fs := c.method(rule, "core", "SuConcat", "Equal"); fs != nil {
		info := fs.Info()
		fl := &Flow{P: p, Edge: func(s *FuncSrc, cond ast.Expr, truth bool) []string { return []string{condLabel(cond, truth)} }}
		res := fl.Analyze(fs)
		for _, r := range res.Returns {
			if r.Fn != fs || len(r.Node.Results) != 1 {
				continue
			}
			v := ConstVal(info, r.Node.Results[0])
			if v == nil || v.Kind() != constant.Bool || !constant.BoolVal(v) {
				continue
			}
			guarded := false
			for _, f := range condFactsOf(r.Before, nil) {
				if mentionsField(info, f.Expr, nF) {
					guarded = true
				}
			}
			c.Obl(rule, "SuConcat.Equal: an unconditional 'true' is decided with the lengths", p.Pos(r.Node), guarded,
				"Equal answers true on a path that never looked at the lengths: two concats sharing one buffer (x and x $ more) have different lengths but the same buffer")
		}
	}
	_ = types.Typ
}

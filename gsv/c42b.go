package main

// Outcome-exact status of SuTran.Complete (C42.6, also registered as C03.10): the status
// "completed" is stored only after the underlying Complete() reported success, and a failed
// commit stores "aborted" before the failure is raised.  "completed"/"aborted" are identified
// by behaviour, not by name: completed is the non-active state in which Complete() returns
// quietly, aborted the one in which it panics.  Added after seeded change R4-C03-3.
// checkAbortAlwaysQueued (C42.7 / C03.11): CheckCo.Abort hands the abort to the checker on
// every path (an early return makes Rollback fail and replaces the block's own exception).

import (
	"go/ast"
	"go/constant"
	"go/token"
	"go/types"
)

func checkCompleteOutcome(c *Ctx, rule string) {
	p := c.P
	fs := c.method(rule, "core", "SuTran", "Complete")
	status := p.Field("core", "SuTran", "status")
	stType := p.NamedType("core", "stStatus")
	stActive := p.ConstObj("core", "stActive")
	itComplete := p.IfaceMethod("core", "ITran", "Complete")
	if fs == nil || !c.need(rule, "core.SuTran.status", status) || !c.need(rule, "core.stStatus", stType) || !c.need(rule, "core.stActive", stActive) || !c.need(rule, "core.ITran.Complete", itComplete) {
		return
	}
	info := fs.Info()
	states := map[string]constant.Value{}
	scope := p.Pkg("core").Types.Scope()
	for _, nm := range scope.Names() {
		if k, ok := scope.Lookup(nm).(*types.Const); ok && types.Identical(k.Type(), stType) {
			states[nm] = k.Val()
		}
	}
	completed, aborted := "", ""
	for nm, v := range states {
		if constant.Compare(v, token.EQL, stActive.Val()) {
			continue
		}
		env := &AbsEnv{Info: info, Atom: func(e ast.Expr) (constant.Value, bool) {
			if FieldOf(info, e) == status {
				return v, true
			}
			return nil, false
		}}
		r := env.run(fs.Body)
		switch {
		case r.Panics:
			aborted = nm
		case r.Unknown == "" && r.Returns != nil:
			completed = nm
		}
	}
	if completed == "" || aborted == "" {
		c.Obl(rule, "SuTran.Complete is a no-op in one ended state and refuses in the other", p.Pos(fs.Decl), false,
			"cannot identify the 'completed' and 'aborted' states from Complete's behaviour")
		return
	}
	stateName := func(e ast.Expr) string {
		v := ConstVal(info, e)
		t := info.TypeOf(e)
		if v == nil || t == nil || !types.Identical(t, stType) {
			return "?"
		}
		for nm, sv := range states {
			if constant.Compare(sv, token.EQL, v) {
				return nm
			}
		}
		return "?"
	}
	// the variable holding the result of itran.Complete()
	var errVar types.Object
	ast.Inspect(fs.Body, func(nd ast.Node) bool {
		if as, ok := nd.(*ast.AssignStmt); ok && len(as.Lhs) == 1 && len(as.Rhs) == 1 {
			if call, ok := ast.Unparen(as.Rhs[0]).(*ast.CallExpr); ok && sameFunc(Callee(info, call), itComplete) {
				if id := identOf(as.Lhs[0]); id != nil {
					errVar = info.ObjectOf(id)
				}
			}
		}
		return true
	})
	if errVar == nil {
		c.Missing(rule, "SuTran.Complete: the result of itran.Complete() is kept in a variable")
		return
	}
	edge := func(_ *FuncSrc, cond ast.Expr, truth bool) []string {
		be, ok := ast.Unparen(cond).(*ast.BinaryExpr)
		if !ok || (be.Op != token.EQL && be.Op != token.NEQ) {
			return nil
		}
		for _, pr := range [][2]ast.Expr{{be.X, be.Y}, {be.Y, be.X}} {
			if id := identOf(pr[0]); id != nil && info.ObjectOf(id) == errVar {
				if v := ConstVal(info, pr[1]); v != nil && v.Kind() == constant.String && constant.StringVal(v) == "" {
					if (be.Op == token.EQL) == truth {
						return []string{"@success"}
					}
					return []string{"@failure"}
				}
			}
		}
		return nil
	}
	store := func(_ *FuncSrc, nd ast.Node) []string {
		as, ok := nd.(*ast.AssignStmt)
		if !ok || len(as.Lhs) != len(as.Rhs) {
			return nil
		}
		var out []string
		for i, l := range as.Lhs {
			if lhsField(info, l, false) == status {
				out = append(out, "status="+stateName(as.Rhs[i]), "store")
			}
		}
		return out
	}
	fl := &Flow{P: p, Node: combine(Labeler(CallOf("itran.Complete", itComplete), PanicCall("panic")), store), Edge: edge}
	res := fl.Analyze(fs)
	n := 0
	for _, s := range res.Of("status=" + completed) {
		n++
		c.Obl(rule, "SuTran.Complete: 'completed' is stored only after the underlying commit reported success", p.Pos(s.Node),
			s.Before.Has("itran.Complete") && s.Before.Has("@success"),
			"the status becomes completed before / regardless of the outcome of itran.Complete(): after a failed commit a second Complete() returns quietly as if the transaction had been committed")
	}
	c.Floor(rule, n, 1, "stores of the completed status in SuTran.Complete")
	np := 0
	for _, s := range res.Of("panic") {
		if !s.Before.Has("@failure") {
			continue
		}
		np++
		c.Obl(rule, "SuTran.Complete: a failed commit is recorded as aborted before it is reported", p.Pos(s.Node), s.Before.Has("status="+aborted),
			"the failure is raised with the status not set to aborted: the transaction object still claims to be active or completed")
	}
	c.Floor(rule, np, 1, "failure reports in SuTran.Complete")
	for _, s := range res.Of("store") {
		if s.Before.Has("itran.Complete") {
			continue
		}
		c.Obl(rule, "SuTran.Complete: the status is not changed before the underlying commit ran", p.Pos(s.Node), false,
			"status is stored before itran.Complete()")
	}
}

func checkAbortAlwaysQueued(c *Ctx, rule string) {
	p := c.P
	fs := c.method(rule, "db19", "CheckCo", "Abort")
	abortT := p.NamedType("db19", "ckAbort")
	if fs == nil || !c.need(rule, "db19.ckAbort", abortT) {
		return
	}
	info := fs.Info()
	put := Ev{"Put(ckAbort)", func(_ *FuncSrc, nd ast.Node) bool {
		call, ok := nd.(*ast.CallExpr)
		if !ok {
			return false
		}
		for _, a := range call.Args {
			if t := info.TypeOf(a); t != nil {
				if n := c17NamedOf(t); n != nil && n == abortT {
					return true
				}
			}
		}
		return false
	}}
	fl := &Flow{P: p, Node: Labeler(put)}
	res := fl.Analyze(fs)
	n := 0
	for _, r := range res.Returns {
		n++
		c.Obl(rule, "CheckCo.Abort hands the abort message to the checker on every path", p.Pos(r.Node), r.Before.Has("Put(ckAbort)"),
			"Abort returns without queueing a ckAbort: the transaction stays registered with the checker (its reads and writes keep conflicting) and Rollback reports 'abort failed' instead of the block's own exception")
	}
	c.Floor(rule, n, 1, "returns of CheckCo.Abort")
}

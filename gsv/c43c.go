package main

// Rules added after the sixth round of seeded changes: C43.5, C43.6, C35.6 – C35.8, C44.4, C44.5.

import (
	"go/ast"
	"go/token"
	"go/types"
)

// writersOf returns the functions of pkg that (transitively, through static calls inside the
// package, depth <= 4) store into field f or one of its elements.
func writersOf(p *Prog, pkg string, f *types.Var) map[*types.Func]bool {
	direct := map[*types.Func]bool{}
	all := p.FuncsIn(pkg)
	for _, fs := range all {
		if fs.Body == nil || fs.Obj == nil {
			continue
		}
		info := fs.Info()
		ast.Inspect(fs.Body, func(nd ast.Node) bool {
			as, ok := nd.(*ast.AssignStmt)
			if !ok {
				return true
			}
			for _, l := range as.Lhs {
				x := ast.Unparen(l)
				if ix, ok := x.(*ast.IndexExpr); ok {
					x = ix.X
				}
				if FieldOf(info, x) == f {
					direct[fs.Obj] = true
				}
			}
			return true
		})
	}
	for depth := 0; depth < 4; depth++ {
		changed := false
		for _, fs := range all {
			if fs.Body == nil || fs.Obj == nil || direct[fs.Obj] {
				continue
			}
			info := fs.Info()
			ast.Inspect(fs.Body, func(nd ast.Node) bool {
				if _, isLit := nd.(*ast.FuncLit); isLit {
					return false
				}
				if call, ok := nd.(*ast.CallExpr); ok {
					if cal := Callee(info, call); cal != nil && direct[cal] && !direct[fs.Obj] {
						direct[fs.Obj] = true
						changed = true
					}
				}
				return true
			})
		}
		if !changed {
			break
		}
	}
	return direct
}

// checkRecordHeaderCacheUnderWriteLock (C43.5): looking a field up in a record that is still
// backed by its database row fills Header.cache lazily (a map write); a SuRecord method that
// holds only the read lock must not reach it.
func checkRecordHeaderCacheUnderWriteLock(c *Ctx, rule string) {
	p := c.P
	cacheF := p.Field("core", "Header", "cache")
	if !c.need(rule, "core.Header.cache", cacheF) {
		return
	}
	w := writersOf(p, "core", cacheF)
	c.Floor(rule, len(w), 2, "functions of core that (transitively) fill Header.cache")
	n := 0
	for _, mf := range p.MethodsOf("core", "SuRecord") {
		fs := p.Src(mf)
		if fs == nil || fs.Body == nil {
			continue
		}
		info := fs.Info()
		rlocked := false
		var reach []string
		ast.Inspect(fs.Body, func(nd ast.Node) bool {
			call, ok := nd.(*ast.CallExpr)
			if !ok {
				return true
			}
			if sel, ok := call.Fun.(*ast.SelectorExpr); ok && sel.Sel.Name == "RLock" {
				rlocked = true
			}
			if cal := Callee(info, call); cal != nil && w[cal] {
				reach = append(reach, cal.Name()+" at "+p.Pos(call))
			}
			return true
		})
		if !rlocked {
			continue
		}
		n++
		c.Obl(rule, fs.name+": a method that takes only the read lock does not fill the header's field cache", p.Pos(fs.Decl), len(reach) == 0,
			"it reaches "+joinMax(reach, 2)+", which writes the lazily built Header.cache map: two readers race on the map (fatal 'concurrent map writes')")
	}
	c.Floor(rule, n, 1, "SuRecord methods that take the read lock")
}

func joinMax(l []string, n int) string {
	out := ""
	for i, s := range l {
		if i >= n {
			out += ", …"
			break
		}
		if i > 0 {
			out += ", "
		}
		out += s
	}
	return out
}

// checkClosureSetConcurrentCoversThis (C43.6): SuClosure.SetConcurrent makes the captured
// `this` concurrent on every path on which it returns (a block that uses only members of this
// has no shared slots at all).
func checkClosureSetConcurrentCoversThis(c *Ctx, rule string) {
	p := c.P
	fs := c.method(rule, "core", "SuClosure", "SetConcurrent")
	thisF := p.Field("core", "SuClosure", "this")
	if fs == nil || !c.need(rule, "core.SuClosure.this", thisF) {
		return
	}
	info := fs.Info()
	prop := Ev{"this.SetConcurrent", func(_ *FuncSrc, nd ast.Node) bool {
		call, ok := nd.(*ast.CallExpr)
		if !ok {
			return false
		}
		sel, ok := call.Fun.(*ast.SelectorExpr)
		return ok && sel.Sel.Name == "SetConcurrent" && FieldOf(info, sel.X) == thisF
	}}
	fl := &Flow{P: p, Node: Labeler(prop), Edge: func(_ *FuncSrc, cond ast.Expr, truth bool) []string {
		be, ok := ast.Unparen(cond).(*ast.BinaryExpr)
		if ok && (be.Op == token.EQL || be.Op == token.NEQ) && FieldOf(info, be.X) == thisF && isNilIdent(info, be.Y) && (be.Op == token.EQL) == truth {
			return []string{"@this==nil"}
		}
		return nil
	}, Implies: map[string][]string{"@this==nil": {"this.SetConcurrent"}}}
	res := fl.Analyze(fs)
	n := 0
	exits := 0
	for _, r := range res.Returns {
		n++
		c.Obl(rule, "SuClosure.SetConcurrent: the captured this is made concurrent before every return", p.Pos(r.Node), r.Before.Has("this.SetConcurrent"),
			"SetConcurrent returns (here: because the closure has no shared slots, or they are already concurrent) without propagating to this: a this-only block passed to Thread() leaves the instance unprotected")
	}
	exits = n
	// the implicit return at the end
	if !res.Exit.top {
		exits++
		c.Obl(rule, "SuClosure.SetConcurrent: the captured this is made concurrent on every path to the end of the function", p.Pos(fs.Decl), res.Exit.done.Has("this.SetConcurrent"),
			"a path through SetConcurrent does not propagate to this")
	}
	c.Floor(rule, exits, 1, "exits of SuClosure.SetConcurrent")
}

// checkRuleStackBalanced (C35.6): the active-rule entry pushed for a rule evaluation is popped
// by a deferred call, so that a rule that throws does not stay "active" for ever.
// checkDepsBeforeRowDropped (C35.7): every store `r.row = nil` is preceded by ensureDeps()
// (the persisted dependencies are read from the row).
// checkActiveRuleIdentity (C35.8): activeRules.has compares the record as well as the key.
func checkRuleBookkeeping(c *Ctx, r6, r7, r8 string) {
	p := c.P
	push := p.DeclaredMethod("core", "activeRules", "push")
	pop := p.DeclaredMethod("core", "activeRules", "pop")
	has := c.method(r8, "core", "activeRules", "has")
	ensure := p.DeclaredMethod("core", "SuRecord", "ensureDeps")
	rowF := p.Field("core", "suRec", "row")
	recF := p.Field("core", "activeRule", "rec")
	keyF := p.Field("core", "activeRule", "key")
	if !c.need(r6, "core.activeRules.push", push) || !c.need(r6, "core.activeRules.pop", pop) || !c.need(r7, "core.SuRecord.ensureDeps", ensure) ||
		!c.need(r7, "core.SuRecord.row", rowF) || !c.need(r8, "core.activeRule.rec", recF) || !c.need(r8, "core.activeRule.key", keyF) {
		return
	}
	n6 := 0
	for _, fs := range p.FuncsIn("core") {
		if fs.Body == nil || len(p.CallsIn(fs, push)) == 0 || fs.Obj == push {
			continue
		}
		info := fs.Info()
		n6++
		deferred := false
		ast.Inspect(fs.Body, func(nd ast.Node) bool {
			ds, ok := nd.(*ast.DeferStmt)
			if !ok {
				return true
			}
			ast.Inspect(ds, func(m ast.Node) bool {
				if call, ok := m.(*ast.CallExpr); ok && sameFunc(Callee(info, call), pop) {
					deferred = true
				}
				return true
			})
			return true
		})
		c.Obl(r6, fs.name+": the active-rule entry is popped by a deferred call", p.Pos(fs.Decl), deferred,
			"pop is not deferred: when the rule throws, its entry stays on the thread's active-rule stack, the recursion guard never runs that rule again and the field reads as empty")
	}
	c.Floor(r6, n6, 1, "functions that push an active rule")
	n7 := 0
	for _, mf := range p.MethodsOf("core", "SuRecord") {
		fs := p.Src(mf)
		if fs == nil || fs.Body == nil {
			continue
		}
		info := fs.Info()
		drop := Ev{"row=nil", func(_ *FuncSrc, nd ast.Node) bool {
			as, ok := nd.(*ast.AssignStmt)
			return ok && len(as.Lhs) == 1 && len(as.Rhs) == 1 && lhsField(info, as.Lhs[0], false) == rowF && isNilIdent(info, as.Rhs[0])
		}}
		found := false
		ForEachNode(fs, func(nd ast.Node) {
			if drop.Match(fs, nd) {
				found = true
			}
		})
		if !found {
			continue
		}
		if mf.Name() == "DeleteAll" {
			// frozen exception: DeleteAll removes every member, including every cached rule value the
			// dependencies could protect; the next evaluation records its dependencies afresh
			c.Note("%s: SuRecord.DeleteAll drops the row without loading dependencies (frozen exception: nothing is left to invalidate)", r7)
			continue
		}
		fl := &Flow{P: p, Node: Labeler(drop, CallOf("ensureDeps", ensure))}
		for _, s := range fl.Analyze(fs).Of("row=nil") {
			n7++
			c.Obl(r7, fs.name+": the persisted dependencies are loaded before the row is dropped", p.Pos(s.Node), s.Before.Has("ensureDeps"),
				"r.row = nil on a path without ensureDeps(): the dependencies stored in the record's _deps fields are lost, so changing a field no longer invalidates the rules that used it")
		}
	}
	c.Floor(r7, n7, 1, "places where a record drops its row")
	if has != nil {
		info := has.Info()
		sig := has.Obj.Type().(*types.Signature)
		cmpRec, cmpKey := false, false
		ast.Inspect(has.Body, func(nd ast.Node) bool {
			be, ok := nd.(*ast.BinaryExpr)
			if !ok || be.Op != token.EQL {
				return true
			}
			for _, pr := range [][2]ast.Expr{{be.X, be.Y}, {be.Y, be.X}} {
				id := identOf(pr[1])
				if id == nil {
					continue
				}
				isParam := false
				for i := 0; i < sig.Params().Len(); i++ {
					if info.ObjectOf(id) == types.Object(sig.Params().At(i)) {
						isParam = true
					}
				}
				if !isParam {
					continue
				}
				switch FieldOf(info, pr[0]) {
				case recF:
					cmpRec = true
				case keyF:
					cmpKey = true
				}
			}
			return true
		})
		c.Obl(r8, "activeRules.has identifies a running rule by record and by field", p.Pos(has.Decl), cmpRec && cmpKey,
			"the entry is matched by the field name alone (or the record alone): a rule that reads the same-named rule field of another record finds it 'already active' and the other record's rule is not run")
	}
}

// checkUnloadClearsMissCache (C44.5): Global.unload forgets a cached "no definition" for the
// name on every path (a trigger defined after its table's first change must be found).
func checkUnloadClearsMissCache(c *Ctx, rule string) {
	p := c.P
	fs := c.method(rule, "core", "typeGlobal", "unload")
	noDef := p.Field("core", "globals", "noDef")
	if fs == nil {
		return
	}
	if noDef == nil {
		// the field may live in an anonymous struct: find it by name on the package variable g
		c.Note("%s: core.globals.noDef resolved by name", rule)
	}
	info := fs.Info()
	del := Ev{"delete(noDef)", func(_ *FuncSrc, nd ast.Node) bool {
		call, ok := nd.(*ast.CallExpr)
		if !ok || !IsBuiltin(info, call, "delete") || len(call.Args) != 2 {
			return false
		}
		sel, ok := ast.Unparen(call.Args[0]).(*ast.SelectorExpr)
		return ok && sel.Sel.Name == "noDef"
	}}
	fl := &Flow{P: p, Node: Labeler(del)}
	res := fl.Analyze(fs)
	n := 0
	for _, r := range res.Returns {
		n++
		c.Obl(rule, "Global.unload clears the cached 'not defined' answer on every path", p.Pos(r.Node), r.Before.Has("delete(noDef)"),
			"unload returns without delete(g.noDef, name): a name looked up before it was defined (a trigger defined after the table's first change) stays 'not defined' although it was unloaded")
	}
	if !res.Exit.top {
		n++
		c.Obl(rule, "Global.unload clears the cached 'not defined' answer on every path to its end", p.Pos(fs.Decl), res.Exit.done.Has("delete(noDef)"),
			"a path through unload does not delete(g.noDef, name)")
	}
	c.Floor(rule, n, 1, "exits of Global.unload")
}

// checkTriggerVetoAborts (C44.6): "an exception thrown by the trigger stops the change from being
// committed": the trigger is called after the change was made to the transaction's indexes, so
// the exception must abort the transaction (recover → Abort → re-panic), as it does for index
// errors and cascades — otherwise a caller that catches it can still commit the vetoed change.
func checkTriggerVetoAborts(c *Ctx, t *tranAnchors, rule string) {
	p := c.P
	utAbort := p.DeclaredMethod("db19", "UpdateTran", "Abort")
	if !c.need(rule, "db19.UpdateTran.Abort", utAbort) || !c.need(rule, "db19.Database.CallTrigger", t.callTrig) {
		return
	}
	n := 0
	for _, outer := range t.mutators {
		info := outer.Info()
		for _, fs := range append([]*FuncSrc{outer}, p.LitsOf(outer)...) {
			var calls []*ast.CallExpr
			hasWrapper := false
			ast.Inspect(fs.Body, func(nd ast.Node) bool {
				if l, ok := nd.(*ast.FuncLit); ok && l != fs.Lit {
					// a deferred literal of this function with recover + Abort + panic
					return true
				}
				if call, ok := nd.(*ast.CallExpr); ok && sameFunc(Callee(info, call), t.callTrig) {
					calls = append(calls, call)
				}
				return true
			})
			if len(calls) == 0 {
				continue
			}
			// the calls that are directly in fs (not inside a nested literal)
			for _, call := range calls {
				// find the innermost function literal containing the call
				inner := fs
				for _, l := range p.LitsOf(outer) {
					if l.Lit != nil && l.Lit.Pos() <= call.Pos() && call.End() <= l.Lit.End() && (inner.Lit == nil || l.Lit.Pos() >= inner.Lit.Pos()) {
						inner = l
					}
				}
				if inner != fs {
					continue
				}
				hasWrapper = false
				ast.Inspect(fs.Body, func(nd ast.Node) bool {
					if l, ok := nd.(*ast.FuncLit); ok && l != fs.Lit {
						return false // defers of nested literals guard only those literals
					}
					ds, ok := nd.(*ast.DeferStmt)
					if !ok || ds.Pos() > call.Pos() {
						return true
					}
					lit, ok := ds.Call.Fun.(*ast.FuncLit)
					if !ok {
						return true
					}
					rec, ab, pn := false, false, false
					ast.Inspect(lit.Body, func(m ast.Node) bool {
						if cc, ok := m.(*ast.CallExpr); ok {
							if IsBuiltin(info, cc, "recover") {
								rec = true
							}
							if IsBuiltin(info, cc, "panic") {
								pn = true
							}
							if sameFunc(Callee(info, cc), utAbort) {
								ab = true
							}
						}
						return true
					})
					if rec && ab && pn {
						hasWrapper = true
					}
					return true
				})
				n++
				c.Obl(rule, outer.name+": the trigger runs under recover→Abort→re-panic", p.Pos(call), hasWrapper,
					"CallTrigger is outside the abort guard: the change is already in the transaction's indexes when the trigger throws; a caller that catches the exception and completes the transaction commits the vetoed change")
			}
		}
	}
	c.Floor(rule, n, 3, "trigger calls in update transactions")
}

// checkSharedSlotStoresPropagate (C43.7): a value stored into a closure's shared slots while
// the Shared is concurrent (its Lock() answered true) is made concurrent first — other threads
// reach it through the closure (compare SuObject.set, SuInstance.put).
func checkSharedSlotStoresPropagate(c *Ctx, rule string) {
	p := c.P
	valuesF := p.Field("core", "Shared", "values")
	if !c.need(rule, "core.Shared.values", valuesF) {
		return
	}
	n := 0
	for _, fs := range p.FuncsIn("core") {
		if fs.Body == nil {
			continue
		}
		info := fs.Info()
		// functions that lock a Shared: if X.Lock() { … }
		locks := false
		ast.Inspect(fs.Body, func(nd ast.Node) bool {
			if call, ok := nd.(*ast.CallExpr); ok {
				if sel, ok := call.Fun.(*ast.SelectorExpr); ok && sel.Sel.Name == "Lock" {
					if t := info.TypeOf(sel.X); t != nil {
						if nt := c17NamedOf(t); nt != nil && nt.Obj().Name() == "Shared" {
							locks = true
						}
					}
				}
			}
			return true
		})
		if !locks {
			continue
		}
		setConc := func(_ *FuncSrc, nd ast.Node) []string {
			call, ok := nd.(*ast.CallExpr)
			if !ok {
				return nil
			}
			sel, ok := call.Fun.(*ast.SelectorExpr)
			if !ok || sel.Sel.Name != "SetConcurrent" {
				return nil
			}
			return []string{"conc:" + exprStr(sel.X)}
		}
		store := Ev{"store", func(_ *FuncSrc, nd ast.Node) bool {
			as, ok := nd.(*ast.AssignStmt)
			if !ok || len(as.Lhs) != 1 || len(as.Rhs) != 1 {
				return false
			}
			ix, ok := ast.Unparen(as.Lhs[0]).(*ast.IndexExpr)
			return ok && FieldOf(info, ix.X) == valuesF
		}}
		fl := &Flow{P: p, Node: combine(Labeler(store), setConc), Edge: func(_ *FuncSrc, cond ast.Expr, truth bool) []string {
			if call, ok := ast.Unparen(cond).(*ast.CallExpr); ok && truth {
				if sel, ok := call.Fun.(*ast.SelectorExpr); ok && sel.Sel.Name == "Lock" {
					return []string{"@concurrent"}
				}
			}
			return nil
		}}
		// the propagation may be conditional on the lock: look at the whole function instead of the merge point
		res := fl.Analyze(fs)
		for _, s := range res.Of("store") {
			as := s.Node.(*ast.AssignStmt)
			v := exprStr(as.Rhs[0])
			found := false
			// the propagation is conditional on the Shared being concurrent, so it is looked for
			// lexically: a SetConcurrent() on the stored value earlier in the function
			ast.Inspect(fs.Body, func(nd ast.Node) bool {
				if cc, ok := nd.(*ast.CallExpr); ok && cc.Pos() < as.Pos() {
					if s2, ok := cc.Fun.(*ast.SelectorExpr); ok && s2.Sel.Name == "SetConcurrent" && exprStr(s2.X) == v {
						found = true
					}
				}
				return true
			})
			// or unconditionally before the store
			if s.Before.Has("conc:" + v) {
				found = true
			}
			n++
			c.Obl(rule, fs.name+": a value stored into a concurrent closure's shared slot is made concurrent", p.Pos(as), found,
				"the slot of a closure that other threads run is given a value ("+v+") that was not marked concurrent: two threads then use that object without locking")
		}
	}
	c.Floor(rule, n, 3, "stores into shared slots in functions that lock the Shared")
}

// checkInvalidMarkSurvivesThrow (C35.9): callRule clears the field's invalid mark before it runs
// the rule; if the rule throws, the mark must come back (a deferred store into r.invalid),
// otherwise the next read returns the stale cached value as if it were current.
func checkInvalidMarkSurvivesThrow(c *Ctx, rule string) {
	p := c.P
	fs := c.method(rule, "core", "SuRecord", "callRule")
	catch := p.DeclaredMethod("core", "SuRecord", "catchRule")
	invalidF := p.Field("core", "suRec", "invalid")
	if fs == nil || !c.need(rule, "core.SuRecord.catchRule", catch) || !c.need(rule, "core.suRec.invalid", invalidF) {
		return
	}
	info := fs.Info()
	clear := Ev{"clear", func(_ *FuncSrc, nd ast.Node) bool {
		call, ok := nd.(*ast.CallExpr)
		return ok && IsBuiltin(info, call, "delete") && len(call.Args) == 2 && FieldOf(info, call.Args[0]) == invalidF
	}}
	fl := &Flow{P: p, Node: Labeler(clear, CallOf("catchRule", catch)), NoSummary: func(*types.Func) bool { return true }}
	res := fl.Analyze(fs)
	sites := res.Of("catchRule")
	c.Floor(rule, len(sites), 1, "rule evaluations in callRule")
	for _, s := range sites {
		if !s.Before.Has("clear") {
			c.Obl(rule, "callRule: the invalid mark is cleared only after the rule returned", p.Pos(s.Node), true, "")
			continue
		}
		restored := false
		ast.Inspect(fs.Body, func(nd ast.Node) bool {
			ds, ok := nd.(*ast.DeferStmt)
			if !ok || ds.Pos() > s.Node.Pos() {
				return true
			}
			ast.Inspect(ds, func(m ast.Node) bool {
				if as, ok := m.(*ast.AssignStmt); ok {
					for _, l := range as.Lhs {
						if ix, ok := ast.Unparen(l).(*ast.IndexExpr); ok && FieldOf(info, ix.X) == invalidF {
							restored = true
						}
					}
				}
				return true
			})
			return true
		})
		c.Obl(rule, "callRule: a rule that throws leaves its field marked invalid", p.Pos(s.Node), restored,
			"the invalid mark is deleted before the rule runs and nothing restores it when the rule panics: the next read of the field returns the old cached value although the rule would not compute it")
	}
}

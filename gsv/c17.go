package main

// C17 checker message queue: util/queue.PriorityQueue (guarded buffer, Wait in loops,
// wake-ups) and its use by db19.CheckCo (transaction ids, priorities, message table,
// parameter wiring through the messages).

import (
	"fmt"
	"go/ast"
	"go/constant"
	"go/token"
	"go/types"
	"sort"
	"strings"
)

func init() { register("C17", checkC17, "./util/queue/...", "./db19/...") }

// innerLoop returns the nearest enclosing `for` (not range) statement of n without
// leaving the function literal / declaration n is in.
func innerFor(par map[ast.Node]ast.Node, n ast.Node) *ast.ForStmt {
	for p := par[n]; p != nil; p = par[p] {
		switch l := p.(type) {
		case *ast.ForStmt:
			return l
		case *ast.FuncLit:
			return nil
		}
	}
	return nil
}

// structHasFieldOfType reports whether the struct type (embedded structs included)
// has a field whose type is one of ts; it returns those fields.
func fieldsOfTypes(t types.Type, ts ...types.Type) []*types.Var {
	var out []*types.Var
	st, _ := t.Underlying().(*types.Struct)
	if st == nil {
		return nil
	}
	for i := 0; i < st.NumFields(); i++ {
		f := st.Field(i)
		for _, want := range ts {
			if want != nil && types.Identical(f.Type(), want) {
				out = append(out, f)
			}
		}
		if f.Embedded() {
			out = append(out, fieldsOfTypes(f.Type(), ts...)...)
		}
	}
	return out
}

// litOf resolves a message argument to its composite literal: &T{…}, T{…}, or a local
// variable with exactly one definition that is such a literal.
func litOf(fs *FuncSrc, defs *defIndex, e ast.Expr) *ast.CompositeLit {
	e = ast.Unparen(e)
	if id, ok := e.(*ast.Ident); ok {
		if o := fs.Info().Uses[id]; o != nil && len(defs.defs[o]) == 1 {
			e = ast.Unparen(defs.defs[o][0])
		}
	}
	if u, ok := e.(*ast.UnaryExpr); ok {
		e = ast.Unparen(u.X)
	}
	cl, _ := e.(*ast.CompositeLit)
	return cl
}

// litFields maps the fields set by a struct literal to their value expressions
// (keyed or positional form).
func litFields(info *types.Info, cl *ast.CompositeLit) map[*types.Var]ast.Expr {
	out := map[*types.Var]ast.Expr{}
	t := info.TypeOf(cl)
	if t == nil {
		return out
	}
	st, _ := t.Underlying().(*types.Struct)
	if st == nil {
		return out
	}
	for i, el := range cl.Elts {
		if kv, ok := el.(*ast.KeyValueExpr); ok {
			if id, ok := kv.Key.(*ast.Ident); ok {
				if f, ok := info.Uses[id].(*types.Var); ok {
					out[f] = kv.Value
				}
			}
		} else if i < st.NumFields() {
			out[st.Field(i)] = el
		}
	}
	return out
}

// sameValueExpr: a and b denote the same variable / the same selector chain over the
// same variable.
func sameValueExpr(info *types.Info, a, b ast.Expr) bool {
	a, b = ast.Unparen(a), ast.Unparen(b)
	switch x := a.(type) {
	case *ast.Ident:
		y, ok := b.(*ast.Ident)
		return ok && ObjOf(info, x) != nil && ObjOf(info, x) == ObjOf(info, y)
	case *ast.SelectorExpr:
		y, ok := b.(*ast.SelectorExpr)
		return ok && ObjOf(info, x) != nil && ObjOf(info, x) == ObjOf(info, y) && sameValueExpr(info, x.X, y.X)
	}
	return false
}

func c17NamedOf(t types.Type) *types.Named {
	if t == nil {
		return nil
	}
	if p, ok := types.Unalias(t).(*types.Pointer); ok {
		t = p.Elem()
	}
	n, _ := types.Unalias(t).(*types.Named)
	return n
}

func checkC17(c *Ctx) string {
	p := c.P
	// ------------------------------------------------------------ 1. the queue itself
	r1 := "C17.1 K7 PriorityQueue.items is accessed only under PriorityQueue.lock"
	items := p.Field("util/queue", "PriorityQueue", "items")
	lock := p.Field("util/queue", "PriorityQueue", "lock")
	put := p.DeclaredMethod("util/queue", "PriorityQueue", "Put")
	get := p.DeclaredMethod("util/queue", "PriorityQueue", "Get")
	if !c.need(r1, "queue.PriorityQueue.items", items) || !c.need(r1, "queue.PriorityQueue.lock", lock) ||
		!c.need(r1, "queue.PriorityQueue.Put", put) || !c.need(r1, "queue.PriorityQueue.Get", get) {
		return "anchors missing"
	}
	pqT := p.NamedType("util/queue", "PriorityQueue")
	condT := p.All["sync"].Types.Scope().Lookup("Cond").Type()
	var condFields []*types.Var
	if st, ok := pqT.Underlying().(*types.Struct); ok {
		for i := 0; i < st.NumFields(); i++ {
			if types.Identical(st.Field(i).Type(), condT) || types.Identical(st.Field(i).Type(), types.NewPointer(condT)) {
				condFields = append(condFields, st.Field(i))
			}
		}
	}
	useItems := UseOfField("items", items)
	lockEvs := []Ev{MethodOnField("lock", lock, "Lock"), MethodOnField("-lock", lock, "Unlock")}
	fnsWith := p.FuncsWith([]string{"util/queue"}, useItems)
	var qfns []*FuncSrc
	for fs := range fnsWith {
		qfns = append(qfns, fs)
	}
	sort.Slice(qfns, func(i, j int) bool { return qfns[i].name < qfns[j].name })
	nacc := 0
	requires := map[*types.Func]*FuncSrc{} // unexported helpers that touch items without locking
	for _, fs := range qfns {
		fl := &Flow{P: p, Node: Labeler(append(lockEvs, useItems)...)}
		res := fl.Analyze(fs)
		unlocked := 0
		for _, s := range res.Of("items") {
			nacc++
			if !s.Before.Has("lock") {
				unlocked++
			}
		}
		switch {
		case unlocked == 0:
			c.Obl(r1, fs.name+": every access of items holds the lock", p.Pos(fs.Decl), true, "")
		case fs.Obj != nil && !fs.Obj.Exported() && fs.Recv() != nil:
			requires[fs.Obj] = fs
		default:
			c.Obl(r1, fs.name+": every access of items holds the lock", p.Pos(fs.Decl), false,
				fmt.Sprintf("%d access(es) of PriorityQueue.items are not preceded on every path by pq.lock.Lock(): concurrent Put/Get corrupt the buffer (lost or duplicated messages)", unlocked))
		}
	}
	c.Floor(r1, nacc, 8, "accesses of PriorityQueue.items")
	for f, hfs := range requires {
		sites := p.CallersOf(f)
		c.Floor(r1, len(sites), 1, "call sites of "+hfs.name)
		seen := map[*FuncSrc]bool{}
		for _, s := range sites {
			if seen[s.Fn] {
				continue
			}
			seen[s.Fn] = true
			if s.Call == nil {
				c.Obl(r1, hfs.name+" (requires the lock) is only called, never taken as a value", p.Pos(s.In.Body), false, "")
				continue
			}
			fl := &Flow{P: p, Node: Labeler(append(lockEvs, CallOf("call", f))...)}
			res := fl.Analyze(s.Fn)
			for _, cs := range res.Of("call") {
				c.Obl(r1, s.Fn.name+": call of "+hfs.name+" (touches items without locking) holds the lock", p.Pos(cs.Node), cs.Before.Has("lock"),
					hfs.name+" reads PriorityQueue.items and relies on its caller for the lock; this call site does not hold it")
			}
		}
	}

	r1b := "C17.1b K4 Cond.Wait is re-checked in a for loop; the conditions use the queue's lock"
	nwait := 0
	waitsOn := map[*FuncSrc]map[*types.Var]bool{}
	for _, fs := range p.FuncsIn("util/queue") {
		if fs.Body == nil {
			continue
		}
		par := parentMap(fs.Body)
		ForEachNode(fs, func(n ast.Node) {
			call, ok := n.(*ast.CallExpr)
			if !ok {
				return
			}
			cal := Callee(fs.Info(), call)
			if cal == nil || cal.Name() != "Wait" || c17NamedOf(cal.Type().(*types.Signature).Recv().Type()) == nil ||
				!types.Identical(c17NamedOf(cal.Type().(*types.Signature).Recv().Type()), condT) {
				return
			}
			nwait++
			loop := innerFor(par, call)
			c.Obl(r1b, fs.name+": Cond.Wait sits in a for loop with a condition", p.Pos(call), loop != nil && loop.Cond != nil,
				"Wait returns on any Signal (and after competing Put/Get ran): without re-testing the condition in a loop Put appends to a full buffer / Get reads an empty one")
			if sel, ok := ast.Unparen(call.Fun).(*ast.SelectorExpr); ok {
				if f := FieldOf(fs.Info(), sel.X); f != nil {
					if waitsOn[fs] == nil {
						waitsOn[fs] = map[*types.Var]bool{}
					}
					waitsOn[fs][f] = true
				}
			}
		})
	}
	c.Floor(r1b, nwait, 2, "Cond.Wait calls in util/queue")
	// Cond.L = &pq.lock for every Cond field
	condL := map[*types.Var]bool{}
	for _, fs := range p.FuncsIn("util/queue") {
		ForEachNode(fs, func(n ast.Node) {
			as, ok := n.(*ast.AssignStmt)
			if !ok || len(as.Lhs) != 1 || len(as.Rhs) != 1 {
				return
			}
			sel, ok := ast.Unparen(as.Lhs[0]).(*ast.SelectorExpr)
			if !ok || sel.Sel.Name != "L" {
				return
			}
			cf := FieldOf(fs.Info(), sel.X)
			isCond := false
			for _, f := range condFields {
				if f == cf {
					isCond = true
				}
			}
			if !isCond {
				return
			}
			u, ok := ast.Unparen(as.Rhs[0]).(*ast.UnaryExpr)
			okL := ok && FieldOf(fs.Info(), u.X) == lock
			c.Obl(r1b, fs.name+": "+cf.Name()+".L is the queue's lock", p.Pos(as), okL,
				"a condition variable bound to another mutex releases the wrong lock in Wait: items is then read unguarded")
			if okL {
				condL[cf] = true
			}
		})
	}
	for _, f := range condFields {
		c.Obl(r1b, "condition "+f.Name()+" is bound to the queue's lock in the constructor", "", condL[f], "no assignment "+f.Name()+".L = &pq.lock found")
	}
	c.Floor(r1b, len(condFields), 2, "sync.Cond fields of PriorityQueue")

	// wake-ups: a function that changes items and does not itself wait on condition c must signal c afterwards
	r1c := "C17.1c K5 every change of the buffer wakes the waiters of the opposite condition"
	storeItems := StoreTo("items=", true, items)
	nsig := 0
	for _, fs := range qfns {
		if fs.Obj == nil || fs.Recv() == nil {
			continue // constructor
		}
		var evs []Ev
		evs = append(evs, storeItems)
		for _, cf := range condFields {
			evs = append(evs, MethodOnField("signal:"+cf.Name(), cf, "Signal", "Broadcast"))
		}
		fl := &Flow{P: p, Node: Labeler(evs...)}
		res := fl.Analyze(fs)
		for _, s := range res.Of("items=") {
			for _, cf := range condFields {
				if waitsOn[fs][cf] {
					continue
				}
				if len(waitsOn) == 0 {
					continue
				}
				// some other function waits on cf?
				other := false
				for g, m := range waitsOn {
					if g != fs && m[cf] {
						other = true
					}
				}
				if !other {
					continue
				}
				nsig++
				c.Obl(r1c, fs.name+": change of items is paired with "+cf.Name()+".Signal on every normal path", p.Pos(s.Node), s.Before.Has("signal:"+cf.Name()) || s.Follows("signal:"+cf.Name()),
					"a goroutine blocked in "+cf.Name()+".Wait is never woken after the buffer changed: the queue stalls and the message is not delivered")
			}
		}
	}
	c.Floor(r1c, nsig, 2, "buffer changes that must signal")

	// ------------------------------------------------------------ 2. Put sites
	r2 := "C17.2 K11 the transaction id of a message is the start of the transaction it carries"
	r3 := "C17.3 K1+K9 priorities: stop < low < medium < high; commit/abort high, reads/writes medium, stop lowest"
	r4 := "C17.4 K9 every message type sent has a dispatch case and vice versa"
	r5 := "C17.5 K11 parameter → message field → checker argument is the identity"
	ckTranT := p.NamedType("db19", "CkTran")
	updTranT := p.NamedType("db19", "UpdateTran")
	startF := p.Field("db19", "CkTran", "start")
	checkT := p.NamedType("db19", "Check")
	checkCoT := p.NamedType("db19", "CheckCo")
	dispatch := p.DeclaredMethod("db19", "Check", "dispatch")
	if !c.need(r2, "db19.CkTran", ckTranT) || !c.need(r2, "db19.UpdateTran", updTranT) || !c.need(r2, "db19.CkTran.start", startF) ||
		!c.need(r4, "db19.Check", checkT) || !c.need(r4, "db19.CheckCo", checkCoT) || !c.need(r4, "db19.(*Check).dispatch", dispatch) {
		return "anchors missing"
	}
	pCk, pUt := types.NewPointer(ckTranT), types.NewPointer(updTranT)
	prio := map[string]int64{}
	for _, n := range []string{"stopPriority", "lowPriority", "mediumPriority", "highPriority"} {
		v := p.Const("db19", n)
		if v == nil {
			c.Missing(r3, "db19."+n)
			return "anchors missing"
		}
		prio[n], _ = constant.Int64Val(v)
	}
	c.Obl(r3, "stopPriority < lowPriority < mediumPriority < highPriority", "", prio["stopPriority"] < prio["lowPriority"] &&
		prio["lowPriority"] < prio["mediumPriority"] && prio["mediumPriority"] < prio["highPriority"],
		fmt.Sprintf("values %v: Get delivers the numerically highest priority first; the levels are no longer ordered as documented", prio))

	type putSite struct {
		fn    *FuncSrc
		call  *ast.CallExpr
		typ   *types.Named // message type, nil for the nil message
		isNil bool
		prio  constant.Value
		lit   *ast.CompositeLit
	}
	var sites []*putSite
	for _, cs := range p.CallersOf(put) {
		if cs.Call == nil {
			c.Obl(r2, "PriorityQueue.Put is only called (not taken as a value) in "+cs.Fn.name, p.Pos(cs.In.Body), false, "a Put through a function value cannot be checked")
			continue
		}
		if pkgShort(cs.Fn.Pkg.PkgPath) != "db19" || len(cs.Call.Args) != 3 {
			continue
		}
		fs := cs.In
		info := fs.Info()
		ps := &putSite{fn: cs.Fn, call: cs.Call, prio: ConstVal(info, cs.Call.Args[0])}
		defs := buildDefs(fs)
		val := cs.Call.Args[2]
		if isNilIdent(info, val) {
			ps.isNil = true
		} else {
			ps.typ = c17NamedOf(info.TypeOf(val))
			ps.lit = litOf(fs, defs, val)
		}
		sites = append(sites, ps)
		name := "nil"
		if ps.typ != nil {
			name = ps.typ.Obj().Name()
		}
		key := cs.Fn.name + " sends " + name
		if !ps.isNil && (ps.typ == nil || ps.lit == nil) {
			c.Obl(r2, key+": the message is a struct literal", p.Pos(cs.Call), false, "the message passed to Put is not (a local bound once to) a composite literal; its fields cannot be related to the transaction id")
			continue
		}
		tranArg := ast.Unparen(cs.Call.Args[1])
		if id, ok := tranArg.(*ast.Ident); ok {
			if o := info.Uses[id]; o != nil && len(defs.defs[o]) == 1 {
				if _, isVar := o.(*types.Var); isVar {
					tranArg = ast.Unparen(defs.defs[o][0]) // local bound once
				}
			}
		}
		var tfields []*types.Var
		if ps.typ != nil {
			tfields = fieldsOfTypes(ps.typ, pCk, pUt)
		}
		if len(tfields) == 0 {
			v := ConstVal(info, tranArg)
			c.Obl(r2, key+": a message without a transaction uses transaction id 0", p.Pos(cs.Call), v != nil && constant.Compare(v, token.EQL, constant.MakeInt64(0)),
				"a message that belongs to no transaction is queued under a transaction id: it is held back behind (or holds back) that transaction's messages")
			continue
		}
		c.Stats["put_sites_with_transaction"]++
		set := litFields(info, ps.lit)
		tv := set[tfields[0]]
		if len(tfields) != 1 || tv == nil {
			c.Obl(r2, key+": the message's transaction field is set", p.Pos(cs.Call), false, "the literal does not set its *CkTran/*UpdateTran field (or has several)")
			continue
		}
		// tranArg must be tv(.f)*.start where every .f has type *CkTran
		ok := false
		why := "the transaction-id argument is not the .start of the transaction stored in the message"
		if sel, isSel := ast.Unparen(tranArg).(*ast.SelectorExpr); isSel && FieldOf(info, sel) == startF {
			base := ast.Unparen(sel.X)
			for {
				if sameValueExpr(info, base, tv) {
					ok = true
					break
				}
				s2, isSel := base.(*ast.SelectorExpr)
				if !isSel || FieldOf(info, s2) == nil || !types.Identical(info.TypeOf(s2), pCk) {
					break
				}
				base = ast.Unparen(s2.X)
			}
		}
		c.Obl(r2, key+": transaction id is .start of the message's own transaction", p.Pos(cs.Call), ok,
			why+": per-transaction FIFO order in the queue is keyed by this id, so a commit/abort could overtake the transaction's earlier reads and writes (or be held behind another transaction)")
	}
	c.Floor(r2, len(sites), 17, "PriorityQueue.Put call sites in db19")
	c.Floor(r2, c.Stats["put_sites_with_transaction"], 7, "Put sites whose message carries a transaction")

	// ------------------------------------------------------------ dispatch table
	dfs := c.src(r4, dispatch, "db19.(*Check).dispatch")
	if dfs == nil {
		return "anchors missing"
	}
	var tsw *ast.TypeSwitchStmt
	msgParam := dfs.Param(0)
	ForEachNode(dfs, func(n ast.Node) {
		if s, ok := n.(*ast.TypeSwitchStmt); ok && tsw == nil {
			// x := msg.(type) over the first parameter
			var ta *ast.TypeAssertExpr
			switch a := s.Assign.(type) {
			case *ast.AssignStmt:
				ta, _ = a.Rhs[0].(*ast.TypeAssertExpr)
			case *ast.ExprStmt:
				ta, _ = a.X.(*ast.TypeAssertExpr)
			}
			if ta != nil {
				if id, ok := ast.Unparen(ta.X).(*ast.Ident); ok && dfs.Info().Uses[id] == types.Object(msgParam) {
					tsw = s
				}
			}
		}
	})
	if tsw == nil {
		c.Missing(r4, "type switch over the message in (*Check).dispatch")
		return "anchors missing"
	}
	cases := map[*types.Named]*ast.CaseClause{}
	defaultPanics := false
	for _, st := range tsw.Body.List {
		cc := st.(*ast.CaseClause)
		if cc.List == nil {
			for _, s := range cc.Body {
				if es, ok := s.(*ast.ExprStmt); ok {
					if call, ok := es.X.(*ast.CallExpr); ok && IsBuiltin(dfs.Info(), call, "panic") {
						defaultPanics = true
					}
				}
			}
			continue
		}
		for _, te := range cc.List {
			if n := c17NamedOf(dfs.Info().TypeOf(te)); n != nil {
				cases[n] = cc
			}
		}
	}
	sent := map[*types.Named]*putSite{}
	nilSent := false
	for _, s := range sites {
		if s.isNil {
			nilSent = true
		} else if s.typ != nil {
			if sent[s.typ] == nil {
				sent[s.typ] = s
			}
		}
	}
	var names []string
	byName := map[string]*types.Named{}
	for t := range sent {
		byName[t.Obj().Name()] = t
	}
	for t := range cases {
		byName[t.Obj().Name()] = t
	}
	for n := range byName {
		names = append(names, n)
	}
	sort.Strings(names)
	for _, n := range names {
		t := byName[n]
		_, isSent := sent[t]
		_, hasCase := cases[t]
		pos := ""
		if isSent {
			pos = p.Pos(sent[t].call)
		} else {
			pos = p.Pos(cases[t])
		}
		c.Obl(r4, "message type "+n+" is both sent and dispatched", pos, isSent && hasCase,
			fmt.Sprintf("sent=%v dispatched=%v: a message type without a case reaches the default (panic in the checker goroutine); a case without a sender is dead protocol", isSent, hasCase))
	}
	c.Floor(r4, len(cases), 16, "cases of the dispatch type switch")
	c.Obl(r4, "dispatch's default case panics", p.Pos(tsw), defaultPanics, "an unknown message would be dropped silently: its sender waits for ever")
	if nilSent {
		// the consumer tests for nil before dispatch
		edge := func(fs *FuncSrc, cond ast.Expr, truth bool) []string {
			be, ok := cond.(*ast.BinaryExpr)
			if !ok || (be.Op != token.EQL && be.Op != token.NEQ) {
				return nil
			}
			if !isNilIdent(fs.Info(), be.X) && !isNilIdent(fs.Info(), be.Y) {
				return nil
			}
			if (be.Op == token.NEQ) == truth {
				return []string{"@notnil:" + exprStr(be.X) + exprStr(be.Y)}
			}
			return nil
		}
		n := 0
		for _, cs := range p.CallersOf(dispatch) {
			if cs.Call == nil {
				continue
			}
			fl := &Flow{P: p, Node: Labeler(CallOf("dispatch", dispatch)), Edge: edge}
			res := fl.Analyze(cs.Fn)
			for _, s := range res.Of("dispatch") {
				n++
				arg := exprStr(callArg(s.Node.(*ast.CallExpr), 0))
				c.Obl(r4, cs.Fn.name+": the nil (stop) message is filtered before dispatch", p.Pos(s.Node), s.Before.Has("@notnil:"+arg+"nil") || s.Before.Has("@notnil:nil"+arg),
					"Stop sends nil; dispatch has no case for nil")
			}
		}
		c.Floor(r4, n, 1, "calls of dispatch")
	}

	// ------------------------------------------------------------ priorities per message
	calledIn := func(cc *ast.CaseClause) map[string]bool {
		out := map[string]bool{}
		for _, st := range cc.Body {
			ast.Inspect(st, func(n ast.Node) bool {
				if call, ok := n.(*ast.CallExpr); ok {
					if f := Callee(dfs.Info(), call); f != nil {
						if sig := f.Type().(*types.Signature); sig.Recv() != nil && c17NamedOf(sig.Recv().Type()) == checkT {
							out[f.Name()] = true
						}
					}
				}
				return true
			})
		}
		return out
	}
	nprio := 0
	for _, s := range sites {
		name := "nil"
		if s.typ != nil {
			name = s.typ.Obj().Name()
		}
		key := s.fn.name + " sends " + name
		if s.prio == nil {
			c.Obl(r3, key+": priority is a constant", p.Pos(s.call), false, "")
			continue
		}
		pv, _ := constant.Int64Val(s.prio)
		if s.isNil {
			c.Obl(r3, key+": the stop message has stopPriority", p.Pos(s.call), pv == prio["stopPriority"],
				"the stop message overtakes pending messages of transactions: they are never delivered")
			continue
		}
		c.Obl(r3, key+": only the stop message has the lowest priority", p.Pos(s.call), pv > prio["stopPriority"], "")
		cc := cases[s.typ]
		if cc == nil {
			continue
		}
		cl := calledIn(cc)
		switch {
		case cl["commit"] || cl["Abort"]:
			nprio++
			c.Obl(r3, key+": commit/abort are sent with highPriority", p.Pos(s.call), pv == prio["highPriority"],
				"messages that end a transaction (and free the checker's state for it) can be starved by the reads and writes of other transactions")
		case cl["Read"] || cl["Output"] || cl["Delete"] || cl["Update"]:
			nprio++
			c.Obl(r3, key+": reads and writes are sent with mediumPriority", p.Pos(s.call), pv == prio["mediumPriority"],
				"reads/writes must rank below commit/abort and above start/admin traffic")
		}
	}
	c.Floor(r3, nprio, 6, "read/write/commit/abort senders")

	// ------------------------------------------------------------ wiring identity
	nwired := 0
	for _, s := range sites {
		if s.typ == nil || s.lit == nil || s.fn.Obj == nil {
			continue
		}
		sig := s.fn.Obj.Type().(*types.Signature)
		if sig.Recv() == nil || c17NamedOf(sig.Recv().Type()) != checkCoT {
			continue
		}
		cc := cases[s.typ]
		if cc == nil {
			continue
		}
		// field → parameter index of the sender
		f2p := map[*types.Var]int{}
		for f, v := range litFields(s.fn.Info(), s.lit) {
			if id, ok := ast.Unparen(v).(*ast.Ident); ok {
				o := s.fn.Info().Uses[id]
				for i := 0; i < sig.Params().Len(); i++ {
					if o == types.Object(sig.Params().At(i)) {
						f2p[f] = i
					}
				}
			}
		}
		implicit := dfs.Info().Implicits[cc]
		for _, st := range cc.Body {
			ast.Inspect(st, func(n ast.Node) bool {
				call, ok := n.(*ast.CallExpr)
				if !ok {
					return true
				}
				f := Callee(dfs.Info(), call)
				if f == nil || !strings.EqualFold(f.Name(), s.fn.Obj.Name()) {
					return true
				}
				fsig := f.Type().(*types.Signature)
				if fsig.Recv() == nil || c17NamedOf(fsig.Recv().Type()) != checkT {
					return true
				}
				nwired++
				key := "CheckCo." + s.fn.Obj.Name() + " → " + s.typ.Obj().Name() + " → Check." + f.Name()
				if len(call.Args) != sig.Params().Len() {
					c.Obl(r5, key+": same number of arguments", p.Pos(call), false,
						fmt.Sprintf("%d parameters sent, %d arguments passed on", sig.Params().Len(), len(call.Args)))
					return true
				}
				for j, a := range call.Args {
					ok := false
					d := "argument is not a field of the message"
					if sel, isSel := ast.Unparen(a).(*ast.SelectorExpr); isSel {
						if id, isId := ast.Unparen(sel.X).(*ast.Ident); isId && implicit != nil && dfs.Info().Uses[id] == implicit {
							if fld := FieldOf(dfs.Info(), sel); fld != nil {
								if i, has := f2p[fld]; has {
									ok = i == j
									d = fmt.Sprintf("argument %d of Check.%s is message field %s, which the sender fills from its parameter %d (%s): the checker receives the caller's arguments permuted",
										j, f.Name(), fld.Name(), i, sig.Params().At(i).Name())
								} else {
									d = "message field " + fld.Name() + " is not filled from a parameter of the sender"
								}
							}
						}
					}
					c.Obl(r5, fmt.Sprintf("%s: argument %d is parameter %d", key, j, j), p.Pos(a), ok, d)
				}
				return true
			})
		}
	}
	c.Floor(r5, nwired, 9, "Checker methods whose wiring through a message was followed")

	checkQueueCandidateIsOldest(c, "C17.6 K4c a later message is delivered only when it is the oldest of its id")
	return "Static shape of the checker's message queue. Queue: every access of PriorityQueue.items is under PriorityQueue.lock (unexported helpers are checked at their call sites), each Cond.Wait is inside a " +
		"conditional for loop, both conditions are bound to the queue's lock, and each change of the buffer signals the condition the other side waits on. Use in db19: at every Put whose message literal carries a " +
		"*CkTran/*UpdateTran the transaction-id argument is .start of that same value, all other messages use the constant 0; the four priority constants are ordered, the stop message alone has the lowest, " +
		"commit/abort use highPriority and read/output/delete/update mediumPriority (repository policy; starvation, not safety); the set of message types sent equals the set of dispatch cases, nil is filtered before dispatch, the default panics; " +
		"for every CheckCo method the map parameter→message field→argument of the same-named Check method is the identity. Not decided: the selection loop of Get (oldest-per-transaction, priority choice), fairness of sync.Cond."
}

package main

// Event matchers: turn AST nodes into labels using resolved objects (never names).

import (
	"go/ast"
	"go/token"
	"go/types"
)

type Ev struct {
	Label string
	Match func(fs *FuncSrc, n ast.Node) bool
}

// Labeler builds a Flow.Node function from event matchers.
func Labeler(evs ...Ev) func(fs *FuncSrc, n ast.Node) []string {
	return func(fs *FuncSrc, n ast.Node) []string {
		var out []string
		for _, e := range evs {
			if e.Match(fs, n) {
				out = append(out, e.Label)
			}
		}
		return out
	}
}

func sameFunc(a, b *types.Func) bool {
	return a != nil && b != nil && a.Origin() == b.Origin()
}

// CallOf matches calls (static, or dynamic through the interface method) of any of fns.
func CallOf(label string, fns ...*types.Func) Ev {
	return Ev{label, func(fs *FuncSrc, n ast.Node) bool {
		call, ok := n.(*ast.CallExpr)
		if !ok {
			return false
		}
		c := Callee(fs.Info(), call)
		for _, f := range fns {
			if sameFunc(c, f) {
				return true
			}
		}
		return false
	}}
}

// CallOfImpl matches calls of fn, or of any interface method that fn's receiver type
// implements with that name (a dynamic call that may dispatch to fn).
func CallNamed(label string, pred func(f *types.Func) bool) Ev {
	return Ev{label, func(fs *FuncSrc, n ast.Node) bool {
		call, ok := n.(*ast.CallExpr)
		if !ok {
			return false
		}
		c := Callee(fs.Info(), call)
		return c != nil && pred(c)
	}}
}

// lhsField returns the field ultimately stored by an assignment target:
// x.f, x.f[i], x.f[i].g (→ g), *x.f ...; deep=true also accepts element stores
// (x.f[i] = v and x.f[i:j]) as a store into f.
func lhsField(info *types.Info, e ast.Expr, deep bool) *types.Var {
	e = ast.Unparen(e)
	switch x := e.(type) {
	case *ast.SelectorExpr:
		return FieldOf(info, x)
	case *ast.IndexExpr:
		if deep {
			return lhsField(info, x.X, deep)
		}
	case *ast.StarExpr:
		if deep {
			return lhsField(info, x.X, deep)
		}
	}
	return nil
}

// StoreTo matches assignments / inc-dec whose target is field f (deep: or an element of it).
func StoreTo(label string, deep bool, fields ...*types.Var) Ev {
	has := func(v *types.Var) bool {
		for _, f := range fields {
			if f != nil && v == f {
				return true
			}
		}
		return false
	}
	return Ev{label, func(fs *FuncSrc, n ast.Node) bool {
		switch s := n.(type) {
		case *ast.AssignStmt:
			for _, l := range s.Lhs {
				if v := lhsField(fs.Info(), l, deep); v != nil && has(v) {
					return true
				}
			}
		case *ast.IncDecStmt:
			if v := lhsField(fs.Info(), s.X, deep); v != nil && has(v) {
				return true
			}
		}
		return false
	}}
}

// StoreToVar matches assignments to a package-level variable (or element of it if deep).
func StoreToVar(label string, deep bool, vars ...*types.Var) Ev {
	var root func(info *types.Info, e ast.Expr) types.Object
	root = func(info *types.Info, e ast.Expr) types.Object {
		e = ast.Unparen(e)
		switch x := e.(type) {
		case *ast.Ident:
			return info.Uses[x]
		case *ast.SelectorExpr:
			if info.Selections[x] == nil {
				return info.Uses[x.Sel]
			}
		case *ast.IndexExpr:
			if deep {
				return root(info, x.X)
			}
		}
		return nil
	}
	return Ev{label, func(fs *FuncSrc, n ast.Node) bool {
		chk := func(e ast.Expr) bool {
			o := root(fs.Info(), e)
			for _, v := range vars {
				if o != nil && o == v {
					return true
				}
			}
			return false
		}
		switch s := n.(type) {
		case *ast.AssignStmt:
			for _, l := range s.Lhs {
				if chk(l) {
					return true
				}
			}
		case *ast.IncDecStmt:
			return chk(s.X)
		case *ast.CallExpr:
			if deep && IsBuiltin(fs.Info(), s, "delete") && len(s.Args) > 0 {
				return chk(s.Args[0])
			}
		}
		return false
	}}
}

// MethodOnField matches x.f.M(...) where f is the field and M one of the methods
// (used for sync/atomic values, mutexes, maps wrapped in types).
func MethodOnField(label string, f *types.Var, methods ...string) Ev {
	return Ev{label, func(fs *FuncSrc, n ast.Node) bool {
		call, ok := n.(*ast.CallExpr)
		if !ok {
			return false
		}
		sel, ok := ast.Unparen(call.Fun).(*ast.SelectorExpr)
		if !ok {
			return false
		}
		if FieldOf(fs.Info(), sel.X) != f || f == nil {
			return false
		}
		for _, m := range methods {
			if sel.Sel.Name == m {
				return true
			}
		}
		return false
	}}
}

// MethodOnVar: v.M(...) where v is a package-level variable.
func MethodOnVar(label string, v *types.Var, methods ...string) Ev {
	return Ev{label, func(fs *FuncSrc, n ast.Node) bool {
		call, ok := n.(*ast.CallExpr)
		if !ok {
			return false
		}
		sel, ok := ast.Unparen(call.Fun).(*ast.SelectorExpr)
		if !ok {
			return false
		}
		if o := ObjOf(fs.Info(), sel.X); o == nil || o != types.Object(v) {
			return false
		}
		for _, m := range methods {
			if sel.Sel.Name == m {
				return true
			}
		}
		return false
	}}
}

func PanicCall(label string) Ev {
	return Ev{label, func(fs *FuncSrc, n ast.Node) bool {
		call, ok := n.(*ast.CallExpr)
		return ok && IsBuiltin(fs.Info(), call, "panic")
	}}
}

// ReadOf matches any use (not assignment target) of field f.
func UseOfField(label string, f *types.Var) Ev {
	return Ev{label, func(fs *FuncSrc, n ast.Node) bool {
		sel, ok := n.(*ast.SelectorExpr)
		return ok && f != nil && FieldOf(fs.Info(), sel) == f
	}}
}

// ---- whole-body scans (no flow)

// ForEachNode visits every node of the function body including nested literals.
func ForEachNode(fs *FuncSrc, f func(n ast.Node)) {
	if fs == nil || fs.Body == nil {
		return
	}
	ast.Inspect(fs.Body, func(n ast.Node) bool {
		if n != nil {
			f(n)
		}
		return true
	})
}

// CallsIn lists the calls of callee inside fs (including nested literals).
func (p *Prog) CallsIn(fs *FuncSrc, callees ...*types.Func) []*ast.CallExpr {
	var out []*ast.CallExpr
	ForEachNode(fs, func(n ast.Node) {
		if call, ok := n.(*ast.CallExpr); ok {
			c := Callee(fs.Info(), call)
			for _, f := range callees {
				if sameFunc(c, f) {
					out = append(out, call)
				}
			}
		}
	})
	return out
}

type CallSite struct {
	Fn   *FuncSrc // outermost declared function containing the call
	In   *FuncSrc // innermost function or literal
	Call *ast.CallExpr
}

// CallersOf lists every call site in the module of any of the functions; it also
// lists references that are not calls (method values, function values) with Call=nil
// wrapped in a synthetic site so that who-may-call rules stay conservative.
func (p *Prog) CallersOf(fns ...*types.Func) []CallSite {
	var out []CallSite
	is := func(o types.Object) bool {
		f, ok := o.(*types.Func)
		if !ok {
			return false
		}
		for _, g := range fns {
			if sameFunc(f, g) {
				return true
			}
		}
		return false
	}
	for _, fs := range p.AllSrcs {
		if fs.Body == nil {
			continue
		}
		info := fs.Info()
		inCall := map[*ast.Ident]bool{}
		var visit func(n ast.Node) bool
		visit = func(n ast.Node) bool {
			switch x := n.(type) {
			case *ast.FuncLit:
				if x != fs.Lit {
					return false // handled as its own FuncSrc
				}
			case *ast.CallExpr:
				if c := Callee(info, x); c != nil && is(c) {
					out = append(out, CallSite{Fn: fs.Outer(), In: fs, Call: x})
					switch f := ast.Unparen(x.Fun).(type) {
					case *ast.Ident:
						inCall[f] = true
					case *ast.SelectorExpr:
						inCall[f.Sel] = true
					case *ast.IndexExpr:
						if id, ok := f.X.(*ast.Ident); ok {
							inCall[id] = true
						}
					}
				}
			case *ast.Ident:
				if !inCall[x] && is(info.Uses[x]) {
					out = append(out, CallSite{Fn: fs.Outer(), In: fs, Call: nil})
				}
			}
			return true
		}
		if fs.Lit != nil {
			ast.Inspect(fs.Lit.Body, visit)
		} else {
			ast.Inspect(fs.Body, visit)
		}
	}
	return out
}

// WritersOf lists the functions (outermost declared) that contain an event matching ev.
func (p *Prog) FuncsWith(pkgs []string, ev Ev) map[*FuncSrc][]ast.Node {
	out := map[*FuncSrc][]ast.Node{}
	want := map[string]bool{}
	for _, s := range pkgs {
		if pk := p.Pkg(s); pk != nil {
			want[pk.PkgPath] = true
		}
	}
	for _, fs := range p.AllSrcs {
		if fs.Body == nil || (len(pkgs) > 0 && !want[fs.Pkg.PkgPath]) {
			continue
		}
		var body ast.Node = fs.Body
		ast.Inspect(body, func(n ast.Node) bool {
			if n == nil {
				return false
			}
			if l, ok := n.(*ast.FuncLit); ok && l != fs.Lit {
				return false
			}
			if ev.Match(fs, n) {
				out[fs.Outer()] = append(out[fs.Outer()], n)
			}
			return true
		})
	}
	return out
}

func isNilIdent(info *types.Info, e ast.Expr) bool {
	id, ok := ast.Unparen(e).(*ast.Ident)
	if !ok {
		return false
	}
	_, isNil := info.Uses[id].(*types.Nil)
	return isNil
}

var _ = token.ADD

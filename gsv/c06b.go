package main

// Rules added after the seeded-change experiments (see DESIGN.md §8.2): each one is a
// structural necessary condition that an independent, behaviour-breaking change violated
// while the first version of the checks stayed silent.

import (
	"fmt"
	"go/ast"
	"go/token"
	"go/types"
)

// checkKeysLoopCoverage (C01.6b): in the checker's write actions the per-index conflict
// test `reads.contains(i, key)` and the recording `with(i, key)` must sit in a loop that
// ranges over a keys *parameter* itself, with i the loop's index variable: the keys are
// parallel to the table's indexes, so ranging over anything else (a filtered list, a
// sub-slice) tests the wrong index numbers.
func checkKeysLoopCoverage(c *Ctx, rule string) {
	p := c.P
	contains := p.DeclaredMethod("db19", "ckreads", "contains")
	withW := p.DeclaredMethod("db19", "ckwrites", "with")
	if !c.need(rule, "db19.ckreads.contains", contains) || !c.need(rule, "db19.ckwrites.with", withW) {
		return
	}
	n := 0
	for _, fs := range p.FuncsIn("db19") {
		if fs.Body == nil || fs.Obj == nil {
			continue
		}
		calls := p.CallsIn(fs, contains, withW)
		if len(calls) == 0 {
			continue
		}
		info := fs.Info()
		par := parentMap(fs.Body)
		sig := fs.Obj.Type().(*types.Signature)
		isKeysParam := func(e ast.Expr) bool {
			id, ok := ast.Unparen(e).(*ast.Ident)
			if !ok {
				return false
			}
			o := info.Uses[id]
			for i := 0; i < sig.Params().Len(); i++ {
				if sig.Params().At(i) == o {
					sl, ok := o.Type().Underlying().(*types.Slice)
					return ok && types.Identical(sl.Elem(), types.Typ[types.String])
				}
			}
			return false
		}
		// which keys parameters are tested against the reads of other transactions
		readTested := map[types.Object]bool{}
		defer func(fs *FuncSrc) {
			recv := sig.Recv()
			if recv == nil || c17NamedOf(recv.Type()) == nil || c17NamedOf(recv.Type()).Obj().Name() != "Check" || len(p.CallsIn(fs, contains)) == 0 {
				return // only the functions that test for conflicts (they call reads.contains at all)
			}
			for i := 0; i < sig.Params().Len(); i++ {
				pv := sig.Params().At(i)
				sl, ok := pv.Type().Underlying().(*types.Slice)
				if !ok || !types.Identical(sl.Elem(), types.Typ[types.String]) {
					continue
				}
				c.Obl(rule, fs.name+": the keys in parameter "+fmt.Sprint(i)+" are tested against the reads of the other transactions", p.Pos(fs.Decl), readTested[pv],
					"no reads.contains(i, key) takes its key from this parameter: a write of these keys does not conflict with a transaction that read them (two transactions can both pass a duplicate check and commit the same key)")
			}
		}(fs)
		for _, call := range calls {
			if len(call.Args) < 2 {
				continue
			}
			n++
			cal := Callee(info, call)
			// pass-through form: contains(index, key) with index an int parameter (ckreads.contains itself is
			// called from Check.Read-like code with the caller's index): only loops are constrained here
			loops := enclosingLoops(par, call)
			var rs *ast.RangeStmt
			if len(loops) > 0 {
				rs, _ = loops[0].(*ast.RangeStmt)
			}
			ok := false
			why := "the call is not directly inside `for i, key := range <keys parameter>`"
			if rs != nil && isKeysParam(rs.X) {
				kid, _ := rs.Key.(*ast.Ident)
				a0, _ := ast.Unparen(call.Args[0]).(*ast.Ident)
				if kid != nil && a0 != nil && info.Uses[a0] == info.Defs[kid] {
					// key argument: the range value, or P[i] of a keys parameter
					switch a1 := ast.Unparen(call.Args[1]).(type) {
					case *ast.Ident:
						if vid, _ := rs.Value.(*ast.Ident); vid != nil && info.Uses[a1] == info.Defs[vid] {
							ok = true
							if sameFunc(cal, contains) {
								readTested[info.Uses[ast.Unparen(rs.X).(*ast.Ident)]] = true
							}
						}
					case *ast.IndexExpr:
						if ii, _ := ast.Unparen(a1.Index).(*ast.Ident); ii != nil && info.Uses[ii] == info.Defs[kid] && isKeysParam(a1.X) {
							ok = true
							if sameFunc(cal, contains) {
								readTested[info.Uses[ast.Unparen(a1.X).(*ast.Ident)]] = true
							}
						}
					}
					if !ok {
						why = "the key argument is not the element of a keys parameter at the loop index"
					}
				} else {
					why = "the index argument is not the loop's index variable"
				}
			}
			c.Obl(rule, fs.name+": "+cal.Name()+"(i, key) ranges over the keys parameter with its own index", p.Pos(call), ok,
				why+": keys are parallel to the table's indexes, so another index number would be tested / recorded and a conflict on this index is missed")
		}
	}
	c.Floor(rule, n, 6, "per-index conflict tests / recordings in the checker")
}

// checkDupRecArg (C07.1b): the record handed to dupOutputBlock (it decides whether a
// unique index needs checking: empty values are exempt) must be the record the key
// argument was computed from.
func checkDupRecArg(c *Ctx, t *tranAnchors, rule string) {
	p := c.P
	n := 0
	for _, fs := range t.mutators {
		info := fs.Info()
		for _, call := range p.CallsIn(fs, t.dupBlock) {
			if len(call.Args) != 6 {
				c.Obl(rule, fs.name+": dupOutputBlock arity", p.Pos(call), false, "unexpected number of arguments")
				continue
			}
			n++
			recID := identOf(call.Args[4])
			keyIx, _ := ast.Unparen(call.Args[5]).(*ast.IndexExpr)
			ok := false
			why := "record or key argument has an unexpected form"
			if recID != nil && keyIx != nil {
				keysObj := info.Uses[identOf(keyIx.X)]
				why = "no assignment keys[i] = spec.Key(rec) found for the key argument"
				ForEachNode(fs, func(nd ast.Node) {
					as, isAs := nd.(*ast.AssignStmt)
					if !isAs || len(as.Lhs) != 1 || len(as.Rhs) != 1 {
						return
					}
					lx, isIx := as.Lhs[0].(*ast.IndexExpr)
					if !isIx || keysObj == nil || info.Uses[identOf(lx.X)] != keysObj {
						return
					}
					kc, isCall := ast.Unparen(as.Rhs[0]).(*ast.CallExpr)
					if !isCall || len(kc.Args) != 1 {
						return
					}
					if cal := Callee(info, kc); cal == nil || cal.Name() != "Key" {
						return
					}
					src := identOf(kc.Args[0])
					if src != nil && info.Uses[src] == info.Uses[recID] {
						ok = true
					} else {
						why = fmt.Sprintf("the key %s is computed from %s but the duplicate check is given %s", exprStr(call.Args[5]), exprStr(kc.Args[0]), recID.Name)
					}
				})
			}
			c.Obl(rule, fs.name+": dupOutputBlock gets the record its key was computed from", p.Pos(call), ok,
				why+": needsDupCheck would judge 'unique value is empty' on another row and skip the lookup and the read registration")
		}
	}
	c.Floor(rule, n, 2, "dupOutputBlock calls")
}

// checkCascadeValueMapping (C08.6): in fkeyUpdateCascade the new values of the
// referencing row are read from the target record by the position of the target's key
// column in the *target table's* column list; the other columns are copied from the old
// referencing record by their own position.
func checkCascadeValueMapping(c *Ctx, t *tranAnchors, rule string) {
	p := c.P
	fs := c.src(rule, t.fkUpdCasc, "db19.UpdateTran.fkeyUpdateCascade")
	if fs == nil {
		return
	}
	info := fs.Info()
	defs := buildDefs(fs)
	colsF := p.Field("db19/meta/schema", "Schema", "Columns")
	slIndex := p.Func("slices", "Index")
	if !c.need(rule, "schema.Schema.Columns", colsF) {
		return
	}
	if slIndex == nil {
		if pk := p.All["slices"]; pk != nil {
			slIndex, _ = pk.Types.Scope().Lookup("Index").(*types.Func)
		}
	}
	if !c.need(rule, "slices.Index", slIndex) {
		return
	}
	recParam := fs.ParamNamed("rec")
	tsParam := fs.ParamNamed("ts")
	if recParam == nil || tsParam == nil {
		// fall back to types: the core.Record parameter and the *meta.Schema parameter
		sig := fs.Obj.Type().(*types.Signature)
		for i := 0; i < sig.Params().Len(); i++ {
			v := sig.Params().At(i)
			if named, ok := v.Type().(*types.Named); ok && named.Obj().Name() == "Record" {
				recParam = v
			}
			if pt, ok := v.Type().(*types.Pointer); ok {
				if named, ok := pt.Elem().(*types.Named); ok && named.Obj().Name() == "Schema" {
					tsParam = v
				}
			}
		}
	}
	if recParam == nil || tsParam == nil {
		c.Missing(rule, "record / schema parameters of fkeyUpdateCascade")
		return
	}
	par := parentMap(fs.Body)
	n := 0
	ForEachNode(fs, func(nd ast.Node) {
		call, ok := nd.(*ast.CallExpr)
		if !ok || len(call.Args) != 1 {
			return
		}
		cal := Callee(info, call)
		if cal == nil || cal.Name() != "GetRaw" {
			return
		}
		sel := call.Fun.(*ast.SelectorExpr)
		recv := identOf(sel.X)
		if recv == nil {
			return
		}
		n++
		if info.Uses[recv] == types.Object(recParam) {
			// index must derive from slices.Index(<ts>.Columns, …) with ts the target schema parameter
			ok := defs.Mentions(info, call.Args[0], func(m ast.Node) bool {
				ic, isCall := m.(*ast.CallExpr)
				if !isCall || !sameFunc(Callee(info, ic), slIndex) || len(ic.Args) != 2 {
					return false
				}
				if FieldOf(info, ic.Args[0]) != colsF {
					return false
				}
				root := rootIdent(ic.Args[0])
				return root != nil && info.Uses[root] == types.Object(tsParam)
			})
			c.Obl(rule, "value taken from the target record by the column's position in the target table", p.Pos(call), ok,
				"rec.GetRaw(k): k does not come from slices.Index(ts.Columns, column): field numbers of a record are positions in its own table's column list, so with key columns that are not the leading columns the cascaded rows receive another column's value")
			return
		}
		// other receivers (the old referencing record): index must be the range index over the referencing table's columns
		loops := enclosingLoops(par, call)
		ok2 := false
		for _, l := range loops {
			rs, isR := l.(*ast.RangeStmt)
			if !isR || FieldOf(info, rs.X) != colsF {
				continue
			}
			if kid, _ := rs.Key.(*ast.Ident); kid != nil {
				if a := identOf(call.Args[0]); a != nil && info.Uses[a] == info.Defs[kid] {
					ok2 = true
				}
			}
		}
		c.Obl(rule, "other columns copied from the old row by their own position", p.Pos(call), ok2,
			"GetRaw on the referencing row does not use the loop index over that table's columns")
	})
	c.Floor(rule, n, 2, "GetRaw calls in fkeyUpdateCascade")
}

// checkEnabledDecides (C44.2b): triggers.enabled(table) must decide from the disable
// count of that table on every path (a shortcut through some other flag can say
// "enabled" while this table is still disabled).
func checkEnabledDecides(c *Ctx, rule string) {
	p := c.P
	disabled := p.Field("db19", "triggers", "disabled")
	fs := c.method(rule, "db19", "triggers", "enabled")
	if fs == nil || !c.need(rule, "db19.triggers.disabled", disabled) {
		return
	}
	info := fs.Info()
	defs := buildDefs(fs)
	tableParam := fs.Param(0)
	n := 0
	ForEachNode(fs, func(nd ast.Node) {
		ret, ok := nd.(*ast.ReturnStmt)
		if !ok || len(ret.Results) != 1 {
			return
		}
		n++
		ok = defs.Mentions(info, ret.Results[0], func(m ast.Node) bool {
			ix, isIx := m.(*ast.IndexExpr)
			if !isIx || FieldOf(info, ix.X) != disabled {
				return false
			}
			id := identOf(ix.Index)
			return id != nil && tableParam != nil && info.Uses[id] == types.Object(tableParam)
		})
		c.Obl(rule, "enabled(table) returns a value computed from disabled[table]", p.Pos(ret), ok,
			"a return of triggers.enabled does not depend on the disable count of the table asked about: a trigger can fire while its table is still disabled (nested DoWithoutTriggers over different tables)")
	})
	c.Floor(rule, n, 1, "returns of triggers.enabled")
}

// checkMutationAbortWrapper (C06.7): every index mutation of an update transaction runs
// inside a function that has a deferred recover which aborts the transaction and
// re-panics.  Overlay.Delete/Update can panic after some indexes were already changed
// ("update & delete on same record"); a catchable panic would leave a transaction that
// can still commit with its indexes disagreeing.
func checkMutationAbortWrapper(c *Ctx, t *tranAnchors, rule string, extra ...*types.Func) {
	p := c.P
	utAbort := p.DeclaredMethod("db19", "UpdateTran", "Abort")
	if !c.need(rule, "db19.UpdateTran.Abort", utAbort) {
		return
	}
	n := 0
	for _, outer := range t.mutators {
		info := outer.Info()
		for _, fs := range append([]*FuncSrc{outer}, p.LitsOf(outer)...) {
			var muts []*ast.CallExpr
			var body ast.Node = fs.Body
			ast.Inspect(body, func(nd ast.Node) bool {
				if l, ok := nd.(*ast.FuncLit); ok && l != fs.Lit {
					return false
				}
				if call, ok := nd.(*ast.CallExpr); ok {
					cal := Callee(info, call)
					if sameFunc(cal, t.ovInsert) || sameFunc(cal, t.ovDelete) || sameFunc(cal, t.ovUpdate) {
						muts = append(muts, call)
					}
					for _, x := range extra {
						if x != nil && sameFunc(cal, x) {
							muts = append(muts, call)
						}
					}
				}
				return true
			})
			if len(muts) == 0 {
				continue
			}
			// a deferred literal directly in fs with recover + Abort + panic, before the first mutation
			var wrapper *ast.DeferStmt
			ast.Inspect(body, func(nd ast.Node) bool {
				if l, ok := nd.(*ast.FuncLit); ok && l != fs.Lit {
					return false
				}
				ds, ok := nd.(*ast.DeferStmt)
				if !ok {
					return true
				}
				lit, ok := ds.Call.Fun.(*ast.FuncLit)
				if !ok {
					return true
				}
				hasRec, hasAbort, hasPanic := false, false, false
				ast.Inspect(lit.Body, func(m ast.Node) bool {
					if call, ok := m.(*ast.CallExpr); ok {
						if IsBuiltin(info, call, "recover") {
							hasRec = true
						}
						if IsBuiltin(info, call, "panic") {
							hasPanic = true
						}
						if sameFunc(Callee(info, call), utAbort) {
							hasAbort = true
						}
					}
					return true
				})
				if hasRec && hasAbort && hasPanic && wrapper == nil {
					wrapper = ds
				}
				return false
			})
			for _, m := range muts {
				n++
				ok := wrapper != nil && wrapper.Pos() < m.Pos()
				c.Obl(rule, outer.name+": "+Callee(info, m).Name()+" runs under a deferred recover that aborts the transaction and re-panics", p.Pos(m), ok,
					"a panic from the index layer after some indexes of the row were changed would be catchable by the caller while the transaction stays committable")
			}
		}
	}
	c.Floor(rule, n, 5, "index mutations in UpdateTran")
}

// checkBestKeyStability (C06.6): BestKey decides the stored key of non-key index
// entries; it may only be (re)computed for the indexes being added.  SetBestKeys stores
// BestKey in a loop starting at its parameter, and every caller passes the number of
// pre-existing indexes (its own parameter, or len(ts.Indexes) taken before appending);
// the constant 0 is allowed only where all indexes are new (SetupIndexes).
func checkBestKeyStability(c *Ctx, rule string) {
	p := c.P
	bestKey := p.Field("db19/meta/schema", "Index", "BestKey")
	idxF := p.Field("db19/meta/schema", "Schema", "Indexes")
	if !c.need(rule, "schema.Index.BestKey", bestKey) || !c.need(rule, "schema.Schema.Indexes", idxF) {
		return
	}
	// writers of BestKey by assignment
	m := p.FuncsWith(nil, StoreTo("", false, bestKey))
	starters := map[*types.Func]int{} // function -> index of the "first new index" parameter
	nw := 0
	for fs, nodes := range m {
		for _, nd := range nodes {
			nw++
			par := parentMap(fs.Body)
			loops := enclosingLoops(par, nd)
			ok := false
			// a value derived from the index's own previous BestKey (column rename) is not a recomputation
			if as, isAs := nd.(*ast.AssignStmt); isAs && len(as.Rhs) == 1 && mentionsField(fs.Info(), as.Rhs[0], bestKey) {
				ok = true
			}
			for _, l := range loops {
				f, isFor := l.(*ast.ForStmt)
				if !isFor || f.Init == nil {
					continue
				}
				as, isAs := f.Init.(*ast.AssignStmt)
				if !isAs || len(as.Rhs) != 1 {
					continue
				}
				id := identOf(as.Rhs[0])
				if id == nil || fs.Obj == nil {
					continue
				}
				sig := fs.Obj.Type().(*types.Signature)
				for i := 0; i < sig.Params().Len(); i++ {
					if sig.Params().At(i) == fs.Info().Uses[id] {
						ok = true
						starters[fs.Obj] = i
					}
				}
			}
			c.Obl(rule, fs.name+": BestKey is assigned only for indexes from the 'first new index' parameter on", p.Pos(nd), ok,
				"BestKey of an existing (populated) index would be recomputed: its stored entries were built with the old BestKey and are not rebuilt, so after a reopen every entry sits under a key that is not its row's key")
		}
	}
	c.Floor(rule, nw, 1, "assignments of Index.BestKey")
	// propagate through callers: argument must be own parameter, or a local defined as len(X.Indexes), or 0 in a function without such parameter that is only used for new tables
	nc := 0
	work := []*types.Func{}
	for f := range starters {
		work = append(work, f)
	}
	seen := map[*types.Func]bool{}
	for len(work) > 0 {
		f := work[0]
		work = work[1:]
		if seen[f] {
			continue
		}
		seen[f] = true
		pi := starters[f]
		for _, cs := range p.CallersOf(f) {
			if cs.Call == nil || pi >= len(cs.Call.Args) {
				continue
			}
			nc++
			info := cs.In.Info()
			arg := cs.Call.Args[pi]
			ok, why := false, ""
			if id := identOf(arg); id != nil {
				o := info.Uses[id]
				if cs.Fn.Obj != nil {
					sig := cs.Fn.Obj.Type().(*types.Signature)
					for i := 0; i < sig.Params().Len(); i++ {
						if sig.Params().At(i) == o {
							ok = true
							if _, done := starters[cs.Fn.Obj]; !done {
								starters[cs.Fn.Obj] = i
								work = append(work, cs.Fn.Obj)
							}
						}
					}
				}
				if !ok {
					defs := buildDefs(cs.Fn)
					for _, rhs := range defs.defs[o] {
						if call, isCall := ast.Unparen(rhs).(*ast.CallExpr); isCall && IsBuiltin(info, call, "len") && FieldOf(info, call.Args[0]) == idxF {
							ok = true
						}
					}
					if len(defs.defs[o]) != 1 {
						ok = false
					}
					why = "the argument is a local that is not defined once as len(X.Indexes)"
				}
			} else if v := ConstVal(info, arg); v != nil && v.String() == "0" {
				// all indexes new: allowed only in a function that takes no index-count parameter and is itself
				// the "set up every index" entry point (SetupIndexes)
				ok = cs.Fn.name == "db19/meta.(*Schema).SetupIndexes"
				why = "constant 0 outside SetupIndexes (the entry point for tables whose indexes are all new)"
			} else {
				why = "argument is neither the caller's own parameter, nor len(X.Indexes) taken before appending, nor 0 in SetupIndexes"
			}
			c.Obl(rule, cs.Fn.name+": passes the number of pre-existing indexes to "+f.Name(), p.Pos(cs.Call), ok, why)
		}
	}
	c.Floor(rule, nc, 3, "callers passing the first-new-index count")
	_ = token.NoPos
}

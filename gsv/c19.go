package main

// C19 (small claim): wiring of historical reads.  Decided: the dispatch of
// ReadTran.Asof on its argument (0 / -1 / +1 / time), that the transaction's three
// snapshot fields are replaced together from ONE state, that invalid state candidates
// are skipped and never end the search, that the as-of search stops only on the
// "t <= asof" edge (or when the scan is exhausted), that stepping forward starts after
// the current state, and that every returned DbState is assembled from one readState
// result.  Not decided: that the state found is the most recent one (ordering of run-time
// timestamps, search arithmetic).

import (
	"go/ast"
	"go/constant"
	"go/token"
	"go/types"
)

func init() { register("C19", checkC19, "./db19/...") }

func checkC19(c *Ctx) string {
	p := c.P
	r1 := "C19.1 K4c ReadTran.Asof dispatches on its argument and replaces the snapshot as a whole"
	prev := p.Func("db19", "PrevState")
	next := p.Func("db19", "NextState")
	asofFn := p.Func("db19", "StateAsof")
	getState := p.DeclaredMethod("db19", "Database", "GetState")
	metaF := p.Field("db19", "tran", "meta")
	asofF := p.Field("db19", "ReadTran", "asof")
	offF := p.Field("db19", "ReadTran", "off")
	fs := c.method(r1, "db19", "ReadTran", "Asof")
	okA := c.need(r1, "db19.PrevState", prev) && c.need(r1, "db19.NextState", next) && c.need(r1, "db19.StateAsof", asofFn) &&
		c.need(r1, "db19.Database.GetState", getState) && c.need(r1, "db19.tran.meta", metaF) && c.need(r1, "db19.ReadTran.asof", asofF) && c.need(r1, "db19.ReadTran.off", offF)
	if fs != nil && okA {
		info := fs.Info()
		param := fs.Param(0)
		// the value of a condition on the parameter for a given argument
		factsFor := func(before Set, v int64) (bool, bool) { // (all facts hold, evaluable)
			all := true
			for _, f := range condFactsOf(before, nil) {
				env := &AbsEnv{Info: info, Atom: func(e ast.Expr) (constant.Value, bool) {
					if id, ok := e.(*ast.Ident); ok && info.Uses[id] == types.Object(param) {
						return constant.MakeInt64(v), true
					}
					return nil, false
				}}
				r := env.expr(f.Expr)
				if r == nil {
					continue // a condition on something else (time.Now)
				}
				if constant.BoolVal(r) != f.Truth {
					all = false
				}
			}
			return all, true
		}
		fl := &Flow{P: p, Node: Labeler(CallOf("PrevState", prev), CallOf("NextState", next), CallOf("StateAsof", asofFn), CallOf("GetState", getState),
			StoreTo("meta=", false, metaF), StoreTo("asof=", false, asofF), StoreTo("off=", false, offF)),
			Edge: func(s *FuncSrc, cond ast.Expr, truth bool) []string { return []string{condLabel(cond, truth)} }}
		res := fl.Analyze(fs)
		reach := func(label string, v int64) bool {
			for _, s := range res.Of(label) {
				if ok, _ := factsFor(s.Before, v); ok {
					return true
				}
			}
			return false
		}
		type want struct {
			arg   int64
			label string
			what  string
		}
		for _, w := range []want{{-1, "PrevState", "-1 steps to the previous persisted state"}, {1, "NextState", "+1 steps to the next persisted state"},
			{1000, "StateAsof", "a time selects the state as of that time"}} {
			okReach := reach(w.label, w.arg)
			others := false
			for _, l := range []string{"PrevState", "NextState", "StateAsof"} {
				if l != w.label && reach(l, w.arg) {
					others = true
				}
			}
			c.Obl(r1, "Asof("+c19itoa(w.arg)+"): "+w.what, p.Pos(fs.Decl), okReach && !others,
				"for this argument the branch conditions lead to a different state lookup (or to none)")
		}
		// argument 0: returns the current as-of time without any lookup
		zeroOK := false
		for _, r := range res.Returns {
			if ok, _ := factsFor(r.Before, 0); ok && len(r.Node.Results) == 1 && FieldOf(info, r.Node.Results[0]) == asofF &&
				!r.Before.HasAny("PrevState", "NextState", "StateAsof", "meta=") {
				zeroOK = true
			}
		}
		c.Obl(r1, "Asof(0) reports the transaction's current as-of time and changes nothing", p.Pos(fs.Decl), zeroOK, "")
		// the three snapshot fields are replaced together, from one variable
		for _, l := range []string{"meta=", "asof=", "off="} {
			for _, s := range res.Of(l) {
				ok := true
				for _, o := range []string{"meta=", "asof=", "off="} {
					if o != l && !(s.Before.Has(o) || s.Follows(o)) {
						ok = false
					}
				}
				c.Obl(r1, "Asof: "+l+" is paired with the other two snapshot fields on every path", p.Pos(s.Node), ok,
					"the transaction's meta / as-of time / state offset are not replaced together: a later +1/-1 step starts from the wrong state, or reads use another state than the one reported")
			}
		}
		var roots []types.Object
		ForEachNode(fs, func(nd ast.Node) {
			as, ok := nd.(*ast.AssignStmt)
			if !ok || len(as.Lhs) != 1 || len(as.Rhs) != 1 {
				return
			}
			f := lhsField(info, as.Lhs[0], false)
			if f != metaF && f != asofF && f != offF {
				return
			}
			if root := rootIdent(as.Rhs[0]); root != nil {
				roots = append(roots, info.Uses[root])
			}
		})
		same := len(roots) == 3 && roots[0] == roots[1] && roots[1] == roots[2]
		c.Obl(r1, "Asof: meta, as-of time and offset are taken from the same state value", p.Pos(fs.Decl), same, "the three fields come from different values")
		c.Floor(r1, len(res.Of("meta=")), 1, "stores of the snapshot in ReadTran.Asof")
	}

	// ---- 2. the searches
	r2 := "C19.2 K4c state searches skip invalid candidates and assemble a state from one record"
	readState := p.Func("db19", "readState")
	readMeta := p.Func("db19/meta", "ReadMeta")
	firstOff := p.DeclaredMethod("db19/stor", "Stor", "FirstOffset")
	if c.need(r2, "db19.readState", readState) && c.need(r2, "meta.ReadMeta", readMeta) && c.need(r2, "stor.Stor.FirstOffset", firstOff) {
		n := 0
		for _, sfs := range p.FuncsIn("db19") {
			if sfs.Body == nil || len(p.CallsIn(sfs, readState)) == 0 || sfs.Obj == readState {
				continue
			}
			info := sfs.Info()
			defs := buildDefs(sfs)
			// the variables assigned from readState: (offSchema, offInfo, t)
			var tuple []types.Object
			ForEachNode(sfs, func(nd ast.Node) {
				as, ok := nd.(*ast.AssignStmt)
				if !ok || len(as.Rhs) != 1 || len(as.Lhs) != 3 {
					return
				}
				if call, ok := ast.Unparen(as.Rhs[0]).(*ast.CallExpr); ok && sameFunc(Callee(info, call), readState) {
					tuple = nil
					for _, l := range as.Lhs {
						id := identOf(l)
						if id == nil {
							return
						}
						o := info.Defs[id]
						if o == nil {
							o = info.Uses[id]
						}
						tuple = append(tuple, o)
					}
				}
			})
			if len(tuple) != 3 {
				continue
			}
			n++
			// every DbState literal: Meta from ReadMeta(store, tuple[0], tuple[1]), Asof: tuple[2]
			ForEachNode(sfs, func(nd ast.Node) {
				cl, ok := nd.(*ast.CompositeLit)
				if !ok {
					return
				}
				t := info.TypeOf(cl)
				if t == nil || t.String() != modPath+"/db19.DbState" {
					return
				}
				okMeta, okAsof := false, false
				for _, el := range cl.Elts {
					kv, ok := el.(*ast.KeyValueExpr)
					if !ok {
						continue
					}
					switch identOf(kv.Key).Name {
					case "Meta":
						if call, ok := ast.Unparen(kv.Value).(*ast.CallExpr); ok && sameFunc(Callee(info, call), readMeta) && len(call.Args) == 3 {
							a1, a2 := identOf(call.Args[1]), identOf(call.Args[2])
							okMeta = a1 != nil && a2 != nil && info.Uses[a1] == tuple[0] && info.Uses[a2] == tuple[1]
						}
					case "Asof":
						a := identOf(kv.Value)
						okAsof = a != nil && info.Uses[a] == tuple[2]
					}
				}
				c.Obl(r2, sfs.name+": the returned state is assembled from one state record (schema, info, time)", p.Pos(cl), okMeta && okAsof,
					"Meta or Asof of the returned state do not come from the (offSchema, offInfo, t) of the record that was validated")
			})
			// invalid candidates (t == 0) never end the search with a result
			fl := &Flow{P: p, Edge: func(s *FuncSrc, cond ast.Expr, truth bool) []string {
				be, ok := cond.(*ast.BinaryExpr)
				if ok && (be.Op == token.EQL || be.Op == token.NEQ) {
					for _, pr := range [][2]ast.Expr{{be.X, be.Y}, {be.Y, be.X}} {
						id := identOf(pr[0])
						if id == nil {
							continue
						}
						o := info.Uses[id]
						if o == nil {
							o = info.Defs[id]
						}
						if o == tuple[2] {
							if v := ConstVal(info, pr[1]); v != nil && v.String() == "0" {
								if (be.Op == token.EQL) == truth {
									return []string{"@invalid"}
								}
								return []string{"@valid"}
							}
						}
					}
				}
				return []string{condLabel(cond, truth)}
			}}
			res := fl.Analyze(sfs)
			for _, r := range res.Returns {
				if len(r.Node.Results) != 1 || isNilIdent(info, r.Node.Results[0]) {
					continue
				}
				c.Obl(r2, sfs.name+": a state is returned only for a valid record", p.Pos(r.Node), !r.Before.Has("@invalid"),
					"a state is returned on the edge where readState reported an invalid record (t == 0)")
			}
			_ = defs
		}
		c.Floor(r2, n, 3, "state searches (callers of readState with a tuple result)")
		// NextState starts after the current state
		if ns := p.Src(next); ns != nil {
			ok := false
			for _, call := range p.CallsIn(ns, firstOff) {
				if be, isBin := ast.Unparen(callArg(call, 0)).(*ast.BinaryExpr); isBin && be.Op == token.ADD {
					if v := ConstVal(ns.Info(), be.Y); v != nil && constant.Sign(v) > 0 {
						ok = true
					}
				}
			}
			c.Obl(r2, "NextState searches from beyond the current state", p.Pos(ns.Decl), ok,
				"the forward search starts at the current state's own offset: +1 would return the same state again")
		}
		// stateAsof: the loop is left with a result only on the t <= asof edge (evaluated), or exhausted
		if sa := c.function(r2, "db19", "stateAsof"); sa != nil {
			info := sa.Info()
			var tvar types.Object
			ForEachNode(sa, func(nd ast.Node) {
				as, ok := nd.(*ast.AssignStmt)
				if !ok || len(as.Rhs) != 1 || len(as.Lhs) != 3 {
					return
				}
				if call, ok := ast.Unparen(as.Rhs[0]).(*ast.CallExpr); ok && sameFunc(Callee(info, call), readState) {
					if id := identOf(as.Lhs[2]); id != nil {
						tvar = info.Uses[id]
						if tvar == nil {
							tvar = info.Defs[id]
						}
					}
				}
			})
			var brk []*ast.BranchStmt
			par := parentMap(sa.Body)
			ForEachNode(sa, func(nd ast.Node) {
				if b, ok := nd.(*ast.BranchStmt); ok && b.Tok == token.BREAK {
					brk = append(brk, b)
				}
			})
			okStop := false
			for _, b := range brk {
				// the guarding if
				for n := ast.Node(b); n != nil; n = par[n] {
					is, ok := n.(*ast.IfStmt)
					if !ok {
						continue
					}
					// evaluate with t = 5: asof = 5 → true, asof = 4 → false, asof = 6 → true
					ev := func(t, a int64) (bool, bool) {
						env := &AbsEnv{Info: info, Atom: func(e ast.Expr) (constant.Value, bool) {
							// the time of the candidate record: the third result of readState
							if id, ok := e.(*ast.Ident); ok && tvar != nil && info.Uses[id] == tvar {
								return constant.MakeInt64(t), true
							}
							// the requested time: any other int64-typed leaf
							switch e.(type) {
							case *ast.Ident, *ast.SelectorExpr:
								if tt := info.TypeOf(e); tt != nil && types.Identical(tt.Underlying(), types.Typ[types.Int64]) {
									return constant.MakeInt64(a), true
								}
							}
							return nil, false
						}}
						v := env.expr(is.Cond)
						if v == nil || v.Kind() != constant.Bool {
							return false, false
						}
						return constant.BoolVal(v), true
					}
					v1, k1 := ev(5, 5)
					v2, k2 := ev(5, 4)
					v3, k3 := ev(5, 6)
					if k1 && k2 && k3 && v1 && !v2 && v3 {
						okStop = true
					}
					break
				}
			}
			c.Obl(r2, "stateAsof stops at the first state whose time is not after the requested time", p.Pos(sa.Decl), okStop,
				"no break of the search loop is guarded by a test that is true exactly for t <= asof (evaluated for t=5, asof=4,5,6)")
		}
	}
	checkChunkSearchResets(c, "C19.3 K18 pattern searches use a partial chunk only where they start")
	return "Small claim for C19: ReadTran.Asof is evaluated per argument class (0, -1, +1, a time): each reaches exactly its own lookup; the transaction's meta, as-of time and offset are replaced together from one state value; " +
		"every state search assembles the returned state from the one validated record, never returns a state on the invalid edge, NextState searches from beyond the current state, and stateAsof leaves its loop with a result exactly on t <= asof. " +
		"The start of the backward scans is decided under C05.7. NOT decided: that the state found is the most recent one at or before the time (ordering of run-time timestamps), caching in stateCache."
}

func c19itoa(v int64) string {
	return constant.MakeInt64(v).String()
}

package main

// Guard disciplines (K7 GUARDED and the interprocedural K4 of C36) on top of the path
// engine: "at every access of kind k to object o, guard(o, k) has been established on
// every path", where the guard is a lock acquired on o or a check called on o.
//
//   - objects are identified by (root variable, field path); a SuRecord stands for its
//     embedded object (path ".ob"), so r.Lock() and r.ob.Lock() guard the same thing;
//   - a declared function that is allowed to rely on its callers (unexported, or a named
//     exception) gets a *requires* summary over its receiver/parameters, which is checked
//     (and propagated) at each call site, to a fixed point;
//   - objects allocated in the function (composite literal, new, result of a function
//     that returns a fresh object) need no guard;
//   - function literals that are not run synchronously where they are written (returned,
//     stored) are entry points of their own; immediately invoked literals and literals
//     passed to sort/slices callbacks are spliced by the engine;
//   - a method value X.m passed as an argument to a function with source is followed
//     into that function: calls of the parameter are calls of m on the translated X.

import (
	"fmt"
	"go/ast"
	"go/token"
	"go/types"
	"sort"
	"strings"
)

// ---------------------------------------------------------------- object references

type objRef struct {
	root types.Object // nil when the expression is not rooted in a variable
	path string
	text string
}

func (r objRef) ok() bool { return r.root != nil }
func (r objRef) key() string {
	if r.root == nil {
		return "?" + r.text
	}
	return fmt.Sprintf("%p%s", r.root, r.path)
}
func (r objRef) String() string {
	if r.root == nil {
		return r.text
	}
	return r.root.Name() + r.path
}
func (r objRef) add(path string) objRef { return objRef{r.root, r.path + path, r.text + path} }

// refOf resolves an expression to (root variable, field path): x, x.f.g, &x.f, *x, (x).
func refOf(info *types.Info, e ast.Expr) objRef {
	e = ast.Unparen(e)
	switch x := e.(type) {
	case *ast.Ident:
		if v, ok := ObjOf(info, x).(*types.Var); ok {
			return objRef{root: v, text: x.Name}
		}
	case *ast.SelectorExpr:
		if f := FieldOf(info, x); f != nil {
			r := refOf(info, x.X)
			if r.ok() {
				return r.add("." + f.Name())
			}
		} else if v, ok := info.Uses[x.Sel].(*types.Var); ok && info.Selections[x] == nil {
			return objRef{root: v, text: exprStr(x)} // pkg.Var
		}
	case *ast.UnaryExpr:
		if x.Op == token.AND {
			return refOf(info, x.X)
		}
	case *ast.StarExpr:
		return refOf(info, x.X)
	case *ast.TypeAssertExpr:
		if x.Type != nil {
			return refOf(info, x.X)
		}
	}
	return objRef{text: exprStr(e)}
}

// ---------------------------------------------------------------- discipline

type guardReq struct {
	obj  ast.Expr // the guarded object; norm(obj) identifies the guard
	kind string   // what must hold: discipline specific ("R", "W", "M")
	what string   // for messages: "write of list"
}

type guardDiscipline struct {
	c   *Ctx
	p   *Prog
	pkg string // package whose functions are analysed
	// events returns the gen/kill labels of a node ("W:<key>", "-W:<key>", …)
	events func(fs *FuncSrc, n ast.Node) []string
	// reqs returns the guard requirements of a node (accesses)
	reqs func(u *gUnit, n ast.Node) []guardReq
	// holds: does the must-set establish kind on the object key?
	holds func(before Set, key string, kind string, u *gUnit) bool
	// carrier: may this declared function rely on its callers?
	carrier func(fs *FuncSrc) bool
	// normalise the reference of an actual receiver/argument expression (adds ".ob" for records)
	norm func(info *types.Info, e ast.Expr) objRef
	// freshCall: calls of these functions return a newly allocated object
	extraFresh func(f *types.Func) bool

	units    map[*FuncSrc]*gUnit
	litUnit  map[*ast.FuncLit]bool // literals that are entry points
	callIdx  map[*types.Func][]*gUnit
	freshFn  map[*types.Func]int
	bindings map[*types.Var][]paramBinding // func-typed parameter → method values bound at call sites
	escapes  []string
}

type paramBinding struct {
	callee *types.Func
	param  int    // parameter (-1 receiver) of the function owning the func-typed parameter that the bound receiver translates to
	path   string // path from that parameter to the bound receiver
	ok     bool
	pos    string
	text   string
}

type gNeed struct {
	param int // -1 = receiver
	path  string
	kind  string
}

type gNeedInfo struct {
	what string // origin: "write of list in core.(*SuObject).migrate"
	pos  string
}

type gAcc struct {
	node   ast.Node
	ref    objRef
	kind   string
	what   string
	before Set
}

type gCall struct {
	node   ast.Node
	callee *types.Func
	recv   ast.Expr
	args   []ast.Expr
	before Set
	// for calls through a func-typed parameter: the translated receiver
	bound *paramBinding
}

type gUnit struct {
	fs       *FuncSrc
	entryLit bool
	par      map[ast.Node]ast.Node
	defs     *defIndex
	analysed bool
	accs     []*gAcc
	calls    []*gCall
	needs    map[gNeed]*gNeedInfo
	viol     map[string]*gViol // violations found in this unit (entry points / non-carriers)
	nAST     int               // requirement-bearing nodes found by a plain AST scan (soundness cross-check)
	nFlow    int
}

type gViol struct {
	what string
	pos  string
	ref  string
	kind string
}

func (g *guardDiscipline) pkgPath() string { return g.p.Pkg(g.pkg).PkgPath }

// spliced reports whether the engine runs the literal where it is written.
func (g *guardDiscipline) spliced(fs *FuncSrc, par map[ast.Node]ast.Node, lit *ast.FuncLit) bool {
	call, ok := par[lit].(*ast.CallExpr)
	if !ok {
		return false
	}
	if ast.Unparen(call.Fun) == ast.Expr(lit) {
		return true // func(){…}()  (also `defer func(){…}()`)
	}
	callee := Callee(fs.Info(), call)
	for i, a := range call.Args {
		if ast.Unparen(a) == ast.Expr(lit) && callee != nil && syncCallback(callee, i) {
			return true
		}
	}
	return false
}

// syncCallback: standard-library functions that call their function argument
// synchronously during the call.
func syncCallback(callee *types.Func, arg int) bool {
	if callee.Pkg() == nil {
		return false
	}
	switch callee.Pkg().Path() {
	case "sort", "slices":
		return true
	}
	return false
}

func (g *guardDiscipline) init() {
	g.units = map[*FuncSrc]*gUnit{}
	g.litUnit = map[*ast.FuncLit]bool{}
	g.callIdx = map[*types.Func][]*gUnit{}
	g.freshFn = map[*types.Func]int{}
	g.bindings = map[*types.Var][]paramBinding{}
	pk := g.p.Pkg(g.pkg)
	// units: declared functions and non-spliced literals
	for _, fs := range g.p.AllSrcs {
		if fs.Pkg != pk || fs.Body == nil {
			continue
		}
		if fs.Lit != nil {
			outer := fs.Outer()
			var par map[ast.Node]ast.Node
			if ou := g.units[outer]; ou != nil {
				par = ou.par
			} else if outer.Body != nil {
				par = parentMap(outer.Body)
			} else {
				// literal in a package-level initialiser: an entry point
				g.units[fs] = &gUnit{fs: fs, entryLit: true, par: parentMap(fs.Body), needs: map[gNeed]*gNeedInfo{}, viol: map[string]*gViol{}}
				g.litUnit[fs.Lit] = true
				continue
			}
			if g.spliced(outer, par, fs.Lit) {
				continue
			}
			g.litUnit[fs.Lit] = true
			g.units[fs] = &gUnit{fs: fs, entryLit: true, par: par, needs: map[gNeed]*gNeedInfo{}, viol: map[string]*gViol{}}
			continue
		}
		g.units[fs] = &gUnit{fs: fs, par: parentMap(fs.Body), needs: map[gNeed]*gNeedInfo{}, viol: map[string]*gViol{}}
	}
	// call index and method-value bindings
	for _, u := range g.units {
		u := u
		g.walk(u, func(n ast.Node) {
			call, ok := n.(*ast.CallExpr)
			if !ok {
				return
			}
			info := u.fs.Info()
			if f := Callee(info, call); f != nil && g.p.Src(f) != nil {
				g.callIdx[f] = append(g.callIdx[f], u)
				// method values among the arguments
				cs := g.p.Src(f)
				for i, a := range call.Args {
					sel, ok := ast.Unparen(a).(*ast.SelectorExpr)
					if !ok {
						continue
					}
					m, ok := ObjOf(info, sel).(*types.Func)
					if !ok || g.p.Src(m) == nil || info.Selections[sel] == nil {
						continue
					}
					pv := cs.Param(i)
					if pv == nil {
						continue
					}
					b := paramBinding{callee: m.Origin(), pos: g.p.Pos(a), text: exprStr(a)}
					bound := refOf(info, sel.X)
					// translate the bound receiver into the callee's frame
					if bound.ok() {
						if rs, ok := ast.Unparen(call.Fun).(*ast.SelectorExpr); ok && info.Selections[rs] != nil {
							rr := refOf(info, rs.X)
							if rr.ok() && rr.root == bound.root && strings.HasPrefix(bound.path, rr.path) {
								b.param, b.path, b.ok = -1, strings.TrimPrefix(bound.path, rr.path), true
							}
						}
						for j, a2 := range call.Args {
							ar := refOf(info, a2)
							if !b.ok && ar.ok() && ar.root == bound.root && strings.HasPrefix(bound.path, ar.path) {
								b.param, b.path, b.ok = j, strings.TrimPrefix(bound.path, ar.path), true
							}
						}
					}
					g.bindings[pv] = append(g.bindings[pv], b)
				}
			}
		})
	}
}

// walk visits the nodes of a unit: its body including spliced literals, excluding
// literals that are units of their own.
func (g *guardDiscipline) walk(u *gUnit, f func(n ast.Node)) {
	var body ast.Node = u.fs.Body
	ast.Inspect(body, func(n ast.Node) bool {
		if n == nil {
			return false
		}
		if l, ok := n.(*ast.FuncLit); ok && l != u.fs.Lit && g.litUnit[l] {
			return false
		}
		f(n)
		return true
	})
}

// lsParamIndex: -1 receiver, i parameter, -2 none (of the unit's function; entry literals have none).
func lsParamIndex(fs *FuncSrc, o types.Object) int {
	if fs.Obj == nil || o == nil {
		return -2
	}
	sig := fs.Obj.Type().(*types.Signature)
	if sig.Recv() != nil && types.Object(sig.Recv()) == o {
		return -1
	}
	for i := 0; i < sig.Params().Len(); i++ {
		if types.Object(sig.Params().At(i)) == o {
			return i
		}
	}
	return -2
}

// ---------------------------------------------------------------- freshness

func (g *guardDiscipline) freshExpr(u *gUnit, e ast.Expr, depth int) bool {
	info := u.fs.Info()
	e = ast.Unparen(e)
	switch x := e.(type) {
	case *ast.CompositeLit:
		return true
	case *ast.UnaryExpr:
		if x.Op == token.AND {
			if _, ok := ast.Unparen(x.X).(*ast.CompositeLit); ok {
				return true
			}
			return g.freshExpr(u, x.X, depth)
		}
	case *ast.CallExpr:
		if IsBuiltin(info, x, "new") {
			return true
		}
		if f := Callee(info, x); f != nil {
			return g.freshFunc(f, depth)
		}
	case *ast.Ident:
		if v, ok := info.Uses[x].(*types.Var); ok {
			return g.freshVar(u, v, depth)
		}
	case *ast.SelectorExpr:
		if FieldOf(info, x) != nil {
			// a struct-valued field of a fresh struct (r.ob of a fresh record)
			if _, isPtr := info.TypeOf(x).(*types.Pointer); !isPtr {
				return g.freshExpr(u, x.X, depth)
			}
		}
	case *ast.StarExpr:
		return g.freshExpr(u, x.X, depth)
	}
	return false
}

// freshVar: a local variable (not a parameter, not package level) all of whose
// definitions are fresh allocations (or that is declared without a value).
func (g *guardDiscipline) freshVar(u *gUnit, v *types.Var, depth int) bool {
	if v == nil || v.IsField() || depth > 4 {
		return false
	}
	if v.Parent() == nil || v.Parent() == v.Pkg().Scope() {
		return false
	}
	outer := u.fs.Outer()
	if lsParamIndex(outer, v) != -2 {
		return false
	}
	if outer.Obj != nil {
		res := outer.Obj.Type().(*types.Signature).Results()
		for i := 0; i < res.Len(); i++ {
			if res.At(i) == v {
				return false
			}
		}
	}
	// parameters of enclosing literals are not fresh
	if v.Pos() < outer.Body.Pos() || v.Pos() > outer.Body.End() {
		return false
	}
	isLitParam := false
	ast.Inspect(outer.Body, func(n ast.Node) bool {
		if l, ok := n.(*ast.FuncLit); ok && l.Type.Params != nil {
			for _, f := range l.Type.Params.List {
				for _, nm := range f.Names {
					if u.fs.Info().Defs[nm] == types.Object(v) {
						isLitParam = true
					}
				}
			}
		}
		return true
	})
	if isLitParam {
		return false
	}
	if u.defs == nil {
		u.defs = buildDefs(u.fs)
	}
	ds := u.defs.defs[v]
	if len(ds) == 0 {
		// `var x T`: zero value; pointers would be nil (no access possible)
		return true
	}
	for _, d := range ds {
		if !g.freshExpr(u, d, depth+1) {
			return false
		}
	}
	return true
}

// freshFunc: every return of f returns (as first result) a fresh object.
func (g *guardDiscipline) freshFunc(f *types.Func, depth int) bool {
	f = f.Origin()
	switch g.freshFn[f] {
	case 1:
		return true
	case 2, 3:
		return false
	}
	if g.extraFresh != nil && g.extraFresh(f) {
		g.freshFn[f] = 1
		return true
	}
	fs := g.p.Src(f)
	if fs == nil || fs.Body == nil || depth > 4 {
		return false
	}
	g.freshFn[f] = 3
	u := g.units[fs]
	if u == nil {
		u = &gUnit{fs: fs, par: parentMap(fs.Body)}
	}
	all, n := true, 0
	ast.Inspect(fs.Body, func(nd ast.Node) bool {
		if _, ok := nd.(*ast.FuncLit); ok {
			return false
		}
		if r, ok := nd.(*ast.ReturnStmt); ok {
			n++
			if len(r.Results) == 0 || !g.freshExpr(u, r.Results[0], depth+1) {
				all = false
			}
		}
		return true
	})
	if all && n > 0 {
		g.freshFn[f] = 1
		return true
	}
	g.freshFn[f] = 2
	return false
}

// ---------------------------------------------------------------- analysis of a unit

func (g *guardDiscipline) analyse(u *gUnit) {
	if u.analysed {
		return
	}
	u.analysed = true
	info := u.fs.Info()
	isPkgCall := func(n ast.Node) (*ast.CallExpr, *types.Func) {
		call, ok := n.(*ast.CallExpr)
		if !ok {
			return nil, nil
		}
		if f := Callee(info, call); f != nil && g.p.Src(f) != nil && g.p.Src(f).Pkg == u.fs.Pkg {
			return call, f
		}
		return call, nil
	}
	node := func(fs *FuncSrc, n ast.Node) []string {
		var out []string
		out = append(out, g.events(fs, n)...)
		if len(g.reqs(u, n)) > 0 {
			out = append(out, "req")
		}
		switch x := n.(type) {
		case *ast.CallExpr:
			if _, f := isPkgCall(x); f != nil {
				out = append(out, "call")
			} else if id, ok := ast.Unparen(x.Fun).(*ast.Ident); ok {
				if v, ok := info.Uses[id].(*types.Var); ok && len(g.bindings[v]) > 0 {
					out = append(out, "pcall")
				}
			}
		case *ast.DeferStmt:
			if _, f := isPkgCall(x.Call); f != nil {
				out = append(out, "dcall")
			}
			out = append(out, "dstmt")
		}
		return out
	}
	fl := &Flow{P: g.p, Node: node, Callback: syncCallback}
	res := fl.Analyze(u.fs)
	mkCall := func(call *ast.CallExpr, f *types.Func, before Set, nd ast.Node) *gCall {
		gc := &gCall{node: nd, callee: f.Origin(), args: call.Args, before: before}
		if sel, ok := ast.Unparen(call.Fun).(*ast.SelectorExpr); ok && info.Selections[sel] != nil {
			gc.recv = sel.X
		}
		return gc
	}
	// a deferred literal runs at exit; like a deferred call it is given the state at its
	// registration (with `defer Unlock()` registered earlier the guard is still held then)
	deferBefore := map[*ast.FuncLit]Set{}
	for _, s := range res.Of("dstmt") {
		if lit, ok := ast.Unparen(s.Node.(*ast.DeferStmt).Call.Fun).(*ast.FuncLit); ok {
			deferBefore[lit] = s.Before
		}
	}
	for _, s := range res.Sites {
		for pn := u.par[s.Node]; pn != nil && len(deferBefore) > 0; pn = u.par[pn] {
			if lit, ok := pn.(*ast.FuncLit); ok {
				if db, ok := deferBefore[lit]; ok {
					s.Before = union(s.Before, db)
				}
			}
		}
	}
	for _, s := range res.Sites {
		switch s.Label {
		case "req":
			u.nFlow++
			for _, r := range g.reqs(u, s.Node) {
				ref := g.norm(info, r.obj)
				u.accs = append(u.accs, &gAcc{node: s.Node, ref: ref, kind: r.kind, what: r.what, before: s.Before})
			}
		case "call":
			call, f := isPkgCall(s.Node)
			u.calls = append(u.calls, mkCall(call, f, s.Before, s.Node))
		case "dcall":
			ds := s.Node.(*ast.DeferStmt)
			_, f := isPkgCall(ds.Call)
			u.calls = append(u.calls, mkCall(ds.Call, f, s.Before, s.Node))
		case "pcall":
			call := s.Node.(*ast.CallExpr)
			v := info.Uses[ast.Unparen(call.Fun).(*ast.Ident)].(*types.Var)
			for i := range g.bindings[v] {
				b := &g.bindings[v][i]
				u.calls = append(u.calls, &gCall{node: s.Node, callee: b.callee, args: call.Args, before: s.Before, bound: b})
			}
		}
	}
	// cross-check: the engine visited every requirement-bearing node
	g.walk(u, func(n ast.Node) {
		if len(g.reqs(u, n)) > 0 {
			u.nAST++
		}
	})
}

// satisfied: the guard for (ref, kind) holds at a site of unit u.
func (g *guardDiscipline) satisfied(u *gUnit, ref objRef, kind string, before Set) bool {
	if ref.ok() && g.holds(before, ref.key(), kind, u) {
		return true
	}
	if ref.ok() {
		if v, ok := ref.root.(*types.Var); ok && g.freshVar(u, v, 0) {
			return true
		}
	}
	return false
}

// require records that unit u needs (ref, kind): either as a requirement on its own
// parameters or as a violation.
func (g *guardDiscipline) require(u *gUnit, ref objRef, kind, what, pos string) bool {
	if ref.ok() && !u.entryLit && g.carrier(u.fs) {
		if i := lsParamIndex(u.fs, ref.root); i != -2 {
			k := gNeed{i, ref.path, kind}
			if u.needs[k] == nil {
				u.needs[k] = &gNeedInfo{what: what, pos: pos}
				return true
			}
			return false
		}
	}
	vk := ref.String() + "|" + kind + "|" + what
	if u.viol[vk] == nil {
		u.viol[vk] = &gViol{what: what, pos: pos, ref: ref.String(), kind: kind}
	}
	return false
}

// run analyses the package to a fixed point.  seeds: units to start from (those
// containing requirement-bearing nodes).
func (g *guardDiscipline) run() {
	g.init()
	var work []*gUnit
	inWork := map[*gUnit]bool{}
	push := func(u *gUnit) {
		if u != nil && !inWork[u] {
			inWork[u] = true
			work = append(work, u)
		}
	}
	var all []*gUnit
	for _, u := range g.units {
		all = append(all, u)
	}
	sort.Slice(all, func(i, j int) bool { return all[i].fs.name < all[j].fs.name })
	for _, u := range all {
		has := false
		g.walk(u, func(n ast.Node) {
			if !has && len(g.reqs(u, n)) > 0 {
				has = true
			}
		})
		if has {
			push(u)
		}
	}
	for len(work) > 0 {
		u := work[0]
		work = work[1:]
		inWork[u] = false
		g.analyse(u)
		changed := false
		for _, a := range u.accs {
			if !g.satisfied(u, a.ref, a.kind, a.before) {
				if g.require(u, a.ref, a.kind, a.what+" in "+u.fs.name, g.p.Pos(a.node)) {
					changed = true
				}
			}
		}
		for _, cs := range u.calls {
			cu := g.units[g.p.Src(cs.callee)]
			if cu == nil || len(cu.needs) == 0 {
				continue
			}
			var ks []gNeed
			for k := range cu.needs {
				ks = append(ks, k)
			}
			sort.Slice(ks, func(i, j int) bool {
				return fmt.Sprint(ks[i]) < fmt.Sprint(ks[j])
			})
			for _, k := range ks {
				ni := cu.needs[k]
				var ref objRef
				switch {
				case cs.bound != nil && k.param == -1:
					// call through a func-typed parameter: receiver bound at the caller of u
					if !cs.bound.ok {
						ref = objRef{text: "method value " + cs.bound.text + " bound at " + cs.bound.pos}
					} else {
						ref = g.paramRef(u, cs.bound.param).add(cs.bound.path).add(k.path)
					}
				case k.param == -1:
					if cs.recv == nil {
						continue
					}
					ref = refOf(u.fs.Info(), cs.recv).add(k.path)
				default:
					if k.param >= len(cs.args) {
						continue
					}
					ref = refOf(u.fs.Info(), cs.args[k.param]).add(k.path)
				}
				if g.satisfied(u, ref, k.kind, cs.before) {
					continue
				}
				if !ref.ok() && cs.recv != nil && k.param == -1 && g.freshExpr(u, cs.recv, 0) {
					continue
				}
				if !ref.ok() && k.param >= 0 && k.param < len(cs.args) && g.freshExpr(u, cs.args[k.param], 0) {
					continue
				}
				if g.require(u, ref, k.kind, ni.what+" ← "+u.fs.name, g.p.Pos(cs.node)) {
					changed = true
				}
			}
		}
		if changed {
			for _, caller := range g.callIdx[u.fs.Obj] {
				push(caller)
			}
			// callers of functions that receive a method value of u
			if u.fs.Obj != nil {
				for pv, bs := range g.bindings {
					for _, b := range bs {
						if sameFunc(b.callee, u.fs.Obj) {
							for _, cand := range g.units {
								if cand.fs.Obj != nil && lsParamIndex(cand.fs, pv) >= 0 {
									push(cand)
								}
							}
						}
					}
				}
			}
		}
	}
	// references to carriers with needs that are neither calls nor followed method values
	// (one scan of the package: unexported functions cannot be referenced from elsewhere;
	// exported carriers are a named exception whose outside callers are frozen separately)
	withNeeds := map[*types.Func]*gUnit{}
	for _, u := range all {
		if len(u.needs) > 0 && u.fs.Obj != nil {
			withNeeds[u.fs.Obj] = u
		}
	}
	followed := map[*types.Func]bool{}
	for _, bs := range g.bindings {
		for _, b := range bs {
			if b.ok {
				followed[b.callee] = true
			}
		}
	}
	seenEsc := map[string]bool{}
	for _, u := range all {
		info := u.fs.Info()
		inCall := map[*ast.Ident]bool{}
		g.walk(u, func(n ast.Node) {
			switch x := n.(type) {
			case *ast.CallExpr:
				switch f := ast.Unparen(x.Fun).(type) {
				case *ast.Ident:
					inCall[f] = true
				case *ast.SelectorExpr:
					inCall[f.Sel] = true
				}
			case *ast.Ident:
				if inCall[x] {
					return
				}
				f, ok := info.Uses[x].(*types.Func)
				if !ok {
					return
				}
				if cu := withNeeds[f.Origin()]; cu != nil && !followed[f.Origin()] {
					msg := fmt.Sprintf("%s is used as a function value in %s", cu.fs.name, u.fs.name)
					if !seenEsc[msg] {
						seenEsc[msg] = true
						g.escapes = append(g.escapes, msg)
					}
				}
			}
		})
	}
	sort.Strings(g.escapes)
}

// paramRef: the reference of parameter i (-1 receiver) of the unit's function.
func (g *guardDiscipline) paramRef(u *gUnit, i int) objRef {
	if u.fs.Obj == nil {
		return objRef{text: "?"}
	}
	sig := u.fs.Obj.Type().(*types.Signature)
	if i == -1 && sig.Recv() != nil {
		return objRef{root: sig.Recv(), text: sig.Recv().Name()}
	}
	if i >= 0 && i < sig.Params().Len() {
		return objRef{root: sig.Params().At(i), text: sig.Params().At(i).Name()}
	}
	return objRef{text: "?"}
}

// sortedUnits returns the analysed units by name.
func (g *guardDiscipline) sortedUnits() []*gUnit {
	var out []*gUnit
	for _, u := range g.units {
		if u.analysed {
			out = append(out, u)
		}
	}
	sort.Slice(out, func(i, j int) bool { return out[i].fs.name < out[j].fs.name })
	return out
}

// ---------------------------------------------------------------- helpers shared by C36 / C43

// recvMutators returns the methods of the named type whose body stores through the
// receiver, directly or by calling such a method on the same receiver.
func recvMutators(p *Prog, t *types.Named) map[*types.Func]bool {
	out := map[*types.Func]bool{}
	var ms []*FuncSrc
	for i := 0; i < t.NumMethods(); i++ {
		if fs := p.Src(t.Method(i)); fs != nil && fs.Body != nil {
			ms = append(ms, fs)
		}
	}
	for changed := true; changed; {
		changed = false
		for _, fs := range ms {
			if out[fs.Obj] {
				continue
			}
			recv := fs.Recv()
			if recv == nil {
				continue
			}
			if _, isPtr := recv.Type().(*types.Pointer); !isPtr {
				continue
			}
			info := fs.Info()
			mut := false
			rooted := func(e ast.Expr) bool {
				id := rootIdent(e)
				return id != nil && info.Uses[id] == types.Object(recv)
			}
			ForEachNode(fs, func(n ast.Node) {
				switch s := n.(type) {
				case *ast.AssignStmt:
					for _, l := range s.Lhs {
						if _, isId := ast.Unparen(l).(*ast.Ident); !isId && rooted(l) {
							mut = true
						}
					}
				case *ast.IncDecStmt:
					if _, isId := ast.Unparen(s.X).(*ast.Ident); !isId && rooted(s.X) {
						mut = true
					}
				case *ast.CallExpr:
					if sel, ok := ast.Unparen(s.Fun).(*ast.SelectorExpr); ok {
						if f, ok := ObjOf(info, sel).(*types.Func); ok && out[f.Origin()] && rooted(sel.X) {
							mut = true
						}
					}
					if (IsBuiltin(info, s, "clear") || IsBuiltin(info, s, "copy")) && len(s.Args) > 0 && rooted(s.Args[0]) {
						mut = true
					}
				}
			})
			if mut {
				out[fs.Obj] = true
				changed = true
			}
		}
	}
	return out
}

// paramElementStored: does function f store into elements of its i'th parameter
// (p[i] = v, copy(p, …), sort of p)?
func paramElementStored(p *Prog, f *types.Func, i int) bool {
	fs := p.Src(f)
	if fs == nil || fs.Body == nil {
		return false
	}
	pv := fs.Param(i)
	if pv == nil {
		return false
	}
	info := fs.Info()
	stored := false
	is := func(e ast.Expr) bool {
		id, ok := ast.Unparen(e).(*ast.Ident)
		return ok && info.Uses[id] == types.Object(pv)
	}
	ForEachNode(fs, func(n ast.Node) {
		switch s := n.(type) {
		case *ast.AssignStmt:
			for _, l := range s.Lhs {
				if ix, ok := ast.Unparen(l).(*ast.IndexExpr); ok && is(ix.X) {
					stored = true
				}
			}
		case *ast.CallExpr:
			if IsBuiltin(info, s, "copy") && len(s.Args) > 0 && is(rootExprOfSlice(s.Args[0])) {
				stored = true
			}
		}
	})
	return stored
}

func rootExprOfSlice(e ast.Expr) ast.Expr {
	for {
		switch x := ast.Unparen(e).(type) {
		case *ast.SliceExpr:
			e = x.X
		case *ast.IndexExpr:
			e = x.X
		default:
			return ast.Unparen(e)
		}
	}
}

// writeContext classifies the use of a field selector sel (X.f) inside unit body:
// "w" store / mutation, "r" read.  mutators: mutating methods of the field's type.
func writeContext(p *Prog, info *types.Info, par map[ast.Node]ast.Node, sel *ast.SelectorExpr, mutators map[*types.Func]bool) string {
	var cur ast.Node = sel
	for {
		pn := par[cur]
		switch x := pn.(type) {
		case *ast.IndexExpr:
			if ast.Unparen(x.X) == cur.(ast.Expr) {
				cur = x
				continue
			}
			return "r"
		case *ast.SliceExpr:
			if ast.Unparen(x.X) == cur.(ast.Expr) {
				cur = x
				continue
			}
			return "r"
		case *ast.AssignStmt:
			for _, l := range x.Lhs {
				if ast.Unparen(l) == cur.(ast.Expr) {
					return "w"
				}
			}
			return "r"
		case *ast.IncDecStmt:
			return "w"
		case *ast.UnaryExpr:
			if x.Op == token.AND {
				return "w"
			}
			return "r"
		case *ast.SelectorExpr:
			// X.f.M(...) : method call on the field
			if call, ok := par[x].(*ast.CallExpr); ok && ast.Unparen(call.Fun) == ast.Expr(x) {
				if f, ok := ObjOf(info, x).(*types.Func); ok {
					if mutators[f.Origin()] {
						return "w"
					}
					if sig := f.Type().(*types.Signature); sig.Recv() != nil {
						if _, isPtr := sig.Recv().Type().(*types.Pointer); isPtr && p.Src(f) == nil {
							return "w" // unknown pointer-receiver method without source
						}
					}
				}
			}
			return "r"
		case *ast.CallExpr:
			argi := -1
			for i, a := range x.Args {
				if ast.Unparen(a) == cur.(ast.Expr) {
					argi = i
				}
			}
			if argi < 0 {
				return "r"
			}
			if (IsBuiltin(info, x, "copy") && argi == 0) || IsBuiltin(info, x, "clear") {
				return "w"
			}
			if f := Callee(info, x); f != nil {
				if f.Pkg() != nil && (f.Pkg().Path() == "sort" || f.Pkg().Path() == "slices") {
					n := f.Name()
					if strings.HasPrefix(n, "Sort") || n == "Slice" || n == "SliceStable" || n == "Stable" || n == "Reverse" {
						return "w"
					}
				}
				if paramElementStored(p, f, argi) {
					return "w"
				}
			}
			return "r"
		}
		return "r"
	}
}

// report emits the obligations of a finished discipline: one per analysed unit without
// violations, one per violation.  exceptions: unit name → reason (violations of that unit
// are accepted; the obligation records the reason).
func (g *guardDiscipline) report(rule string, breaks string, exceptions map[string]string, kindName func(string) string) (sites, units int) {
	c := g.c
	usedExc := map[string]bool{}
	for _, u := range g.sortedUnits() {
		ncarried := 0
		for _, cs := range u.calls {
			if cu := g.units[g.p.Src(cs.callee)]; cu != nil && len(cu.needs) > 0 {
				ncarried++
			}
		}
		if len(u.accs) == 0 && len(u.viol) == 0 && len(u.needs) == 0 && ncarried == 0 {
			continue
		}
		units++
		sites += len(u.accs)
		pos := g.p.Pos(u.fs.Body)
		if u.nAST != u.nFlow {
			c.Obl(rule, u.fs.name+": every guarded access is reachable for the path engine", pos, false,
				fmt.Sprintf("%d accesses in the source, %d seen on paths from the entry (dead code or an unsupported construct): no verdict for the rest", u.nAST, u.nFlow))
		}
		if reason, ok := exceptions[u.fs.name]; ok {
			usedExc[u.fs.name] = true
			c.Obl(rule, u.fs.name+": frozen exception", pos, true, fmt.Sprintf("%s (%d unguarded uses accepted)", reason, len(u.viol)))
			continue
		}
		if len(u.viol) == 0 {
			d := fmt.Sprintf("%d guarded accesses", len(u.accs))
			if ncarried > 0 {
				d += fmt.Sprintf(", %d calls of functions that rely on their caller", ncarried)
			}
			if len(u.needs) > 0 {
				var ns []string
				for k := range u.needs {
					ns = append(ns, fmt.Sprintf("%s on %s", kindName(k.kind), g.paramRef(u, k.param).add(k.path)))
				}
				sort.Strings(ns)
				d += "; relies on its callers for " + strings.Join(ns, ", ") + " (checked at each call site)"
			}
			c.Obl(rule, u.fs.name+": guard held at every access", pos, true, d)
			continue
		}
		var ks []string
		for k := range u.viol {
			ks = append(ks, k)
		}
		sort.Strings(ks)
		for _, k := range ks {
			v := u.viol[k]
			c.Obl(rule, u.fs.name+": "+v.what, v.pos, false,
				fmt.Sprintf("%s is not established for %s on every path to this point; %s", kindName(v.kind), v.ref, breaks))
		}
	}
	for _, e := range g.escapes {
		c.Obl(rule, e, "", false, "a function that relies on its callers for the guard escapes as a value: its calls cannot be checked")
	}
	var en []string
	for n := range exceptions {
		en = append(en, n)
	}
	sort.Strings(en)
	for _, n := range en {
		if !usedExc[n] {
			c.Obl(rule, n+": frozen exception is still needed", "", false, "the function no longer exists or no longer touches guarded state: remove the stale exception")
		}
	}
	return
}

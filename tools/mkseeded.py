#!/usr/bin/env python3
"""Copies confirmed seeded changes from /tmp/seed/<ID>-out/<n> into /verif/seeded/<ID>-<n>/ with meta.json."""
import json, os, re, shutil, sys
T = [
# id, n, pkg, run, needs, first_verdict, caught_by
("C01",1,"db19","TestDemoC01_1","a keyed lookup that finds nothing, then a concurrent insert of that key commits","caught","C01.2 lookup paired with UpdateTran.Read"),
("C01",2,"db19","TestDemoC01_2","table with >=2 indexes, update changing only the key of index i>0, an active reader whose scanned range holds only the new key","missed","C01.6b (added): conflict tests must range over the keys parameter with its own index"),
("C01",3,"db19","TestDemoC01_3","backward scan of more than one step on the fast path, then a concurrent insert into the stepped-over gap","missed","C01.1 (strengthened): registered range must be in ascending key order for the direction of movement"),
("C03",1,"db19","TestDemoC03_1","an abort processed between Commit's Failed() test and the queued ckCommit message","caught","C03.1 success only on the accepted edge / false only on the nil edge"),
("C03",2,"db19","TestDemoC03_2","a size-changing Update that is the transaction's first write to the table, followed by abort or persist+reopen","caught","C03.5 counters on the rw Info; also C02.2"),
("C03",3,"db19","TestDemoC03_3","a reader starting between the success reply and the state update (state mutex held by persist)","caught","C03.1 publish before acknowledge"),
("C06",1,"db19","TestSeedC06_1","table with >=2 indexes; one transaction updates a row then deletes it through the old offset; the panic is caught and the transaction completed","missed","C06.7 (added): index mutations under recover→Abort→re-panic"),
("C06",2,"db19","TestSeedC06_2","populated table key(a,b) index(c); alter create of a better key; close and reopen","missed","C06.6 (added): BestKey only for indexes being added"),
("C06",3,"db19","TestSeedC06_3","update transaction started before an ensure/alter create index on a populated table finishes, updating a row afterwards","missed by C06 (caught by C01.6)","C06.5 (added to C06): exclusive guard in all three write actions"),
("C07",1,"db19","TestC07Demo1","unique index not containing a key; a row whose unique value is empty updated to a value another row has","missed","C07.1b (added): dupOutputBlock gets the record its key was computed from"),
("C07",2,"db19","TestC07Demo2","empty key() table, two overlapping transactions each inserting a row","caught","C07.1 per-iteration duplicate check / empty-key branch"),
("C07",3,"db19","TestC07Demo3","alter create / ensure of a unique index over existing duplicate values","caught","C07.4 Builder.Add verdict used"),
("C08",1,"dbms/query","TestFkDemo1","T1 starts; T2 inserts a source row for key k and commits; T1 deletes target row k","caught by C01.3, missed by C08","C08.3 (added to C08): foreign-key scans register their range"),
("C08",2,"dbms/query","TestFkDemo2","three-table chain cust <- ord (cascade update) <- item (block); key-changing update of cust","caught","C08.1 every index passes through fkeyDeleteBlock"),
("C08",3,"dbms/query","TestFkDemo3","cascade update where the target's key columns are not its leading columns","missed","C08.6 (added): cascaded values read by column position in the target table"),
("C18",1,"db19/stor","TestDemoC18","two allocators racing exactly between the two adjacent atomic stores of extend","caught","C18.3 store order size.Store before allocChunk.Add"),
("C18",2,"db19/stor","TestDemoC18","two allocators racing at the moment of extension (allocChunk field removed, len(chunks)-1 used instead)","caught (mechanism-missing)","C18.1 anchor Stor.allocChunk missing"),
("C44",1,"dbms/query","TestDemoC44CascadeDelete","cascade foreign key, trigger on the child table, parent delete with children","caught","C44.1 mutation followed by CallTrigger (new internal delete)"),
("C44",2,"dbms/query","TestDemoC44NestedDisable","nested disable/enable over two different tables, inner one ends first","missed","C44.2b (added): enabled(table) decides from disabled[table]"),
# second round
("C04",1,"db19","TestDemoC04LastDeleteSurvivesClose","a persist earlier in the session, then only non-appending changes (delete, drop, rename), then close","caught","C04.2 close(allDone) only after the final persist or unchanged state"),
("C04",2,"db19","TestDemoC04RenameKeyColumnThenReopen","table with a key plus a non-key index; rename of a key column not in that index; reopen","missed","C04.6/C21.4 (added): rename rewrites every persisted name field of every index"),
("C05",1,"db19","TestDemoC05CrashRightAfterPersist","crash right after a persist (state record ends 0-7 bytes before the end of the file)","missed","C05.7 (added): scan for the latest state starts at Size()"),
("C05",2,"db19","TestDemoC05GarbageTailWithStateMagic","garbage tail containing magic1 … magic2 at the state distance with a wrong checksum","caught","C05.2 validity guards dominate the valid return"),
("C20",1,"db19/tools","TestDemoC20CompactDeletedColumn","table with a dropped column that has other columns after it; compact","missed","C20.4 (added): column list rewritten only after the copy pass"),
("C20",2,"db19/tools","TestDemoC20LoadRefusesDuplicateKey","duplicate key in the last table of a dump (worker still running when the reader finishes)","missed","C20.5 (added): success only after Wait and a nil test made after it"),
("C09",1,"db19/index","TestDemoC09_1","iterator parked on a key of the transaction's own buffer which the transaction then deletes/updates in place","caught","C09.1 every change of chunks paired with modCount++"),
("C09",2,"db19/index","TestDemoC09_2","skip-scan iterator re-seeked after the overlay changed, current key 3rd or later of its prefix group","MISSED (out of reach)","none: the defect is in the search arithmetic of btree Seek; no structural rule"),
("C11",1,"db19/index/ixbuf","TestDemoC11_1","input with chunks large, small, large followed by two more inputs with interleaved keys","caught","C11.3 merge never stores into its inputs"),
("C11",2,"db19/index/ixbuf","TestDemoC11_2","delete tombstone surviving in an earlier buffer, later buffer re-adds the key as first key of its remaining chunk","missed","C11.6 (added): merge.passthru folded with 'buffer not empty, keys equal' and every other leaf unknown must refuse"),
("C21",1,"dbms/query","TestDemoC21_1","table with a foreign key created and dropped within one persist interval","missed","C21.5 (added): pending metaUpdate maps not replaced after use"),
("C21",2,"dbms/query","TestDemoC21_2","self-referencing foreign key and alter drop of an index in front of it","missed","C21.6 (added): renumbering calls guarded by nothing but 'has a foreign key', with the loop position"),
("C40",1,"dbms","TestDemoC40_1$","GetOne with a read-only transaction number after another session committed","missed","C40.5 (added): connection-level fallback only when no transaction was named"),
("C40",2,"dbms","TestDemoC40_2$","a handler that panics after it started writing the response","caught","C40.2e error reply = ResetWrite, false, …"),
("C40",3,"dbms","TestDemoC40_3$","two sessions on one connection served by different workers","missed","C40.4 (added): per-request parameters reach the session on every path"),
("C41",1,"dbms","TestDemoC41_1$","Nonce, a failed Auth, then another Auth over the stale nonce","caught","C41.4 nonce cleared on every path"),
("C41",2,"dbms","TestDemoC41_2$","first connection accepted while the users table is empty, users added later","caught","C41.3 wrapped (or no users) before publication"),
("C41",3,"dbms","TestDemoC41_3$","Auth with a prefix (or the empty string) of the expected answer","missed","C41.4d (added): verdict is a whole-value equality from an enumerated set"),
("C13",1,"core","TestSeedC13_LargestExponentRoundTrip","a finite decimal with the maximum exponent","MISSED (out of reach)","none: byte-level number encoding is declared not decided"),
("C13",2,"core","TestSeedC13_ConcatSharedBufferCanonical","a concatenation that was the left operand of a further concatenation, then packed","missed","C13.7 (added): shared concat buffer read only up to the owner's n"),
("C28",1,"core","TestSeedC28_ConcatSharedBufferEqualVsCompare","two concats sharing one buffer compared with Equal","missed","C28.6 (added): Equal decides with the lengths"),
("C28",2,"core","TestSeedC28_ExceptionValueOrdersAsString","an exception value compared against strings/dates","caught","C28.2 Order() table and C28.4"),
("C42",1,"builtin","TestSeedC42_ReturnFromEnclosingFunction","a block that returns from the enclosing function after doing updates","caught","C42.2 scenario BlockReturn"),
("C02",1,"db19","TestDemoSnapshotStableAcrossCommit","a read transaction started before another transaction's commit reads again afterwards","caught","C02.2 K12 (LayeredOnto writes the published Meta)"),
("C02",2,"db19","TestDemoSnapshotStableAcrossColumnRename","a transaction started before alter rename of an indexed column looks at the table's indexes again","caught","C02.2 K12 (stores into index definitions obtained from Hamt.Get)"),
("C15",1,"util/hamt","TestDemoPullUpKeepsOldVersions","delete of a key whose slot has a child node with >=2 values while an older frozen version is still in use","caught","C15.1 node written without fresh/dup/generation fact"),
("C15",2,"util/hamt","TestDemoChainCycles","a chain with >=2 chunks and a persist cycle that modifies no item, then reading back from the returned offset","missed","C15.7 (added): WriteChain folded: returned offset is the head of the returned chain, new chunk links to the last kept one"),
("C16",1,"db19","TestDemoPersistKeepsSizeNeutralChanges","a same-length update as the only unpersisted change of a table, then persist","missed","C16.5 (added): persist asks Overlay.Modified"),
("C16",2,"db19","TestDemoMergeQueueAcrossSchemaChange","two commits queued at once whose transactions started on either side of a schema change","missed","C16.6 (added): the drain loop keeps every received commit"),
("C17",1,"db19","TestDemoC17_1","an abort sent while a message of the same transaction is still queued","caught","C17.2 message carries the id of its own transaction"),
("C17",2,"util/queue","TestDemoC17_2","two queued id-0 messages, the later one with higher priority","missed","C17.6 (added): a later message is selected only on the true edge of isOldest"),
("C34",1,"db19","TestDemoC34_1","a client fetch landing exactly on the threshold millisecond","caught","C34.5 same threshold on server and client"),
("C34",2,"db19","TestDemoC34_2","timestamp ahead of the wall clock at tick time","caught","C34.3 ticker stores only on the later-than-timestamp edge"),
("C19",1,"db19","TestDemoC19_1","a requested time exactly equal to a state's time","caught","C19.2 stateAsof stops exactly on t <= asof (evaluated)"),
("C19",2,"db19","TestDemoC19_2","multi-chunk store, next state in a later chunk at a lower in-chunk position","missed","C19.3 (added): chunk loop re-assigns the in-chunk bound every iteration"),
("C14",1,"core","TestDemoC14_1","a record whose total length is exactly 65536","missed","C14.4 (added): tblength / mode / buildOffsets folded around both class boundaries; readers decode that width"),
("C14",2,"dbms/mux","TestDemoC14_2","integers with |i| >= 2^62 on the wire","missed","C14.3 (added): zig-zag prologue/epilogue folded on boundary values"),
("C42",2,"builtin","TestSeedC42_EndedByBlockThenThrow","a block that completes the transaction itself and then throws","caught","C42.2 scenarios 'already ended'"),
("C24",1,"dbms/query","TestDemoUpdateWhereOnUpdatedIndexedColumn","an update whose where clause is served by an index over a column the set clause changes","missed","C24.5 (added): the update's source query is set up over a key"),
("C24",2,"dbms/query","TestDemoUpdateCountWhenSetIsNoOpForSomeRows","a set clause that leaves some selected rows unchanged","missed","C24.6 (added): the count is incremented on every path from a selected row to the next"),
("C25",1,"compile","TestDemoConstantOnLeftComparison","a constant on the left of <=","missed","C25.6 (added): reverseBinary is the order-reversal involution, inverseBinary the negation"),
("C25",2,"dbms/query","TestDemoQueryRangeExprSameAsLanguage","a stored value equal to an exclusive upper bound, raw evaluation","missed","C25.7 (added): InRange.EvalRaw folded for 20 orderings"),
("C26",1,"core","TestDemoIntegerArithmeticBoundaries$","MinInt64 * -1","caught","C26.2 overflow predicates exact on the boundary vectors"),
("C26",2,"core","TestDemoIntegerArithmeticBoundaries2","x - MinInt64 and unary minus of MinInt64","caught","C26.2"),
("C31",1,"dbms/query","TestDemoUnterminatedStringEndingInEscapedQuote","an unterminated literal whose last quote character is escaped","caught","C31.1 end-of-input edges of string scanners return tok.Error"),
("C31",2,"dbms/query","TestDemoDisplayedConstantEvaluatesBack","a terminated literal containing \\x00","missed","C31.2 (added): the sentinel is compared only with a byte whose reaching definition is read()/peek()"),
("C32",1,"compile/lexer","TestDemoLexerTerminatesAndTilesOnAnyByte","a NUL byte in the source","missed","C32.4 (added): read advances the cursor before every return that loaded a byte"),
("C32",2,"compile/lexer","TestDemoLexerSpansOfMalformedLiterals","an unterminated literal with an escape","caught","C32.3 item positions are the start captured before the first read"),
("C35",1,"core","TestSeedC35_1","copy of a record holding an invalidated rule field","missed","C35.4 (added): a record literal built from the receiver's data carries dependents and invalid"),
("C35",2,"core","TestSeedC35_2","a rule reading a field that does not exist yet","missed","C35.5 (added): addDependent is not guarded by the looked-up value"),
("C36",1,"core","TestSeedC36_1","Insert into the list while the named member len(list)+1 exists","missed","C36.5 (added): every growth of the list is followed by migrate()"),
("C36",2,"core","TestSeedC36_2","two lazy copies; the first unshares when the count drops to zero","missed","C36.6 (added): leaving a shared counter is followed by a fresh counter on every path"),
("C43",1,"core","TestSeedC43_1","container default and concurrent Get of a missing member (-race)","caught","C43.1 lockset: write under the read lock"),
("C43",2,"core","TestSeedC43_2","a concurrent closure doing x += 1 on a shared slot (-race)","caught","C43.1 lockset: shared slot written without its lock"),
# fourth round (second look at properties whose first seeds were all caught, and the two not seeded before)
("R4-C03",1,"db19","TestDemoR4C03_1$","10000 writes in one transaction, the exception caught, then Complete","missed","C03.9 (added): the write limit aborts before it refuses"),
("R4-C03",2,"db19","TestDemoR4C03_2$","update & update through a stale offset, error swallowed, different record lengths","missed by C03 (caught by C06.7)","C03.12 (C06.7 added to C03): index mutations run under recover→Abort→re-panic"),
("R4-C03",3,"builtin","TestDemoR4C03_3$","a commit that fails on a conflict followed by a second Complete or Rollback","missed","C03.10 / C42.6 (added): 'completed' stored only on the success edge of the underlying Complete, 'aborted' before a failure is raised"),
("R4-C02",1,"builtin","TestDemoR4C02_1$","an update transaction with a lookup-strategy join open that writes to the looked-up table and reads on","missed","C02.10 (added): every use of the join lookup cache excludes updatable transactions"),
("R4-C02",2,"db19","TestDemoR4C02_2$","an iteration opened before the transaction's first write to a fully persisted index","missed by C02 (caught by C01.4)","C02.11 (C01.4 added to C02): SimpleIter only for read transactions"),
("R4-C42",1,"builtin","TestDemoR4C42_1$","a block that throws after the checker already aborted its transaction (conflict/timeout)","missed","C42.7 / C03.11 (added): CheckCo.Abort queues the abort on every path"),
("R4-C42",2,"builtin","TestDemoR4C42_2$","a block left with break or continue","caught","C42.2 scenarios"),
("R4-C39",1,"util/ranges","TestDemoR4C39_1$","a full tree node, a full leaf, and a range between that leaf's end and the next leaf's start","missed","C39.6 (added): the receiving leaf is always the one searchBinary(key) selects"),
("R4-C39",2,"util/lrucache","TestDemoR4C39_2$","a requested size above 223 and more than 256 distinct keys","missed","C39.3 (added): every capacity fits the index type of Cache.lru"),
("R4-C39",3,"util/cache","TestDemoR4C39_3$","Get of the zero-valued key on a cache that is not yet full","missed","C39.4 (added): a hit needs a slot marked used (here: the field is gone — mechanism missing)"),
("R4-C30",1,"compile","TestDemoR4C30_1$","a local assigned a constant in one case of a switch and read in a later case","missed","C30.9 (added): every iteration over Switch.Cases ends with the restore of the known values"),
("R4-C30",2,"compile","TestDemoR4C30_2$","`in` with a constant left side and a list mixing constants and variables, no constant match","missed","C30.11 (added): foldIn goes on to the next member only past a constant member"),
("R4-C30",3,"compile","TestDemoR4C30_3$","a constant false/true in the middle of an and/or list followed by a constant operation that throws","missed","C30.10 (added): the short-circuit flag is updated from the operand before the current one"),
("R4-C18",1,"db19/stor","TestDemoR4C18_1$","two allocators at a chunk transition (race; several hundred rounds)","caught","C18.2 allocChunk.Load before size.Add"),
("R4-C18",2,"db19/stor","TestDemoR4C18_2$","two allocators at a chunk transition (race); only silent overlaps","missed","C18.2 (strengthened): allocChunk is never loaded after size.Add within one attempt"),
# fifth and sixth round
("R5-C06",1,"db19","TestDemoR5C06_1$","alter create adding a column and an index on a populated table","missed","out of reach: argument order of a set union (value-level)"),
("R5-C06",2,"db19","TestDemoR5C06_2$","alter drop of an index that is not the last","missed","C06.9 (new): dropIndexes filters schema and overlays in lockstep"),
("R5-C07",1,"dbms/query","TestDemoR5C07_1","composite unique index, partly empty value","missed","C07.8 (new): uniqueIndexEmpty folded over a two-field index (range loop unrolled over a model list)"),
("R5-C07",2,"db19","TestDemoR5C07_2","update to a key another transaction has just checked","missed","C07.7 / C01.6b (extended): every keys parameter of Check.Update is tested against the reads"),
("R5-C08",1,"dbms/query","TestDemoR5C08_1","recursive cascade key","missed","C08.7 (new): a back link is skipped only because of its mode"),
("R5-C08",2,"dbms/query","TestDemoR5C08_2","two referencing indexes, encoded before un-encoded, zero byte in the value","missed","C08.8 (new): the key used for a back link is assigned on every path of that iteration"),
("R5-C08",3,"dbms/query","TestDemoR5C08_3","concurrent delete of the target row","caught","C08.5 / C01.2 / C01.4 (override removed)"),
("R5-C09",1,"db19/index","TestDemoR5C09_1$","one OverIter used for skip-scan, then range, then an index change","missed","C09.4 (new): the mode an OverIter remembers equals the mode of its sources"),
("R5-C09",2,"db19/index","TestDemoR5C09_2$","backward iteration, index change, btree without key in [cur, End)","missed","out of reach: eof sentinel convention between Rewind and modPrev"),
("R5-C09",3,"db19/index","TestDemoR5C09_3$","skip-scan, buffer modified, all buffer keys below the current key","missed","out of reach: search postcondition of skipSeek"),
("R5-C16",1,"db19","TestDemoR5C16_1$","delete-only commits before shutdown","missed by C16 (C04.2 caught it)","C04.2"),
("R5-C16",2,"db19","TestDemoR5C16_2$","length-changing update as first write","missed by C16 (C03.5, C02.2 caught it)","C03.5 / C02.2"),
("R5-C21",1,"dbms/query","TestDemoR5C21_1","two foreign keys into one target key, rename of a column of one","missed","C21.8 (new): a store into an existing back link is guarded by its table and its own position/columns"),
("R5-C21",2,"dbms/query","TestDemoR5C21_2","cascade key, close and re-open","missed","C21.7 (new): every back link literal sets table, columns, position and mode"),
("R5-C21",3,"dbms/query","TestDemoR5C21_3","ensure repeating an existing foreign-key index plus something new","missed","C21.9 (new): Ensure hands createFkeys a list appended to only where FindIndex(…) == nil"),
("R6-C34",1,"core","TestDemoR6C34_1$","> 255 timestamps within a second in the second half of a second","caught","C34.5"),
("R6-C34",2,"core","TestDemoR6C34_2$","two client threads fetching a batch at once","missed","C34.6 (new): the server request is made while tsLock is held"),
("R6-C35",1,"core","TestDemoR6C35_1","rule that throws once","missed","C35.6 (new): the active-rule entry is popped by a deferred call"),
("R6-C35",2,"core","TestDemoR6C35_2","record with _deps, first operation is Delete/Erase","missed","C35.7 (new): ensureDeps() before r.row = nil"),
("R6-C35",3,"core","TestDemoR6C35_3","nested rules on two records with the same field name","missed","C35.8 (new): activeRules.has compares record and field"),
("R6-C40",1,"dbms/mux","TestDemoR6C40_1$","two client connections sharing the worker pool","missed","C40.6 (new): the worker binds its write buffer to the task's connection and session in every iteration"),
("R6-C40",2,"dbms","TestDemoR6C40_2$","table with a dropped column read through Query/Cursor + Get","missed","out of reach: which header form is sent is value-level"),
("R6-C40",3,"dbms","TestDemoR6C40_3$","same record updated twice using the returned offset","missed","C40.7 (new): handlers do not discard what the database operation returned"),
("R6-C41",1,"dbms","TestDemoR6C41_1$","Log request on an unauthenticated connection","caught","C41.1"),
("R6-C41",2,"dbms","TestDemoR6C41_2$","Exec/Run through the thread's dbms in a server process","caught","C41.2"),
("R6-C41",3,"dbms","TestDemoR6C41_3$","token used after one sweep","caught","C41.4"),
("R6-C43",1,"core","TestDemoR6C43_1","two simultaneous first copies of a shared object","caught","C43.3"),
("R6-C43",2,"core","TestDemoR6C43_2","Member? on a shared, lazily unpacked record from two threads","missed","C43.5 (new): a method holding only the read lock does not reach a writer of Header.cache"),
("R6-C43",3,"core","TestDemoR6C43_3","this-only block passed to Thread()","missed","C43.6 (new): SuClosure.SetConcurrent propagates to this before every exit"),
("R6-C44",1,"dbms/query","TestDemoR6C44_1","trigger defined after the table's first change, single-name Unload","missed","C44.5 (new): unload deletes the cached \"not defined\" on every path"),
("R6-C44",2,"dbms/query","TestDemoR6C44_2","child trigger throws during a cascade, caller catches and completes","missed","C44.4 (new): cascades run under recover→Abort→re-panic"),
]
conf = {}
for log in ("/tmp/seed/confirm.log", "/tmp/seed/confirm2.log", "/tmp/seed/confirm3.log", "/tmp/seed/confirm4.log", "/tmp/seed/confirm4a.log", "/tmp/seed/confirm4b.log", "/tmp/seed/confirm5.log", "/tmp/seed/confirm6.log", "/tmp/seed/confirm7a.log", "/tmp/seed/confirm7b.log", "/tmp/seed/confirm7c.log", "/tmp/seed/confirm8.log", "/tmp/seed/confirm9a.log", "/tmp/seed/confirm9b.log", "/tmp/seed/confirm10.log", "/tmp/seed/confirm11a.log", "/tmp/seed/confirm11b.log"):
    if not os.path.exists(log): continue
    cur = None
    for l in open(log):
        m = re.match(r"### ((?:R\d-)?C\d+)-(\d+)", l)
        if m: cur = (m.group(1), int(m.group(2))); continue
        if l.startswith("{") and cur:
            try: conf[cur] = json.loads(l)
            except Exception: pass
n = 0
for (pid, k, pkg, run, needs, first, by) in T:
    src = f"/tmp/seed/{pid}-out/{k}"
    c = conf.get((pid, k))
    if not os.path.isdir(src) or not c:
        print("skip (not confirmed yet)", pid, k); continue
    what = "tools/confirm_seed.sh in a scratch worktree of /repo HEAD: demo without the change, git apply, go build, demo with the change, stable baseline (829 tests) with the change"
    if c["baseline"] == "skipped":
        # time ran out for a third full baseline run per seed: the agent's own baseline log is the evidence
        agent = ""
        for bf in ("baseline.log", "baseline.txt"):
            bp = os.path.join(src, bf)
            if os.path.exists(bp) and "stable tests not passing: 0" in open(bp, errors="replace").read():
                agent = bf
        if not agent:
            print("NOT CONFIRMED (no baseline evidence)", pid, k); continue
        c = dict(c); c["baseline"] = "not re-run by me; the seeding agent's run (" + agent + " in this directory) shows 'stable tests not passing: 0'"
        what = "tools/confirm_seed.sh … nobaseline in a scratch worktree of /repo HEAD: demo without the change, git apply, go build, demo with the change"
        for bf in ("baseline.log", "baseline.txt"):
            if os.path.exists(os.path.join(src, bf)):
                os.makedirs(f"/verif/seeded/{pid}-{k}", exist_ok=True)
                shutil.copy(os.path.join(src, bf), f"/verif/seeded/{pid}-{k}/agent_{bf}")
    ok = c["demo_without_change_exit"] == 0 and c["patch_applies"] == 0 and c["build_exit"] == 0 and c["demo_with_change_exit"] != 0 and "not passing: 0" in c["baseline"]
    if not ok:
        print("NOT CONFIRMED", pid, k, c); continue
    dst = f"/verif/seeded/{pid}-{k}"
    os.makedirs(dst, exist_ok=True)
    for f in ("patch.diff", "demo_test.go", "notes.md"):
        if os.path.exists(os.path.join(src, f)): shutil.copy(os.path.join(src, f), os.path.join(dst, f if f != "demo_test.go" else "demo_test.go.txt"))
    meta = {
        "property": pid.split("-")[-1], "seed": k, "round": (pid.split("-")[0] if "-" in pid else "1-3"),
        "origin": "written by an independent sub-agent that was given only the property text and a scratch worktree",
        "needs_to_manifest": needs,
        "demo": {"package_dir": pkg, "command": f"go test -vet=off -count=1 -run '{run}' ./{pkg}/", "file": "demo_test.go.txt (copy into the package directory as *_test.go; packages core/builtin/dbms also need empty dbms/server.crt and dbms/server.key)"},
        "confirmed_by_me": {"what_i_ran": what, **c},
        "verdict_of_the_checks_when_first_run": first,
        "caught_by": by,
        "how_to_rerun_the_checks": f"tools/seedrun.sh seeded/{pid}-{k}/patch.diff {pid.split('-')[-1]}   (also kept as a seed-*.mut under gsv/mutants/{pid.split('-')[-1]}/)",
    }
    json.dump(meta, open(os.path.join(dst, "meta.json"), "w"), indent=1)
    n += 1
print(n, "seeded changes written")

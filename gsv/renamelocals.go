package main

// `gsv renamelocals`: rewrites (in place, in $GSV_REPO) every local variable, parameter,
// receiver and named result of the module to name+"_q7" - a behaviour-preserving edit that
// no rule may depend on.  Used by tools/robust.sh.

import (
	"fmt"
	"go/ast"
	"go/token"
	"go/types"
	"os"
	"sort"
)

func renameLocalsMain() int {
	p, err := Load(LoadOpts{Raw: true})
	if err != nil {
		fmt.Println(err)
		return 2
	}
	type edit struct{ off, n int }
	files := map[string][]edit{}
	add := func(id *ast.Ident) {
		if id.Name == "_" {
			return
		}
		pos := p.Fset.Position(id.Pos())
		files[pos.Filename] = append(files[pos.Filename], edit{pos.Offset, len(id.Name)})
	}
	for _, pk := range p.Pkgs {
		info := pk.TypesInfo
		isLocal := func(o types.Object) bool {
			v, ok := o.(*types.Var)
			if !ok || v.IsField() || v.Pkg() == nil {
				return false
			}
			return v.Parent() != v.Pkg().Scope() && v.Parent() != types.Universe
		}
		seen := map[token.Pos]bool{}
		for id, o := range info.Defs {
			if o != nil && isLocal(o) && !seen[id.Pos()] {
				seen[id.Pos()] = true
				add(id)
			}
		}
		for id, o := range info.Uses {
			if isLocal(o) && !seen[id.Pos()] {
				seen[id.Pos()] = true
				add(id)
			}
		}
		// the symbolic variable of a type switch has no object of its own
		for _, f := range pk.Syntax {
			ast.Inspect(f, func(n ast.Node) bool {
				if ts, ok := n.(*ast.TypeSwitchStmt); ok {
					if as, ok := ts.Assign.(*ast.AssignStmt); ok && len(as.Lhs) == 1 {
						if id, ok := as.Lhs[0].(*ast.Ident); ok && !seen[id.Pos()] {
							seen[id.Pos()] = true
							add(id)
						}
					}
				}
				return true
			})
		}
	}
	n := 0
	for fn, eds := range files {
		src, err := os.ReadFile(fn)
		if err != nil {
			continue
		}
		sort.Slice(eds, func(i, j int) bool { return eds[i].off > eds[j].off })
		for _, e := range eds {
			src = append(src[:e.off+e.n], append([]byte("_q7"), src[e.off+e.n:]...)...)
		}
		os.WriteFile(fn, src, 0o644)
		n++
	}
	fmt.Println("renamed locals in", n, "files")
	return 0
}

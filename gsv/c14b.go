package main

// C14.3 (added after seeded change C14-2): the zig-zag varint of the client-server
// protocol.  The loop-free prologue of the writer (zig-zag encode) and the loop-free
// epilogue of the reader (zig-zag decode) are extracted and their composition is folded
// (go/constant, 64-bit exact) on boundary values; the constants of the two varint loops
// (7 bits per byte, payload mask, continuation bit) must agree.

import (
	"fmt"
	"go/ast"
	"go/constant"
	"go/token"
	"go/types"
	"strings"
)

func checkZigZagVarint(c *Ctx, rule string) {
	p := c.P
	wfs := c.method(rule, "dbms/mux", "WriteBuf", "PutInt64")
	rfs := c.method(rule, "dbms/mux", "ReadBuf", "GetInt64")
	if wfs == nil || rfs == nil {
		return
	}
	split := func(fs *FuncSrc) (before []ast.Stmt, loop *ast.ForStmt, after []ast.Stmt) {
		for i, st := range fs.Body.List {
			if f, ok := st.(*ast.ForStmt); ok {
				return fs.Body.List[:i], f, fs.Body.List[i+1:]
			}
		}
		return nil, nil, nil
	}
	wpre, wloop, _ := split(wfs)
	_, rloop, rpost := split(rfs)
	if wloop == nil || rloop == nil {
		c.Missing(rule, "the varint loops of PutInt64 / GetInt64")
		return
	}
	winfo, rinfo := wfs.Info(), rfs.Info()
	// the uint64 variable the writer loop consumes / the reader loop produces
	loopVar := func(info *types.Info, loop *ast.ForStmt) types.Object {
		var v types.Object
		ast.Inspect(loop, func(n ast.Node) bool {
			if as, ok := n.(*ast.AssignStmt); ok && (as.Tok == token.SHR_ASSIGN || as.Tok == token.OR_ASSIGN) {
				if id := identOf(as.Lhs[0]); id != nil {
					if o := info.Uses[id]; o != nil && types.Identical(o.Type().Underlying(), types.Typ[types.Uint64]) {
						v = o
					}
				}
			}
			return true
		})
		return v
	}
	wn, rn := loopVar(winfo, wloop), loopVar(rinfo, rloop)
	param := wfs.Param(0)
	if wn == nil || rn == nil || param == nil {
		c.Missing(rule, "the accumulator variables of the varint loops")
		return
	}
	// constants of the loops
	consts := func(info *types.Info, loop *ast.ForStmt) (shift int64, masks []int64) {
		shift = -1
		ast.Inspect(loop, func(n ast.Node) bool {
			switch x := n.(type) {
			case *ast.AssignStmt:
				if x.Tok == token.SHR_ASSIGN || x.Tok == token.ADD_ASSIGN {
					if v := ConstVal(info, x.Rhs[0]); v != nil {
						shift, _ = constant.Int64Val(v)
					}
				}
			case *ast.BinaryExpr:
				if x.Op == token.AND || x.Op == token.OR || x.Op == token.GTR {
					for _, e := range []ast.Expr{x.X, x.Y} {
						if v := ConstVal(info, e); v != nil && v.Kind() == constant.Int {
							k, _ := constant.Int64Val(v)
							masks = append(masks, k)
						}
					}
				}
			}
			return true
		})
		return
	}
	wsh, wmasks := consts(winfo, wloop)
	rsh, rmasks := consts(rinfo, rloop)
	has := func(l []int64, v int64) bool {
		for _, x := range l {
			if x == v {
				return true
			}
		}
		return false
	}
	okc := wsh > 0 && wsh == rsh && has(wmasks, 1<<wsh) && has(wmasks, 1<<wsh-1) && has(rmasks, 1<<rsh) && has(rmasks, 1<<rsh-1)
	c.Obl(rule, "varint loops of PutInt64 and GetInt64 use the same bits per byte, payload mask and continuation bit", p.Pos(wloop), okc,
		fmt.Sprintf("writer: shift %d, constants %v; reader: shift %d, constants %v (want shift s, 2^s-1 and 2^s on both sides)", wsh, wmasks, rsh, rmasks))
	// composition on boundary values
	two62 := int64(1) << 62
	vals := []int64{0, 1, -1, 2, -2, 63, 64, -64, -65, 1<<31 - 1, -(1 << 31), two62 - 1, two62, two62 + 1, -two62, -two62 - 1, 1<<63 - 1, -1 << 63}
	var bad []string
	for _, v := range vals {
		wenv := &AbsEnv{Info: winfo, Locals: map[types.Object]constant.Value{param: constant.MakeInt64(v)}}
		if r, done := wenv.stmts(wpre); done || r.Unknown != "" {
			bad = append(bad, "the writer's prologue cannot be folded")
			break
		}
		z := wenv.Locals[wn]
		if z == nil {
			bad = append(bad, "the writer's prologue does not define the loop variable from the parameter")
			break
		}
		renv := &AbsEnv{Info: rinfo, Locals: map[types.Object]constant.Value{rn: z}}
		res, done := renv.stmts(rpost)
		if !done || len(res.Returns) != 1 || res.Returns[0] == nil {
			bad = append(bad, "the reader's epilogue cannot be folded")
			break
		}
		if !constant.Compare(res.Returns[0], token.EQL, constant.MakeInt64(v)) {
			bad = append(bad, fmt.Sprintf("%d is written as varint %s and read back as %s", v, hexc(z), res.Returns[0]))
		}
	}
	c.Stats["zigzag_values"] = len(vals)
	c.Obl(rule, "GetInt64(PutInt64(v)) == v for the boundary values of int64 (zig-zag prologue/epilogue folded)", p.Pos(rfs.Decl), len(bad) == 0, strings.Join(bad, "; "))
}

package main

// Rules added after the seeded changes C24-1 and C24-2 (DESIGN.md §8.2).

import (
	"go/ast"
	"go/token"
	"go/types"

	"golang.org/x/tools/go/cfg"
)

// checkActionIteration:
//
// C24.5 an action that UPDATES rows while it iterates obtains its iterator from
// SetupKey ("ensures a key index"): on a non-key index an update that moves the row
// forward in that index is met again by the same scan, updated twice and counted twice.
//
// C24.6 every row the iteration reads is either counted (and changed) or skipped by the
// "same record as the one just changed" guard; no other path ends an iteration.
func checkActionIteration(c *Ctx, rule5, rule6 string) {
	p := c.P
	utUpdate := p.DeclaredMethod("db19", "UpdateTran", "Update")
	utDelete := p.DeclaredMethod("db19", "UpdateTran", "Delete")
	utOutput := p.DeclaredMethod("db19", "UpdateTran", "Output")
	setupKey := p.Func("dbms/query", "SetupKey")
	qGet := p.IfaceMethod("dbms/query", "Query", "Get")
	if !c.need(rule5, "db19.UpdateTran.Update", utUpdate) || !c.need(rule5, "query.SetupKey", setupKey) || !c.need(rule5, "query.Query.Get", qGet) ||
		!c.need(rule6, "db19.UpdateTran.Delete", utDelete) || !c.need(rule6, "db19.UpdateTran.Output", utOutput) {
		return
	}
	n5, n6 := 0, 0
	for _, fs := range p.FuncsIn("dbms/query") {
		if fs.Body == nil || fs.Obj == nil || fs.Obj.Name() != "execute" {
			continue
		}
		sig := fs.Obj.Type().(*types.Signature)
		if sig.Recv() == nil || sig.Results().Len() != 1 {
			continue
		}
		info := fs.Info()
		defs := buildDefs(fs)
		// ---- C24.5
		if len(p.CallsIn(fs, utUpdate)) > 0 {
			for _, call := range p.CallsIn(fs, qGet) {
				sel, ok := call.Fun.(*ast.SelectorExpr)
				if !ok {
					continue
				}
				n5++
				fromKey := defs.Mentions(info, sel.X, func(m ast.Node) bool {
					cc, ok := m.(*ast.CallExpr)
					return ok && sameFunc(Callee(info, cc), setupKey)
				})
				c.Obl(rule5, fs.name+": rows to update are read through a key index (SetupKey)", p.Pos(call), fromKey,
					"the iterator of an updating action is not obtained from SetupKey: on a non-key index an update that moves the row forward in that index is read again by the same scan, updated and counted a second time")
			}
		}
		// ---- C24.6
		// variables holding the offset of the row just changed: assigned from Update's result or from the row's offset
		changedVar := map[types.Object]bool{}
		ForEachNode(fs, func(nd ast.Node) {
			as, ok := nd.(*ast.AssignStmt)
			if !ok || len(as.Lhs) != 1 || len(as.Rhs) != 1 || as.Tok == token.DEFINE {
				return
			}
			id := identOf(as.Lhs[0])
			if id == nil {
				return
			}
			if b, ok := info.TypeOf(as.Lhs[0]).Underlying().(*types.Basic); !ok || b.Kind() != types.Uint64 {
				return
			}
			changedVar[info.Uses[id]] = true
		})
		fl := &Flow{P: p,
			Node: func(s *FuncSrc, nd ast.Node) []string {
				switch x := nd.(type) {
				case *ast.IncDecStmt:
					if x.Tok == token.INC {
						return []string{"counted"}
					}
				case *ast.AssignStmt:
					if x.Tok == token.ADD_ASSIGN {
						return []string{"counted"}
					}
				}
				return nil
			},
			Edge: func(s *FuncSrc, cond ast.Expr, truth bool) []string {
				be, ok := cond.(*ast.BinaryExpr)
				if !ok || be.Op != token.EQL || !truth {
					return nil
				}
				for _, e := range []ast.Expr{be.X, be.Y} {
					if id := identOf(e); id != nil && changedVar[info.Uses[id]] {
						return []string{"@same-as-just-changed"}
					}
				}
				return nil
			},
			BlockEntry: func(s *FuncSrc, b *cfg.Block) []string {
				if b.Kind == cfg.KindForBody || b.Kind == cfg.KindRangeBody {
					return []string{"-counted", "-@same-as-just-changed"}
				}
				return nil
			}}
		res := fl.Analyze(fs)
		for _, le := range res.Loops {
			// only the row loop: its statement contains a Query.Get call in init/post or a row change in the body
			f, isFor := le.Loop.(*ast.ForStmt)
			if !isFor || f.Init == nil {
				continue
			}
			readsRows := false
			ast.Inspect(f.Init, func(m ast.Node) bool {
				if cc, ok := m.(*ast.CallExpr); ok && sameFunc(Callee(info, cc), qGet) {
					readsRows = true
				}
				return true
			})
			if !readsRows {
				continue
			}
			if le.Kind == "break" {
				c.Obl(rule6, fs.name+": the row loop is not left early", p.Pos(le.Loop), false, "break out of the row loop: remaining selected rows are not changed")
				continue
			}
			n6++
			c.Obl(rule6, fs.name+": every row read is counted, except the re-read of the row just changed", p.Pos(le.Loop),
				le.Before.Has("counted") || le.Before.Has("@same-as-just-changed"),
				"an iteration can end without counting the row and without being the 'same record again' guard: the statement reports fewer rows than the query selected (or leaves selected rows unchanged)")
		}
	}
	c.Floor(rule5, n5, 1, "row reads in updating actions")
	c.Floor(rule6, n6, 3, "row loops in query actions")
}

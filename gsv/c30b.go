package main

// C30.9 – C30.11: structural clauses of final-local propagation (compile/ast/propfold.go)
// and of the folding of `in` (folder.go).  Added after the fourth round of seeded changes.

import (
	"go/ast"
	"go/token"
	"go/types"
)

// checkPropFoldRestores (C30.9): the constants known for locals (fold.values) that were
// learnt inside one alternative are forgotten before the other alternative is visited:
// If.Then / If.Else, TryCatch.Try / TryCatch.Catch, Trinary.T / Trinary.F, and every
// iteration of the loop over Switch.Cases ends with `f.values = save`; so does every return.
func checkPropFoldRestores(c *Ctx, rule string) {
	p := c.P
	fs := c.method(rule, "compile/ast", "fold", "children")
	valuesF := p.Field("compile/ast", "fold", "values")
	childExpr := p.DeclaredMethod("compile/ast", "fold", "childExpr")
	childStmt := p.DeclaredMethod("compile/ast", "fold", "childStmt")
	casesF := p.Field("compile/ast", "Switch", "Cases")
	if fs == nil || !c.need(rule, "ast.fold.values", valuesF) || !c.need(rule, "ast.fold.childExpr", childExpr) || !c.need(rule, "ast.fold.childStmt", childStmt) || !c.need(rule, "ast.Switch.Cases", casesF) {
		return
	}
	info := fs.Info()
	alternatives := [][3]string{{"If", "Then", "Else"}, {"TryCatch", "Try", "Catch"}, {"Trinary", "T", "F"}}
	second := map[*types.Var]string{}
	for _, a := range alternatives {
		f1, f2 := p.Field("compile/ast", a[0], a[1]), p.Field("compile/ast", a[0], a[2])
		if !c.need(rule, "ast."+a[0]+"."+a[1], f1) || !c.need(rule, "ast."+a[0]+"."+a[2], f2) {
			return
		}
		second[f2] = a[0] + "." + a[2] + " after " + a[0] + "." + a[1]
	}
	// a local that holds a copy of f.values
	isSave := func(e ast.Expr) bool {
		id := identOf(e)
		if id == nil {
			return false
		}
		for _, d := range buildDefs(fs).defs[info.ObjectOf(id)] {
			if FieldOf(info, d) != valuesF {
				return false
			}
		}
		return len(buildDefs(fs).defs[info.ObjectOf(id)]) > 0
	}
	visitField := func(call *ast.CallExpr) *types.Var {
		if len(call.Args) != 1 {
			return nil
		}
		u, ok := ast.Unparen(call.Args[0]).(*ast.UnaryExpr)
		if !ok || u.Op != token.AND {
			return nil
		}
		x := ast.Unparen(u.X)
		if ix, ok := x.(*ast.IndexExpr); ok {
			x = ix.X
		}
		return FieldOf(info, x)
	}
	node := func(_ *FuncSrc, nd ast.Node) []string {
		switch x := nd.(type) {
		case *ast.AssignStmt:
			if len(x.Lhs) == 1 && len(x.Rhs) == 1 && lhsField(info, x.Lhs[0], false) == valuesF {
				if isSave(x.Rhs[0]) {
					return []string{"restored"}
				}
				return []string{"-restored"}
			}
		case *ast.CallExpr:
			cal := Callee(info, x)
			if sameFunc(cal, childExpr) || sameFunc(cal, childStmt) {
				out := []string{"visit", "-restored"}
				if f := visitField(x); f != nil {
					if _, ok := second[f]; ok {
						out = append(out, "second")
					}
				}
				return out
			}
		}
		return nil
	}
	fl := &Flow{P: p, Node: node}
	res := fl.Analyze(fs)
	n := 0
	for _, s := range res.Of("second") {
		call := s.Node.(*ast.CallExpr)
		what := second[visitField(call)]
		n++
		c.Obl(rule, "propfold: values learnt in the first alternative are forgotten before "+what, p.Pos(s.Node), s.Before.Has("restored"),
			"the second alternative is folded with constants assigned in the first one: a local assigned in only one branch is replaced by that constant in the other")
	}
	c.Floor(rule, n, 3, "second alternatives visited by fold.children")
	// the loop over Switch.Cases
	nl := 0
	for _, le := range res.Loops {
		r, ok := le.Loop.(*ast.RangeStmt)
		if !ok || FieldOf(info, r.X) != casesF || le.Kind != "back" {
			continue
		}
		nl++
		c.Obl(rule, "propfold: every case of a switch starts from the values known before the switch", p.Pos(le.Loop), le.Before.Has("restored"),
			"an iteration of the loop over Switch.Cases ends without `f.values = save`: a constant assigned in one case is propagated into the following cases")
	}
	c.Floor(rule, nl, 1, "back edges of the loop over Switch.Cases")
	nr := 0
	for _, r := range res.Returns {
		if !r.Before.Has("visit") {
			continue
		}
		nr++
		c.Obl(rule, "propfold: a construct whose parts are conditionally executed leaves the known values as they were", p.Pos(r.Node), r.Before.Has("restored"),
			"children() returns after visiting conditionally executed parts without restoring f.values")
	}
	c.Floor(rule, nr, 8, "returns of fold.children after child visits")
}

// checkShortCircuitFlag (C30.10): in the and/or cases of fold.children the flag that replaces
// the remaining operands by a constant is updated inside the operand loop from the operand
// before the current one (any operand can be the constant that ends evaluation, not only the first).
func checkShortCircuitFlag(c *Ctx, rule string) {
	p := c.P
	fs := c.method(rule, "compile/ast", "fold", "children")
	exprsF := p.Field("compile/ast", "Nary", "Exprs")
	if fs == nil || !c.need(rule, "ast.Nary.Exprs", exprsF) {
		return
	}
	info := fs.Info()
	defs := buildDefs(fs)
	n := 0
	ast.Inspect(fs.Body, func(nd ast.Node) bool {
		loop, ok := nd.(*ast.ForStmt)
		if !ok || loop.Init == nil {
			return true
		}
		as, ok := loop.Init.(*ast.AssignStmt)
		if !ok || len(as.Lhs) != 1 {
			return true
		}
		lv := info.ObjectOf(identOf(as.Lhs[0]))
		// the loop replaces operands: a store node.Exprs[i] = <const> guarded by a boolean local
		var flag types.Object
		ast.Inspect(loop.Body, func(m ast.Node) bool {
			ifs, ok := m.(*ast.IfStmt)
			if !ok {
				return true
			}
			cond := ast.Unparen(ifs.Cond)
			if u, ok := cond.(*ast.UnaryExpr); ok && u.Op == token.NOT {
				cond = ast.Unparen(u.X)
			}
			id := identOf(cond)
			if id == nil {
				return true
			}
			branches := []ast.Stmt{ifs.Body}
			if ifs.Else != nil {
				branches = append(branches, ifs.Else)
			}
			for _, br := range branches {
				blk, ok := br.(*ast.BlockStmt)
				if !ok {
					continue
				}
				for _, st := range blk.List {
					if a2, ok := st.(*ast.AssignStmt); ok && len(a2.Lhs) == 1 {
						if ix, ok := ast.Unparen(a2.Lhs[0]).(*ast.IndexExpr); ok && FieldOf(info, ix.X) == exprsF {
							flag = info.ObjectOf(id)
						}
					}
				}
			}
			return true
		})
		if flag == nil {
			return true
		}
		n++
		// inside the loop: a store to the flag whose guard mentions Exprs[<expression of the loop variable>]
		updated := false
		ast.Inspect(loop.Body, func(m ast.Node) bool {
			ifs, ok := m.(*ast.IfStmt)
			if !ok {
				return true
			}
			sets := false
			for _, st := range ifs.Body.List {
				if a2, ok := st.(*ast.AssignStmt); ok && len(a2.Lhs) == 1 {
					if id := identOf(a2.Lhs[0]); id != nil && info.ObjectOf(id) == flag {
						sets = true
					}
				}
			}
			if !sets {
				return true
			}
			isPrevOperand := func(k ast.Node) bool {
				ix, ok := k.(*ast.IndexExpr)
				if !ok || FieldOf(info, ix.X) != exprsF {
					return false
				}
				return defs.Mentions(info, ix.Index, func(q ast.Node) bool {
					id, ok := q.(*ast.Ident)
					return ok && info.ObjectOf(id) == lv
				})
			}
			mentions := func(e ast.Node) bool {
				found := false
				ast.Inspect(e, func(k ast.Node) bool {
					if x, ok := k.(ast.Expr); ok && !found && defs.Mentions(info, x, isPrevOperand) {
						found = true
					}
					return !found
				})
				return found
			}
			if (ifs.Init != nil && mentions(ifs.Init)) || mentions(ifs.Cond) {
				updated = true
			}
			return true
		})
		c.Obl(rule, "propfold and/or: the short-circuit flag is updated from the operand before the current one", p.Pos(loop), updated,
			"the flag that replaces the remaining operands is not recomputed per operand: a constant false/true in the middle of the list no longer protects the operands after it from being folded (compile-time errors for code that never runs)")
		return true
	})
	c.Floor(rule, n, 2, "operand loops of and/or in fold.children")
}

// checkFoldInStopsAtNonConstant (C30.11): Folder.foldIn decides `x in (…)` at compile time
// only from constants: in the loop over the members, going on to the next member (and so
// possibly answering false) happens only on the edge where the member is a Constant.
func checkFoldInStopsAtNonConstant(c *Ctx, rule string) {
	p := c.P
	fs := c.method(rule, "compile/ast", "Folder", "foldIn")
	exprsF := p.Field("compile/ast", "In", "Exprs")
	constT := p.NamedType("compile/ast", "Constant")
	if fs == nil || !c.need(rule, "ast.In.Exprs", exprsF) || !c.need(rule, "ast.Constant", constT) {
		return
	}
	info := fs.Info()
	// ok variables of `c2, ok := e.(*Constant)` where e is the range value
	okVars := map[types.Object]bool{}
	ast.Inspect(fs.Body, func(nd ast.Node) bool {
		as, ok := nd.(*ast.AssignStmt)
		if !ok || len(as.Lhs) != 2 || len(as.Rhs) != 1 {
			return true
		}
		ta, ok := ast.Unparen(as.Rhs[0]).(*ast.TypeAssertExpr)
		if !ok || ta.Type == nil {
			return true
		}
		if n := c17NamedOf(info.TypeOf(ta.Type)); n == nil || n != constT {
			return true
		}
		if id := identOf(as.Lhs[1]); id != nil {
			okVars[info.ObjectOf(id)] = true
		}
		return true
	})
	edge := func(_ *FuncSrc, cond ast.Expr, truth bool) []string {
		if id := identOf(cond); id != nil && okVars[info.ObjectOf(id)] && truth {
			return []string{"@member-is-constant"}
		}
		return nil
	}
	// the fact must be per member: killed when the next member is taken
	fl := &Flow{P: p, Node: func(_ *FuncSrc, nd ast.Node) []string {
		if as, ok := nd.(*ast.AssignStmt); ok && len(as.Lhs) == 2 {
			if id := identOf(as.Lhs[1]); id != nil && okVars[info.ObjectOf(id)] {
				return []string{"-@member-is-constant"}
			}
		}
		return nil
	}, Edge: edge}
	res := fl.Analyze(fs)
	n := 0
	for _, le := range res.Loops {
		r, ok := le.Loop.(*ast.RangeStmt)
		if !ok || FieldOf(info, r.X) != exprsF || le.Kind != "back" {
			continue
		}
		n++
		c.Obl(rule, "foldIn goes on to the next member only past a constant member", p.Pos(le.Loop), le.Before.Has("@member-is-constant"),
			"a member that is not a constant is skipped: `5 in (1, y)` is folded to false although y may be 5 at run time")
	}
	c.Floor(rule, n, 1, "back edges of the member loop in foldIn")
}

// checkPropFoldCoversLoops (C30.12): every statement type of compile/ast that has a loop body
// (a field `Body Statement`) has its own case in fold.children — otherwise its body is visited
// by the generic recursion, which keeps the constants assigned inside the body although the
// assignment may be skipped (break / continue before it).
func checkPropFoldCoversLoops(c *Ctx, rule string) {
	p := c.P
	fs := c.method(rule, "compile/ast", "fold", "children")
	stmtT := p.NamedType("compile/ast", "Statement")
	if fs == nil || !c.need(rule, "ast.Statement", stmtT) {
		return
	}
	info := fs.Info()
	handled := map[*types.Named]bool{}
	ast.Inspect(fs.Body, func(nd ast.Node) bool {
		if cc, ok := nd.(*ast.CaseClause); ok {
			for _, e := range cc.List {
				if t := info.TypeOf(e); t != nil {
					if n := c17NamedOf(t); n != nil {
						handled[n] = true
					}
				}
			}
		}
		return true
	})
	scope := p.Pkg("compile/ast").Types.Scope()
	n := 0
	for _, nm := range scope.Names() {
		tn, ok := scope.Lookup(nm).(*types.TypeName)
		if !ok {
			continue
		}
		named, ok := tn.Type().(*types.Named)
		if !ok {
			continue
		}
		st, ok := named.Underlying().(*types.Struct)
		if !ok {
			continue
		}
		hasBody := false
		for i := 0; i < st.NumFields(); i++ {
			if f := st.Field(i); f.Name() == "Body" && types.Identical(f.Type(), stmtT) {
				hasBody = true
			}
		}
		if !hasBody || !types.Implements(types.NewPointer(named), stmtT.Underlying().(*types.Interface)) {
			continue
		}
		n++
		c.Obl(rule, "fold.children treats the body of ast."+nm+" as conditionally executed", p.Pos(fs.Decl), handled[named],
			"ast."+nm+" has no case in fold.children: constants assigned to a final local inside its body are propagated past the loop even when the assignment was skipped (break/continue before it)")
	}
	c.Floor(rule, n, 4, "loop statement types of compile/ast")
}

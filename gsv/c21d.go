package main

// Rules on the maintenance of foreign-key links (db19/meta/meta.go, db19/tran.go), added after
// the fifth round of seeded changes.  Registered under C21 and C08.

import (
	"fmt"
	"go/ast"
	"go/token"
	"go/types"
	"strings"

	"golang.org/x/tools/go/cfg"
)

// checkBackLinkLiteralsComplete: every Fkey value put into an index's FkToHere list names the
// referencing table, its columns, its index position and its mode (the mode decides between
// blocking and cascading; a link rebuilt without it blocks where the schema says cascade).
func checkBackLinkLiteralsComplete(c *Ctx, rule string) {
	p := c.P
	fkT := p.NamedType("db19/meta/schema", "Fkey")
	toHere := p.Field("db19/meta/schema", "Index", "FkToHere")
	if !c.need(rule, "schema.Fkey", fkT) || !c.need(rule, "schema.Index.FkToHere", toHere) {
		return
	}
	st := fkT.Underlying().(*types.Struct)
	n := 0
	for _, fs := range p.FuncsIn("db19/meta") {
		if fs.Body == nil {
			continue
		}
		info := fs.Info()
		ast.Inspect(fs.Body, func(nd ast.Node) bool {
			as, ok := nd.(*ast.AssignStmt)
			if !ok || len(as.Lhs) != 1 || len(as.Rhs) != 1 || lhsField(info, as.Lhs[0], false) != toHere {
				return true
			}
			ast.Inspect(as.Rhs[0], func(m ast.Node) bool {
				cl, ok := m.(*ast.CompositeLit)
				if !ok {
					return true
				}
				if t := info.TypeOf(cl); t == nil || c17NamedOf(t) != fkT {
					return true
				}
				n++
				set := map[string]bool{}
				for _, el := range cl.Elts {
					if kv, ok := el.(*ast.KeyValueExpr); ok {
						if id := identOf(kv.Key); id != nil {
							set[id.Name] = true
						}
					}
				}
				var missing []string
				for i := 0; i < st.NumFields(); i++ {
					if !set[st.Field(i).Name()] {
						missing = append(missing, st.Field(i).Name())
					}
				}
				if len(cl.Elts) > 0 {
					if _, keyed := cl.Elts[0].(*ast.KeyValueExpr); !keyed && len(cl.Elts) == st.NumFields() {
						missing = nil
					}
				}
				c.Obl(rule, fs.name+": a back link is recorded with table, columns, position and mode", p.Pos(cl), len(missing) == 0,
					"the Fkey put into FkToHere leaves "+strings.Join(missing, ", ")+" at its zero value: the two directions of the link disagree (a cascade key behaves as a blocking key, or the link points at index 0)")
				return true
			})
			return true
		})
	}
	c.Floor(rule, n, 2, "back links recorded in db19/meta")
}

// checkBackLinkStoresIdentified: a store into an existing back link (an element of some index's
// FkToHere) is made only to the link that belongs to the referencing index in question: the
// guard compares the link's Table AND the link's own IIndex or Columns.  (Two foreign keys from
// one table to the same key are told apart only by those.)
func checkBackLinkStoresIdentified(c *Ctx, rule string) {
	p := c.P
	fkT := p.NamedType("db19/meta/schema", "Fkey")
	toHere := p.Field("db19/meta/schema", "Index", "FkToHere")
	tableF := p.Field("db19/meta/schema", "Fkey", "Table")
	iindexF := p.Field("db19/meta/schema", "Fkey", "IIndex")
	colsF := p.Field("db19/meta/schema", "Fkey", "Columns")
	if !c.need(rule, "schema.Fkey", fkT) || !c.need(rule, "schema.Index.FkToHere", toHere) || !c.need(rule, "schema.Fkey.Table", tableF) ||
		!c.need(rule, "schema.Fkey.IIndex", iindexF) || !c.need(rule, "schema.Fkey.Columns", colsF) {
		return
	}
	n := 0
	for _, fs := range p.FuncsIn("db19/meta") {
		if fs.Body == nil {
			continue
		}
		info := fs.Info()
		defs := buildDefs(fs)
		// is e (an expression of type Fkey / *Fkey) an element of an FkToHere list?
		directElem := func(e ast.Expr) bool {
			e = ast.Unparen(e)
			if u, ok := e.(*ast.UnaryExpr); ok && u.Op == token.AND {
				e = ast.Unparen(u.X)
			}
			ix, ok := e.(*ast.IndexExpr)
			return ok && FieldOf(info, ix.X) == toHere
		}
		isLinkElem := func(e ast.Expr) bool {
			if directElem(e) {
				return true
			}
			id := identOf(e)
			if id == nil {
				return false
			}
			ds := defs.defs[info.ObjectOf(id)]
			for _, d := range ds {
				if !directElem(d) {
					return false
				}
			}
			return len(ds) > 0
		}
		var stores []*ast.AssignStmt
		ast.Inspect(fs.Body, func(nd ast.Node) bool {
			as, ok := nd.(*ast.AssignStmt)
			if !ok {
				return true
			}
			for _, l := range as.Lhs {
				sel, ok := ast.Unparen(l).(*ast.SelectorExpr)
				if !ok {
					continue
				}
				f := FieldOf(info, sel)
				if f != tableF && f != iindexF && f != colsF {
					continue
				}
				if id := identOf(sel.X); id != nil {
					// through a pointer variable: must point into a FkToHere list
					if _, isPtr := info.TypeOf(id).(*types.Pointer); !isPtr || !isLinkElem(id) {
						continue
					}
				} else if !isLinkElem(sel.X) {
					continue
				}
				stores = append(stores, as)
			}
			return true
		})
		if len(stores) == 0 {
			continue
		}
		site := map[ast.Node]bool{}
		for _, s := range stores {
			site[s] = true
		}
		fl := &Flow{P: p, Node: func(_ *FuncSrc, nd ast.Node) []string {
			if site[nd] {
				return []string{"linkstore"}
			}
			return nil
		}, Edge: func(s *FuncSrc, cond ast.Expr, truth bool) []string { return []string{condLabel(cond, truth)} }}
		res := fl.Analyze(fs)
		for _, s := range res.Of("linkstore") {
			as := s.Node.(*ast.AssignStmt)
			var elem ast.Expr
			for _, l := range as.Lhs {
				if sel, ok := ast.Unparen(l).(*ast.SelectorExpr); ok {
					elem = sel.X
				}
			}
			sameElem := func(e ast.Expr) bool {
				sel, ok := ast.Unparen(e).(*ast.SelectorExpr)
				if !ok {
					return false
				}
				a, b := identOf(sel.X), identOf(elem)
				if a != nil && b != nil {
					return info.ObjectOf(a) == info.ObjectOf(b)
				}
				return exprStr(sel.X) == exprStr(elem)
			}
			hasTable, hasOwn := false, false
			for _, f := range condFactsOf(s.Before, nil) {
				if !f.Truth {
					continue
				}
				ast.Inspect(f.Expr, func(nd ast.Node) bool {
					e, ok := nd.(ast.Expr)
					if !ok || !sameElem(e) {
						return true
					}
					switch FieldOf(info, e) {
					case tableF:
						hasTable = true
					case iindexF, colsF:
						hasOwn = true
					}
					return true
				})
			}
			n++
			what := []string{}
			if !hasTable {
				what = append(what, "its Table")
			}
			if !hasOwn {
				what = append(what, "its own IIndex or Columns")
			}
			c.Obl(rule, fs.name+": an existing back link is changed only after it was identified by table and by its own index", p.Pos(as), hasTable && hasOwn,
				"the store is not guarded by a comparison of "+strings.Join(what, " and ")+" of the link being changed: with two foreign keys from one table to the same key, both back links are overwritten with the values of one")
		}
	}
	c.Floor(rule, n, 2, "stores into existing back links")
}

// checkEnsureLinksOnlyNewIndexes: Meta.Ensure hands createFkeys only the indexes the table did
// not have yet (createFkeys appends a back link per index it is given).
func checkEnsureLinksOnlyNewIndexes(c *Ctx, rule string) {
	p := c.P
	fs := c.method(rule, "db19/meta", "Meta", "Ensure")
	create := p.DeclaredMethod("db19/meta", "Meta", "createFkeys")
	find := p.DeclaredMethod("db19/meta/schema", "Schema", "FindIndex")
	idxF := p.Field("db19/meta/schema", "Schema", "Indexes")
	if fs == nil || !c.need(rule, "meta.Meta.createFkeys", create) || !c.need(rule, "schema.Schema.FindIndex", find) || !c.need(rule, "schema.Schema.Indexes", idxF) {
		return
	}
	info := fs.Info()
	defs := buildDefs(fs)
	calls := p.CallsIn(fs, create)
	c.Floor(rule, len(calls), 1, "calls of createFkeys in Meta.Ensure")
	for _, call := range calls {
		if len(call.Args) < 3 {
			continue
		}
		// the Indexes of the schema handed over
		var idxExpr ast.Expr
		arg := ast.Unparen(call.Args[2])
		var lits []*ast.CompositeLit
		collect := func(e ast.Expr) {
			ast.Inspect(e, func(nd ast.Node) bool {
				if cl, ok := nd.(*ast.CompositeLit); ok {
					lits = append(lits, cl)
				}
				return true
			})
		}
		if id := identOf(arg); id != nil {
			for _, d := range defs.defs[info.ObjectOf(id)] {
				collect(d)
			}
		} else {
			collect(arg)
		}
		for _, cl := range lits {
			for _, el := range cl.Elts {
				if kv, ok := el.(*ast.KeyValueExpr); ok {
					if id := identOf(kv.Key); id != nil && info.Uses[id] == types.Object(idxF) {
						idxExpr = kv.Value
					}
				}
			}
		}
		ok, why := false, "the third argument is not a schema literal built in Ensure (the whole request is passed on)"
		if id := identOf(idxExpr); id != nil {
			v := info.ObjectOf(id)
			// every append to v happens on the edge where FindIndex returned nil
			fl := &Flow{P: p, Node: func(_ *FuncSrc, nd ast.Node) []string {
				as, isAs := nd.(*ast.AssignStmt)
				if !isAs || len(as.Lhs) != 1 || len(as.Rhs) != 1 {
					return nil
				}
				if l := identOf(as.Lhs[0]); l == nil || info.ObjectOf(l) != v {
					return nil
				}
				if ap, isCall := ast.Unparen(as.Rhs[0]).(*ast.CallExpr); isCall && IsBuiltin(info, ap, "append") {
					return []string{"append"}
				}
				if isNilIdent(info, as.Rhs[0]) {
					return nil // emptied
				}
				return []string{"other-def"}
			}, Edge: func(_ *FuncSrc, cond ast.Expr, truth bool) []string {
				be, isB := ast.Unparen(cond).(*ast.BinaryExpr)
				if !isB || (be.Op != token.EQL && be.Op != token.NEQ) {
					return nil
				}
				for _, pr := range [][2]ast.Expr{{be.X, be.Y}, {be.Y, be.X}} {
					if call, isCall := ast.Unparen(pr[0]).(*ast.CallExpr); isCall && sameFunc(Callee(info, call), find) && isNilIdent(info, pr[1]) {
						if (be.Op == token.EQL) == truth {
							return []string{"@not-found"}
						}
					}
				}
				return nil
			}, BlockEntry: func(_ *FuncSrc, b *cfg.Block) []string {
				if b.Kind == cfg.KindRangeBody || b.Kind == cfg.KindForBody {
					return []string{"-@not-found"}
				}
				return nil
			}}
			res := fl.Analyze(fs)
			apps := res.Of("append")
			ok, why = len(apps) > 0 && len(res.Of("other-def")) == 0, "the index list handed over is not built by appending"
			for _, s := range apps {
				if !s.Before.Has("@not-found") {
					ok, why = false, fmt.Sprintf("an index is added to the list at %s without FindIndex(...) == nil", p.Pos(s.Node))
				}
			}
		} else if idxExpr != nil {
			why = "the Indexes handed over are not a local list"
		}
		c.Obl(rule, "Meta.Ensure creates foreign-key links only for the indexes the table did not have", p.Pos(call), ok,
			why+": an ensure that repeats an existing foreign-key index appends a second identical back link to the target")
	}
}

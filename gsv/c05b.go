package main

// C05.8: the consistency check that decides whether a database is usable after a crash
// (checkTable2 / checkFirstIndex / CheckOtherIndex) lets every quantity it computes decide:
// the row count and byte size of the first index are compared with the table's Info, the
// count and offset checksum of every other index with those of the first, each mismatch
// panics (= reports corruption), and no index is skipped except the first and after an
// error was already recorded.

import (
	"go/ast"
	"go/token"
	"go/types"
)

// mismatchPanics: in fs there is `if a != b { … panic(…) }` (panic as a top-level statement of
// the body, not followed by anything) where one side is the variable v and the other
// satisfies other().
func mismatchPanics(fs *FuncSrc, v types.Object, other func(ast.Expr) bool) bool {
	info := fs.Info()
	found := false
	ast.Inspect(fs.Body, func(nd ast.Node) bool {
		ifs, ok := nd.(*ast.IfStmt)
		if !ok || found {
			return true
		}
		be, ok := ast.Unparen(ifs.Cond).(*ast.BinaryExpr)
		if !ok || be.Op != token.NEQ || len(ifs.Body.List) == 0 {
			return true
		}
		last, ok := ifs.Body.List[len(ifs.Body.List)-1].(*ast.ExprStmt)
		if !ok {
			return true
		}
		call, ok := last.X.(*ast.CallExpr)
		if !ok || !IsBuiltin(info, call, "panic") {
			return true
		}
		for _, pr := range [][2]ast.Expr{{be.X, be.Y}, {be.Y, be.X}} {
			if id := identOf(pr[0]); id != nil && info.ObjectOf(id) == v && other(pr[1]) {
				found = true
			}
		}
		return true
	})
	return found
}

func checkCheckerUsesItsQuantities(c *Ctx, rule string) {
	p := c.P
	t2 := c.function(rule, "db19", "checkTable2")
	first := c.function(rule, "db19", "checkFirstIndex")
	otherF := c.function(rule, "db19", "CheckOtherIndex")
	nrowsF := p.Field("db19/meta", "Info", "Nrows")
	sizeF := p.Field("db19/meta", "Info", "Size")
	indexesF := p.Field("db19/meta/schema", "Schema", "Indexes")
	if t2 == nil || first == nil || otherF == nil || !c.need(rule, "meta.Info.Nrows", nrowsF) || !c.need(rule, "meta.Info.Size", sizeF) || !c.need(rule, "schema.Schema.Indexes", indexesF) {
		return
	}
	info := t2.Info()
	// nrows, size, sum := checkFirstIndex(...)
	var res [3]types.Object
	ast.Inspect(t2.Body, func(nd ast.Node) bool {
		as, ok := nd.(*ast.AssignStmt)
		if !ok || len(as.Lhs) != 3 || len(as.Rhs) != 1 {
			return true
		}
		call, ok := ast.Unparen(as.Rhs[0]).(*ast.CallExpr)
		if !ok || !sameFunc(Callee(info, call), first.Obj) {
			return true
		}
		for i := range res {
			if id := identOf(as.Lhs[i]); id != nil && id.Name != "_" {
				res[i] = info.ObjectOf(id)
			}
		}
		return true
	})
	pos := p.Pos(t2.Decl)
	c.Obl(rule, "checkTable2 keeps the row count, byte size and offset checksum of the first index", pos, res[0] != nil && res[1] != nil && res[2] != nil,
		"a result of checkFirstIndex is discarded: that quantity no longer takes part in the verdict")
	if res[0] == nil || res[1] == nil || res[2] == nil {
		return
	}
	isField := func(f *types.Var) func(ast.Expr) bool {
		return func(e ast.Expr) bool { return FieldOf(info, e) == f }
	}
	c.Obl(rule, "a row count that differs from Info.Nrows is reported as corruption", pos, mismatchPanics(t2, res[0], isField(nrowsF)),
		"no `count != info.Nrows → panic` in checkTable2: lost or duplicated rows after recovery pass the check")
	c.Obl(rule, "a byte size that differs from Info.Size is reported as corruption", pos, mismatchPanics(t2, res[1], isField(sizeF)),
		"no `size != info.Size → panic` in checkTable2")
	// the call of CheckOtherIndex passes count and checksum; its parameters decide there
	calls := p.CallsIn(t2, otherF.Obj)
	c.Floor(rule, len(calls), 1, "calls of CheckOtherIndex in checkTable2")
	osig := otherF.Obj.Type().(*types.Signature)
	oinfo := otherF.Info()
	// results of ov.CheckBtree and the local checksum in CheckOtherIndex
	for _, call := range calls {
		var pn, ps *types.Var
		for i, a := range call.Args {
			if id := identOf(a); id != nil && i < osig.Params().Len() {
				switch info.ObjectOf(id) {
				case res[0]:
					pn = osig.Params().At(i)
				case res[2]:
					ps = osig.Params().At(i)
				}
			}
		}
		c.Obl(rule, "every other index is checked against the first index's row count and offset checksum", p.Pos(call), pn != nil && ps != nil,
			"the count or the checksum of the first index is not handed to CheckOtherIndex")
		if pn == nil || ps == nil {
			continue
		}
		anyLocal := func(e ast.Expr) bool {
			id := identOf(e)
			if id == nil {
				return false
			}
			v, ok := oinfo.ObjectOf(id).(*types.Var)
			return ok && !v.IsField() && v != pn && v != ps
		}
		c.Obl(rule, "an index whose entry count differs from the first index's is reported", p.Pos(otherF.Decl), mismatchPanics(otherF, pn, anyLocal),
			"CheckOtherIndex does not compare its count with the expected one: an index that lost entries passes")
		c.Obl(rule, "an index whose offsets differ from the first index's is reported", p.Pos(otherF.Decl), mismatchPanics(otherF, ps, anyLocal),
			"CheckOtherIndex does not compare its offset checksum: an index pointing at other records passes")
	}
	// loop over all indexes: the only `continue` is for the first index, the only `break` after an error
	var loop *ast.RangeStmt
	ast.Inspect(t2.Body, func(nd ast.Node) bool {
		if r, ok := nd.(*ast.RangeStmt); ok && FieldOf(info, r.X) == indexesF {
			for _, call := range calls {
				if call.Pos() >= r.Body.Pos() && call.End() <= r.Body.End() {
					loop = r
				}
			}
		}
		return true
	})
	if loop == nil {
		c.Missing(rule, "checkTable2: loop over the table's indexes around CheckOtherIndex")
		return
	}
	fl := &Flow{P: p, Node: Labeler(CallOf("other", otherF.Obj)), Edge: func(s *FuncSrc, cond ast.Expr, truth bool) []string { return []string{condLabel(cond, truth)} }}
	resf := fl.Analyze(t2)
	kv := info.ObjectOf(identOf(loop.Key))
	for _, s := range resf.Of("other") {
		bad := ""
		for _, f := range condFactsOf(s.Before, loop) {
			ok := false
			if be, isB := ast.Unparen(f.Expr).(*ast.BinaryExpr); isB && (be.Op == token.EQL || be.Op == token.NEQ) {
				// i == ifirst
				for _, pr := range [][2]ast.Expr{{be.X, be.Y}, {be.Y, be.X}} {
					if id := identOf(pr[0]); id != nil && info.ObjectOf(id) == kv && identOf(pr[1]) != nil {
						ok = true
					}
				}
				// tcs.err.Load() != nil
				if call, isC := ast.Unparen(be.X).(*ast.CallExpr); isC {
					if sel, isS := call.Fun.(*ast.SelectorExpr); isS && sel.Sel.Name == "Load" && isNilIdent(info, be.Y) {
						ok = true
					}
				}
			}
			if !ok {
				bad = f.String()
			}
		}
		c.Obl(rule, "no index is skipped except the first one and after an error was recorded", p.Pos(s.Node), bad == "",
			"CheckOtherIndex is guarded by "+bad+": some indexes are never compared with the data")
	}
}

package main

import (
	"go/ast"
	"go/token"
	"go/types"
)

// checkCreatedMark is rule C15.8.
//
// meta.Schema.created / meta.Info.created license Meta.Drop to remove the entry with a plain
// Delete instead of storing a tombstone ("not persisted so no need for tombstone").  That is only
// right when no older chunk of the persisted chain holds an entry for the key: a tombstone that
// is itself present in the map is such an entry's cover, and deleting it uncovers the entry when
// the chain is read back.  So the mark may be stored only on the edge where the lookup of the
// key in the same map answered "absent" (second result false) — on every path, not as one
// alternative of a disjunction.
func checkCreatedMark(c *Ctx, rule string) {
	p := c.P
	getFn := p.DeclaredMethod("util/hamt", "Hamt", "Get")
	sCreated := p.Field("db19/meta", "Schema", "created")
	iCreated := p.Field("db19/meta", "Info", "created")
	if !c.need(rule, "hamt.Hamt.Get", getFn) || !c.need(rule, "meta.Schema.created", sCreated) || !c.need(rule, "meta.Info.created", iCreated) {
		return
	}
	n := 0
	for _, fs := range p.FuncsIn("db19/meta") {
		store := StoreTo("created=", false, sCreated, iCreated)
		has := false
		ForEachNode(fs, func(nd ast.Node) {
			if store.Match(fs, nd) {
				has = true
			}
		})
		if !has {
			continue
		}
		defs := buildDefs(fs)
		fl := &Flow{P: p, Node: Labeler(store),
			Edge: func(f *FuncSrc, cond ast.Expr, truth bool) []string {
				e := ast.Unparen(cond)
				if u, ok := e.(*ast.UnaryExpr); ok && u.Op == token.NOT {
					e, truth = ast.Unparen(u.X), !truth
				}
				id, ok := e.(*ast.Ident)
				if !ok || truth {
					return nil
				}
				if b, isB := f.Info().TypeOf(id).Underlying().(*types.Basic); !isB || b.Kind() != types.Bool {
					return nil
				}
				if defs.MentionsEv(f, id, CallOf("", getFn)) {
					return []string{"@absent"}
				}
				return nil
			}}
		res := fl.Analyze(fs)
		for _, s := range res.Of("created=") {
			as, ok := s.Node.(*ast.AssignStmt)
			if ok && len(as.Rhs) == 1 {
				if v := ConstVal(s.Fn.Info(), as.Rhs[0]); v != nil && v.ExactString() == "0" {
					continue // clearing the mark only ever adds a tombstone
				}
			}
			n++
			c.Obl(rule, fs.name+": the created mark is stored only where Hamt.Get found no entry for the key", p.Pos(s.Node), s.Before.Has("@absent"),
				"the mark lets Drop delete the entry without a tombstone; stored while the map still holds an entry (e.g. a tombstone of an earlier drop) "+
					"a create+drop within one persist interval removes that tombstone and the dropped table reappears when the chain is read back")
		}
	}
	c.Floor(rule, n, 2, "stores of Schema.created / Info.created")
}

package main

// C26: integer fast paths do not wrap around.
//
// Scope (found by effect, over the whole of package core): a call of core.IntVal /
// core.Int64Val ("box") whose argument is computed by native integer arithmetic
// (+ - * / unary minus) from a value that was unwrapped from a Suneido value
// (SuIntToInt, ToInt, IfInt, ToInt64, Value.ToInt, Value.IfInt — "sources").
//
// For every such (box, arithmetic) pair:
//   K23  operand intervals are computed from the sources (a static callee is summarised by
//        the union of its returned intervals: (*smi).toInt is the 16-bit table offset,
//        a load of an int64 field is the whole type, …), narrowed by dominating comparisons
//        with constants.  If the exact result interval fits the type of the operation there
//        is nothing to prove.
//   K14  otherwise the function containing the box is executed (go/ssa, integers only, big
//        arithmetic) on boundary vectors of the sources; an operation whose exact result
//        does not fit marks its (wrapped) result.  Reaching the box with a marked argument
//        is a counterexample.  This accepts exactly the overflow tests whose ssaOutcome is
//        computable from the operands: sign comparison of result and operands, division
//        back (p/y == x), pre-checks against math.MaxInt / MinInt, math/bits carry functions
//        (Add64, Sub64, Mul64, Add, Sub, Mul), arithmetic in a wider type.
//        A test that cannot be evaluated (calls something unknown on the operands) is accepted
//        structurally: the box must be dominated by a branch on a value that depends on the
//        result or on all operands.
//   K5   on an overflowing vector the function still returns normally (falls through to the
//        decimal path) instead of panicking.
//
// Bit operations, % and shifts cannot overflow / are not claimed.

import (
	"fmt"
	"go/ast"
	"go/constant"
	"go/token"
	"go/types"
	"math/big"
	"sort"
	"strings"

	"golang.org/x/tools/go/ssa"
	"golang.org/x/tools/go/ssa/ssautil"
)

func init() { register("C26", checkC26, "./core") }

// ---------------------------------------------------------------- intervals

type ivl struct {
	lo, hi *big.Int
	excl   []*big.Int // single values known not to be taken (from != tests)
}

func (r ivl) String() string {
	s := "[" + r.lo.String() + ", " + r.hi.String() + "]"
	for _, e := range r.excl {
		s += " \\ {" + e.String() + "}"
	}
	return s
}

func (r ivl) contains(v *big.Int) bool {
	if v.Cmp(r.lo) < 0 || v.Cmp(r.hi) > 0 {
		return false
	}
	for _, e := range r.excl {
		if e.Cmp(v) == 0 {
			return false
		}
	}
	return true
}

func (r ivl) within(o ivl) bool { return r.lo.Cmp(o.lo) >= 0 && r.hi.Cmp(o.hi) <= 0 }

func ivlUnion(a, b ivl) ivl {
	r := ivl{lo: a.lo, hi: a.hi}
	if b.lo.Cmp(r.lo) < 0 {
		r.lo = b.lo
	}
	if b.hi.Cmp(r.hi) > 0 {
		r.hi = b.hi
	}
	return r
}

func bigI(n int64) *big.Int { return big.NewInt(n) }

type ivlIntKind struct {
	bits   uint
	signed bool
}

type c26 struct {
	c      *Ctx
	p      *Prog
	prog   *ssa.Program
	core   *ssa.Package
	sizes  types.Sizes
	box    map[*ssa.Function]bool
	srcFn  map[*types.Func]bool // unwrap sources (static functions and interface methods)
	axiom  map[*ssa.Function]ivl
	retMem map[c26RetKey]*ivl
	inProg map[c26RetKey]bool
	fns    []*ssa.Function
}

type c26RetKey struct {
	fn  *ssa.Function
	idx int
}

func (a *c26) kindOf(t types.Type) (ivlIntKind, bool) {
	b, ok := t.Underlying().(*types.Basic)
	if !ok || b.Info()&types.IsInteger == 0 {
		return ivlIntKind{}, false
	}
	return ivlIntKind{bits: uint(a.sizes.Sizeof(b)) * 8, signed: b.Info()&types.IsUnsigned == 0}, true
}

func ivlFullOf(k ivlIntKind) ivl {
	one := bigI(1)
	if k.signed {
		lo := new(big.Int).Neg(new(big.Int).Lsh(one, k.bits-1))
		hi := new(big.Int).Sub(new(big.Int).Lsh(one, k.bits-1), one)
		return ivl{lo: lo, hi: hi}
	}
	return ivl{lo: bigI(0), hi: new(big.Int).Sub(new(big.Int).Lsh(one, k.bits), one)}
}

func (a *c26) full(t types.Type) ivl {
	if k, ok := a.kindOf(t); ok {
		return ivlFullOf(k)
	}
	return ivl{lo: bigI(0), hi: bigI(0)}
}

func ivlWrapTo(v *big.Int, k ivlIntKind) *big.Int {
	mod := new(big.Int).Lsh(bigI(1), k.bits)
	r := new(big.Int).Mod(v, mod) // Euclidean: 0 <= r < mod
	if k.signed && r.Cmp(new(big.Int).Lsh(bigI(1), k.bits-1)) >= 0 {
		r.Sub(r, mod)
	}
	return r
}

// arith: exact interval of x op y
func ivlArith(op token.Token, x, y ivl) (ivl, bool) {
	cands := func(f func(p, q *big.Int) *big.Int) ivl {
		vs := []*big.Int{f(x.lo, y.lo), f(x.lo, y.hi), f(x.hi, y.lo), f(x.hi, y.hi)}
		r := ivl{lo: vs[0], hi: vs[0]}
		for _, v := range vs[1:] {
			if v.Cmp(r.lo) < 0 {
				r.lo = v
			}
			if v.Cmp(r.hi) > 0 {
				r.hi = v
			}
		}
		return r
	}
	switch op {
	case token.ADD:
		return cands(func(p, q *big.Int) *big.Int { return new(big.Int).Add(p, q) }), true
	case token.SUB:
		return cands(func(p, q *big.Int) *big.Int { return new(big.Int).Sub(p, q) }), true
	case token.MUL:
		return cands(func(p, q *big.Int) *big.Int { return new(big.Int).Mul(p, q) }), true
	}
	return ivl{}, false
}

// source call: does this call unwrap a Suneido value into a native integer?
func (a *c26) isSourceCall(call *ssa.Call) bool {
	cm := call.Common()
	if cm.IsInvoke() {
		return a.srcFn[cm.Method]
	}
	if f := cm.StaticCallee(); f != nil {
		if o, ok := f.Object().(*types.Func); ok {
			return a.srcFn[o.Origin()]
		}
	}
	return false
}

// sourceOf: v is (an element of) the result of a source call
func (a *c26) sourceOf(v ssa.Value) *ssa.Call {
	switch x := v.(type) {
	case *ssa.Extract:
		if call, ok := x.Tuple.(*ssa.Call); ok && x.Index == 0 && a.isSourceCall(call) {
			return call
		}
	case *ssa.Call:
		if a.isSourceCall(x) {
			return x
		}
	}
	return nil
}

// retRange: interval of result idx of a function of package core (union over its returns)
func (a *c26) retRange(fn *ssa.Function, idx int, depth int) ivl {
	res := fn.Signature.Results()
	if idx >= res.Len() {
		return ivl{lo: bigI(0), hi: bigI(0)}
	}
	full := a.full(res.At(idx).Type())
	if ax, ok := a.axiom[fn]; ok && idx == 0 {
		return ax
	}
	k := c26RetKey{fn, idx}
	if m := a.retMem[k]; m != nil {
		return *m
	}
	if len(fn.Blocks) == 0 || depth <= 0 || a.inProg[k] {
		return full
	}
	a.inProg[k] = true
	defer delete(a.inProg, k)
	var out *ivl
	for _, b := range fn.Blocks {
		for _, in := range b.Instrs {
			if ret, ok := in.(*ssa.Return); ok && idx < len(ret.Results) {
				r := a.valueRange(ret.Results[idx], nil, depth-1)
				if out == nil {
					out = &r
				} else {
					u := ivlUnion(*out, r)
					out = &u
				}
			}
		}
	}
	if out == nil {
		return full
	}
	a.retMem[k] = out
	return *out
}

// valueRange: interval of an integer SSA value; at != nil narrows with the conditions that
// dominate that block.
func (a *c26) valueRange(v ssa.Value, at *ssa.BasicBlock, depth int) ivl {
	k, isInt := a.kindOf(v.Type())
	if !isInt {
		return ivl{lo: bigI(0), hi: bigI(0)}
	}
	full := ivlFullOf(k)
	r := full
	if depth > 0 {
		switch x := v.(type) {
		case *ssa.Const:
			if x.Value != nil && x.Value.Kind() == constant.Int {
				if n, ok := new(big.Int).SetString(x.Value.ExactString(), 10); ok {
					r = ivl{lo: n, hi: n}
				}
			}
		case *ssa.Convert:
			if _, ok := a.kindOf(x.X.Type()); ok {
				in := a.valueRange(x.X, at, depth-1)
				if in.within(full) {
					r = ivl{lo: in.lo, hi: in.hi}
				}
			}
		case *ssa.ChangeType:
			r = a.valueRange(x.X, at, depth-1)
		case *ssa.Phi:
			var u *ivl
			for _, e := range x.Edges {
				er := a.valueRange(e, nil, depth-1)
				if u == nil {
					u = &er
				} else {
					t := ivlUnion(*u, er)
					u = &t
				}
			}
			if u != nil {
				r = *u
			}
		case *ssa.BinOp:
			xr, yr := a.valueRange(x.X, at, depth-1), a.valueRange(x.Y, at, depth-1)
			if ex, ok := ivlArith(x.Op, xr, yr); ok && ex.within(full) {
				r = ex
			}
		case *ssa.UnOp:
			if x.Op == token.SUB {
				in := a.valueRange(x.X, at, depth-1)
				ex := ivl{lo: new(big.Int).Neg(in.hi), hi: new(big.Int).Neg(in.lo)}
				if ex.within(full) {
					r = ex
				}
			}
		case *ssa.Extract:
			if call, ok := x.Tuple.(*ssa.Call); ok {
				if f := call.Common().StaticCallee(); f != nil && f.Pkg == a.core {
					r = a.retRange(f, x.Index, depth-1)
				}
			}
		case *ssa.Call:
			if f := x.Common().StaticCallee(); f != nil && f.Pkg == a.core {
				r = a.retRange(f, 0, depth-1)
			}
		}
	}
	if !r.within(full) {
		r = full
	}
	if at != nil {
		r = a.narrow(v, r, at)
	}
	return r
}

type ssaDomCond struct {
	cond  ssa.Value
	truth bool
}

// ssaDomConds: the branch conditions known at the entry of b (edges from immediate dominators
// into single-predecessor blocks on the dominator chain).
func ssaDomConds(b *ssa.BasicBlock) []ssaDomCond {
	var out []ssaDomCond
	for d := b; d != nil && d.Idom() != nil; d = d.Idom() {
		if len(d.Preds) != 1 {
			continue
		}
		p := d.Preds[0]
		if len(p.Instrs) == 0 {
			continue
		}
		if iff, ok := p.Instrs[len(p.Instrs)-1].(*ssa.If); ok && len(p.Succs) == 2 && p.Succs[0] != p.Succs[1] {
			out = append(out, ssaDomCond{iff.Cond, p.Succs[0] == d})
		}
	}
	return out
}

func ssaConstInt(v ssa.Value) *big.Int {
	if c, ok := v.(*ssa.Const); ok && c.Value != nil && c.Value.Kind() == constant.Int {
		if n, ok := new(big.Int).SetString(c.Value.ExactString(), 10); ok {
			return n
		}
	}
	return nil
}

func (a *c26) narrow(v ssa.Value, r ivl, at *ssa.BasicBlock) ivl {
	r = ivl{lo: r.lo, hi: r.hi, excl: r.excl}
	for _, dc := range ssaDomConds(at) {
		be, ok := dc.cond.(*ssa.BinOp)
		if !ok {
			continue
		}
		op := be.Op
		var k *big.Int
		switch {
		case be.X == v:
			k = ssaConstInt(be.Y)
		case be.Y == v:
			k = ssaConstInt(be.X)
			switch op { // k OP v  ==  v OP' k
			case token.LSS:
				op = token.GTR
			case token.LEQ:
				op = token.GEQ
			case token.GTR:
				op = token.LSS
			case token.GEQ:
				op = token.LEQ
			}
		}
		if k == nil {
			continue
		}
		if !dc.truth {
			switch op {
			case token.LSS:
				op = token.GEQ
			case token.LEQ:
				op = token.GTR
			case token.GTR:
				op = token.LEQ
			case token.GEQ:
				op = token.LSS
			case token.EQL:
				op = token.NEQ
			case token.NEQ:
				op = token.EQL
			}
		}
		one := bigI(1)
		switch op {
		case token.LSS:
			if h := new(big.Int).Sub(k, one); h.Cmp(r.hi) < 0 {
				r.hi = h
			}
		case token.LEQ:
			if k.Cmp(r.hi) < 0 {
				r.hi = k
			}
		case token.GTR:
			if l := new(big.Int).Add(k, one); l.Cmp(r.lo) > 0 {
				r.lo = l
			}
		case token.GEQ:
			if k.Cmp(r.lo) > 0 {
				r.lo = k
			}
		case token.EQL:
			if r.contains(k) {
				r.lo, r.hi = k, k
			}
		case token.NEQ:
			switch {
			case k.Cmp(r.lo) == 0 && r.lo.Cmp(r.hi) < 0:
				r.lo = new(big.Int).Add(k, one)
			case k.Cmp(r.hi) == 0 && r.lo.Cmp(r.hi) < 0:
				r.hi = new(big.Int).Sub(k, one)
			default:
				r.excl = append(r.excl, k)
			}
		}
	}
	return r
}

// ---------------------------------------------------------------- discovery

type arithSite struct {
	box    *ssa.Call       // the IntVal / Int64Val call
	n      ssa.Instruction // *ssa.BinOp or *ssa.UnOp
	op     token.Token
	x, y   ssa.Value // y == nil for unary minus
	inFn   *ssa.Function
	srcs   []ssa.Value // source values (in the box's function) the operation depends on
	viaPar bool        // sources are parameters fed by callers
}

// operands lists the data operands followed when looking for arithmetic and sources.
func followOperands(v ssa.Value) []ssa.Value {
	switch x := v.(type) {
	case *ssa.BinOp:
		return []ssa.Value{x.X, x.Y}
	case *ssa.UnOp:
		if x.Op == token.SUB || x.Op == token.XOR {
			return []ssa.Value{x.X}
		}
	case *ssa.Convert:
		return []ssa.Value{x.X}
	case *ssa.ChangeType:
		return []ssa.Value{x.X}
	case *ssa.Phi:
		return x.Edges
	}
	return nil
}

type calleeRet struct {
	call *ssa.Call
	fn   *ssa.Function
	idx  int
}

// helperOf: v is a result of a call of a function of package core with a body (not a source)
func (a *c26) helperOf(v ssa.Value) *calleeRet {
	var call *ssa.Call
	idx := 0
	switch x := v.(type) {
	case *ssa.Extract:
		call, _ = x.Tuple.(*ssa.Call)
		idx = x.Index
	case *ssa.Call:
		call = x
	}
	if call == nil || a.isSourceCall(call) {
		return nil
	}
	f := call.Common().StaticCallee()
	if f == nil || f.Pkg != a.core || len(f.Blocks) == 0 || a.box[f] {
		return nil
	}
	return &calleeRet{call, f, idx}
}

// walk visits the value graph below v inside its function and, through helper calls, the
// values returned by the helper (whose parameters continue at the call's arguments).
func (a *c26) walk(v ssa.Value, depth int, seen map[ssa.Value]bool, visit func(ssa.Value)) {
	if v == nil || seen[v] || depth <= 0 {
		return
	}
	seen[v] = true
	visit(v)
	for _, o := range followOperands(v) {
		a.walk(o, depth, seen, visit)
	}
	if h := a.helperOf(v); h != nil {
		for _, b := range h.fn.Blocks {
			for _, in := range b.Instrs {
				if ret, ok := in.(*ssa.Return); ok && h.idx < len(ret.Results) {
					a.walk(ret.Results[h.idx], depth-1, seen, visit)
				}
			}
		}
		for _, arg := range h.call.Common().Args {
			a.walk(arg, depth, seen, visit)
		}
	}
}

func isArith(v ssa.Value, kindOf func(types.Type) (ivlIntKind, bool)) (token.Token, ssa.Value, ssa.Value, bool) {
	switch x := v.(type) {
	case *ssa.BinOp: // signed only: unsigned arithmetic wraps by definition (and is what the idioms use)
		if k, ok := kindOf(x.Type()); ok && k.signed {
			switch x.Op {
			case token.ADD, token.SUB, token.MUL, token.QUO:
				return x.Op, x.X, x.Y, true
			}
		}
	case *ssa.UnOp:
		if k, ok := kindOf(x.Type()); ok && k.signed && x.Op == token.SUB {
			return token.SUB, x.X, nil, true
		}
	}
	return 0, nil, nil, false
}

// ---------------------------------------------------------------- concrete execution

type ssaVal struct {
	known bool
	isInt bool
	i     *big.Int
	b     bool
	elems []ssaVal
	ovf   map[ssa.Instruction]bool // wrapped operations this value derives from
	dep   bool                     // depends on a preset source
}

func ssaUnknown(dep bool) ssaVal { return ssaVal{dep: dep} }

func ssaMergeOvf(vs ...ssaVal) map[ssa.Instruction]bool {
	var out map[ssa.Instruction]bool
	for _, v := range vs {
		for k := range v.ovf {
			if out == nil {
				out = map[ssa.Instruction]bool{}
			}
			out[k] = true
		}
	}
	return out
}

type ssaBoxHit struct {
	call    *ssa.Call
	arg     ssaVal
	tainted bool
}

type ssaOutcome struct {
	kind    string // "return" | "panic" | "abort"
	vals    []ssaVal
	tainted bool
}

type ssaMachine struct {
	a       *c26
	presets map[ssa.Value]ssaVal
	hits    []ssaBoxHit
	wrapped map[ssa.Instruction]bool // signed + - * / neg that left their type in this run
	steps   int
	aborted bool
}

const ssaMaxSteps = 20000

type ssaFrame struct {
	fn      *ssa.Function
	env     map[ssa.Value]ssaVal
	tainted bool
	visits  map[*ssa.BasicBlock]int
}

func (f *ssaFrame) clone() *ssaFrame {
	n := &ssaFrame{fn: f.fn, env: make(map[ssa.Value]ssaVal, len(f.env)), tainted: f.tainted, visits: make(map[*ssa.BasicBlock]int, len(f.visits))}
	for k, v := range f.env {
		n.env[k] = v
	}
	for k, v := range f.visits {
		n.visits[k] = v
	}
	return n
}

func (m *ssaMachine) get(f *ssaFrame, v ssa.Value) ssaVal {
	if c, ok := v.(*ssa.Const); ok {
		if c.Value == nil {
			return ssaUnknown(false)
		}
		switch c.Value.Kind() {
		case constant.Int:
			if n, ok := new(big.Int).SetString(c.Value.ExactString(), 10); ok {
				if k, isInt := m.a.kindOf(c.Type()); isInt {
					n = ivlWrapTo(n, k)
				}
				return ssaVal{known: true, isInt: true, i: n}
			}
		case constant.Bool:
			return ssaVal{known: true, b: constant.BoolVal(c.Value)}
		}
		return ssaUnknown(false)
	}
	if pv, ok := m.presets[v]; ok {
		return pv
	}
	if cv, ok := f.env[v]; ok {
		return cv
	}
	return ssaUnknown(false)
}

// run executes fn from its entry with the given arguments and returns the outcomes of all
// explored paths.
func (m *ssaMachine) run(fn *ssa.Function, args []ssaVal, depth int) []ssaOutcome {
	f := &ssaFrame{fn: fn, env: map[ssa.Value]ssaVal{}, visits: map[*ssa.BasicBlock]int{}}
	for i, p := range fn.Params {
		if i < len(args) {
			f.env[p] = args[i]
		}
	}
	if len(fn.Blocks) == 0 {
		return []ssaOutcome{{kind: "abort"}}
	}
	return m.block(f, fn.Blocks[0], nil, depth)
}

func (m *ssaMachine) block(f *ssaFrame, b, pred *ssa.BasicBlock, depth int) []ssaOutcome {
	for {
		f.visits[b]++
		if f.visits[b] > 6 || m.steps > ssaMaxSteps {
			m.aborted = true
			return []ssaOutcome{{kind: "abort", tainted: f.tainted}}
		}
		// phis first, all evaluated against the incoming edge
		predIdx := -1
		for i, p := range b.Preds {
			if p == pred {
				predIdx = i
			}
		}
		var phiVals []ssaVal
		var phis []*ssa.Phi
		for _, in := range b.Instrs {
			phi, ok := in.(*ssa.Phi)
			if !ok {
				break
			}
			phis = append(phis, phi)
			if predIdx >= 0 && predIdx < len(phi.Edges) {
				phiVals = append(phiVals, m.get(f, phi.Edges[predIdx]))
			} else {
				phiVals = append(phiVals, ssaUnknown(false))
			}
		}
		for i, phi := range phis {
			f.env[phi] = phiVals[i]
		}
		for _, in := range b.Instrs[len(phis):] {
			m.steps++
			switch x := in.(type) {
			case *ssa.If:
				c := m.get(f, x.Cond)
				if c.known {
					next := b.Succs[1]
					if c.b {
						next = b.Succs[0]
					}
					pred, b = b, next
					goto nextBlock
				}
				// unknown condition: explore both ways
				g := f.clone()
				if c.dep {
					f.tainted, g.tainted = true, true
				}
				out := m.block(f, b.Succs[0], b, depth)
				return append(out, m.block(g, b.Succs[1], b, depth)...)
			case *ssa.Jump:
				pred, b = b, b.Succs[0]
				goto nextBlock
			case *ssa.Return:
				var vals []ssaVal
				for _, r := range x.Results {
					vals = append(vals, m.get(f, r))
				}
				return []ssaOutcome{{kind: "return", vals: vals, tainted: f.tainted}}
			case *ssa.Panic:
				return []ssaOutcome{{kind: "panic", tainted: f.tainted}}
			case *ssa.Call:
				res, outs, forked := m.call(f, x, depth)
				if forked {
					// the callee had several outcomes: continue the rest of this block for each
					var all []ssaOutcome
					for i, o := range outs {
						if o.kind != "return" {
							all = append(all, ssaOutcome{kind: o.kind, tainted: f.tainted || o.tainted})
							continue
						}
						g := f
						if i < len(outs)-1 {
							g = f.clone()
						}
						g.tainted = g.tainted || o.tainted
						g.env[x] = ssaTupleOf(o.vals)
						all = append(all, m.resume(g, b, x, depth)...)
					}
					return all
				}
				if res == nil { // callee never returns
					return []ssaOutcome{{kind: "panic", tainted: f.tainted}}
				}
				f.env[x] = *res
			case ssa.Value:
				v, panics := m.eval(f, x)
				if panics {
					return []ssaOutcome{{kind: "panic", tainted: f.tainted}}
				}
				f.env[x] = v
			}
		}
		return []ssaOutcome{{kind: "abort", tainted: f.tainted}}
	nextBlock:
	}
}

// resume continues block b after instruction after.
func (m *ssaMachine) resume(f *ssaFrame, b *ssa.BasicBlock, after ssa.Instruction, depth int) []ssaOutcome {
	started := false
	for _, in := range b.Instrs {
		if !started {
			if in == after {
				started = true
			}
			continue
		}
		m.steps++
		switch x := in.(type) {
		case *ssa.If:
			c := m.get(f, x.Cond)
			if c.known {
				if c.b {
					return m.block(f, b.Succs[0], b, depth)
				}
				return m.block(f, b.Succs[1], b, depth)
			}
			g := f.clone()
			if c.dep {
				f.tainted, g.tainted = true, true
			}
			out := m.block(f, b.Succs[0], b, depth)
			return append(out, m.block(g, b.Succs[1], b, depth)...)
		case *ssa.Jump:
			return m.block(f, b.Succs[0], b, depth)
		case *ssa.Return:
			var vals []ssaVal
			for _, r := range x.Results {
				vals = append(vals, m.get(f, r))
			}
			return []ssaOutcome{{kind: "return", vals: vals, tainted: f.tainted}}
		case *ssa.Panic:
			return []ssaOutcome{{kind: "panic", tainted: f.tainted}}
		case *ssa.Call:
			res, outs, forked := m.call(f, x, depth)
			if forked {
				var all []ssaOutcome
				for i, o := range outs {
					if o.kind != "return" {
						all = append(all, ssaOutcome{kind: o.kind, tainted: f.tainted || o.tainted})
						continue
					}
					g := f
					if i < len(outs)-1 {
						g = f.clone()
					}
					g.tainted = g.tainted || o.tainted
					g.env[x] = ssaTupleOf(o.vals)
					all = append(all, m.resume(g, b, x, depth)...)
				}
				return all
			}
			if res == nil {
				return []ssaOutcome{{kind: "panic", tainted: f.tainted}}
			}
			f.env[x] = *res
		case ssa.Value:
			v, panics := m.eval(f, x)
			if panics {
				return []ssaOutcome{{kind: "panic", tainted: f.tainted}}
			}
			f.env[x] = v
		}
	}
	return []ssaOutcome{{kind: "abort", tainted: f.tainted}}
}

func ssaTupleOf(vals []ssaVal) ssaVal {
	if len(vals) == 1 {
		return vals[0]
	}
	dep := false
	for _, v := range vals {
		dep = dep || v.dep
	}
	return ssaVal{known: true, elems: vals, dep: dep}
}

var bitsIntrinsics = map[string]bool{"Add64": true, "Sub64": true, "Mul64": true, "Add": true, "Sub": true, "Mul": true}

// call: result value (nil = does not return), or several outcomes when an interpreted
// callee forked.
func (m *ssaMachine) call(f *ssaFrame, x *ssa.Call, depth int) (*ssaVal, []ssaOutcome, bool) {
	cm := x.Common()
	var args []ssaVal
	dep := false
	for _, a := range cm.Args {
		v := m.get(f, a)
		args = append(args, v)
		dep = dep || v.dep
	}
	if pv, ok := m.presets[x]; ok {
		return &pv, nil, false
	}
	callee := cm.StaticCallee()
	if callee != nil && m.a.box[callee] {
		if len(args) == 1 {
			m.hits = append(m.hits, ssaBoxHit{call: x, arg: args[0], tainted: f.tainted})
		}
		r := ssaUnknown(dep)
		return &r, nil, false
	}
	if callee != nil && callee.Pkg != nil && callee.Pkg.Pkg.Path() == "math/bits" && bitsIntrinsics[callee.Name()] {
		if r, ok := bitsIntrinsic(callee.Name(), args, uint(m.a.sizes.Sizeof(types.Typ[types.Uint]))*8); ok {
			return &r, nil, false
		}
	}
	// interpret helpers of package core whose parameters and results are integers / booleans
	if callee != nil && callee.Pkg == m.a.core && len(callee.Blocks) > 0 && depth > 0 && !cm.IsInvoke() && m.pureSig(callee.Signature) {
		outs := m.run(callee, args, depth-1)
		if len(outs) == 1 && outs[0].kind == "return" {
			r := ssaTupleOf(outs[0].vals)
			if outs[0].tainted {
				f.tainted = true
			}
			return &r, nil, false
		}
		if len(outs) == 1 && outs[0].kind == "panic" {
			return nil, nil, false
		}
		return nil, outs, true
	}
	r := ssaUnknown(dep)
	if t, ok := x.Type().(*types.Tuple); ok {
		r = ssaVal{known: true, dep: dep}
		for i := 0; i < t.Len(); i++ {
			r.elems = append(r.elems, ssaUnknown(dep))
		}
	}
	return &r, nil, false
}

func (m *ssaMachine) pureSig(sig *types.Signature) bool {
	ok := func(t types.Type) bool {
		b, isB := t.Underlying().(*types.Basic)
		return isB && b.Info()&(types.IsInteger|types.IsBoolean) != 0
	}
	if sig.Recv() != nil {
		return false
	}
	for i := 0; i < sig.Params().Len(); i++ {
		if !ok(sig.Params().At(i).Type()) {
			return false
		}
	}
	for i := 0; i < sig.Results().Len(); i++ {
		if !ok(sig.Results().At(i).Type()) {
			return false
		}
	}
	return sig.Results().Len() > 0
}

func bitsIntrinsic(name string, args []ssaVal, wordBits uint) (ssaVal, bool) {
	for _, a := range args {
		if !a.known || !a.isInt {
			return ssaVal{}, false
		}
	}
	bitsN := uint(64)
	if name == "Add" || name == "Sub" || name == "Mul" {
		bitsN = wordBits
	}
	mod := new(big.Int).Lsh(bigI(1), bitsN)
	dep := false
	for _, a := range args {
		dep = dep || a.dep
	}
	mk := func(v *big.Int) ssaVal { return ssaVal{known: true, isInt: true, i: v, dep: dep} }
	switch name {
	case "Add64", "Add":
		if len(args) != 3 {
			return ssaVal{}, false
		}
		s := new(big.Int).Add(new(big.Int).Add(args[0].i, args[1].i), args[2].i)
		return ssaVal{known: true, dep: dep, elems: []ssaVal{mk(new(big.Int).Mod(s, mod)), mk(new(big.Int).Rsh(s, bitsN))}}, true
	case "Sub64", "Sub":
		if len(args) != 3 {
			return ssaVal{}, false
		}
		s := new(big.Int).Sub(new(big.Int).Sub(args[0].i, args[1].i), args[2].i)
		borrow := bigI(0)
		if s.Sign() < 0 {
			borrow = bigI(1)
		}
		return ssaVal{known: true, dep: dep, elems: []ssaVal{mk(new(big.Int).Mod(s, mod)), mk(borrow)}}, true
	case "Mul64", "Mul":
		if len(args) != 2 {
			return ssaVal{}, false
		}
		pr := new(big.Int).Mul(args[0].i, args[1].i)
		return ssaVal{known: true, dep: dep, elems: []ssaVal{mk(new(big.Int).Rsh(pr, bitsN)), mk(new(big.Int).Mod(pr, mod))}}, true
	}
	return ssaVal{}, false
}

// eval computes a non-control instruction; panics = run-time panic (division by zero).
func (m *ssaMachine) eval(f *ssaFrame, v ssa.Value) (ssaVal, bool) {
	depOf := func() bool {
		d := false
		if in, ok := v.(ssa.Instruction); ok {
			for _, op := range in.Operands(nil) {
				if *op != nil {
					d = d || m.get(f, *op).dep
				}
			}
		}
		return d
	}
	switch x := v.(type) {
	case *ssa.BinOp:
		l, r := m.get(f, x.X), m.get(f, x.Y)
		dep := l.dep || r.dep
		if !l.known || !r.known {
			return ssaUnknown(dep), false
		}
		if !l.isInt || !r.isInt {
			if l.isInt != r.isInt || l.elems != nil || r.elems != nil {
				return ssaUnknown(dep), false
			}
			switch x.Op { // booleans
			case token.EQL:
				return ssaVal{known: true, b: l.b == r.b, dep: dep}, false
			case token.NEQ:
				return ssaVal{known: true, b: l.b != r.b, dep: dep}, false
			case token.AND:
				return ssaVal{known: true, b: l.b && r.b, dep: dep}, false
			case token.OR:
				return ssaVal{known: true, b: l.b || r.b, dep: dep}, false
			}
			return ssaUnknown(dep), false
		}
		cmp := l.i.Cmp(r.i)
		switch x.Op {
		case token.EQL:
			return ssaVal{known: true, b: cmp == 0, dep: dep}, false
		case token.NEQ:
			return ssaVal{known: true, b: cmp != 0, dep: dep}, false
		case token.LSS:
			return ssaVal{known: true, b: cmp < 0, dep: dep}, false
		case token.LEQ:
			return ssaVal{known: true, b: cmp <= 0, dep: dep}, false
		case token.GTR:
			return ssaVal{known: true, b: cmp > 0, dep: dep}, false
		case token.GEQ:
			return ssaVal{known: true, b: cmp >= 0, dep: dep}, false
		}
		k, ok := m.a.kindOf(x.Type())
		if !ok {
			return ssaUnknown(dep), false
		}
		var ex *big.Int
		switch x.Op {
		case token.ADD:
			ex = new(big.Int).Add(l.i, r.i)
		case token.SUB:
			ex = new(big.Int).Sub(l.i, r.i)
		case token.MUL:
			ex = new(big.Int).Mul(l.i, r.i)
		case token.QUO:
			if r.i.Sign() == 0 {
				return ssaVal{}, true
			}
			ex = new(big.Int).Quo(l.i, r.i)
		case token.REM:
			if r.i.Sign() == 0 {
				return ssaVal{}, true
			}
			ex = new(big.Int).Rem(l.i, r.i)
		case token.AND:
			ex = new(big.Int).And(l.i, r.i)
		case token.OR:
			ex = new(big.Int).Or(l.i, r.i)
		case token.XOR:
			ex = new(big.Int).Xor(l.i, r.i)
		case token.AND_NOT:
			ex = new(big.Int).AndNot(l.i, r.i)
		case token.SHL:
			if r.i.Sign() < 0 {
				return ssaVal{}, true
			}
			if r.i.Cmp(bigI(200)) > 0 {
				ex = bigI(0)
			} else {
				ex = new(big.Int).Lsh(l.i, uint(r.i.Int64()))
			}
		case token.SHR:
			if r.i.Sign() < 0 {
				return ssaVal{}, true
			}
			if r.i.Cmp(bigI(200)) > 0 {
				ex = bigI(0)
				if l.i.Sign() < 0 {
					ex = bigI(-1)
				}
			} else {
				ex = new(big.Int).Rsh(l.i, uint(r.i.Int64()))
			}
		default:
			return ssaUnknown(dep), false
		}
		w := ivlWrapTo(ex, k)
		out := ssaVal{known: true, isInt: true, i: w, dep: dep, ovf: ssaMergeOvf(l, r)}
		if k.signed && w.Cmp(ex) != 0 {
			switch x.Op {
			case token.ADD, token.SUB, token.MUL, token.QUO:
				if out.ovf == nil {
					out.ovf = map[ssa.Instruction]bool{}
				} else {
					cp := map[ssa.Instruction]bool{}
					for k := range out.ovf {
						cp[k] = true
					}
					out.ovf = cp
				}
				out.ovf[x] = true
				m.wrapped[x] = true
			}
		}
		return out, false
	case *ssa.UnOp:
		o := m.get(f, x.X)
		if !o.known {
			return ssaUnknown(o.dep), false
		}
		switch x.Op {
		case token.NOT:
			if !o.isInt && o.elems == nil {
				return ssaVal{known: true, b: !o.b, dep: o.dep}, false
			}
		case token.SUB, token.XOR:
			k, ok := m.a.kindOf(x.Type())
			if ok && o.isInt {
				var ex *big.Int
				if x.Op == token.SUB {
					ex = new(big.Int).Neg(o.i)
				} else {
					ex = new(big.Int).Not(o.i)
				}
				w := ivlWrapTo(ex, k)
				out := ssaVal{known: true, isInt: true, i: w, dep: o.dep, ovf: ssaMergeOvf(o)}
				if x.Op == token.SUB && k.signed && w.Cmp(ex) != 0 {
					cp := map[ssa.Instruction]bool{x: true}
					for k := range out.ovf {
						cp[k] = true
					}
					out.ovf = cp
					m.wrapped[x] = true
				}
				return out, false
			}
		}
		return ssaUnknown(o.dep), false
	case *ssa.Convert:
		o := m.get(f, x.X)
		if k, ok := m.a.kindOf(x.Type()); ok && o.known && o.isInt {
			return ssaVal{known: true, isInt: true, i: ivlWrapTo(o.i, k), dep: o.dep, ovf: o.ovf}, false
		}
		return ssaUnknown(o.dep), false
	case *ssa.ChangeType:
		return m.get(f, x.X), false
	case *ssa.Extract:
		t := m.get(f, x.Tuple)
		if t.known && x.Index < len(t.elems) {
			return t.elems[x.Index], false
		}
		return ssaUnknown(t.dep), false
	}
	return ssaUnknown(depOf()), false
}

// ---------------------------------------------------------------- the check

func checkC26(c *Ctx) string {
	p := c.P
	r0 := "C26.0 anchors"
	corePk := p.Pkg("core")
	if corePk == nil {
		c.Missing(r0, "package core")
		return "anchors missing"
	}
	prog, _ := ssautil.AllPackages(p.Pkgs, ssa.InstantiateGenerics)
	a := &c26{c: c, p: p, prog: prog, core: prog.Package(corePk.Types), sizes: corePk.TypesSizes,
		box: map[*ssa.Function]bool{}, srcFn: map[*types.Func]bool{}, axiom: map[*ssa.Function]ivl{},
		retMem: map[c26RetKey]*ivl{}, inProg: map[c26RetKey]bool{}}
	if a.core == nil {
		c.Missing(r0, "SSA form of package core")
		return "anchors missing"
	}
	if a.sizes == nil {
		a.sizes = types.SizesFor("gc", "amd64")
	}
	a.core.Build()
	fnOf := func(name string) *ssa.Function {
		if f := p.Func("core", name); f != nil {
			return prog.FuncValue(f)
		}
		return nil
	}
	for _, n := range []string{"IntVal", "Int64Val"} {
		f := fnOf(n)
		if f == nil {
			c.Missing(r0, "core."+n)
			return "anchors missing"
		}
		a.box[f] = true
	}
	for _, n := range []string{"SuIntToInt", "ToInt", "IfInt", "ToInt64"} {
		f := p.Func("core", n)
		if !c.need(r0, "core."+n, f) {
			return "anchors missing"
		}
		a.srcFn[f] = true
	}
	for _, n := range []string{"ToInt", "IfInt"} {
		f := p.IfaceMethod("core", "Value", n)
		if !c.need(r0, "core.Value."+n, f) {
			return "anchors missing"
		}
		a.srcFn[f] = true
	}

	// ---- 1. the bounded representation: (*smi).toInt is an offset into a fixed table
	r1 := "C26.1 K23 the range of the small-integer representation is derived from its table"
	a.smallIntAxiom(r1)

	// all functions of package core (declared, their literals)
	for _, fs := range p.FuncsIn("core") {
		if fs.Obj == nil {
			continue
		}
		if f := prog.FuncValue(fs.Obj); f != nil {
			a.addFn(f)
		}
	}
	sort.SliceStable(a.fns, func(i, j int) bool { return a.fns[i].Pos() < a.fns[j].Pos() })

	// the unwrap source everything hinges on: what SuIntToInt can return
	r2 := "C26.2 K23+K14 native arithmetic on unwrapped integers is boxed only when it did not overflow"
	if f := fnOf("SuIntToInt"); f != nil {
		sr := a.retRange(f, 0, 6)
		c.Note("range of core.SuIntToInt (result 0) derived from its returns: %s", sr)
		c.Stats["SuIntToInt_unbounded"] = map[bool]int{true: 1, false: 0}[sr.within(ivlFullOf(ivlIntKind{64, true})) && ivlFullOf(ivlIntKind{64, true}).within(sr)]
	}

	sites := a.discover()
	r3 := "C26.3 K5 on overflow the fast path falls through to the decimal result"
	funcs := map[string]bool{}
	for _, s := range sites {
		a.decide(r2, r3, s)
		funcs[s.box.Parent().String()] = true
	}
	// today 6 sites in 6 functions (OpAdd, OpAdd1, OpSub, OpMul, OpDiv, OpUnaryMinus); the floor
	// leaves room for fast paths rewritten without native signed arithmetic (math/bits)
	c.Floor(r2, len(sites), 4, "native + - * / neg on unwrapped integers whose result is boxed with IntVal/Int64Val")
	c.Floor(r2, len(funcs), 4, "functions with an integer fast path")
	c.Stats["fast_path_sites"] = len(sites)
	c.Stats["functions_in_core_ssa"] = len(a.fns)
	return "Decided for package core (go/ssa): every call of IntVal/Int64Val whose argument derives, through native + - * / or unary minus (directly, or inside a helper of package core one call away), from an integer unwrapped from a Value " +
		"(SuIntToInt, ToInt, IfInt, ToInt64, Value.ToInt, Value.IfInt; parameters fed with such values by callers in core). Operand intervals are derived from the sources: a static callee is the union of its returned intervals " +
		"((*smi).toInt = offset into the fixed table smispace, so 16 bits; int(SuInt64.int64) = all of int, which makes SuIntToInt unbounded), constants are points, dominating comparisons with constants narrow. " +
		"If the exact result interval fits the operation's type the site is discharged by the interval alone. Otherwise the function is executed on boundary vectors of the sources (min, min+1, -1, 0, 1, 2, max-1, max, ±(⌊√max⌋+1), halves) with exact arithmetic: " +
		"a wrapped signed + - * / neg marks its result, and reaching the box with a marked argument is reported with the vector. Accepted overflow tests are therefore those computable from the operands: " +
		"comparison of result and operand signs / magnitudes, dividing back, pre-checks against math.MaxInt/MinInt (also by interval), math/bits Add64/Sub64/Mul64/Add/Sub/Mul, arithmetic in a wider integer type; " +
		"a test through an unknown call on the operands is accepted if the box is dominated by a branch depending on the result or all operands. On an overflowing vector some path must return normally (fall through to the decimal path). " +
		"Not decided: interior (non-boundary) operand values, decimal arithmetic itself, comparisons and hashing across representations (C28), shifts (<< is not claimed), % and bit operations (cannot overflow), the packages outside core (builtin number methods)."
}

func (a *c26) addFn(f *ssa.Function) {
	if f == nil || len(f.Blocks) == 0 {
		return
	}
	a.fns = append(a.fns, f)
	for _, an := range f.AnonFuncs {
		a.addFn(an)
	}
}

// smallIntAxiom: the only bounded source.  (*smi).toInt returns int(uintptr(p)-base)+K where
// every *smi points into the package-level array (element size 1) whose first element's
// address is base; so the result is in [K, K+len-1].
func (a *c26) smallIntAxiom(rule string) {
	c, p := a.c, a.p
	smi := p.NamedType("core", "smi")
	toInt := p.DeclaredMethod("core", "smi", "toInt")
	if !c.need(rule, "type core.smi", smi) || !c.need(rule, "core.(*smi).toInt", toInt) {
		return
	}
	a.srcFn[toInt] = false // not a source of unbounded values; summarised below
	corePk := p.Pkg("core")
	// the table: the package-level array of smi
	var table *types.Var
	var tlen int64
	sc := corePk.Types.Scope()
	for _, n := range sc.Names() {
		if v, ok := sc.Lookup(n).(*types.Var); ok {
			if at, ok := v.Type().Underlying().(*types.Array); ok && types.Identical(at.Elem(), smi) {
				table, tlen = v, at.Len()
			}
		}
	}
	if table == nil {
		c.Missing(rule, "package-level array of core.smi (the small-integer table)")
		return
	}
	elemSize := a.sizes.Sizeof(smi)
	// every *smi is the address of a table element: no other &x of type *smi, no conversion
	// to *smi, no new(smi)
	ptrSmi := types.NewPointer(smi)
	var stray []string
	nAddr := 0
	var base *types.Var // package var initialised with the address of table[0]
	for _, f := range corePk.Syntax {
		ast.Inspect(f, func(n ast.Node) bool {
			switch x := n.(type) {
			case *ast.UnaryExpr:
				if x.Op == token.AND {
					if t := corePk.TypesInfo.TypeOf(x); t != nil && types.Identical(t, ptrSmi) {
						ix, ok := ast.Unparen(x.X).(*ast.IndexExpr)
						if ok && ObjOf(corePk.TypesInfo, ix.X) == types.Object(table) {
							nAddr++
						} else {
							stray = append(stray, p.Pos(x))
						}
					}
				}
			case *ast.CallExpr:
				if tv, ok := corePk.TypesInfo.Types[x.Fun]; ok && tv.IsType() && types.Identical(tv.Type, ptrSmi) && len(x.Args) == 1 {
					if !isNilIdent(corePk.TypesInfo, x.Args[0]) { // (*smi)(nil) makes no pointer
						stray = append(stray, p.Pos(x))
					}
				}
				if IsBuiltin(corePk.TypesInfo, x, "new") && len(x.Args) == 1 {
					if t := corePk.TypesInfo.TypeOf(x.Args[0]); t != nil && types.Identical(t, smi) {
						stray = append(stray, p.Pos(x))
					}
				}
			case *ast.ValueSpec:
				for i, nm := range x.Names {
					if i >= len(x.Values) {
						continue
					}
					v, _ := corePk.TypesInfo.Defs[nm].(*types.Var)
					if v == nil || v.Parent() != sc {
						continue
					}
					// uintptr(unsafe.Pointer(&table[0]))
					ast.Inspect(x.Values[i], func(m ast.Node) bool {
						if u, ok := m.(*ast.UnaryExpr); ok && u.Op == token.AND {
							if ix, ok := ast.Unparen(u.X).(*ast.IndexExpr); ok && ObjOf(corePk.TypesInfo, ix.X) == types.Object(table) {
								if k := ConstVal(corePk.TypesInfo, ix.Index); k != nil && constant.Sign(k) == 0 {
									if b, ok := v.Type().Underlying().(*types.Basic); ok && b.Kind() == types.Uintptr {
										base = v
									}
								}
							}
						}
						return true
					})
				}
			}
			return true
		})
	}
	// shape of toInt in SSA: return Convert(int ← (uintptr(p) - load(base))) + K
	var K *big.Int
	shape := false
	if f := a.prog.FuncValue(toInt); f != nil && base != nil {
		for _, b := range f.Blocks {
			for _, in := range b.Instrs {
				ret, ok := in.(*ssa.Return)
				if !ok || len(ret.Results) != 1 {
					continue
				}
				add, ok := ret.Results[0].(*ssa.BinOp)
				if !ok || add.Op != token.ADD {
					continue
				}
				x, k := add.X, ssaConstInt(add.Y)
				if k == nil {
					x, k = add.Y, ssaConstInt(add.X)
				}
				cv, ok := x.(*ssa.Convert)
				if k == nil || !ok {
					continue
				}
				sub, ok := cv.X.(*ssa.BinOp)
				if !ok || sub.Op != token.SUB {
					continue
				}
				ld, ok := sub.Y.(*ssa.UnOp)
				if !ok || ld.Op != token.MUL {
					continue
				}
				g, ok := ld.X.(*ssa.Global)
				if !ok || g.Object() != types.Object(base) {
					continue
				}
				// the minuend derives from the receiver
				fromRecv := false
				seen := map[ssa.Value]bool{}
				var up func(v ssa.Value)
				up = func(v ssa.Value) {
					if seen[v] {
						return
					}
					seen[v] = true
					if len(f.Params) > 0 && v == ssa.Value(f.Params[0]) {
						fromRecv = true
					}
					if in, ok := v.(ssa.Instruction); ok {
						for _, op := range in.Operands(nil) {
							if *op != nil {
								up(*op)
							}
						}
					}
				}
				up(sub.X)
				if fromRecv {
					K, shape = k, true
				}
			}
		}
	}
	ok := shape && len(stray) == 0 && nAddr >= 1 && elemSize == 1 && tlen > 0
	detail := ""
	if !ok {
		detail = fmt.Sprintf("table=%v len=%d element size=%d; address-of table element sites=%d; other ways to make a *smi: %v; toInt has the shape int(uintptr(recv)-base)+K: %v — the small-integer source is then treated as unbounded",
			table.Name(), tlen, elemSize, nAddr, stray, shape)
	}
	c.Obl(rule, "core.(*smi).toInt is an offset into the fixed table, every *smi points into it", p.PosOf(toInt.Pos()), ok, detail)
	if ok {
		hi := new(big.Int).Add(K, bigI(tlen-1))
		a.axiom[a.prog.FuncValue(toInt)] = ivl{lo: K, hi: hi}
		c.Note("(*smi).toInt ∈ [%s, %s] (table %s of %d one-byte elements, offset constant %s)", K, hi, table.Name(), tlen, K)
	}
}

// discover finds the (box, arithmetic) pairs.
func (a *c26) discover() []*arithSite {
	var out []*arithSite
	// parameters that receive unwrapped integers from callers inside core
	fedParams := map[*ssa.Parameter]bool{}
	for _, f := range a.fns {
		for _, b := range f.Blocks {
			for _, in := range b.Instrs {
				call, ok := in.(*ssa.Call)
				if !ok {
					continue
				}
				cal := call.Common().StaticCallee()
				if cal == nil || cal.Pkg != a.core || len(cal.Blocks) == 0 || call.Common().IsInvoke() {
					continue
				}
				for i, arg := range call.Common().Args {
					if i >= len(cal.Params) {
						break
					}
					if _, isInt := a.kindOf(arg.Type()); !isInt {
						continue
					}
					has := false
					a.walk(arg, 2, map[ssa.Value]bool{}, func(v ssa.Value) {
						if a.sourceOf(v) != nil {
							has = true
						}
					})
					if has {
						fedParams[cal.Params[i]] = true
					}
				}
			}
		}
	}
	for _, f := range a.fns {
		for _, b := range f.Blocks {
			for _, in := range b.Instrs {
				call, ok := in.(*ssa.Call)
				if !ok {
					continue
				}
				cal := call.Common().StaticCallee()
				if cal == nil || !a.box[cal] || len(call.Common().Args) != 1 {
					continue
				}
				var ariths, allSrcs []ssa.Value
				allPar := false
				a.walk(call.Common().Args[0], 2, map[ssa.Value]bool{}, func(v ssa.Value) {
					if _, _, _, ok := isArith(v, a.kindOf); ok {
						ariths = append(ariths, v)
					}
					if a.sourceOf(v) != nil && v.Parent() == f {
						allSrcs = append(allSrcs, v)
					}
					if pr, ok := v.(*ssa.Parameter); ok && fedParams[pr] && pr.Parent() == f {
						allSrcs = append(allSrcs, v)
						allPar = true
					}
				})
				for _, n := range ariths {
					op, x, y, _ := isArith(n, a.kindOf)
					var srcs []ssa.Value
					viaPar := false
					a.walk(n, 2, map[ssa.Value]bool{}, func(v ssa.Value) {
						if a.sourceOf(v) != nil && v.Parent() == f {
							srcs = append(srcs, v)
						}
						if pr, ok := v.(*ssa.Parameter); ok && fedParams[pr] && pr.Parent() == f {
							srcs = append(srcs, v)
							viaPar = true
						}
					})
					if n.(ssa.Instruction).Parent() != f {
						// the operation lives in a helper: its operands are the helper's
						// parameters, fed from the sources the boxed value depends on
						srcs, viaPar = allSrcs, allPar
					}
					if len(srcs) == 0 {
						continue
					}
					out = append(out, &arithSite{box: call, n: n.(ssa.Instruction), op: op, x: x, y: y, inFn: n.(ssa.Instruction).Parent(), srcs: srcs, viaPar: viaPar})
				}
			}
		}
	}
	return out
}

func (a *c26) srcRange(v ssa.Value) ivl {
	if pr, ok := v.(*ssa.Parameter); ok {
		return a.full(pr.Type()) // fed by callers with unwrapped values
	}
	return a.valueRange(v, nil, 6)
}

func arithOpName(op token.Token, unary bool) string {
	if unary {
		return "unary -"
	}
	return op.String()
}

func (a *c26) decide(r2, r3 string, s *arithSite) {
	c, p := a.c, a.p
	fn := s.box.Parent()
	boxName := s.box.Common().StaticCallee().Name()
	where := fn.String()
	if s.inFn != fn {
		where += " (in " + s.inFn.String() + ")"
	}
	keyName := fmt.Sprintf("%s: native %s boxed by %s", strings.ReplaceAll(where, modPath+"/", ""), arithOpName(s.op, s.y == nil), boxName)
	pos := p.PosOf(s.n.Pos())
	k, _ := a.kindOf(s.n.(ssa.Value).Type())
	full := ivlFullOf(k)
	blk := s.n.Block()
	xr := a.valueRange(s.x, blk, 6)
	var yr ivl
	can := true
	switch {
	case s.y == nil:
		can = xr.contains(full.lo)
	case s.op == token.QUO:
		yr = a.valueRange(s.y, blk, 6)
		can = xr.contains(full.lo) && yr.contains(bigI(-1))
	default:
		yr = a.valueRange(s.y, blk, 6)
		ex, _ := ivlArith(s.op, xr, yr)
		can = !ex.within(full)
	}
	ranges := "operand in " + xr.String()
	if s.y != nil {
		ranges = "operands in " + xr.String() + " and " + yr.String()
	}
	if !can {
		c.Obl(r2, keyName, pos, true, "cannot overflow: "+ranges)
		return
	}
	// boundary vectors
	var cands [][]*big.Int
	for _, src := range s.srcs {
		cands = append(cands, boundaryVals(a.srcRange(src)))
	}
	total := 1
	for _, cs := range cands {
		total *= len(cs)
	}
	if total > 4000 {
		for i := range cands {
			if len(cands[i]) > 6 {
				cands[i] = cands[i][:6]
			}
		}
	}
	idx := make([]int, len(cands))
	nOvf, nVec := 0, 0
	var counter, undecided, noReturn []string
	for {
		vec := make([]*big.Int, len(cands))
		for i := range cands {
			vec[i] = cands[i][idx[i]]
		}
		nVec++
		m := &ssaMachine{a: a, presets: map[ssa.Value]ssaVal{}, wrapped: map[ssa.Instruction]bool{}}
		var args []ssaVal
		for _, pr := range fn.Params {
			args = append(args, ssaUnknown(false))
			_ = pr
		}
		for i, src := range s.srcs {
			v := ssaVal{known: true, isInt: true, i: vec[i], dep: true}
			switch x := src.(type) {
			case *ssa.Parameter:
				for j, pr := range fn.Params {
					if pr == x {
						args[j] = v
					}
				}
			case *ssa.Extract:
				t := ssaVal{known: true, dep: true}
				tt := x.Tuple.Type().(*types.Tuple)
				for j := 0; j < tt.Len(); j++ {
					switch {
					case j == 0:
						t.elems = append(t.elems, v)
					case isBoolType(tt.At(j).Type()):
						t.elems = append(t.elems, ssaVal{known: true, b: true, dep: true})
					default:
						t.elems = append(t.elems, ssaUnknown(true))
					}
				}
				m.presets[x.Tuple] = t
			default:
				m.presets[src] = v
			}
		}
		outs := m.run(fn, args, 3)
		// did the operation overflow on this vector?  (it did if some value anywhere was marked by it)
		ovfHere, boxed, tainted := false, false, false
		for _, h := range m.hits {
			if h.call != s.box {
				continue
			}
			if h.arg.known && h.arg.ovf[s.n] {
				ovfHere = true
				if h.tainted {
					tainted = true
				} else {
					boxed = true
				}
			}
		}
		exact := a.overflows(s, m, vec)
		if exact {
			nOvf++
			if boxed && len(counter) < 3 {
				counter = append(counter, a.describe(s, vec))
			} else if tainted || (!ovfHere && m.aborted) {
				if len(undecided) < 3 {
					undecided = append(undecided, a.describe(s, vec))
				}
			}
			ret := false
			for _, o := range outs {
				if o.kind == "return" || o.kind == "abort" {
					ret = true
				}
			}
			if !ret && len(noReturn) < 3 {
				noReturn = append(noReturn, a.describe(s, vec))
			}
		}
		// next vector
		i := 0
		for ; i < len(idx); i++ {
			idx[i]++
			if idx[i] < len(cands[i]) {
				break
			}
			idx[i] = 0
		}
		if i == len(idx) {
			break
		}
	}
	c.Stats["vectors_executed"] += nVec
	switch {
	case len(counter) > 0:
		c.Obl(r2, keyName, pos, false, fmt.Sprintf("%s: the operation can overflow and its wrapped result is boxed, e.g. %s — the result wraps around instead of falling back to decimal arithmetic (%d of %d boundary vectors overflow)",
			ranges, strings.Join(counter, "; "), nOvf, nVec))
		return
	case len(undecided) > 0:
		// structural fallback: the box is dominated by a branch on a value depending on the
		// result or on every source
		okS := a.structurallyGuarded(s)
		c.Obl(r2, keyName, pos, okS, fmt.Sprintf("%s: the overflow test could not be evaluated (e.g. %s); structural rule: the box is dominated by a branch that depends on the result or on all operands = %v", ranges, strings.Join(undecided, "; "), okS))
		if !okS {
			return
		}
	default:
		c.Obl(r2, keyName, pos, true, fmt.Sprintf("%s: can overflow; on all %d overflowing boundary vectors (of %d) the wrapped result does not reach %s", ranges, nOvf, nVec, boxName))
	}
	if nOvf > 0 {
		detail := fmt.Sprintf("on each of the %d overflowing boundary vectors some path reaches a normal return", nOvf)
		if len(noReturn) > 0 {
			detail = fmt.Sprintf("on overflow (e.g. %s) every path panics: the property requires the decimal result, not an exception", strings.Join(noReturn, "; "))
		}
		c.Obl(r3, keyName+": overflow falls through to a normal return", pos, len(noReturn) == 0, detail)
	}
}

func isBoolType(t types.Type) bool {
	b, ok := t.Underlying().(*types.Basic)
	return ok && b.Info()&types.IsBoolean != 0
}

// overflows: with the sources set to vec, does the operation's exact result leave its type?
// Determined by executing the function with marks: any box hit, return value or the ssaMachine's
// own record.  We recompute directly from the operand values reached in the run when they are
// the sources themselves; otherwise fall back on "some marked value was produced".
func (a *c26) overflows(s *arithSite, m *ssaMachine, vec []*big.Int) bool {
	val := func(v ssa.Value) *big.Int {
		for i, src := range s.srcs {
			if src == v {
				return vec[i]
			}
		}
		if k := ssaConstInt(v); k != nil {
			return k
		}
		return nil
	}
	k, _ := a.kindOf(s.n.(ssa.Value).Type())
	full := ivlFullOf(k)
	if m.wrapped[s.n] {
		return true
	}
	x := val(s.x)
	if x == nil {
		return false
	}
	if s.y == nil {
		return !ivl{lo: full.lo, hi: full.hi}.contains(new(big.Int).Neg(x))
	}
	y := val(s.y)
	if y == nil {
		return false
	}
	var ex *big.Int
	switch s.op {
	case token.ADD:
		ex = new(big.Int).Add(x, y)
	case token.SUB:
		ex = new(big.Int).Sub(x, y)
	case token.MUL:
		ex = new(big.Int).Mul(x, y)
	case token.QUO:
		if y.Sign() == 0 {
			return false
		}
		ex = new(big.Int).Quo(x, y)
	}
	return ex.Cmp(full.lo) < 0 || ex.Cmp(full.hi) > 0
}

func (a *c26) describe(s *arithSite, vec []*big.Int) string {
	var parts []string
	for i, src := range s.srcs {
		n := src.Name()
		if call := a.sourceOf(src); call != nil {
			var arg ssa.Value
			if call.Common().IsInvoke() {
				arg = call.Common().Value
			} else if len(call.Common().Args) > 0 {
				arg = call.Common().Args[0]
			}
			for arg != nil {
				switch x := arg.(type) {
				case *ssa.MakeInterface:
					arg = x.X
					continue
				case *ssa.ChangeInterface:
					arg = x.X
					continue
				case *ssa.ChangeType:
					arg = x.X
					continue
				}
				break
			}
			if arg != nil {
				n = arg.Name()
			}
		}
		parts = append(parts, fmt.Sprintf("%s=%s", n, vec[i]))
	}
	return strings.Join(parts, ", ")
}

func boundaryVals(r ivl) []*big.Int {
	var out []*big.Int
	seen := map[string]bool{}
	add := func(v *big.Int) {
		if r.contains(v) && !seen[v.String()] {
			seen[v.String()] = true
			out = append(out, v)
		}
	}
	one := bigI(1)
	add(r.hi)
	add(r.lo)
	add(bigI(-1))
	add(bigI(1))
	add(bigI(0))
	add(new(big.Int).Sub(r.hi, one))
	add(new(big.Int).Add(r.lo, one))
	add(bigI(2))
	sq := new(big.Int).Sqrt(new(big.Int).Abs(r.hi))
	add(new(big.Int).Add(sq, one))
	add(new(big.Int).Neg(new(big.Int).Add(sq, one)))
	add(new(big.Int).Add(new(big.Int).Quo(r.hi, bigI(2)), one))
	add(new(big.Int).Sub(new(big.Int).Quo(r.lo, bigI(2)), one))
	return out
}

// structurallyGuarded: the box is dominated by a branch whose condition depends on the
// operation's result or on all of its sources.
func (a *c26) structurallyGuarded(s *arithSite) bool {
	for _, dc := range ssaDomConds(s.box.Block()) {
		deps := map[ssa.Value]bool{}
		seen := map[ssa.Value]bool{}
		var up func(v ssa.Value, depth int)
		up = func(v ssa.Value, depth int) {
			if v == nil || seen[v] || depth <= 0 {
				return
			}
			seen[v] = true
			deps[v] = true
			if in, ok := v.(ssa.Instruction); ok {
				for _, op := range in.Operands(nil) {
					if *op != nil {
						up(*op, depth)
					}
				}
			}
			if h := a.helperOf(v); h != nil {
				for _, b := range h.fn.Blocks {
					for _, in := range b.Instrs {
						if ret, ok := in.(*ssa.Return); ok {
							for _, r := range ret.Results {
								up(r, depth-1)
							}
						}
					}
				}
			}
		}
		up(dc.cond, 3)
		if deps[s.n.(ssa.Value)] {
			return true
		}
		all := true
		for _, src := range s.srcs {
			if !deps[src] {
				all = false
			}
		}
		if all {
			return true
		}
	}
	return false
}

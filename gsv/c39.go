package main

// C39 (one clause): the fixed-array nodes of the ordered key set and range set used by
// the conflict checker compare a slot only inside their size, so membership answers are
// about keys that were inserted (including the zero value ""), and the "capacity
// exceeded" verdict of Insert is used by every caller.  Everything else about the
// abstract types (ordering, splits, sortlist, bloom, roaring, shmap, caches) is not decided.

import (
	"go/ast"
	"go/types"
)

func init() {
	register("C39", checkC39, "./db19/...", "./util/ordset/...", "./util/ranges/...", "./util/lrucache/...", "./util/cache/...", "./util/roaring/...")
}

func checkC39(c *Ctx) string {
	p := c.P
	checkBoundedSlotReads(c, "C39.1 K4c a slot at a searched index is compared only after index < size")
	r2 := "C39.2 K8 the capacity verdict of the checker's sets is used"
	var fns []*types.Func
	for _, s := range [][3]string{{"util/ordset", "Set", "Insert"}, {"util/ranges", "Ranges", "Insert"}} {
		f := p.DeclaredMethod(s[0], s[1], s[2])
		if c.need(r2, s[0]+"."+s[1]+"."+s[2], f) {
			fns = append(fns, f)
		}
	}
	n := 0
	for _, fs := range p.AllSrcs {
		if fs.Body == nil || fs.Lit != nil {
			continue
		}
		calls := p.CallsIn(fs, fns...)
		if len(calls) == 0 {
			continue
		}
		par := parentMap(fs.Body)
		for _, call := range calls {
			n++
			_, dropped := par[call].(*ast.ExprStmt)
			c.Obl(r2, fs.name+": result of "+Callee(fs.Info(), call).Name()+" is used", p.Pos(call), !dropped,
				"the set reports that it is full (or how much it grew) and the caller ignores it: a transaction beyond the limit keeps running with an incomplete read/write set")
		}
	}
	c.Floor(r2, n, 2, "calls of the checker sets' Insert")
	checkLruCapacityFitsIndex(c, "C39.3 K23 every capacity of the LRU cache fits its index type")
	checkCacheHitNeedsUsedSlot(c, "C39.4 K4c the small cache returns values only from filled slots")
	checkRecycledBlocksCleared(c, "C39.5 K4 recycled bitmap blocks are cleared")
	checkInsertRoutedBySearch(c, "C39.6 K11 inserts go to the leaf the search selects")
	return "One clause of C39: in util/ordset and util/ranges every comparison of slots[i] at an index that came from a binary search (which may equal size) is guarded by i < size " +
		"(found and fixed: ordset leafNode.insert, so that Insert(\"\") stores the empty key), and the result of Set.Insert / Ranges.Insert is used by every caller. Also: in ranges.Insert / ordset.Insert the tree position that selects the receiving leaf is only ever computed by searchBinary(key); every capacity lrucache.New can choose fits the element type of its index slice; util/cache returns a stored value only from a slot marked used and marks the slots it fills; util/roaring clears a block recycled from its pool before handing it out (found and fixed). " +
		"NOT decided: ordering and split logic, range merging, sortlist, bloom, the bit arithmetic of roaring, shmap, the LRU order."
}

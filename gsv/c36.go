package main

// C36 (one clause) read-only objects reject every mutation: every store into a
// SuObject's list / named / defval is dominated by mustBeMutable on that object.

import (
	"fmt"
	"go/ast"
	"go/types"
	"strings"
)

func init() { register("C36", checkC36, "./core") }

// suObjAnchors: the types and fields shared by C36 and C43.
type suObjAnchors struct {
	obT, recT           *types.Named
	list, named, defval *types.Var
	readonly, version   *types.Var
	clock, sorting      *types.Var
	copyCount           *types.Var
	recOb               *types.Var
	mustBeMutable       *types.Func
	namedMut            map[*types.Func]bool
}

func getSuObj(c *Ctx, rule string) *suObjAnchors {
	p := c.P
	a := &suObjAnchors{
		obT: p.NamedType("core", "SuObject"), recT: p.NamedType("core", "SuRecord"),
		list: p.Field("core", "SuObject", "list"), named: p.Field("core", "SuObject", "named"), defval: p.Field("core", "SuObject", "defval"),
		readonly: p.Field("core", "SuObject", "readonly"), version: p.Field("core", "SuObject", "version"), clock: p.Field("core", "SuObject", "clock"),
		sorting: p.Field("core", "SuObject", "sorting"), copyCount: p.Field("core", "SuObject", "copyCount"), recOb: p.Field("core", "SuRecord", "ob"),
		mustBeMutable: p.DeclaredMethod("core", "SuObject", "mustBeMutable"),
	}
	ok := c.need(rule, "core.SuObject", a.obT) && c.need(rule, "core.SuRecord", a.recT)
	for n, f := range map[string]*types.Var{"list": a.list, "named": a.named, "defval": a.defval, "readonly": a.readonly, "version": a.version,
		"clock": a.clock, "sorting": a.sorting, "copyCount": a.copyCount} {
		ok = c.need(rule, "core.SuObject."+n, f) && ok
	}
	ok = c.need(rule, "core.SuRecord.ob", a.recOb) && c.need(rule, "core.SuObject.mustBeMutable", a.mustBeMutable) && ok
	if !ok {
		return nil
	}
	// mutating methods of the map type of `named`
	if nt := namedOf(a.named.Type()); nt != nil {
		a.namedMut = recvMutators(p, nt.Origin())
	}
	if len(a.namedMut) < 3 {
		c.Missing(rule, "mutating methods (Put/Del/Clear…) of the type of SuObject.named")
		return nil
	}
	return a
}

// normObj: reference of an object expression; a SuRecord stands for its embedded object.
func (a *suObjAnchors) normObj(info *types.Info, e ast.Expr) objRef {
	r := refOf(info, e)
	if n := namedOf(info.TypeOf(e)); n != nil && n == a.recT {
		return r.add(".ob")
	}
	return r
}

func checkC36(c *Ctx) string {
	p := c.P
	r0 := "C36.0 anchors"
	r1 := "C36.1 K4c mustBeMutable refuses read-only objects"
	r2 := "C36.2 K4 every store into list/named/defval is dominated by mustBeMutable on the same object"
	r3 := "C36.3 K2 the readonly flag is only ever set"
	a := getSuObj(c, r0)
	if a == nil {
		return "anchors missing"
	}
	// ---- 1. mustBeMutable: panic on the readonly edge, before its own (copy-on-write) stores
	mfs := c.src(r1, a.mustBeMutable, "core.SuObject.mustBeMutable")
	if mfs == nil {
		return "anchors missing"
	}
	{
		recv := mfs.Recv()
		info := mfs.Info()
		fl := &Flow{P: p, Node: Labeler(PanicCall("panic"), StoreTo("store", true, a.list, a.named, a.defval)),
			Edge: func(fs *FuncSrc, cond ast.Expr, truth bool) []string {
				if FieldOf(info, cond) == a.readonly {
					if id := rootIdent(cond); id != nil && info.Uses[id] == types.Object(recv) {
						if truth {
							return []string{"@readonly"}
						}
						return []string{"@mutable"}
					}
				}
				return nil
			}}
		res := fl.Analyze(mfs)
		n := 0
		for _, s := range res.Of("panic") {
			if s.Before.Has("@readonly") {
				n++
			}
		}
		c.Obl(r1, "mustBeMutable panics on the edge where ob.readonly is true", p.Pos(mfs.Decl), n >= 1,
			"the one check every mutator relies on no longer refuses read-only objects")
		for _, r := range res.Returns {
			c.Obl(r1, "mustBeMutable returns only when the object is not read-only", p.Pos(r.Node), r.Before.Has("@mutable"), "a normal return without having tested ob.readonly")
		}
		for _, s := range res.Of("store") {
			c.Obl(r1, "mustBeMutable's own copy-on-write stores come after the readonly test", p.Pos(s.Node), s.Before.Has("@mutable"), "")
		}
	}
	// ---- ensures-mutable set: methods of SuObject that call mustBeMutable (or such a method) on their receiver on every path
	mm := map[*types.Func]bool{a.mustBeMutable: true}
	var obMethods []*FuncSrc
	for i := 0; i < a.obT.NumMethods(); i++ {
		if fs := p.Src(a.obT.Method(i)); fs != nil && fs.Body != nil {
			obMethods = append(obMethods, fs)
		}
	}
	for changed := true; changed; {
		changed = false
		for _, fs := range obMethods {
			if mm[fs.Obj] || fs.Recv() == nil {
				continue
			}
			recv := fs.Recv()
			ev := Ev{"mm", func(f *FuncSrc, n ast.Node) bool {
				call, ok := n.(*ast.CallExpr)
				if !ok {
					return false
				}
				cal := Callee(f.Info(), call)
				if cal == nil || !mm[cal] {
					return false
				}
				sel, ok := ast.Unparen(call.Fun).(*ast.SelectorExpr)
				if !ok {
					return false
				}
				id, ok := ast.Unparen(sel.X).(*ast.Ident)
				return ok && f.Info().Uses[id] == types.Object(recv)
			}}
			// cheap pre-test
			if len(p.FuncsWith([]string{"core"}, ev)[fs]) == 0 {
				continue
			}
			fl := &Flow{P: p, Node: Labeler(ev)}
			res := fl.Analyze(fs)
			all := len(res.Returns) > 0
			for _, r := range res.Returns {
				if !r.Before.Has("mm") {
					all = false
				}
			}
			if all {
				mm[fs.Obj] = true
				changed = true
			}
		}
	}
	c.Stats["ensures_mutable_methods"] = len(mm)
	c.Floor(r2, len(mm), 6, "methods that establish mutability on every path (mustBeMutable, startMutate, set, delete, erase, deleteAll, …)")

	g := &guardDiscipline{c: c, p: p, pkg: "core", norm: a.normObj}
	g.events = func(fs *FuncSrc, n ast.Node) []string {
		call, ok := n.(*ast.CallExpr)
		if !ok {
			return nil
		}
		cal := Callee(fs.Info(), call)
		if cal == nil || !mm[cal] {
			return nil
		}
		if sel, ok := ast.Unparen(call.Fun).(*ast.SelectorExpr); ok {
			if r := a.normObj(fs.Info(), sel.X); r.ok() {
				return []string{"M:" + r.key()}
			}
		}
		return nil
	}
	g.reqs = func(u *gUnit, n ast.Node) []guardReq {
		sel, ok := n.(*ast.SelectorExpr)
		if !ok {
			return nil
		}
		f := FieldOf(u.fs.Info(), sel)
		if f == nil || (f != a.list && f != a.named && f != a.defval) {
			return nil
		}
		if sameFunc(u.fs.Outer().Obj, a.mustBeMutable) {
			return nil // checked by rule 1
		}
		if writeContext(p, u.fs.Info(), u.par, sel, a.namedMut) != "w" {
			return nil
		}
		return []guardReq{{obj: sel.X, kind: "M", what: "store into " + f.Name()}}
	}
	g.holds = func(before Set, key, kind string, u *gUnit) bool { return before.Has("M:" + key) }
	g.carrier = func(fs *FuncSrc) bool { return fs.Obj != nil && !fs.Obj.Exported() }
	g.run()
	sites, units := g.report(r2, "a read-only (or being-sorted, or copy-on-write shared) object is modified without the check that refuses it", nil,
		func(string) string { return "mustBeMutable" })
	c.Floor(r2, sites, 25, "stores into SuObject.list/named/defval")
	c.Floor(r2, units, 12, "functions that store into an object")

	// ---- 3. readonly only set to true
	n := 0
	for _, fs := range p.FuncsIn("core") {
		ForEachNode(fs, func(nd ast.Node) {
			as, ok := nd.(*ast.AssignStmt)
			if !ok {
				return
			}
			for i, l := range as.Lhs {
				if lhsField(fs.Info(), l, false) != a.readonly {
					continue
				}
				n++
				v := ConstVal(fs.Info(), as.Rhs[min(i, len(as.Rhs)-1)])
				c.Obl(r3, fs.name+": readonly is assigned the constant true", p.Pos(as), v != nil && v.String() == "true",
					"an object that was made read-only (and may be shared without locking because of it) becomes writable again")
			}
		})
	}
	c.Floor(r3, n, 1, "assignments to SuObject.readonly")

	// ---- 4. storage handed to another object keeps its copy-on-write counter
	r4 := "C36.4 K11 list/named storage of an existing object is shared with a new object only together with copyCount"
	nshare := 0
	for _, fs := range p.FuncsIn("core") {
		if fs.Body == nil {
			continue
		}
		info := fs.Info()
		defs := buildDefs(fs)
		ForEachNode(fs, func(nd ast.Node) {
			cl, ok := nd.(*ast.CompositeLit)
			if !ok || namedOf(info.TypeOf(cl)) != a.obT {
				return
			}
			set := litFields(info, cl)
			// the objects whose storage flows into this literal
			var src []objRef
			for _, f := range []*types.Var{a.list, a.named} {
				v := set[f]
				if v == nil {
					continue
				}
				defs.Mentions(info, v, func(m ast.Node) bool {
					if sel, ok := m.(*ast.SelectorExpr); ok && FieldOf(info, sel) == f {
						if r := refOf(info, sel.X); r.ok() {
							src = append(src, r)
						}
					}
					if call, ok := m.(*ast.CallExpr); ok {
						// a copying call ends the flow: slc.Clone(x.list), x.named.Copy()
						if cal := Callee(info, call); cal != nil && (cal.Name() == "Clone" || cal.Name() == "Copy") {
							return true
						}
					}
					return false
				})
			}
			if len(src) == 0 {
				return
			}
			nshare++
			okCC := false
			if cv := set[a.copyCount]; cv != nil {
				if sel, ok := ast.Unparen(cv).(*ast.SelectorExpr); ok && FieldOf(info, sel) == a.copyCount {
					r := refOf(info, sel.X)
					okCC = true
					for _, s := range src {
						if s.key() != r.key() {
							okCC = false
						}
					}
				}
			}
			c.Obl(r4, fs.name+": a new object built on "+src[0].String()+"'s list/named also takes "+src[0].String()+".copyCount", p.Pos(cl), okCC,
				"two objects share list/named storage without the shared counter: mustBeMutable of the new object sees no sharer and writes in place — the other object changes too (and, once shared between threads, without any common lock)")
		})
	}
	c.Floor(r4, nshare, 2, "object literals built on another object's storage (slice, SuRecordFromObject)")

	var mmNames []string
	for f := range mm {
		mmNames = append(mmNames, f.Name())
	}
	checkEraseMigratesTail(c, "C36.8 K14 Erase keeps the elements after the erased one under their own keys")
	checkKeyRouting(c, "C36.7 K14 an integer key is routed to the list part exactly when it is inside the list")
	checkObjectListAndCounter(c, "C36.5 K5 list growth is followed by migrate", "C36.6 K5 copy-on-write ends with a fresh copy counter")
	return fmt.Sprintf("Static clause of 'read-only objects reject every mutation': mustBeMutable panics on the readonly edge and returns only on the other; every store into SuObject.list (element, slice, append, copy, sort), "+
		"SuObject.named (assignment or mutating method of the map type, found by effect) or SuObject.defval in package core is preceded on every path by a call, on the same object (root variable + field path; a record stands for r.ob), of a method that "+
		"establishes mutability on all its paths (%d found by fixed point: %s); unexported functions may instead rely on their callers, which is checked at each call site transitively; objects allocated in the function (literal, new, "+
		"result of a function returning a fresh object) are exempt; readonly is only ever assigned true; an object literal whose list/named derive from another object's list/named (not through Clone/Copy) carries that object's copyCount. Also: every growth of the list is followed by migrate() and leaving a shared copy counter by a fresh counter; get/has/set/delete/erase folded for integer keys -1, 0, len-1, len, len+1: the list part is used exactly for 0 <= key < len and the named part otherwise (a store at key == len appends); Erase moves exactly the elements after the erased one to the named part under their own index. Not decided: the remaining list/map semantics (sorting, ranges, iteration order, equality), aliases of an object under another variable.",
		len(mm), strings.Join(sortedStrings(mmNames), ", "))
}

func sortedStrings(s []string) []string {
	out := append([]string{}, s...)
	for i := range out {
		for j := i + 1; j < len(out); j++ {
			if out[j] < out[i] {
				out[i], out[j] = out[j], out[i]
			}
		}
	}
	return out
}

package main

// Rules added after the second round of seeded changes (DESIGN.md §8.2).

import (
	"go/ast"
	"go/token"
	"go/types"

	"golang.org/x/tools/go/cfg"
)

// checkRenameCoversNameFields (C21.4 / C04.6): Meta.AlterRename rewrites, for EVERY index
// of the table, every field of schema.Index that holds column names ([]string fields).
// BestKey is persisted and resolved against the column list on open: a name left
// behind makes the reopened database fail ("database corrupt").
func checkRenameCoversNameFields(c *Ctx, rule string) {
	p := c.P
	fs := c.method(rule, "db19/meta", "Meta", "AlterRename")
	idxT := p.NamedType("db19/meta/schema", "Index")
	schemaIdx := p.Field("db19/meta/schema", "Schema", "Indexes")
	if fs == nil || !c.need(rule, "schema.Index", idxT) || !c.need(rule, "schema.Schema.Indexes", schemaIdx) {
		return
	}
	st, _ := idxT.Underlying().(*types.Struct)
	// the column-name fields that are persisted: []string fields of Index that Schema.Write writes
	// (Index.Fields is derived by Ixspecs and never stored)
	writer := c.method(rule, "db19/meta", "Schema", "Write")
	if writer == nil {
		return
	}
	written := map[*types.Var]bool{}
	ForEachNode(writer, func(n ast.Node) {
		if e, ok := n.(ast.Expr); ok {
			if f := FieldOf(writer.Info(), e); f != nil {
				written[f] = true
			}
		}
	})
	var nameFields []*types.Var
	for i := 0; i < st.NumFields(); i++ {
		f := st.Field(i)
		if sl, ok := f.Type().Underlying().(*types.Slice); ok && types.Identical(sl.Elem(), types.Typ[types.String]) && written[f] {
			nameFields = append(nameFields, f)
		}
	}
	c.Floor(rule, len(nameFields), 2, "persisted []string fields of schema.Index")
	from, to := fs.ParamNamed("from"), fs.ParamNamed("to")
	if from == nil || to == nil {
		// positional fallback: the two []string parameters
		sig := fs.Obj.Type().(*types.Signature)
		var sl []*types.Var
		for i := 0; i < sig.Params().Len(); i++ {
			if _, ok := sig.Params().At(i).Type().Underlying().(*types.Slice); ok {
				sl = append(sl, sig.Params().At(i))
			}
		}
		if len(sl) == 2 {
			from, to = sl[0], sl[1]
		}
	}
	if from == nil || to == nil {
		c.Missing(rule, "from/to parameters of Meta.AlterRename")
		return
	}
	info := fs.Info()
	var labels []string
	var evs []Ev
	for _, f := range nameFields {
		f := f
		l := f.Name() + "=renamed"
		labels = append(labels, l)
		evs = append(evs, Ev{l, func(s *FuncSrc, n ast.Node) bool {
			as, ok := n.(*ast.AssignStmt)
			if !ok || len(as.Lhs) != 1 || len(as.Rhs) != 1 || lhsField(info, as.Lhs[0], false) != f {
				return false
			}
			call, ok := ast.Unparen(as.Rhs[0]).(*ast.CallExpr)
			if !ok {
				// a local computed by the renaming call
				if id := identOf(as.Rhs[0]); id != nil {
					defs := buildDefs(s)
					for _, rhs := range defs.defs[info.Uses[id]] {
						if cc, ok := ast.Unparen(rhs).(*ast.CallExpr); ok {
							call = cc
						}
					}
				}
				if call == nil {
					return false
				}
			}
			hasFrom, hasTo := false, false
			for _, a := range call.Args {
				if id := identOf(a); id != nil {
					if info.Uses[id] == types.Object(from) {
						hasFrom = true
					}
					if info.Uses[id] == types.Object(to) {
						hasTo = true
					}
				}
			}
			return hasFrom && hasTo
		}})
	}
	kills := make([]string, len(labels))
	for i, l := range labels {
		kills[i] = "-" + l
	}
	fl := &Flow{P: p, Node: Labeler(evs...), BlockEntry: func(s *FuncSrc, b *cfg.Block) []string {
		if (b.Kind == cfg.KindRangeBody || b.Kind == cfg.KindForBody) && loopOverField(info, b.Stmt, schemaIdx) != nil {
			return kills
		}
		return nil
	}}
	res := fl.Analyze(fs)
	n := 0
	for _, le := range res.Loops {
		if loopOverField(info, le.Loop, schemaIdx) == nil {
			continue
		}
		// only the loop that renames (contains at least one of the stores)
		has := false
		for _, l := range labels {
			for _, s := range res.Of(l) {
				if le.Loop.Pos() <= s.Node.Pos() && s.Node.End() <= le.Loop.End() {
					has = true
				}
			}
		}
		if !has {
			continue
		}
		if le.Kind != "back" {
			c.Obl(rule, "AlterRename: the per-index rename loop is not left early", p.Pos(le.Loop), false, "break in the rename loop")
			continue
		}
		for _, l := range labels {
			n++
			c.Obl(rule, "AlterRename: every index gets "+l+" on every iteration", p.Pos(le.Loop), le.Before.Has(l),
				"an iteration of the loop over the table's indexes can finish without rewriting this column-name field with (from, to): the persisted schema keeps the old column name and the database cannot be reopened")
		}
	}
	c.Floor(rule, n, 2, "name fields checked in the rename loop")
}

// checkScanStartsAtEnd (C05.7): every search for the latest state starts at the end of
// the data: the offset handed to Stor.LastOffset is a parameter, the result of a
// previous LastOffset, or exactly Stor.Size().  Starting earlier silently skips the
// newest fully persisted state.
func checkScanStartsAtEnd(c *Ctx, rule string) {
	p := c.P
	last := p.DeclaredMethod("db19/stor", "Stor", "LastOffset")
	size := p.DeclaredMethod("db19/stor", "Stor", "Size")
	if !c.need(rule, "stor.Stor.LastOffset", last) || !c.need(rule, "stor.Stor.Size", size) {
		return
	}
	n := 0
	for _, fs := range p.FuncsIn("db19") {
		if fs.Body == nil {
			continue
		}
		calls := p.CallsIn(fs, last)
		if len(calls) == 0 {
			continue
		}
		info := fs.Info()
		defs := buildDefs(fs)
		for _, call := range calls {
			n++
			ok, why := true, ""
			id := identOf(callArg(call, 0))
			if id == nil {
				ok, why = false, "the start offset is not a plain variable"
			} else {
				o := info.Uses[id]
				for _, rhs := range defs.defs[o] {
					rc, isCall := ast.Unparen(rhs).(*ast.CallExpr)
					if isCall && (sameFunc(Callee(info, rc), last) || sameFunc(Callee(info, rc), size)) {
						continue
					}
					ok, why = false, "the start offset is defined as "+exprStr(rhs)+", not as Stor.Size() or a previous LastOffset result"
				}
			}
			c.Obl(rule, fs.name+": backward scan for a state starts at Size() (or continues from the previous hit)", p.Pos(call), ok,
				why+": a state record that ends within the skipped bytes is never a candidate, so repair / as-of silently fall back to an older state")
		}
	}
	c.Floor(rule, n, 3, "calls of Stor.LastOffset in db19")
}

// checkCompactColumnsAfterCopy (C20.4): in a function that squeezes records with the
// schema's column list (deleted columns are marked "-" there), the column list may be
// rewritten only after the pass that copies the records.
func checkCompactColumnsAfterCopy(c *Ctx, rule string) {
	p := c.P
	squeeze := p.Func("db19/tools", "squeeze")
	cols := p.Field("db19/meta/schema", "Schema", "Columns")
	if !c.need(rule, "tools.squeeze", squeeze) || !c.need(rule, "schema.Schema.Columns", cols) {
		return
	}
	n := 0
	for _, cs := range p.CallersOf(squeeze) {
		if cs.Call == nil || cs.In.Lit == nil {
			continue
		}
		outer := cs.Fn
		// the call that receives the literal containing the squeeze call
		par := parentMap(outer.Body)
		passCall, _ := par[cs.In.Lit].(*ast.CallExpr)
		if passCall == nil {
			continue
		}
		fl := &Flow{P: p, Node: Labeler(
			Ev{"copypass", func(s *FuncSrc, nd ast.Node) bool { return nd == ast.Node(passCall) }},
			StoreTo("Columns=", false, cols))}
		res := fl.Analyze(outer)
		for _, s := range res.Of("Columns=") {
			n++
			c.Obl(rule, outer.name+": the schema's column list is rewritten only after the records were copied", p.Pos(s.Node), s.Before.Has("copypass"),
				"Schema.Columns is changed before the pass that squeezes records with it: deleted columns are no longer marked, their values are copied and every later field shifts by one")
		}
	}
	c.Floor(rule, n, 1, "stores to Schema.Columns in functions that squeeze records")
}

// checkWorkersJoinedBeforeVerdict (C20.5): a function of db19/tools that runs workers
// (sync.WaitGroup) which report failures through a local atomic.Value may report success
// only after Wait and a nil test of that value made after Wait.
func checkWorkersJoinedBeforeVerdict(c *Ctx, rule string) {
	p := c.P
	n := 0
	for _, fs := range p.FuncsIn("db19/tools") {
		if fs.Body == nil || fs.Obj == nil {
			continue
		}
		info := fs.Info()
		// local atomic.Value variables stored inside a literal
		var errVars []types.Object
		ForEachNode(fs, func(nd ast.Node) {
			call, ok := nd.(*ast.CallExpr)
			if !ok {
				return
			}
			sel, ok := call.Fun.(*ast.SelectorExpr)
			if !ok || sel.Sel.Name != "Store" {
				return
			}
			id := identOf(sel.X)
			if id == nil {
				return
			}
			o := info.Uses[id]
			if o == nil || o.Type().String() != "sync/atomic.Value" {
				return
			}
			for _, e := range errVars {
				if e == o {
					return
				}
			}
			errVars = append(errVars, o)
		})
		if len(errVars) == 0 {
			continue
		}
		isWait := func(nd ast.Node) bool {
			call, ok := nd.(*ast.CallExpr)
			if !ok {
				return false
			}
			cal := Callee(info, call)
			return cal != nil && cal.Name() == "Wait" && cal.Pkg() != nil && cal.Pkg().Path() == "sync"
		}
		hasWait := false
		ForEachNode(fs, func(nd ast.Node) {
			if isWait(nd) {
				hasWait = true
			}
		})
		if !hasWait {
			continue
		}
		loadsErr := func(e ast.Expr) bool {
			call, ok := ast.Unparen(e).(*ast.CallExpr)
			if !ok {
				return false
			}
			sel, ok := call.Fun.(*ast.SelectorExpr)
			if !ok || sel.Sel.Name != "Load" {
				return false
			}
			id := identOf(sel.X)
			if id == nil {
				return false
			}
			for _, ev := range errVars {
				if info.Uses[id] == ev {
					return true
				}
			}
			return false
		}
		fl := &Flow{P: p,
			Node: func(s *FuncSrc, nd ast.Node) []string {
				if isWait(nd) {
					return []string{"Wait", "-@errnil"}
				}
				return nil
			},
			Edge: func(s *FuncSrc, cond ast.Expr, truth bool) []string {
				be, ok := cond.(*ast.BinaryExpr)
				if !ok || (be.Op != token.EQL && be.Op != token.NEQ) {
					return nil
				}
				for _, pr := range [][2]ast.Expr{{be.X, be.Y}, {be.Y, be.X}} {
					if loadsErr(pr[0]) && isNilIdent(info, pr[1]) {
						if (be.Op == token.EQL) == truth {
							return []string{"@errnil"}
						}
					}
				}
				return nil
			}}
		res := fl.Analyze(fs)
		sig := fs.Obj.Type().(*types.Signature)
		for _, r := range res.Returns {
			if r.Fn != fs || len(r.Node.Results) == 0 || sig.Results().Len() == 0 {
				continue
			}
			lastR := r.Node.Results[len(r.Node.Results)-1]
			if !isNilIdent(info, lastR) {
				continue
			}
			n++
			c.Obl(rule, fs.name+": success is returned only after the workers were joined and reported no error", p.Pos(r.Node),
				r.Before.Has("Wait") && r.Before.Has("@errnil"),
				"a success return is not dominated by WaitGroup.Wait followed by a nil test of the workers' error value: a duplicate key found by a worker after the test is never looked at and the load reports success")
		}
	}
	c.Floor(rule, n, 1, "success returns of functions with error-reporting workers")
}

package main

// Rules added after the third round of seeded changes (DESIGN.md §8.2):
// C31.2, C32.4, C35.4, C35.5, C36.5, C36.6.

import (
	"go/ast"
	"go/constant"
	"go/token"
	"go/types"
)

// checkEofTestsRawInput (C31.2): in the lexer the end-of-input sentinel is compared only
// with a byte that came straight from read()/peek(); a decoded byte (the result of an
// escape sequence such as \x00) equal to the sentinel is data, not the end of the input.
func checkEofTestsRawInput(c *Ctx, rule string) {
	p := c.P
	eofC := p.ConstObj("compile/lexer", "eof")
	read := p.DeclaredMethod("compile/lexer", "Lexer", "read")
	peek := p.DeclaredMethod("compile/lexer", "Lexer", "peek")
	if !c.need(rule, "lexer.eof", eofC) || !c.need(rule, "lexer.Lexer.read", read) || !c.need(rule, "lexer.Lexer.peek", peek) {
		return
	}
	n := 0
	for _, fs := range p.FuncsIn("compile/lexer") {
		if fs.Body == nil {
			continue
		}
		info := fs.Info()
		isRaw := func(e ast.Expr) bool {
			call, ok := ast.Unparen(e).(*ast.CallExpr)
			if !ok {
				return false
			}
			cal := Callee(info, call)
			return sameFunc(cal, read) || sameFunc(cal, peek)
		}
		type cmp struct {
			n  ast.Node
			id *ast.Ident
		}
		var cmps []cmp
		ForEachNode(fs, func(nd ast.Node) {
			be, ok := nd.(*ast.BinaryExpr)
			if !ok || (be.Op != token.EQL && be.Op != token.NEQ) {
				return
			}
			for _, pr := range [][2]ast.Expr{{be.X, be.Y}, {be.Y, be.X}} {
				if ObjOf(info, pr[1]) != types.Object(eofC) {
					continue
				}
				if isRaw(pr[0]) {
					continue
				}
				if id := identOf(pr[0]); id != nil {
					if v, ok := info.Uses[id].(*types.Var); ok && !v.IsField() {
						// parameters: the caller's obligation (checked at the call sites that pass read() results)
						isParam := false
						if fs.Obj != nil {
							ps := fs.Obj.Type().(*types.Signature).Params()
							for i := 0; i < ps.Len(); i++ {
								if ps.At(i) == v {
									isParam = true
								}
							}
						}
						if !isParam {
							cmps = append(cmps, cmp{be, id})
						}
					}
				}
			}
		})
		if len(cmps) == 0 {
			continue
		}
		site := map[ast.Node]bool{}
		for _, x := range cmps {
			site[x.n] = true
		}
		fl := &Flow{P: p, Node: func(s *FuncSrc, nd ast.Node) []string {
			var out []string
			switch x := nd.(type) {
			case *ast.AssignStmt:
				if len(x.Lhs) == len(x.Rhs) {
					for i, l := range x.Lhs {
						if id := identOf(l); id != nil {
							if isRaw(x.Rhs[i]) {
								out = append(out, "raw:"+id.Name)
							} else {
								out = append(out, "-raw:"+id.Name)
							}
						}
					}
				}
			case *ast.ValueSpec:
				for i, nm := range x.Names {
					if i < len(x.Values) && isRaw(x.Values[i]) {
						out = append(out, "raw:"+nm.Name)
					}
				}
			}
			if site[nd] {
				out = append(out, "eofcmp")
			}
			return out
		}}
		res := fl.Analyze(fs)
		before := map[ast.Node]Set{}
		for _, s := range res.Of("eofcmp") {
			before[s.Node] = s.Before
		}
		for _, x := range cmps {
			n++
			ok := before[x.n] != nil && before[x.n].Has("raw:"+x.id.Name)
			c.Obl(rule, fs.name+": the end-of-input sentinel is compared with a byte read from the source", p.Pos(x.n), ok,
				x.id.Name+" can hold a decoded byte (not the direct result of read/peek) when it is compared with eof: an escape that decodes to the sentinel value (\\x00) is taken for the end of the input, so a terminated literal containing it is rejected")
		}
	}
	c.Floor(rule, n, 1, "comparisons of a local with the eof sentinel")
}

// checkReadAdvances (C32.4): Lexer.read consumes the byte it returns: every return
// after the source byte was loaded is preceded by the increment of the cursor.
func checkReadAdvances(c *Ctx, rule string) {
	p := c.P
	fs := c.method(rule, "compile/lexer", "Lexer", "read")
	si := p.Field("compile/lexer", "Lexer", "si")
	src := p.Field("compile/lexer", "Lexer", "src")
	if fs == nil || !c.need(rule, "lexer.Lexer.si", si) || !c.need(rule, "lexer.Lexer.src", src) {
		return
	}
	info := fs.Info()
	fl := &Flow{P: p, Node: func(s *FuncSrc, nd ast.Node) []string {
		switch x := nd.(type) {
		case *ast.IncDecStmt:
			if lhsField(info, x.X, false) == si && x.Tok == token.INC {
				return []string{"si++"}
			}
		case *ast.AssignStmt:
			if len(x.Lhs) == 1 && lhsField(info, x.Lhs[0], false) == si && (x.Tok == token.ADD_ASSIGN) {
				return []string{"si++"}
			}
		case *ast.IndexExpr:
			if FieldOf(info, x.X) == src {
				return []string{"loaded"}
			}
		}
		return nil
	}}
	res := fl.Analyze(fs)
	n := 0
	for _, r := range res.Returns {
		if !r.Before.Has("loaded") {
			continue // the end-of-input return
		}
		n++
		c.Obl(rule, "Lexer.read: a byte taken from the source is consumed before it is returned", p.Pos(r.Node), r.Before.Has("si++"),
			"read returns a byte of the source on a path that did not advance the cursor: the caller sees the same byte for ever (no progress, no Eof)")
	}
	c.Floor(rule, n, 1, "returns of Lexer.read after loading a byte")
}

// checkRecordCopyKeepsRuleState (C35.4): a record built from another record's data takes
// its dependency and invalidation state along.
func checkRecordCopyKeepsRuleState(c *Ctx, rule string) {
	p := c.P
	recT := p.NamedType("core", "SuRecord")
	obF := p.Field("core", "SuRecord", "ob")
	depF := p.Field("core", "suRec", "dependents")
	invF := p.Field("core", "suRec", "invalid")
	if !c.need(rule, "core.SuRecord", recT) || !c.need(rule, "core.SuRecord.ob", obF) || !c.need(rule, "core.suRec.dependents", depF) || !c.need(rule, "core.suRec.invalid", invF) {
		return
	}
	n := 0
	for _, fs := range p.FuncsIn("core") {
		if fs.Body == nil || fs.Obj == nil {
			continue
		}
		recv := fs.Obj.Type().(*types.Signature).Recv()
		if recv == nil {
			continue
		}
		rt := recv.Type()
		if pt, ok := rt.(*types.Pointer); ok {
			rt = pt.Elem()
		}
		if !types.Identical(rt, recT) {
			continue
		}
		info := fs.Info()
		ForEachNode(fs, func(nd ast.Node) {
			cl, ok := nd.(*ast.CompositeLit)
			if !ok {
				return
			}
			if t := info.TypeOf(cl); t == nil || !types.Identical(t, recT) {
				return
			}
			// does it copy the receiver's data?
			copies := false
			keys := map[types.Object]bool{}
			var walk func(l *ast.CompositeLit)
			walk = func(l *ast.CompositeLit) {
				for _, el := range l.Elts {
					kv, ok := el.(*ast.KeyValueExpr)
					if !ok {
						continue
					}
					if id := identOf(kv.Key); id != nil {
						keys[info.Uses[id]] = true
						if info.Uses[id] == types.Object(obF) {
							ast.Inspect(kv.Value, func(m ast.Node) bool {
								if e, ok := m.(ast.Expr); ok && FieldOf(info, e) == obF {
									if root := rootIdent(e); root != nil && info.Uses[root] == types.Object(recv) {
										copies = true
									}
								}
								return true
							})
						}
					}
					if inner, ok := kv.Value.(*ast.CompositeLit); ok {
						walk(inner)
					}
				}
			}
			walk(cl)
			if !copies {
				return
			}
			n++
			c.Obl(rule, fs.name+": a copy of the record's data carries dependents and the invalid set", p.Pos(cl), keys[depF] && keys[invF],
				"the copy gets the cached rule values but not the 'recompute me' marks / dependencies: it returns stale rule values as current")
		})
	}
	c.Floor(rule, n, 1, "record copies built from the receiver's data")
}

// checkDependencyRecordedRegardlessOfResult (C35.5): a rule's dependency on a field is
// recorded when the field is read, whether or not the field currently has a value.
func checkDependencyRecordedRegardlessOfResult(c *Ctx, rule string) {
	p := c.P
	addDep := p.DeclaredMethod("core", "SuRecord", "addDependent")
	obGet := p.DeclaredMethod("core", "SuObject", "getIfPresent")
	if !c.need(rule, "core.SuRecord.addDependent", addDep) || !c.need(rule, "core.SuObject.getIfPresent", obGet) {
		return
	}
	n := 0
	for _, fs := range p.FuncsIn("core") {
		if fs.Body == nil || len(p.CallsIn(fs, addDep)) == 0 {
			continue
		}
		info := fs.Info()
		defs := buildDefs(fs)
		fl := &Flow{P: p, Node: Labeler(CallOf("addDependent", addDep)), Edge: func(s *FuncSrc, cond ast.Expr, truth bool) []string { return []string{condLabel(cond, truth)} }}
		res := fl.Analyze(fs)
		for _, s := range res.Of("addDependent") {
			n++
			bad := ""
			for _, f := range condFactsOf(s.Before, nil) {
				if defs.Mentions(info, f.Expr, func(m ast.Node) bool {
					call, ok := m.(*ast.CallExpr)
					return ok && sameFunc(Callee(info, call), obGet)
				}) {
					bad = f.String()
				}
			}
			c.Obl(rule, fs.name+": the dependency is recorded whether or not the field has a value", p.Pos(s.Node), bad == "",
				"addDependent is guarded by "+bad+", which depends on the value looked up: a rule that read a missing field is not recomputed when the field is set later")
		}
	}
	c.Floor(rule, n, 1, "addDependent call sites")
}

// checkListGrowthMigrates (C36.5): after the list part of an object grows, named members
// whose integer keys now continue the list are moved into it (migrate), on every path.
// checkUnshareGetsFreshCounter (C36.6): copy-on-write gives the unshared object a fresh
// counter on every path after it left the shared one.
func checkObjectListAndCounter(c *Ctx, rule5, rule6 string) {
	p := c.P
	listF := p.Field("core", "SuObject", "list")
	ccF := p.Field("core", "SuObject", "copyCount")
	migrate := p.DeclaredMethod("core", "SuObject", "migrate")
	if !c.need(rule5, "core.SuObject.list", listF) || !c.need(rule5, "core.SuObject.migrate", migrate) || !c.need(rule6, "core.SuObject.copyCount", ccF) {
		return
	}
	n5, n6 := 0, 0
	for _, fs := range p.FuncsIn("core") {
		if fs.Body == nil || fs.Obj == migrate {
			continue
		}
		info := fs.Info()
		defs := buildDefs(fs)
		grows := Ev{"grow", func(s *FuncSrc, nd ast.Node) bool {
			as, ok := nd.(*ast.AssignStmt)
			if !ok || len(as.Lhs) != 1 || len(as.Rhs) != 1 || lhsField(info, as.Lhs[0], false) != listF {
				return false
			}
			call, ok := ast.Unparen(as.Rhs[0]).(*ast.CallExpr)
			return ok && IsBuiltin(info, call, "append") && len(call.Args) >= 1 && FieldOf(info, call.Args[0]) == listF
		}}
		leaves := Ev{"cc.Add(-)", func(s *FuncSrc, nd ast.Node) bool {
			call, ok := nd.(*ast.CallExpr)
			if !ok || len(call.Args) != 1 {
				return false
			}
			sel, ok := call.Fun.(*ast.SelectorExpr)
			if !ok || sel.Sel.Name != "Add" {
				return false
			}
			if FieldOf(info, sel.X) != ccF && !defs.Mentions(info, sel.X, func(m ast.Node) bool {
				e, ok := m.(ast.Expr)
				return ok && FieldOf(info, e) == ccF
			}) {
				return false
			}
			v := ConstVal(info, call.Args[0])
			return v != nil && constant.Sign(v) < 0
		}}
		fresh := Ev{"cc=new", func(s *FuncSrc, nd ast.Node) bool {
			as, ok := nd.(*ast.AssignStmt)
			if !ok || len(as.Lhs) != 1 || len(as.Rhs) != 1 || lhsField(info, as.Lhs[0], false) != ccF {
				return false
			}
			call, ok := ast.Unparen(as.Rhs[0]).(*ast.CallExpr)
			return ok && IsBuiltin(info, call, "new")
		}}
		has := false
		ForEachNode(fs, func(nd ast.Node) {
			if grows.Match(fs, nd) || leaves.Match(fs, nd) {
				has = true
			}
		})
		if !has {
			continue
		}
		fl := &Flow{P: p, Node: Labeler(grows, leaves, fresh, CallOf("migrate", migrate))}
		res := fl.Analyze(fs)
		for _, s := range res.Of("grow") {
			n5++
			c.Obl(rule5, fs.name+": after the list grows, named members that continue it are migrated", p.Pos(s.Node), s.Follows("migrate"),
				"the list part is extended on a path that does not reach migrate(): a named member whose integer key equals the new list size stays in the map (sizes, iteration order and the next Add are wrong)")
		}
		for _, s := range res.Of("cc.Add(-)") {
			n6++
			c.Obl(rule6, fs.name+": an object that leaves a shared copy counter gets a fresh one on every path", p.Pos(s.Node), s.Follows("cc=new") || s.Before.Has("cc=new"),
				"after unsharing, the object can keep the counter it shared: two objects that no longer share storage share a counter, and a later lazy copy is written through")
		}
	}
	c.Floor(rule5, n5, 2, "list growth sites outside migrate")
	c.Floor(rule6, n6, 1, "sites leaving a shared copy counter")
}

package main

// C14.4: record header size classes (core/record.go).  Added after seeded change C14-1.
// Decides, by finite evaluation of the loop-free functions involved:
//  (a) for lengths around every class boundary the offset width assumed by tblength's
//      length formula equals the width buildOffsets writes for mode(length), and the
//      length fits that width;
//  (b) the readers (Len, RecLen, GetRaw) decode, per class, big-endian offsets of exactly
//      the width the writer writes for that class, at the stride of that width.

import (
	"fmt"
	"go/ast"
	"go/constant"
	"go/token"
	"go/types"
	"sort"
	"strings"
)

func beSeq(from, k int) constant.Value {
	v := constant.MakeInt64(0)
	for i := 0; i < k; i++ {
		v = constant.BinaryOp(constant.Shift(v, token.SHL, 8), token.OR, constant.MakeInt64(int64(from+i)))
	}
	return v
}

// encoderWidth returns the number of bytes an Encoder method appends for its single
// integer argument, if the method is PutK(byte…) itself or returns PutK(big-endian bytes of n).
func encoderWidth(p *Prog, m *types.Func) (int, string) {
	sig := m.Type().(*types.Signature)
	allBytes := sig.Params().Len() > 0
	for i := 0; i < sig.Params().Len(); i++ {
		if b, ok := sig.Params().At(i).Type().Underlying().(*types.Basic); !ok || b.Kind() != types.Uint8 {
			allBytes = false
		}
	}
	if allBytes {
		return sig.Params().Len(), ""
	}
	fs := p.Src(m)
	if fs == nil || fs.Body == nil || len(fs.Body.List) != 1 || sig.Params().Len() != 1 {
		return 0, "not a single-statement method of one argument"
	}
	ret, ok := fs.Body.List[0].(*ast.ReturnStmt)
	if !ok || len(ret.Results) != 1 {
		return 0, "not a single return"
	}
	call, ok := ast.Unparen(ret.Results[0]).(*ast.CallExpr)
	if !ok {
		return 0, "does not return a call"
	}
	info := fs.Info()
	inner := Callee(info, call)
	if inner == nil {
		return 0, "unresolved callee"
	}
	k, why := encoderWidth(p, inner)
	if why != "" || k != len(call.Args) {
		return 0, "inner call is not PutK of K bytes"
	}
	env := &AbsEnv{Info: info, Locals: map[types.Object]constant.Value{sig.Params().At(0): beSeq(1, k)}}
	for i, a := range call.Args {
		v := env.expr(a)
		if v == nil {
			return 0, "argument cannot be folded"
		}
		if n, _ := constant.Int64Val(v); int(n) != i+1 {
			return 0, fmt.Sprintf("byte %d of the value is written at position %d (not big-endian)", n, i+1)
		}
	}
	return k, ""
}

func checkRecordHeaderClasses(c *Ctx, rule string) {
	p := c.P
	tbl := c.function(rule, "core", "tblength")
	modeF := c.function(rule, "core", "mode")
	bo := c.method(rule, "core", "RecordBuilder", "buildOffsets")
	hdr := p.ConstObj("core", "hdrlen")
	if tbl == nil || modeF == nil || bo == nil || !c.need(rule, "core.hdrlen", hdr) {
		return
	}
	hdrlen, _ := constant.Int64Val(hdr.Val())

	// writer widths per class
	boInfo := bo.Info()
	width := map[int64]int{}
	var wsw *ast.SwitchStmt
	ast.Inspect(bo.Body, func(n ast.Node) bool {
		if sw, ok := n.(*ast.SwitchStmt); ok && wsw == nil && sw.Tag != nil {
			if call, ok := ast.Unparen(sw.Tag).(*ast.CallExpr); ok && sameFunc(Callee(boInfo, call), modeF.Obj) {
				wsw = sw
			}
		}
		return true
	})
	if wsw == nil {
		c.Missing(rule, "buildOffsets: switch on mode(length)")
		return
	}
	lenParam := bo.Obj.Type().(*types.Signature).Params().At(1)
	for _, st := range wsw.Body.List {
		cc := st.(*ast.CaseClause)
		for _, ce := range cc.List {
			cv := ConstVal(boInfo, ce)
			if cv == nil {
				continue
			}
			m, _ := constant.Int64Val(cv)
			ws := map[int]bool{}
			why := ""
			ast.Inspect(cc, func(n ast.Node) bool {
				call, ok := n.(*ast.CallExpr)
				if !ok {
					return true
				}
				cal := Callee(boInfo, call)
				if cal == nil || cal.Pkg() == nil || !strings.HasSuffix(cal.Pkg().Path(), "util/pack") {
					return true
				}
				k, w := encoderWidth(p, cal)
				if w != "" {
					why = cal.Name() + ": " + w
				}
				ws[k] = true
				return true
			})
			k := 0
			if len(ws) == 1 && why == "" {
				for x := range ws {
					k = x
				}
			}
			c.Obl(rule, fmt.Sprintf("buildOffsets: class %d writes every offset with one big-endian width", m), p.Pos(cc), k > 0,
				fmt.Sprintf("widths written in this case: %v %s", keysOf(ws), why))
			width[m] = k
		}
	}
	_ = lenParam
	c.Floor(rule, len(width), 3, "size classes written by buildOffsets")

	// (a) tblength / mode agreement around the boundaries
	tsig := tbl.Obj.Type().(*types.Signature)
	msig := modeF.Obj.Type().(*types.Signature)
	if tsig.Params().Len() != 2 || msig.Params().Len() != 1 {
		c.Missing(rule, "tblength(nfields, datasize) / mode(length) signatures")
		return
	}
	var bad []string
	tried := 0
	for _, nf := range []int64{1, 2, 300} {
		for _, k := range []int64{1, 2, 4} {
			for _, B := range []int64{0x100, 0x10000} {
				for d := int64(-2); d <= 2; d++ {
					ds := B + d - hdrlen - k*(1+nf)
					if ds < 0 {
						continue
					}
					tenv := &AbsEnv{Info: tbl.Info(), Locals: map[types.Object]constant.Value{tsig.Params().At(0): constant.MakeInt64(nf), tsig.Params().At(1): constant.MakeInt64(ds)}}
					tr := tenv.run(tbl.Body)
					if tr.Unknown != "" || len(tr.Returns) != 1 || tr.Returns[0] == nil {
						bad = append(bad, "tblength cannot be folded: "+tr.Unknown)
						continue
					}
					L, _ := constant.Int64Val(tr.Returns[0])
					menv := &AbsEnv{Info: modeF.Info(), Locals: map[types.Object]constant.Value{msig.Params().At(0): constant.MakeInt64(L)}}
					mr := menv.run(modeF.Body)
					if mr.Unknown != "" || len(mr.Returns) != 1 || mr.Returns[0] == nil {
						bad = append(bad, "mode cannot be folded: "+mr.Unknown)
						continue
					}
					m, _ := constant.Int64Val(mr.Returns[0])
					tried++
					rest := L - hdrlen - ds
					w := int64(width[m])
					if w == 0 || rest != w*(1+nf) {
						bad = append(bad, fmt.Sprintf("tblength(%d fields, %d data bytes) = %#x leaves %d bytes for %d offsets, but mode(%#x) = class %d writes %d-byte offsets", nf, ds, L, rest, 1+nf, L, m, w))
					} else if w < 8 && L >= int64(1)<<(8*uint(w)) {
						bad = append(bad, fmt.Sprintf("length %#x does not fit the %d-byte offsets of class %d", L, w, m))
					}
				}
			}
		}
	}
	sort.Strings(bad)
	bad = uniqStrings(bad)
	if len(bad) > 3 {
		bad = append(bad[:3], fmt.Sprintf("… %d more", len(bad)-3))
	}
	c.Stats["record_length_vectors"] = tried
	c.Obl(rule, "tblength and mode agree on the offset width for lengths around every class boundary", p.Pos(tbl.Decl), len(bad) == 0 && tried >= 40, strings.Join(bad, "; "))

	// (b) readers
	nreaders := 0
	for _, name := range []string{"Len", "GetRaw"} {
		fs := srcOrNil(p, p.DeclaredMethod("core", "Record", name))
		if fs == nil {
			c.Missing(rule, "core.Record."+name)
			continue
		}
		nreaders += checkRecordReader(c, rule, fs, width, hdrlen)
	}
	if fs := srcOrNil(p, p.Func("core", "RecLen")); fs != nil {
		nreaders += checkRecordReader(c, rule, fs, width, hdrlen)
	} else {
		c.Missing(rule, "core.RecLen")
	}
	c.Floor(rule, nreaders, 9, "reader cases (3 readers × 3 classes)")
}

func keysOf(m map[int]bool) []int {
	var l []int
	for k := range m {
		l = append(l, k)
	}
	sort.Ints(l)
	return l
}

// checkRecordReader evaluates each class case of the reader's mode switch with the bytes
// after the header numbered 1,2,3,…: every assigned/returned offset must be the big-endian
// value of the next `width` bytes, and the position must move by width per field index.
func checkRecordReader(c *Ctx, rule string, fs *FuncSrc, width map[int64]int, hdrlen int64) int {
	p := c.P
	info := fs.Info()
	var sw *ast.SwitchStmt
	ast.Inspect(fs.Body, func(n ast.Node) bool {
		if s, ok := n.(*ast.SwitchStmt); ok && sw == nil && s.Tag != nil {
			sw = s
		}
		return true
	})
	if sw == nil {
		c.Missing(rule, fs.name+": switch on the record's class")
		return 0
	}
	// the field-index parameter, if any
	var idx *types.Var
	sig := fs.Obj.Type().(*types.Signature)
	for i := 0; i < sig.Params().Len(); i++ {
		if b, ok := sig.Params().At(i).Type().Underlying().(*types.Basic); ok && b.Info()&types.IsInteger != 0 {
			idx = sig.Params().At(i)
		}
	}
	n := 0
	for _, st := range sw.Body.List {
		cc := st.(*ast.CaseClause)
		for _, ce := range cc.List {
			cv := ConstVal(info, ce)
			if cv == nil {
				continue
			}
			m, _ := constant.Int64Val(cv)
			w := width[m]
			n++
			var problems []string
			eval := func(i int64) []constant.Value {
				env := &AbsEnv{Info: info, Locals: map[types.Object]constant.Value{}}
				if idx != nil {
					env.Locals[idx] = constant.MakeInt64(i)
				}
				env.Atom = func(e ast.Expr) (constant.Value, bool) {
					ix, ok := e.(*ast.IndexExpr)
					if !ok {
						return nil, false
					}
					save := env.Atom
					env.Atom = nil
					v := env.expr(ix.Index)
					env.Atom = save
					if v == nil {
						return nil, true
					}
					k, _ := constant.Int64Val(v)
					return constant.MakeInt64(k - hdrlen - i*int64(w) + 1), true
				}
				var outs []constant.Value
				for _, s := range cc.Body {
					switch x := s.(type) {
					case *ast.ReturnStmt:
						for _, r := range x.Results {
							outs = append(outs, env.expr(r))
						}
					case *ast.AssignStmt:
						if x.Tok == token.DEFINE {
							if r, done := env.stmt(x); done || r.Unknown != "" {
								problems = append(problems, "cannot fold "+p.Pos(x))
							}
							continue
						}
						for _, r := range x.Rhs {
							outs = append(outs, env.expr(r))
						}
					default:
						problems = append(problems, "unexpected statement "+p.Pos(s))
					}
				}
				return outs
			}
			for _, i := range []int64{0, 3} {
				if idx == nil && i > 0 {
					continue
				}
				outs := eval(i)
				if len(outs) == 0 {
					problems = append(problems, "no offsets decoded")
				}
				for j, v := range outs {
					want := beSeq(1+j*w, w)
					if v == nil || w == 0 || !constant.Compare(v, token.EQL, want) {
						got := "?"
						if v != nil {
							got = hexc(v)
						}
						problems = append(problems, fmt.Sprintf("field index %d: offset %d decodes to %s from bytes numbered 1.., want %s (big-endian, %d bytes, adjacent)", i, j, got, hexc(want), w))
					}
				}
			}
			c.Obl(rule, fmt.Sprintf("%s: class %d reads the offsets as the writer writes them", fs.name, m), p.Pos(cc), len(problems) == 0, strings.Join(problems, "; "))
		}
	}
	return n
}

func srcOrNil(p *Prog, f *types.Func) *FuncSrc {
	if f == nil {
		return nil
	}
	fs := p.Src(f)
	if fs == nil || fs.Body == nil {
		return nil
	}
	return fs
}

func uniqStrings(l []string) []string {
	var out []string
	for i, s := range l {
		if i == 0 || s != l[i-1] {
			out = append(out, s)
		}
	}
	return out
}

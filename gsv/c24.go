package main

// C24 (small): query update statements.  For every execute(*Thread, *UpdateTran) int of
// package dbms/query (found by signature):
//  1. the returned count is a local that starts at the constant 0 and is incremented by one
//     in the same loop iteration as, and on every path with, the row change
//     (UpdateTran.Output/Update/Delete); a statement that returns a constant k performs
//     exactly k row changes on every path;
//  2. update / delete refuse a query that is not updateable before the first row is read:
//     the table name passed to Update/Delete is the result of Updateable(), and every Get and
//     every row change is dominated by the edge on which that result is not "";
//  3. the rows are read through, and changed through, the transaction passed to execute:
//     the row change is a method call on that parameter (or Query.Output after SetTran of
//     it), the iterated query is set up with it, the offset given to Update/Delete is the
//     Off of the row just read; nothing in dbms/query calls an index.Overlay mutator.

import (
	"fmt"
	"go/ast"
	"go/constant"
	"go/token"
	"go/types"
	"sort"

	"golang.org/x/tools/go/cfg"
)

func init() { register("C24", checkC24, "./dbms/query") }

func checkC24(c *Ctx) string {
	p := c.P
	r0 := "C24.0 anchors"
	thread := p.NamedType("core", "Thread")
	utran := p.NamedType("db19", "UpdateTran")
	utOutput := p.DeclaredMethod("db19", "UpdateTran", "Output")
	utUpdate := p.DeclaredMethod("db19", "UpdateTran", "Update")
	utDelete := p.DeclaredMethod("db19", "UpdateTran", "Delete")
	qOutput := p.IfaceMethod("dbms/query", "Query", "Output")
	qGet := p.IfaceMethod("dbms/query", "Query", "Get")
	qUpdateable := p.IfaceMethod("dbms/query", "Query", "Updateable")
	qSetTran := p.IfaceMethod("dbms/query", "Query", "SetTran")
	ovInsert := p.DeclaredMethod("db19/index", "Overlay", "Insert")
	ovDelete := p.DeclaredMethod("db19/index", "Overlay", "Delete")
	ovUpdate := p.DeclaredMethod("db19/index", "Overlay", "Update")
	dbrecOff := p.Field("core", "DbRec", "Off")
	if !(c.need(r0, "core.Thread", thread) && c.need(r0, "db19.UpdateTran", utran) && c.need(r0, "db19.UpdateTran.Output", utOutput) &&
		c.need(r0, "db19.UpdateTran.Update", utUpdate) && c.need(r0, "db19.UpdateTran.Delete", utDelete) && c.need(r0, "query.Query.Output", qOutput) &&
		c.need(r0, "query.Query.Get", qGet) && c.need(r0, "query.Query.Updateable", qUpdateable) && c.need(r0, "query.Query.SetTran", qSetTran) &&
		c.need(r0, "index.Overlay.Insert", ovInsert) && c.need(r0, "index.Overlay.Delete", ovDelete) && c.need(r0, "index.Overlay.Update", ovUpdate) && c.need(r0, "core.DbRec.Off", dbrecOff)) {
		return "anchors missing"
	}
	isPtrTo := func(t types.Type, n *types.Named) bool {
		pt, ok := t.(*types.Pointer)
		return ok && types.Identical(pt.Elem(), n)
	}
	// ---- discover the statements: methods (th *Thread, ut *UpdateTran) int
	var execs []*FuncSrc
	for _, fs := range p.FuncsIn("dbms/query") {
		if fs.Obj == nil || fs.Body == nil {
			continue
		}
		sig := fs.Obj.Type().(*types.Signature)
		if sig.Recv() == nil || sig.Params().Len() != 2 || sig.Results().Len() != 1 {
			continue
		}
		if !isPtrTo(sig.Params().At(0).Type(), thread) || !isPtrTo(sig.Params().At(1).Type(), utran) {
			continue
		}
		if b, ok := sig.Results().At(0).Type().(*types.Basic); !ok || b.Kind() != types.Int {
			continue
		}
		execs = append(execs, fs)
	}
	c.Floor(r0, len(execs), 4, "methods of dbms/query with signature (*Thread, *UpdateTran) int")

	r1 := "C24.1 K6 the reported count changes with, and only with, a row change"
	r2 := "C24.2 K4c update and delete refuse a query that is not updateable before reading a row"
	r3 := "C24.3 K11+K3 rows are read and changed through the transaction given to the statement"
	evMutUT := CallOf("mut", utOutput, utUpdate, utDelete)
	evMutQ := CallOf("mut", qOutput)
	evGet := CallOf("get", qGet)
	evUpdateable := CallOf("updateable", qUpdateable)
	nLoopStmts, nConstStmts, nGuarded := 0, 0, 0
	// updEdge: the facts a condition gives about "the result of Updateable() is non-empty"
	updEdge := func(defs *defIndex) func(f *FuncSrc, cond ast.Expr, truth bool) []string {
		return func(f *FuncSrc, cond ast.Expr, truth bool) []string {
			be, ok := ast.Unparen(cond).(*ast.BinaryExpr)
			if !ok {
				return nil
			}
			fromUpd := func(e ast.Expr) bool { return defs.MentionsEv(f, e, evUpdateable) }
			for _, pr := range [][2]ast.Expr{{be.X, be.Y}, {be.Y, be.X}} {
				x, k := pr[0], ConstVal(f.Info(), pr[1])
				if k == nil || ConstVal(f.Info(), x) != nil {
					continue
				}
				nonEmptyWhen := "" // "T": the condition true means non-empty
				switch {
				case k.Kind() == constant.String && constant.StringVal(k) == "" && fromUpd(x):
					switch be.Op {
					case token.EQL:
						nonEmptyWhen = "F"
					case token.NEQ:
						nonEmptyWhen = "T"
					}
				case k.Kind() == constant.Int && constant.Sign(k) == 0:
					call, ok := ast.Unparen(x).(*ast.CallExpr)
					if !ok || !IsBuiltin(f.Info(), call, "len") || len(call.Args) != 1 || !fromUpd(call.Args[0]) {
						continue
					}
					op := be.Op
					if pr[0] == be.Y { // 0 OP len(x)
						switch op {
						case token.LSS:
							op = token.GTR
						case token.GTR:
							op = token.LSS
						}
					}
					switch op {
					case token.EQL:
						nonEmptyWhen = "F"
					case token.NEQ, token.GTR:
						nonEmptyWhen = "T"
					}
				}
				if nonEmptyWhen == "" {
					continue
				}
				if (nonEmptyWhen == "T") == truth {
					return []string{"@updateable"}
				}
				return []string{"@!updateable"}
			}
			return nil
		}
	}
	// helpers (one level): functions of the package that call Updateable() and return only
	// on the non-empty edge, handing the table name back
	checkedUpd := map[*types.Func]bool{}
	for _, hs := range p.FuncsIn("dbms/query") {
		if hs.Obj == nil || hs.Body == nil || len(p.CallsIn(hs, qUpdateable)) == 0 {
			continue
		}
		isExec := false
		for _, e := range execs {
			if e == hs {
				isExec = true
			}
		}
		sig := hs.Obj.Type().(*types.Signature)
		if isExec || sig.Results().Len() != 1 {
			continue
		}
		if b, ok := sig.Results().At(0).Type().Underlying().(*types.Basic); !ok || b.Kind() != types.String {
			continue
		}
		hdefs := buildDefs(hs)
		hres := (&Flow{P: p, Edge: updEdge(hdefs)}).Analyze(hs)
		ok := len(hres.Returns) > 0
		for _, r := range hres.Returns {
			if r.Fn != hs || !r.Before.Has("@updateable") || len(r.Node.Results) != 1 || !hdefs.MentionsEv(hs, r.Node.Results[0], evUpdateable) {
				ok = false
			}
		}
		if ok {
			checkedUpd[hs.Obj] = true
		}
	}
	evChecked := CallNamed("checked", func(f *types.Func) bool { return checkedUpd[f.Origin()] })
	for _, fs := range execs {
		info := fs.Info()
		defs := buildDefs(fs)
		par := parentMap(fs.Body)
		utParam := fs.Param(1)
		// the counter: the variable returned
		var counter types.Object
		constRet := constant.Value(nil)
		retsOK := true
		rets := ownReturns(fs)
		for _, r := range rets {
			if len(r.Results) != 1 {
				retsOK = false
				continue
			}
			if v := ConstVal(info, r.Results[0]); v != nil {
				if constRet != nil && !constant.Compare(constRet, token.EQL, v) || counter != nil {
					retsOK = false
				}
				constRet = v
				continue
			}
			id, ok := ast.Unparen(r.Results[0]).(*ast.Ident)
			if !ok || constRet != nil {
				retsOK = false
				continue
			}
			o := info.Uses[id]
			if counter != nil && o != counter {
				retsOK = false
			}
			counter = o
		}
		c.Obl(r1, fs.name+": every return yields the one counter variable (or one constant)", p.Pos(fs.Decl), retsOK && len(rets) > 0 && (counter != nil || constRet != nil),
			"the statement's result is not a single local count / constant: the reported number of rows cannot correspond to the rows changed")
		if !retsOK || len(rets) == 0 {
			continue
		}
		isCounter := func(e ast.Expr) bool {
			id, ok := ast.Unparen(e).(*ast.Ident)
			return ok && counter != nil && (info.Uses[id] == counter || info.Defs[id] == counter)
		}
		isOne := func(e ast.Expr) bool {
			v := ConstVal(info, e)
			return v != nil && v.Kind() == constant.Int && constant.Compare(v, token.EQL, constant.MakeInt64(1))
		}
		// inc: n++ / n += 1 / n = n + 1 / n = 1 + n ; init: the definition with constant 0 ; anything else that stores n is "set"
		classify := func(n ast.Node) string {
			switch s := n.(type) {
			case *ast.IncDecStmt:
				if isCounter(s.X) {
					if s.Tok == token.INC {
						return "inc"
					}
					return "set"
				}
			case *ast.AssignStmt:
				for i, l := range s.Lhs {
					if !isCounter(l) {
						continue
					}
					if len(s.Lhs) != len(s.Rhs) {
						return "set"
					}
					rhs := s.Rhs[i]
					switch s.Tok {
					case token.ADD_ASSIGN:
						if isOne(rhs) {
							return "inc"
						}
					case token.DEFINE, token.ASSIGN:
						if v := ConstVal(info, rhs); v != nil && v.Kind() == constant.Int && constant.Sign(v) == 0 {
							return "init"
						}
						if be, ok := ast.Unparen(rhs).(*ast.BinaryExpr); ok && be.Op == token.ADD && s.Tok == token.ASSIGN {
							if isCounter(be.X) && isOne(be.Y) || isCounter(be.Y) && isOne(be.X) {
								return "inc"
							}
						}
					}
					return "set"
				}
			case *ast.ValueSpec:
				for i, nm := range s.Names {
					if info.Defs[nm] == counter && counter != nil {
						if i >= len(s.Values) {
							return "init" // var n int
						}
						if v := ConstVal(info, s.Values[i]); v != nil && v.Kind() == constant.Int && constant.Sign(v) == 0 {
							return "init"
						}
						return "set"
					}
				}
			case *ast.UnaryExpr:
				if s.Op == token.AND && isCounter(s.X) {
					return "set" // address taken
				}
			}
			return ""
		}
		node := func(f *FuncSrc, n ast.Node) []string {
			var out []string
			if evMutUT.Match(f, n) || evMutQ.Match(f, n) {
				out = append(out, "mut")
			}
			if f != fs {
				return out // inside a summarised callee only the row changes count
			}
			if evGet.Match(f, n) {
				out = append(out, "get")
			}
			if f == fs && evChecked.Match(f, n) {
				out = append(out, "@updateable")
			}
			if call, ok := n.(*ast.CallExpr); ok && utParam != nil && sameFunc(Callee(f.Info(), call), qSetTran) && len(call.Args) == 1 {
				if id, ok := ast.Unparen(call.Args[0]).(*ast.Ident); ok && f.Info().Uses[id] == types.Object(utParam) {
					out = append(out, "settran(ut)")
				}
			}
			if k := classify(n); k != "" {
				out = append(out, k)
			}
			return out
		}
		edge := updEdge(defs)
		fl := &Flow{P: p, Node: node, Edge: edge, Depth: 1,
			BlockEntry: func(f *FuncSrc, b *cfg.Block) []string {
				if b.Kind == cfg.KindRangeBody || b.Kind == cfg.KindForBody {
					return []string{"-mut", "-inc"}
				}
				return nil
			}}
		res := fl.Analyze(fs)
		muts := res.Of("mut")
		c.Obl(r1, fs.name+": the statement changes rows", p.Pos(fs.Decl), len(muts) > 0, "no UpdateTran.Output/Update/Delete (or Query.Output) call in the statement")
		loopOf := func(n ast.Node) ast.Stmt {
			if ls := enclosingLoops(par, n); len(ls) > 0 {
				return ls[0]
			}
			return nil
		}
		if constRet != nil {
			// constant result k: exactly k row changes, outside loops, before every return
			nConstStmts++
			k, _ := constant.Int64Val(constRet)
			inLoop := false
			for _, s := range muts {
				if loopOf(s.Node) != nil {
					inLoop = true
				}
			}
			c.Obl(r1, fs.name+": constant result equals the number of row changes", p.Pos(fs.Decl), int64(len(muts)) == k && !inLoop,
				fmt.Sprintf("the statement reports %d but contains %d row changes (in a loop: %v)", k, len(muts), inLoop))
			for _, r := range res.Returns {
				if r.Fn == fs {
					c.Obl(r1, fs.name+": the row change precedes the return of the constant count", p.Pos(r.Node), r.Before.Has("mut"),
						"a path returns the count without having changed a row")
				}
			}
		} else {
			nLoopStmts++
			for _, s := range res.Of("set") {
				c.Obl(r1, fs.name+": the counter is only initialised to 0 and incremented by 1", p.Pos(s.Node), false,
					"the counter variable is changed by something other than `n := 0` and `n++`: the reported count differs from the number of rows changed")
			}
			c.Obl(r1, fs.name+": the counter starts at the constant 0", p.Pos(fs.Decl), len(res.Of("init")) == 1,
				fmt.Sprintf("%d initialisations of the counter with constant 0", len(res.Of("init"))))
			incs := res.Of("inc")
			for _, s := range muts {
				l := loopOf(s.Node)
				okPair := s.Before.Has("inc") || s.Follows("inc")
				okLoop := l != nil
				sameLoop := false
				for _, i := range incs {
					if loopOf(i.Node) == l {
						sameLoop = true
					}
				}
				c.Obl(r1, fs.name+": a row change is counted in the same iteration on every path", p.Pos(s.Node), okLoop && okPair && sameLoop,
					fmt.Sprintf("row change in a loop=%v, increment in the same loop=%v, increment on every path through the row change=%v: a row is changed but not counted", okLoop, sameLoop, okPair))
			}
			for _, s := range incs {
				l := loopOf(s.Node)
				okPair := s.Before.Has("mut") || s.Follows("mut")
				sameLoop := false
				for _, m := range muts {
					if l != nil && loopOf(m.Node) == l {
						sameLoop = true
					}
				}
				c.Obl(r1, fs.name+": the count is incremented only together with a row change", p.Pos(s.Node), okPair && sameLoop,
					fmt.Sprintf("increment in the loop of a row change=%v, row change on every path through the increment=%v: a row is counted but not changed", sameLoop, okPair))
			}
			c.Floor(r1, len(incs), 1, "increments of the counter in "+fs.name)
		}

		// ---- 2 and 3: the shape of each row change.  A row change inside a helper called
		// from the statement (one level) is judged there, with the helper's parameters
		// replaced by the arguments of the call.
		type mutCall struct {
			in    *FuncSrc      // function containing the UpdateTran call
			call  *ast.CallExpr // the UpdateTran / Query.Output call
			outer *ast.CallExpr // the helper call in the statement (nil if direct)
			site  *Site
		}
		var mcs []mutCall
		for _, s := range muts {
			call, isCall := s.Node.(*ast.CallExpr)
			if !isCall || s.Fn != fs {
				continue
			}
			if s.Direct {
				mcs = append(mcs, mutCall{fs, call, nil, s})
				continue
			}
			if hs := p.Src(Callee(info, call)); hs != nil {
				for _, hc := range p.CallsIn(hs, utOutput, utUpdate, utDelete, qOutput) {
					mcs = append(mcs, mutCall{hs, hc, call, s})
				}
			}
		}
		hdefs := map[*FuncSrc]*defIndex{fs: defs}
		defsIn := func(f *FuncSrc) *defIndex {
			if hdefs[f] == nil {
				hdefs[f] = buildDefs(f)
			}
			return hdefs[f]
		}
		// derives: e (in m.in) depends on an event ev, there or — through a parameter of
		// the helper — in the statement
		derives := func(m mutCall, e ast.Expr, ev Ev) bool {
			if defsIn(m.in).MentionsEv(m.in, e, ev) {
				return true
			}
			if m.outer != nil {
				for j, po := range paramObjs(m.in) {
					if po != nil && j < len(m.outer.Args) && defsIn(m.in).MentionsObj(m.in.Info(), e, po) && defs.MentionsEv(fs, m.outer.Args[j], ev) {
						return true
					}
				}
			}
			return false
		}
		isUt := func(m mutCall, e ast.Expr) bool {
			id, ok := ast.Unparen(e).(*ast.Ident)
			if !ok || utParam == nil {
				return false
			}
			o := m.in.Info().Uses[id]
			if m.outer == nil {
				return o == types.Object(utParam)
			}
			for j, po := range paramObjs(m.in) {
				if po != nil && po == o && j < len(m.outer.Args) {
					aid, ok := ast.Unparen(m.outer.Args[j]).(*ast.Ident)
					return ok && info.Uses[aid] == types.Object(utParam)
				}
			}
			return false
		}
		// isRowOff: e is row[i].Off with row derived from Query.Get, possibly through locals
		var isRowOff func(m mutCall, e ast.Expr, depth int) bool
		isRowOff = func(m mutCall, e ast.Expr, depth int) bool {
			e = ast.Unparen(e)
			minfo := m.in.Info()
			if sel, ok := e.(*ast.SelectorExpr); ok {
				return FieldOf(minfo, sel) == dbrecOff && derives(m, sel.X, evGet)
			}
			id, ok := e.(*ast.Ident)
			if !ok || depth <= 0 {
				return false
			}
			o := minfo.Uses[id]
			if m.outer != nil {
				for j, po := range paramObjs(m.in) {
					if po != nil && po == o && j < len(m.outer.Args) {
						return isRowOff(mutCall{in: fs}, m.outer.Args[j], depth-1)
					}
				}
			}
			n := 0
			for _, d := range defsIn(m.in).defs[o] {
				if ConstVal(minfo, d) != nil {
					continue
				}
				if !isRowOff(m, d, depth-1) {
					return false
				}
				n++
			}
			return n > 0
		}
		needsTable := false
		for _, m := range mcs {
			cal := Callee(m.in.Info(), m.call)
			where := fs.name
			if m.outer != nil {
				where += " (in " + m.in.name + ")"
			}
			sel, _ := ast.Unparen(m.call.Fun).(*ast.SelectorExpr)
			if sameFunc(cal, utUpdate) || sameFunc(cal, utDelete) {
				needsTable = true
				nGuarded++
				tbl := callArg(m.call, 1)
				c.Obl(r2, where+": the table changed is the one Updateable() names", p.Pos(m.call), tbl != nil && (derives(m, tbl, evUpdateable) || derives(m, tbl, evChecked)),
					"the table argument of Update/Delete does not come from Query.Updateable(): rows of a query that is not updateable (join, summarize …) would be written to some table")
				c.Obl(r2, where+": the row change is dominated by Updateable() != \"\"", p.Pos(m.site.Node), m.site.Before.Has("@updateable"),
					"Update/Delete is reachable without the test that the query is updateable")
				off := callArg(m.call, 2)
				c.Obl(r3, where+": the offset changed is the Off of the row just read", p.Pos(m.call), off != nil && isRowOff(m, off, 4),
					"the record offset given to Update/Delete is not DbRec.Off of the row returned by Query.Get (through locals all of whose non-constant definitions are that): a row other than the selected one is changed")
			}
			if sel == nil {
				continue
			}
			if sameFunc(cal, qOutput) {
				c.Obl(r3, where+": Query.Output after SetTran(ut)", p.Pos(m.call), m.outer == nil && m.site.Before.Has("settran(ut)"),
					"the row is output through a query that was not bound to the statement's transaction")
				continue
			}
			c.Obl(r3, where+": the row change is a method call on the transaction parameter", p.Pos(m.call), isUt(m, sel.X),
				"rows are changed through a transaction other than the one the statement was given")
		}
		if needsTable {
			gets := res.Of("get")
			for _, s := range gets {
				c.Obl(r2, fs.name+": no row is read before the updateable test", p.Pos(s.Node), s.Before.Has("@updateable"),
					"the query is iterated on a path where Updateable() was not compared with \"\" (the 'not updateable' panic does not dominate the loop)")
			}
			c.Floor(r2, len(gets), 1, "Query.Get calls in "+fs.name)
		}
		for _, s := range res.Of("get") {
			call, isCall := s.Node.(*ast.CallExpr)
			if !isCall || !s.Direct || s.Fn != fs {
				continue
			}
			sel, _ := ast.Unparen(call.Fun).(*ast.SelectorExpr)
			c.Obl(r3, fs.name+": the iterated query is set up with the transaction parameter", p.Pos(call), sel != nil && utParam != nil && defs.MentionsObj(info, sel.X, utParam),
				"the rows are selected through a different transaction than the one that is updated")
		}
	}
	c.Floor(r1, nLoopStmts, 3, "statements that count rows in a loop")
	c.Floor(r1, nConstStmts, 1, "statements with a constant result")
	c.Floor(r2, nGuarded, 2, "UpdateTran.Update/Delete calls in statements")

	// nothing in dbms/query touches an index overlay directly
	r4 := "C24.4 K3 dbms/query never mutates an index overlay itself"
	sites := p.CallersOf(ovInsert, ovDelete, ovUpdate)
	byFn := map[string]CallSite{}
	for _, s := range sites {
		if _, ok := byFn[s.Fn.name]; !ok {
			byFn[s.Fn.name] = s
		}
	}
	var names []string
	for n := range byFn {
		names = append(names, n)
	}
	sort.Strings(names)
	qpk := p.Pkg("dbms/query")
	for _, n := range names {
		s := byFn[n]
		pos := ""
		if s.Call != nil {
			pos = p.Pos(s.Call)
		}
		c.Obl(r4, "caller of index.Overlay.Insert/Delete/Update: "+n, pos, s.Fn.Pkg != qpk,
			"a function of dbms/query changes an index overlay without going through UpdateTran.Output/Update/Delete: keys, foreign keys, triggers and conflict detection are bypassed")
	}
	c.Floor(r4, len(names), 3, "callers of the Overlay mutators in the loaded program (the matcher sees them in db19)")
	c.Stats["statements"] = len(execs)
	checkActionIteration(c, "C24.5 K11 an updating action iterates on a key index", "C24.6 K18 every row read is counted or is the re-read of the row just changed")
	return "Decided for every method of dbms/query with signature (*Thread, *UpdateTran) int (4 today, found by signature): the result is one local that is initialised once with the constant 0, " +
		"changed only by increments of 1, and each increment is paired with an UpdateTran.Output/Update/Delete call in the same loop iteration on every normal path in both directions (per-iteration must-analysis, kill at loop-body entry), " +
		"or a constant k with exactly k row changes outside loops before every return; Update/Delete get their table from Query.Updateable() and, like every Query.Get, are dominated by the edge on which that result is non-empty; " +
		"the row change is a call on the *UpdateTran parameter (Query.Output only after SetTran of it), the iterated query derives from a call that received that parameter, the offset is DbRec.Off of the row read by Get; " +
		"no function of dbms/query calls index.Overlay.Insert/Delete/Update. Not decided: that the new record is computed as the statement specifies (expression evaluation is C25), that the query selects the right rows, the 'same record twice' skip logic."
}

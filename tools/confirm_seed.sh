#!/bin/bash
# usage: confirm_seed.sh <seed out dir> <package dir for the demo> <go test -run regex> [nobaseline]
# (env RACE=-race runs the demo with the race detector)
# Confirms in a scratch worktree: demo passes without the change, change applies and builds,
# demo fails with the change, the stable baseline still passes with the change.  Prints a JSON summary.
S=$(readlink -f $1); PKG=$2; RUN=$3; NB=${4:-}
export GOFLAGS=-mod=mod GOPROXY=off
W=/tmp/confirm.$$
git -C /repo worktree add -q $W HEAD || exit 3
cd $W
touch dbms/server.crt dbms/server.key
cp $S/demo_test.go $PKG/zz_seed_demo_test.go
for f in $S/demo_*_test.go; do [ -f "$f" ] && cp $f $PKG/zz_$(basename $f); done 2>/dev/null
go test $RACE -timeout 300s -vet=off -count=1 -run "$RUN" ./$PKG/ > $W.without.log 2>&1; without=$?
git apply $S/patch.diff; applied=$?
go build ./db19/... ./core/... ./compile/... ./util/... ./dbms/query/... > $W.build.log 2>&1; build=$?
go test $RACE -timeout 300s -vet=off -count=1 -run "$RUN" ./$PKG/ > $W.with.log 2>&1; with=$?
rm -f dbms/server.crt dbms/server.key $PKG/zz_seed_demo_test.go $PKG/zz_demo_*_test.go
base="skipped"
if [ -z "$NB" ]; then base=$(/verif/tools/baseline.sh $W 2>&1 | grep "stable:" ); fi
echo "{\"demo_without_change_exit\": $without, \"patch_applies\": $applied, \"build_exit\": $build, \"demo_with_change_exit\": $with, \"baseline\": \"$base\"}"
tail -3 $W.with.log | sed 's/^/   with: /'
cd /; git -C /repo worktree remove --force $W; rm -f $W.*.log

package main

// C05 crash recovery: open gate, validity guards of readState, repair writes the marker,
// error discipline in repair/check, K24 bounded reslicing of scanned offsets, K17 panic
// containment of the goroutines of check/repair.

import (
	"fmt"
	"go/ast"
	"go/constant"
	"go/token"
	"go/types"
	"sort"
	"strconv"
	"strings"
)

func init() { register("C05", checkC05, "./db19/...") }

func checkC05(c *Ctx) string {
	a := getStAnchors(c, "C05.0 anchors")
	if a == nil {
		return "anchors missing"
	}
	checkC05Gate(c, a)
	checkC05Guards(c, a)
	checkC05Fix(c, a)
	checkC05Errors(c, a)
	checkC05Bounded(c, a)
	checkC05Contain(c, a)
	checkScanStartsAtEnd(c, "C05.7 K11 the search for the latest state starts at the end of the data")
	checkCheckerUsesItsQuantities(c, "C05.8 K8 the consistency check compares every quantity it computes")
	return "Static shape of crash recovery: OpenDbStor returns (nil, err) on the corrupt arm and on every path not behind readTail()==shutdown, registers its recover before ReadState; Corrupt() writes the corrupt marker " +
		"(Alloc in writable modes, file append otherwise), close never appends the shutdown marker to a corrupted database, CheckDatabase/Check call Corrupt before returning a finding; " +
		"every return of readState that reports a state is dominated by the magic1 test, the checksum, the magic2 test and offset<off tests for both returned offsets; every caller of ReadState has a deferred recover; " +
		"in repair every return of fix/fixHead/copySize is either behind a failed error test or behind the write of the shutdown marker; no error result of os/io/system/stor/db19 calls in the files of Repair and CheckDatabase is dropped; " +
		"K24: a slice obtained with Stor.Data at an offset found by Stor.LastOffset/FirstOffset (followed through arguments, two levels) is resliced/indexed with a constant bound only behind a dominating len test; " +
		"K17: goroutines started (go / WaitGroup.Go) by code reachable from CheckDatabase, Repair, PrintStates that can reach an explicit panic or an unknown function value have a swallowing deferred recover. " +
		"The table check (checkTable2/checkFirstIndex/CheckOtherIndex) compares the first index's row count and byte size with the table's Info and every other index's count and offset checksum with the first's, each mismatch panics, and no index is skipped except the first and after a recorded error. " +
		"Not decided: that the newest good state is found (search arithmetic), implicit run-time panics (index, nil) in goroutines without recover, calls through interfaces in the reachability of K17."
}

// ---------------------------------------------------------------- 1. gate

func checkC05Gate(c *Ctx, a *stAnchors) {
	p := c.P
	r1 := "C05.1 K4c a damaged or corrupt file is refused on open and stays marked"
	if g := analyseOpenGate(c, r1, a); g != nil {
		c.RequireBefore(r1, g.res, "ReadState", 1, "@tail==shutdown")
		c.RequireBefore(r1+" (recover registered before the state is read)", g.res, "ReadState", 1, "deferRecover")
		ncorrupt, nother := 0, 0
		for _, r := range g.res.Returns {
			if r.Fn != g.fs || r.Before.Has("@tail==shutdown") {
				continue
			}
			ok := len(r.Node.Results) == 2 && !isNilIdent(g.fs.Info(), r.Node.Results[1]) && isNilIdent(g.fs.Info(), r.Node.Results[0])
			if r.Before.Has("@tail==corrupt") {
				ncorrupt++
				c.Obl(r1, "OpenDbStor: the corrupt marker makes open fail", p.Pos(r.Node), ok,
					"on the readTail()==corrupt edge OpenDbStor does not return (nil, error): a database marked corrupt opens")
			} else {
				nother++
				c.Obl(r1, "OpenDbStor: a tail that is neither marker makes open fail", p.Pos(r.Node), ok,
					"OpenDbStor returns a database for a file whose tail is not the shutdown marker (crashed while writing)")
			}
		}
		c.Floor(r1, ncorrupt, 1, "returns on the corrupt edge of OpenDbStor")
		c.Floor(r1, nother, 1, "returns on the not-shut-down edge of OpenDbStor")
	}
	// Corrupt(): the corrupt marker is written in both modes
	corruptFn := p.DeclaredMethod("db19", "Database", "Corrupt")
	if fs := c.src(r1, corruptFn, "db19.Database.Corrupt"); fs != nil {
		fl := &Flow{P: p, Node: Labeler(markerWrite("alloc-write", a, a.corruptC, true, false), markerWrite("file-write", a, a.corruptC, false, true)),
			Edge: modeEdge(a)}
		res := fl.Analyze(fs)
		for _, s := range res.Of("alloc-write") {
			c.Obl(r1, "Corrupt: the in-memory marker write happens only in a writable mode", p.Pos(s.Node), s.Before.Has("@mode!=Read"),
				"the corrupt marker is copied into the mapping when it is read-only (fault instead of a result)")
			call := s.Node.(*ast.CallExpr)
			okDst := false
			defs := buildDefs(fs)
			if id := identOf(call.Args[0]); id != nil {
				if ac, idx := tupleSource(fs, fs.Info().Uses[id]); ac != nil && idx == 1 && sameFunc(Callee(fs.Info(), ac), a.storAlloc) {
					if v := evalWithDefs(fs, defs, callArg(ac, 0), func(ast.Expr) (constant.Value, bool) { return nil, false }); v != nil {
						n, _ := constant.Int64Val(constant.ToInt(v))
						okDst = n == int64(len(constStr(a.corruptC)))
					}
				}
			}
			c.Obl(r1, "Corrupt: the marker is appended with Stor.Alloc(len(corrupt))", p.Pos(s.Node), okDst, "readTail would not see the marker")
		}
		for _, s := range res.Of("file-write") {
			c.Obl(r1, "Corrupt: the file write is the read-only-mode arm", p.Pos(s.Node), s.Before.Has("@mode==Read"), "")
		}
		c.Floor(r1, len(res.Of("alloc-write")), 1, "Alloc-based writes of the corrupt marker in Corrupt")
		c.Floor(r1, len(res.Of("file-write")), 1, "file writes of the corrupt marker in Corrupt")
	}
	// close(): never the shutdown marker over a corrupted database
	if fs := c.src(r1, a.dbClose, "db19.Database.close"); fs != nil {
		fl := &Flow{P: p, Depth: 1, Node: Labeler(markerWrite("marker", a, a.shutdownC, true, true)), Edge: modeEdge(a)}
		res := fl.Analyze(fs)
		for _, s := range res.Of("marker") {
			c.Obl(r1, "close: the shutdown marker is not appended to a corrupted database", p.Pos(s.Node), s.Before.Has("@!corrupted"),
				"close writes the shutdown marker after the corrupt marker: the next open accepts the corrupt file without repair")
		}
		c.Floor(r1, len(res.Of("marker")), 1, "shutdown marker writes in close")
	}
	// a finding of the full check marks the database before it is reported
	checkState := p.Func("db19", "checkState")
	if c.need(r1, "db19.checkState", checkState) && c.need(r1, "db19.Database.Corrupt", corruptFn) {
		n := 0
		for _, name := range []string{"CheckDatabase", "Check"} {
			var f *types.Func
			if name == "Check" {
				f = p.DeclaredMethod("db19", "Database", "Check")
			} else {
				f = p.Func("db19", name)
			}
			fs := c.src(r1, f, "db19."+name)
			if fs == nil {
				continue
			}
			defs := buildDefs(fs)
			fl := &Flow{P: p, Node: Labeler(CallOf("Corrupt", corruptFn), CallOf("checkState", checkState)),
				Edge: func(f *FuncSrc, cond ast.Expr, truth bool) []string {
					be, ok := cond.(*ast.BinaryExpr)
					if !ok || (be.Op != token.EQL && be.Op != token.NEQ) {
						return nil
					}
					for _, pr := range [][2]ast.Expr{{be.X, be.Y}, {be.Y, be.X}} {
						if isNilIdent(f.Info(), pr[1]) && defs.MentionsEv(f, pr[0], CallOf("", checkState)) {
							if (be.Op == token.NEQ) == truth {
								return []string{"@finding"}
							}
							return []string{"@clean"}
						}
					}
					return nil
				}}
			res := fl.Analyze(fs)
			for _, r := range res.Returns {
				if r.Fn == fs && r.Before.Has("@finding") {
					n++
					c.Obl(r1, fs.name+": a finding is marked with Corrupt() before it is returned", p.Pos(r.Node), r.Before.Has("Corrupt"),
						"checkState reported corruption and the function returns without marking the database: it keeps being opened and used")
					c.Obl(r1, fs.name+": a finding is returned as an error", p.Pos(r.Node), len(r.Node.Results) == 1 && !isNilIdent(fs.Info(), r.Node.Results[0]), "the finding is swallowed")
				}
			}
		}
		c.Floor(r1, n, 2, "returns behind a checkState finding")
	}
}

// modeEdge: facts @mode!=Read / @mode==Read / @!corrupted / @corrupted
func modeEdge(a *stAnchors) func(f *FuncSrc, cond ast.Expr, truth bool) []string {
	return func(f *FuncSrc, cond ast.Expr, truth bool) []string {
		if call, ok := cond.(*ast.CallExpr); ok && sameFunc(Callee(f.Info(), call), a.isCorrupted) {
			if truth {
				return []string{"@corrupted"}
			}
			return []string{"@!corrupted"}
		}
		be, ok := cond.(*ast.BinaryExpr)
		if !ok || (be.Op != token.EQL && be.Op != token.NEQ) {
			return nil
		}
		eq := (be.Op == token.EQL) == truth
		for _, pr := range [][2]ast.Expr{{be.X, be.Y}, {be.Y, be.X}} {
			if FieldOf(f.Info(), pr[0]) == a.modeF && ObjOf(f.Info(), pr[1]) == types.Object(a.readC) {
				if eq {
					return []string{"@mode==Read"}
				}
				return []string{"@mode!=Read"}
			}
		}
		return nil
	}
}

func c05ObjKey(o types.Object) string {
	if o == nil {
		return "?"
	}
	return o.Name() + "@" + strconv.Itoa(int(o.Pos()))
}

// ---------------------------------------------------------------- 2. readState guards

func checkC05Guards(c *Ctx, a *stAnchors) {
	p := c.P
	r2 := "C05.2 K4c every validity guard of readState dominates the return that reports a state"
	fs := c.src(r2, a.readState, "db19.readState")
	if fs == nil {
		return
	}
	info := fs.Info()
	// the offset parameter: the one handed to Stor.Data
	var offParam types.Object
	for _, call := range p.CallsIn(fs, a.storData) {
		if id := identOf(callArg(call, 0)); id != nil {
			offParam = info.Uses[id]
		}
	}
	if offParam == nil {
		c.Missing(r2, "offset parameter of readState (argument of Stor.Data)")
		return
	}
	fl := &Flow{P: p, Node: Labeler(CallOf("cksum.MustCheck", a.ckMust)),
		Implies: map[string][]string{"cksum.MustCheck": {"cksum-ok"}, "@cksum.Check": {"cksum-ok"}},
		Edge: func(f *FuncSrc, cond ast.Expr, truth bool) []string {
			if call, ok := cond.(*ast.CallExpr); ok && sameFunc(Callee(f.Info(), call), a.ckCheck) && truth {
				return []string{"@cksum.Check"}
			}
			be, ok := cond.(*ast.BinaryExpr)
			if !ok {
				return nil
			}
			switch be.Op {
			case token.EQL, token.NEQ:
				eq := (be.Op == token.EQL) == truth
				if !eq {
					return nil
				}
				for _, pr := range [][2]ast.Expr{{be.X, be.Y}, {be.Y, be.X}} {
					if isConstRef(f.Info(), pr[1], a.magic1C) && ConstVal(f.Info(), pr[0]) == nil {
						return []string{"@magic1"}
					}
					if isConstRef(f.Info(), pr[1], a.magic2C) && ConstVal(f.Info(), pr[0]) == nil {
						return []string{"@magic2"}
					}
				}
			case token.LSS, token.LEQ, token.GTR, token.GEQ:
				// normalise to  small < big  holding on this edge
				var small, big ast.Expr
				switch {
				case be.Op == token.LSS && truth, be.Op == token.GEQ && !truth:
					small, big = be.X, be.Y
				case be.Op == token.GTR && truth, be.Op == token.LEQ && !truth:
					small, big = be.Y, be.X
				default:
					return nil
				}
				bid, sid := identOf(big), identOf(small)
				if bid != nil && sid != nil && f.Info().Uses[bid] == offParam {
					return []string{"@lt:" + c05ObjKey(f.Info().Uses[sid])}
				}
			}
			return nil
		}}
	res := fl.Analyze(fs)
	nvalid := 0
	for _, r := range res.Returns {
		if r.Fn != fs || len(r.Node.Results) == 0 {
			continue
		}
		last := r.Node.Results[len(r.Node.Results)-1]
		if v := ConstVal(info, last); v != nil && constant.Sign(constant.ToInt(v)) == 0 {
			continue // "no state here"
		}
		nvalid++
		c.Obl(r2, "readState: magic1 tested before a state is reported", p.Pos(r.Node), r.Before.Has("@magic1"),
			"a state is reported although the record does not start with magic1")
		c.Obl(r2, "readState: checksum verified before a state is reported", p.Pos(r.Node), r.Before.Has("cksum-ok"),
			"a state is reported without verifying the record's checksum: a torn or garbage record is accepted as the database state")
		c.Obl(r2, "readState: magic2 tested before a state is reported", p.Pos(r.Node), r.Before.Has("@magic2"),
			"a state is reported although the record does not end with magic2 (record cut by the crash)")
		for k := 0; k < 2 && k < len(r.Node.Results); k++ {
			id := identOf(r.Node.Results[k])
			ok := id != nil && r.Before.Has("@lt:"+c05ObjKey(info.Uses[id]))
			c.Obl(r2, fmt.Sprintf("readState: returned offset %d is tested to lie before the record", k), p.Pos(r.Node), ok,
				"an offset taken from the record is returned without the test offset < off: metadata is read from beyond / inside the record (garbage with a matching 16-bit checksum is accepted)")
		}
	}
	c.Floor(r2, nvalid, 1, "returns of readState that report a state")
	// ReadState: t == 0 ⇒ panic
	if rs := c.src(r2, a.ReadState, "db19.ReadState"); rs != nil {
		defs := buildDefs(rs)
		fl := &Flow{P: p, Node: Labeler(PanicCall("panic")), Edge: func(f *FuncSrc, cond ast.Expr, truth bool) []string {
			be, ok := cond.(*ast.BinaryExpr)
			if !ok || (be.Op != token.EQL && be.Op != token.NEQ) {
				return nil
			}
			for _, pr := range [][2]ast.Expr{{be.X, be.Y}, {be.Y, be.X}} {
				if v := ConstVal(f.Info(), pr[1]); v != nil && v.Kind() == constant.Int && constant.Sign(v) == 0 && defs.MentionsEv(f, pr[0], CallOf("", a.readState)) {
					if (be.Op == token.EQL) == truth {
						return []string{"@invalid"}
					}
					return []string{"@valid"}
				}
			}
			return nil
		}}
		res := fl.Analyze(rs)
		for _, r := range res.Returns {
			if r.Fn == rs {
				c.Obl(r2, "ReadState returns a state only when readState reported one", p.Pos(r.Node), r.Before.Has("@valid"),
					"ReadState builds a DbState from offsets although readState returned the 'no state' result")
			}
		}
		c.Floor(r2, len(res.Returns), 1, "returns of ReadState")
	}
	// every caller of ReadState has a deferred recover (ReadState and ReadMeta panic on bad data)
	r2b := "C05.2 K17 every caller of ReadState turns its panics into a result"
	flr := &Flow{P: p}
	n := 0
	for _, site := range p.CallersOf(a.ReadState) {
		n++
		ok := site.Call != nil && c05HasDeferredRecover(site.In)
		c.Obl(r2b, site.Fn.name+" has a deferred recover", p.Pos(site.In.Body), ok,
			"ReadState panics on an invalid record / damaged metadata; this caller lets the panic escape (check and repair die instead of trying the previous state)")
	}
	c.Floor(r2b, n, 2, "callers of ReadState")
	if gs := c.function(r2b, "db19", "getState"); gs != nil {
		c.Obl(r2b, "getState swallows the panic (returns nil)", p.Pos(gs.Decl), flr.Swallows(gs), "getState re-panics or no longer recovers")
		rep := p.DeclaredMethod("db19", "repair", "check")
		if rc := c.src(r2b, rep, "db19.repair.check"); rc != nil {
			c.Obl(r2b, "repair.check reads candidate states through getState", p.Pos(rc.Decl), len(p.CallsIn(rc, gs.Obj)) >= 1 && len(p.CallsIn(rc, a.ReadState)) == 0, "")
		}
	}
}

// hasDeferredRecover: fs (declaration or literal) has a defer of a literal that calls recover.
func c05HasDeferredRecover(fs *FuncSrc) bool {
	has := false
	if fs == nil || fs.Body == nil {
		return false
	}
	ast.Inspect(fs.Body, func(n ast.Node) bool {
		switch v := n.(type) {
		case *ast.FuncLit:
			return false
		case *ast.DeferStmt:
			if lit, ok := v.Call.Fun.(*ast.FuncLit); ok {
				ast.Inspect(lit.Body, func(m ast.Node) bool {
					if call, ok := m.(*ast.CallExpr); ok && IsBuiltin(fs.Info(), call, "recover") {
						has = true
					}
					return true
				})
			}
		}
		return true
	})
	return has
}

// ---------------------------------------------------------------- 3. repair.fix

func errNeqNilEdge(f *FuncSrc, cond ast.Expr, truth bool) []string {
	be, ok := cond.(*ast.BinaryExpr)
	if !ok || (be.Op != token.EQL && be.Op != token.NEQ) {
		return nil
	}
	for _, pr := range [][2]ast.Expr{{be.X, be.Y}, {be.Y, be.X}} {
		if !isNilIdent(f.Info(), pr[1]) {
			continue
		}
		t := f.Info().TypeOf(pr[0])
		if t == nil || !isErrorType(t) {
			continue
		}
		if (be.Op == token.NEQ) == truth {
			return []string{"@err!=nil"}
		}
		return []string{"@err==nil"}
	}
	return nil
}

var errorIface = types.Universe.Lookup("error").Type().Underlying().(*types.Interface)

func isErrorType(t types.Type) bool {
	if t == nil {
		return false
	}
	if types.Identical(t, types.Universe.Lookup("error").Type()) {
		return true
	}
	if _, isIface := t.Underlying().(*types.Interface); isIface {
		return false
	}
	return types.Implements(t, errorIface)
}

func checkC05Fix(c *Ctx, a *stAnchors) {
	p := c.P
	r3 := "C05.3 K5 every success path of repair.fix writes the shutdown marker"
	fix := c.method(r3, "db19", "repair", "fix")
	if fix == nil {
		return
	}
	evWr := markerWrite("write(shutdown)", a, a.shutdownC, false, true)
	wm := p.FuncsWith([]string{"db19"}, evWr)
	var writers []*FuncSrc // W0: write the marker themselves; W1: call a W0 function (one level of helper extraction)
	var wfuncs []*types.Func
	inW := map[*FuncSrc]bool{}
	for fs := range wm {
		if fs.Obj != nil {
			writers = append(writers, fs)
			wfuncs = append(wfuncs, fs.Obj)
			inW[fs] = true
		}
	}
	c.Floor(r3, len(writers), 2, "functions of db19 writing the shutdown marker to a file")
	w0 := append([]*types.Func{}, wfuncs...)
	for _, site := range p.CallersOf(w0...) {
		if site.Call != nil && !inW[site.Fn] && site.Fn.Obj != nil && site.Fn.Pkg == fix.Pkg {
			inW[site.Fn] = true
			writers = append(writers, site.Fn)
			wfuncs = append(wfuncs, site.Fn.Obj)
		}
	}
	sort.Slice(writers, func(i, j int) bool { return writers[i].name < writers[j].name })
	c.Obl(r3, "repair.fix reaches a step that writes the shutdown marker", p.Pos(fix.Decl), inW[fix], "fix neither writes the marker nor calls a function that does")
	lastIsErr := func(fs *FuncSrc, r *ast.ReturnStmt) bool {
		if len(r.Results) == 0 {
			return false
		}
		l := r.Results[len(r.Results)-1]
		return !isNilIdent(fs.Info(), l) && isErrorType(fs.Info().TypeOf(l))
	}
	n := 0
	for _, fs := range writers {
		var others []*types.Func
		for _, f := range wfuncs {
			if !sameFunc(f, fs.Obj) {
				others = append(others, f)
			}
		}
		fl := &Flow{P: p, Node: Labeler(evWr, CallOf("marker-writer", others...)), Edge: errNeqNilEdge}
		res := fl.Analyze(fs)
		for _, r := range res.Returns {
			if r.Fn != fs {
				continue
			}
			n++
			ok := r.Before.HasAny("write(shutdown)", "marker-writer") || (r.Before.Has("@err!=nil") && lastIsErr(fs, r.Node))
			c.Obl(r3, fs.name+": returns after writing the marker, or with the error just tested", p.Pos(r.Node), ok,
				"a return of this repair step is neither behind the write of the shutdown marker nor an error return: repair reports success on a file that OpenDb still refuses")
			if r.Before.HasAny("write(shutdown)", "marker-writer") && !r.Before.Has("@err!=nil") {
				c.Obl(r3, fs.name+": the marker step's error reaches the caller", p.Pos(r.Node), lastIsErr(fs, r.Node) || r.Before.Has("@err==nil"),
					"nil is returned after a marker-writing step whose error was not tested")
			}
		}
		// the write's own error is not dropped
		par := parentMap(fs.Body)
		for _, s := range res.Of("write(shutdown)", "marker-writer") {
			if !s.Direct {
				continue
			}
			_, dropped := par[s.Node].(*ast.ExprStmt)
			c.Obl(r3, fs.name+": the result of the marker write is not dropped", p.Pos(s.Node), !dropped, "a failed marker write is reported as success")
		}
	}
	c.Floor(r3, n, 8, "returns of the marker-writing repair steps")
	// Repair: fix is reached when a state was found, and its error is returned
	if rp := c.function(r3, "db19", "Repair"); rp != nil {
		calls := p.CallsIn(rp, fix.Obj)
		c.Obl(r3, "Repair calls repair.fix", p.Pos(rp.Decl), len(calls) == 1, "")
	}
}

// ---------------------------------------------------------------- 4. error discipline

func checkC05Errors(c *Ctx, a *stAnchors) {
	p := c.P
	r4 := "C05.4 K8 I/O errors in repair and check are not dropped"
	files := map[string]bool{}
	for _, n := range []string{"Repair", "CheckDatabase"} {
		if fs := c.function(r4, "db19", n); fs != nil {
			files[p.Fset.Position(fs.Decl.Pos()).Filename] = true
		}
	}
	pkgs := map[string]bool{"os": true, "io": true, modPath + "/util/system": true, modPath + "/db19/stor": true, modPath + "/db19": true}
	n := 0
	for _, fs := range p.FuncsIn("db19") {
		if fs.Body == nil || !files[p.Fset.Position(fs.Decl.Pos()).Filename] {
			continue
		}
		info := fs.Info()
		par := parentMap(fs.Body)
		ForEachNode(fs, func(nd ast.Node) {
			call, ok := nd.(*ast.CallExpr)
			if !ok {
				return
			}
			cal := Callee(info, call)
			if cal == nil || cal.Pkg() == nil || !pkgs[cal.Pkg().Path()] {
				return
			}
			sig := cal.Type().(*types.Signature)
			nres := sig.Results().Len()
			if nres == 0 || !isErrorType(sig.Results().At(nres-1).Type()) {
				return
			}
			n++
			used, why := errResultUsed(fs, par, call, nres)
			if !used && isOsFileMethod(cal) && cal.Name() == "Close" {
				if _, isDefer := par[call].(*ast.DeferStmt); isDefer {
					// frozen exception: deferred (*os.File).Close — every write to these files is followed by an
					// error-checked Write/WriteAt/CopyN; the close error adds nothing the checks rely on
					used = true
				}
			}
			d := ""
			if !used {
				d = "the error result is " + why + ": a failed open/copy/write/rename during repair or check is reported as success"
			}
			c.Obl(r4, fs.name+": error of "+funcName(cal)+" is used", p.Pos(call), used, d)
		})
	}
	c.Floor(r4, n, 12, "error-returning os/io/system/stor/db19 calls in the files of Repair and CheckDatabase")
}

// errResultUsed: the last (error) result of call is consumed.
func errResultUsed(fs *FuncSrc, par map[ast.Node]ast.Node, call *ast.CallExpr, nres int) (bool, string) {
	info := fs.Info()
	var lhs ast.Expr
	switch pn := par[call].(type) {
	case *ast.ExprStmt:
		return false, "discarded (expression statement)"
	case *ast.DeferStmt, *ast.GoStmt:
		return false, "discarded (defer/go)"
	case *ast.AssignStmt:
		if len(pn.Rhs) == 1 && len(pn.Lhs) == nres {
			lhs = pn.Lhs[nres-1]
		} else {
			for i, r := range pn.Rhs {
				if ast.Unparen(r) == ast.Expr(call) && i < len(pn.Lhs) {
					lhs = pn.Lhs[i]
				}
			}
		}
	case *ast.ValueSpec:
		if len(pn.Values) == 1 && len(pn.Names) == nres {
			lhs = pn.Names[nres-1]
		}
	default:
		return true, ""
	}
	id, ok := lhs.(*ast.Ident)
	if !ok {
		return true, "" // stored into a field / element
	}
	if id.Name == "_" {
		return false, "assigned to _"
	}
	o := objOfIdent(info, id)
	if o == nil {
		return true, ""
	}
	if resultIndex(fs, o) >= 0 && fs.Outer().Obj != nil {
		rs := fs.Outer().Obj.Type().(*types.Signature).Results()
		for i := 0; i < rs.Len(); i++ {
			if types.Object(rs.At(i)) == o {
				return true, "" // named result
			}
		}
	}
	// the next reference after the call must be a read
	type ref struct {
		pos   token.Pos
		write bool
	}
	var refs []ref
	ast.Inspect(fs.Outer().Body, func(n ast.Node) bool {
		switch v := n.(type) {
		case *ast.AssignStmt:
			if v.Tok == token.ASSIGN || v.Tok == token.DEFINE {
				for _, l := range v.Lhs {
					if lid, ok := l.(*ast.Ident); ok && objOfIdent(info, lid) == o {
						// evaluated after the right-hand side
						refs = append(refs, ref{v.End(), true})
					}
				}
			}
		case *ast.Ident:
			if info.Uses[v] == o {
				refs = append(refs, ref{v.Pos(), false})
			}
		}
		return true
	})
	// drop the Uses entries that are assignment targets (they were recorded as writes at End())
	lhsPos := map[token.Pos]bool{}
	ast.Inspect(fs.Outer().Body, func(n ast.Node) bool {
		if v, ok := n.(*ast.AssignStmt); ok && (v.Tok == token.ASSIGN || v.Tok == token.DEFINE) {
			for _, l := range v.Lhs {
				if lid, ok := l.(*ast.Ident); ok {
					lhsPos[lid.Pos()] = true
				}
			}
		}
		return true
	})
	var rr []ref
	for _, r := range refs {
		if !r.write && lhsPos[r.pos] {
			continue
		}
		rr = append(rr, r)
	}
	sort.Slice(rr, func(i, j int) bool { return rr[i].pos < rr[j].pos })
	stmtEnd := call.End()
	if st, ok := par[call].(ast.Stmt); ok {
		stmtEnd = st.End()
	}
	for _, r := range rr {
		if r.pos < stmtEnd || (r.write && r.pos == stmtEnd) {
			continue
		}
		if r.write {
			return false, "overwritten before it is looked at"
		}
		return true, ""
	}
	return false, "never looked at"
}

// ---------------------------------------------------------------- 5. K24 bounded reslice

type taintKey struct {
	fn  *types.Func
	arg int
}

func checkC05Bounded(c *Ctx, a *stAnchors) {
	p := c.P
	r5 := "C05.5 K24 a slice taken at a scanned (untrusted) offset is length-checked before it is resliced to a constant size"
	lastOff := p.DeclaredMethod("db19/stor", "Stor", "LastOffset")
	firstOff := p.DeclaredMethod("db19/stor", "Stor", "FirstOffset")
	if !c.need(r5, "stor.Stor.LastOffset", lastOff) || !c.need(r5, "stor.Stor.FirstOffset", firstOff) {
		return
	}
	evSrc := CallOf("", lastOff, firstOff)
	tainted := map[taintKey]bool{}
	isTaintedParam := func(fs *FuncSrc, o types.Object) bool {
		outer := fs.Outer()
		if outer.Obj == nil {
			return false
		}
		ps := outer.Obj.Type().(*types.Signature).Params()
		for i := 0; i < ps.Len(); i++ {
			if types.Object(ps.At(i)) == o && tainted[taintKey{outer.Obj, i}] {
				return true
			}
		}
		return false
	}
	taintedExpr := func(fs *FuncSrc, defs *defIndex, e ast.Node) bool {
		return defs.Mentions(fs.Info(), e, func(n ast.Node) bool {
			if evSrc.Match(fs, n) {
				return true
			}
			if id, ok := n.(*ast.Ident); ok {
				return isTaintedParam(fs, fs.Info().Uses[id])
			}
			return false
		})
	}
	var funcs []*FuncSrc
	for _, fs := range p.AllSrcs {
		if fs.Body != nil && fs.Lit == nil && fs.Obj != nil && strings.HasPrefix(fs.Pkg.PkgPath, modPath+"/db19") && !strings.HasPrefix(fs.Pkg.PkgPath, modPath+"/db19/stor") {
			funcs = append(funcs, fs)
		}
	}
	nsrc := 0
	for _, fs := range funcs {
		nsrc += len(p.CallsIn(fs, lastOff, firstOff))
	}
	c.Floor(r5, nsrc, 4, "calls of Stor.LastOffset/FirstOffset outside package stor")
	// propagate through call arguments, two levels
	for level := 0; level < 2; level++ {
		add := map[taintKey]bool{}
		for _, fs := range funcs {
			defs := buildDefs(fs)
			ForEachNode(fs, func(n ast.Node) {
				call, ok := n.(*ast.CallExpr)
				if !ok {
					return
				}
				cal := Callee(fs.Info(), call)
				if cal == nil || p.Src(cal) == nil || sameFunc(cal, a.storData) || evSrc.Match(fs, call) {
					return
				}
				for j, arg := range call.Args {
					if t := fs.Info().TypeOf(arg); t != nil {
						if b, ok := t.Underlying().(*types.Basic); !ok || b.Info()&types.IsInteger == 0 {
							continue
						}
					}
					if taintedExpr(fs, defs, arg) {
						add[taintKey{cal, j}] = true
					}
				}
			})
		}
		for k := range add {
			tainted[k] = true
		}
	}
	c.Stats["tainted_offset_parameters"] = len(tainted)
	ndata, nsites := 0, 0
	for _, fs := range funcs {
		info := fs.Info()
		defs := buildDefs(fs)
		par := parentMap(fs.Body)
		// Data calls at tainted offsets; the variables holding their result
		sliceVars := map[types.Object]bool{}
		var direct []*ast.SliceExpr
		var dataCalls []*ast.CallExpr
		ForEachNode(fs, func(n ast.Node) {
			call, ok := n.(*ast.CallExpr)
			if !ok || !sameFunc(Callee(info, call), a.storData) || len(call.Args) != 1 || !taintedExpr(fs, defs, call.Args[0]) {
				return
			}
			dataCalls = append(dataCalls, call)
			var up ast.Node = par[call]
			var cur ast.Node = call
			if se, ok := up.(*ast.SliceExpr); ok && ast.Unparen(se.X) == ast.Expr(call) {
				direct = append(direct, se)
				cur, up = se, par[se]
			}
			switch v := up.(type) {
			case *ast.AssignStmt:
				for i, r := range v.Rhs {
					if ast.Unparen(r) == cur && i < len(v.Lhs) && len(v.Lhs) == len(v.Rhs) {
						if id, ok := v.Lhs[i].(*ast.Ident); ok {
							if o := objOfIdent(info, id); o != nil {
								sliceVars[o] = true
							}
						}
					}
				}
			case *ast.ValueSpec:
				for i, r := range v.Values {
					if ast.Unparen(r) == cur && i < len(v.Names) {
						sliceVars[info.Defs[v.Names[i]]] = true
					}
				}
			}
		})
		if len(dataCalls) == 0 {
			continue
		}
		ndata += len(dataCalls)
		// sites: constant-bounded reslices / indexings of those slices
		type site struct {
			node  ast.Node
			v     types.Object // nil: directly on the Data call
			lo, j int64
		}
		var sites []site
		constOf := func(e ast.Expr) (int64, bool) {
			if e == nil {
				return 0, false
			}
			v := ConstVal(info, e)
			if v == nil {
				return 0, false
			}
			return constant.Int64Val(constant.ToInt(v))
		}
		for _, se := range direct {
			if j, ok := constOf(se.High); ok {
				lo, _ := constOf(se.Low)
				sites = append(sites, site{se, nil, lo, j})
			}
		}
		ForEachNode(fs, func(n ast.Node) {
			switch v := n.(type) {
			case *ast.SliceExpr:
				id, ok := ast.Unparen(v.X).(*ast.Ident)
				if !ok || !sliceVars[info.Uses[id]] {
					return
				}
				if j, ok := constOf(v.High); ok {
					lo, _ := constOf(v.Low)
					sites = append(sites, site{v, info.Uses[id], lo, j})
				}
			case *ast.IndexExpr:
				id, ok := ast.Unparen(v.X).(*ast.Ident)
				if !ok || !sliceVars[info.Uses[id]] {
					return
				}
				if k, ok := constOf(v.Index); ok {
					sites = append(sites, site{v, info.Uses[id], k, k + 1})
				}
			}
		})
		if len(sites) == 0 {
			continue
		}
		siteOf := map[ast.Node]bool{}
		for _, s := range sites {
			siteOf[s.node] = true
		}
		lenFact := func(o types.Object, k int64) string { return fmt.Sprintf("@len:%s:%d", c05ObjKey(o), k) }
		fl := &Flow{P: p,
			Node: func(f *FuncSrc, n ast.Node) []string {
				var out []string
				if siteOf[n] {
					out = append(out, "site")
				}
				// b := X[:J] / b = b[:J] establishes len(b) == J
				if as, ok := n.(*ast.AssignStmt); ok && len(as.Lhs) == len(as.Rhs) {
					for i, r := range as.Rhs {
						se, ok := ast.Unparen(r).(*ast.SliceExpr)
						if !ok {
							continue
						}
						id, ok := as.Lhs[i].(*ast.Ident)
						if !ok {
							continue
						}
						if j, ok := constOf(se.High); ok {
							lo, _ := constOf(se.Low)
							if o := objOfIdent(f.Info(), id); o != nil {
								out = append(out, lenFact(o, j-lo))
							}
						}
					}
				}
				return out
			},
			Edge: func(f *FuncSrc, cond ast.Expr, truth bool) []string {
				be, ok := cond.(*ast.BinaryExpr)
				if !ok {
					return nil
				}
				lenOf := func(e ast.Expr) types.Object {
					call, ok := ast.Unparen(e).(*ast.CallExpr)
					if !ok || !IsBuiltin(f.Info(), call, "len") || len(call.Args) != 1 {
						return nil
					}
					if id := identOf(call.Args[0]); id != nil {
						return f.Info().Uses[id]
					}
					return nil
				}
				// normalise to len(b) OP k
				op := be.Op
				o := lenOf(be.X)
				k, kok := constOf(be.Y)
				if o == nil {
					o = lenOf(be.Y)
					k, kok = constOf(be.X)
					switch op {
					case token.LSS:
						op = token.GTR
					case token.LEQ:
						op = token.GEQ
					case token.GTR:
						op = token.LSS
					case token.GEQ:
						op = token.LEQ
					}
				}
				if o == nil || !kok {
					return nil
				}
				switch {
				case op == token.GEQ && truth, op == token.LSS && !truth, op == token.EQL && truth:
					return []string{lenFact(o, k)}
				case op == token.GTR && truth, op == token.LEQ && !truth:
					return []string{lenFact(o, k+1)}
				}
				return nil
			}}
		res := fl.Analyze(fs)
		for _, st := range sites {
			nsites++
			var before Set
			for _, s := range res.Of("site") {
				if s.Node == st.node {
					before = s.Before
				}
			}
			ok := false
			best := int64(-1)
			if st.v != nil && before != nil {
				// short-circuit guards: len(b) < K || …site…   /   len(b) >= K && …site…
				before = before.clone()
				var child ast.Node = st.node
				for up := par[child]; up != nil; child, up = up, par[up] {
					if _, isStmt := up.(ast.Stmt); isStmt {
						break
					}
					if be, isBin := up.(*ast.BinaryExpr); isBin && (be.Op == token.LOR || be.Op == token.LAND) && ast.Unparen(be.Y) == ast.Unparen(child.(ast.Expr)) {
						var facts []condFact
						condFacts(be.X, be.Op == token.LAND, &facts)
						for _, f := range facts {
							for _, l := range fl.Edge(fs, f.e, f.truth) {
								before[l] = true
							}
						}
					}
				}
				pfx := "@len:" + c05ObjKey(st.v) + ":"
				for l := range before {
					if strings.HasPrefix(l, pfx) {
						k, _ := strconv.ParseInt(l[len(pfx):], 10, 64)
						if k > best {
							best = k
						}
					}
				}
				ok = best >= st.j
			}
			what := fmt.Sprintf("%s: Stor.Data(scanned offset)[%d:%d]", fs.name, st.lo, st.j)
			if _, isIdx := st.node.(*ast.IndexExpr); isIdx {
				what = fmt.Sprintf("%s: Stor.Data(scanned offset)[%d]", fs.name, st.lo)
			}
			d := fmt.Sprintf("the offset comes from a byte-pattern scan and can lie in the last %d bytes of the mapped file; the slice returned by Stor.Data is then shorter than %d, but a reslice is only checked against cap (the rest of the 64 MB mapping), so no run-time check fires and the bytes past the end of the file are read — beyond the last page that is SIGBUS, which recover cannot catch (check/repair/asof die instead of skipping the candidate); ", st.j, st.j)
			if st.v == nil {
				d += "the reslice is applied directly to the result of Stor.Data, no length test is possible"
			} else if best >= 0 {
				d += fmt.Sprintf("the dominating length test only establishes len >= %d", best)
			} else {
				d += "no test of len(slice) against a constant dominates it"
			}
			c.Obl(r5, what+" is behind a length test", p.Pos(st.node), ok, d)
		}
	}
	c.Floor(r5, ndata, 2, "Stor.Data calls at scanned offsets")
	c.Floor(r5, nsites, 2, "constant-bounded reslices of slices at scanned offsets")
}

// ---------------------------------------------------------------- 6. K17 containment

func checkC05Contain(c *Ctx, a *stAnchors) {
	p := c.P
	r6 := "C05.6 K17 goroutines of check and repair contain their panics"
	var roots []*FuncSrc
	for _, n := range []string{"CheckDatabase", "Repair", "PrintStates"} {
		if fs := c.function(r6, "db19", n); fs != nil {
			roots = append(roots, fs)
		}
	}
	if len(roots) != 3 {
		return
	}
	wgGo := func(info *types.Info, call *ast.CallExpr) bool {
		f := Callee(info, call)
		if f == nil || f.Name() != "Go" || f.Pkg() == nil || f.Pkg().Path() != "sync" {
			return false
		}
		sig := f.Type().(*types.Signature)
		return sig.Recv() != nil && strings.HasSuffix(sig.Recv().Type().String(), "sync.WaitGroup")
	}
	// funcValue: the function (declaration or literal) an expression denotes
	funcValue := func(fs *FuncSrc, e ast.Expr) *FuncSrc {
		e = ast.Unparen(e)
		if lit, ok := e.(*ast.FuncLit); ok {
			return p.Lits[lit]
		}
		if f, ok := ObjOf(fs.Info(), e).(*types.Func); ok {
			return p.Src(f)
		}
		return nil
	}
	type entry struct {
		at   ast.Node
		in   *FuncSrc
		fn   *FuncSrc
		expr ast.Expr
	}
	var entries []entry
	reach := map[*FuncSrc]bool{}
	var work []*FuncSrc
	push := func(fs *FuncSrc) {
		if fs != nil && fs.Body != nil && !reach[fs] {
			reach[fs] = true
			work = append(work, fs)
		}
	}
	for _, r := range roots {
		push(r)
	}
	for len(work) > 0 {
		fs := work[len(work)-1]
		work = work[:len(work)-1]
		info := fs.Info()
		ast.Inspect(fs.Body, func(n ast.Node) bool {
			switch v := n.(type) {
			case *ast.FuncLit:
				if v != fs.Lit {
					push(p.Lits[v])
					return false
				}
			case *ast.GoStmt:
				e := entry{at: v, in: fs, expr: v.Call.Fun}
				if lit, ok := v.Call.Fun.(*ast.FuncLit); ok {
					e.fn = p.Lits[lit]
				} else if f := Callee(info, v.Call); f != nil {
					e.fn = p.Src(f)
				}
				entries = append(entries, e)
			case *ast.CallExpr:
				if wgGo(info, v) && len(v.Args) == 1 {
					entries = append(entries, entry{at: v, in: fs, fn: funcValue(fs, v.Args[0]), expr: v.Args[0]})
				}
				if f := Callee(info, v); f != nil {
					push(p.Src(f))
				}
			case *ast.Ident:
				if f, ok := info.Uses[v].(*types.Func); ok {
					push(p.Src(f))
				}
			}
			return true
		})
	}
	c.Stats["functions_reachable_from_check_repair"] = len(reach)
	fl := &Flow{P: p}
	memo := map[*FuncSrc]int{} // 1 = may panic explicitly, 2 = not, 3 = in progress
	why := map[*FuncSrc]string{}
	var mayPanic func(fs *FuncSrc) bool
	mayPanic = func(fs *FuncSrc) bool {
		if fs == nil || fs.Body == nil {
			return false
		}
		switch memo[fs] {
		case 1:
			return true
		case 2, 3:
			return false
		}
		memo[fs] = 3
		info := fs.Info()
		found := ""
		ast.Inspect(fs.Body, func(n ast.Node) bool {
			if found != "" {
				return false
			}
			call, ok := n.(*ast.CallExpr)
			if !ok {
				return true
			}
			if IsBuiltin(info, call, "panic") {
				found = "panic at " + p.Pos(call)
				return false
			}
			if tv, ok := info.Types[call.Fun]; ok && (tv.IsType() || tv.IsBuiltin()) {
				return true
			}
			if _, isLit := ast.Unparen(call.Fun).(*ast.FuncLit); isLit {
				return true
			}
			cal := Callee(info, call)
			if cal == nil {
				found = "call of a function value at " + p.Pos(call)
				return false
			}
			if cs := p.Src(cal); cs != nil && fl.isStatic(cal) && !fl.Swallows(cs) && mayPanic(cs) {
				found = funcName(cal) + " → " + why[cs]
				return false
			}
			return true
		})
		if found != "" {
			memo[fs] = 1
			why[fs] = found
			return true
		}
		memo[fs] = 2
		return false
	}
	sort.Slice(entries, func(i, j int) bool { return entries[i].at.Pos() < entries[j].at.Pos() })
	n := 0
	for _, e := range entries {
		n++
		name := e.in.Outer().name + ": goroutine " + goEntryName(e.fn, e.expr)
		if e.fn == nil {
			c.Obl(r6, name+" is a known function", p.Pos(e.at), false, "the goroutine entry is a function value the analysis cannot resolve")
			continue
		}
		if !mayPanic(e.fn) {
			c.Obl(r6, name+" reaches no explicit panic (no recover required)", p.Pos(e.at), true, "")
			continue
		}
		c.Obl(r6, name+" starts with a deferred recover that does not re-panic", p.Pos(e.at), fl.Swallows(e.fn),
			"the goroutine can reach an explicit panic ("+why[e.fn]+") and has no swallowing deferred recover: corrupt data met during check/repair kills the process instead of producing a result")
	}
	c.Floor(r6, n, 2, "goroutine entries reachable from CheckDatabase/Repair/PrintStates")
}

func goEntryName(fs *FuncSrc, e ast.Expr) string {
	if fs == nil {
		return "(unresolved)"
	}
	if fs.Lit != nil {
		return "literal"
	}
	return fs.name
}

package main

// Local value derivation over the AST (flow-insensitive def-use closure inside one
// function, including its literals): does expression e depend on a node satisfying
// pred, directly or through local variables?

import (
	"go/ast"
	"go/types"
)

type defIndex struct {
	defs map[types.Object][]ast.Expr // variable → right-hand sides that define it
}

func buildDefs(fs *FuncSrc) *defIndex {
	d := &defIndex{defs: map[types.Object][]ast.Expr{}}
	info := fs.Info()
	root := fs.Outer()
	if root.Body == nil {
		return d
	}
	add := func(lhs ast.Expr, rhs ast.Expr) {
		id, ok := ast.Unparen(lhs).(*ast.Ident)
		if !ok {
			return
		}
		o := info.Defs[id]
		if o == nil {
			o = info.Uses[id]
		}
		if o == nil {
			return
		}
		d.defs[o] = append(d.defs[o], rhs)
	}
	ast.Inspect(root.Body, func(n ast.Node) bool {
		switch s := n.(type) {
		case *ast.AssignStmt:
			if len(s.Lhs) == len(s.Rhs) {
				for i := range s.Lhs {
					add(s.Lhs[i], s.Rhs[i])
				}
			} else if len(s.Rhs) == 1 {
				for i := range s.Lhs {
					add(s.Lhs[i], s.Rhs[0])
				}
			}
		case *ast.ValueSpec:
			if len(s.Names) == len(s.Values) {
				for i := range s.Names {
					add(s.Names[i], s.Values[i])
				}
			} else if len(s.Values) == 1 {
				for i := range s.Names {
					add(s.Names[i], s.Values[0])
				}
			}
		case *ast.RangeStmt:
			if s.Key != nil {
				add(s.Key, s.X)
			}
			if s.Value != nil {
				add(s.Value, s.X)
			}
		case *ast.TypeSwitchStmt:
			// x := y.(type): the per-clause implicit objects derive from y
			if as, ok := s.Assign.(*ast.AssignStmt); ok && len(as.Rhs) == 1 {
				for _, cl := range s.Body.List {
					if o := info.Implicits[cl]; o != nil {
						d.defs[o] = append(d.defs[o], as.Rhs[0])
					}
				}
			}
		}
		return true
	})
	return d
}

// Mentions reports whether e contains a node satisfying pred, following local
// variable definitions transitively.
func (d *defIndex) Mentions(info *types.Info, e ast.Node, pred func(ast.Node) bool) bool {
	seen := map[types.Object]bool{}
	var rec func(n ast.Node) bool
	rec = func(n ast.Node) bool {
		found := false
		ast.Inspect(n, func(m ast.Node) bool {
			if found || m == nil {
				return false
			}
			if pred(m) {
				found = true
				return false
			}
			if _, ok := m.(*ast.FuncLit); ok {
				return false
			}
			if id, ok := m.(*ast.Ident); ok {
				if o := info.Uses[id]; o != nil && !seen[o] {
					seen[o] = true
					for _, rhs := range d.defs[o] {
						if rec(rhs) {
							found = true
							return false
						}
					}
				}
			}
			return true
		})
		return found
	}
	return rec(e)
}

// MentionsObj: e depends on the given object (parameter, variable).
func (d *defIndex) MentionsObj(info *types.Info, e ast.Node, obj types.Object) bool {
	return d.Mentions(info, e, func(n ast.Node) bool {
		id, ok := n.(*ast.Ident)
		return ok && info.Uses[id] == obj
	})
}

// MentionsCall: e depends on the result of a call matched by ev.
func (d *defIndex) MentionsEv(fs *FuncSrc, e ast.Node, ev Ev) bool {
	return d.Mentions(fs.Info(), e, func(n ast.Node) bool { return ev.Match(fs, n) })
}

// param returns the i'th parameter object of a declared function.
func (fs *FuncSrc) Param(i int) *types.Var {
	if fs.Obj == nil {
		return nil
	}
	ps := fs.Obj.Type().(*types.Signature).Params()
	if i < ps.Len() {
		return ps.At(i)
	}
	return nil
}

func (fs *FuncSrc) ParamNamed(name string) *types.Var {
	if fs.Obj == nil {
		return nil
	}
	ps := fs.Obj.Type().(*types.Signature).Params()
	for i := 0; i < ps.Len(); i++ {
		if ps.At(i).Name() == name {
			return ps.At(i)
		}
	}
	return nil
}

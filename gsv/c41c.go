package main

// C41.8: a malformed request must not take the server down.  The wire decoders of dbms/mux
// (methods of ReadBuf and the package functions they call) are shared by client and server and
// run on the server before any command handler can consult the unauthenticated wrapper; a call
// of core.Fatal (which exits the process) in them is allowed only on a path that has excluded
// the server (`options.Action == "server"` tested false, the server branch panics instead, which
// ends only the offending session).  Added after a finding of the sixth seeding round.

import (
	"go/ast"
	"go/constant"
	"go/token"
	"go/types"
)

func checkDecodersNeverExitServer(c *Ctx, rule string) {
	p := c.P
	fatal := p.Func("core", "Fatal")
	action := p.GlobalVar("options", "Action")
	rbT := p.NamedType("dbms/mux", "ReadBuf")
	if !c.need(rule, "core.Fatal", fatal) || !c.need(rule, "options.Action", action) || !c.need(rule, "mux.ReadBuf", rbT) {
		return
	}
	// decoders: methods of ReadBuf + functions of dbms/mux they call (transitively, in the package)
	dec := map[*FuncSrc]bool{}
	var work []*FuncSrc
	for _, fs := range p.FuncsIn("dbms/mux") {
		if fs.Body == nil || fs.Obj == nil {
			continue
		}
		if sig := fs.Obj.Type().(*types.Signature); sig.Recv() != nil && c17NamedOf(sig.Recv().Type()) == rbT {
			dec[fs] = true
			work = append(work, fs)
		}
	}
	for len(work) > 0 {
		fs := work[0]
		work = work[1:]
		info := fs.Info()
		ForEachNode(fs, func(nd ast.Node) {
			call, ok := nd.(*ast.CallExpr)
			if !ok {
				return
			}
			cal := Callee(info, call)
			if cal == nil || cal.Pkg() == nil || cal.Pkg() != fs.Pkg.Types {
				return
			}
			if cs := p.Src(cal); cs != nil && cs.Body != nil && !dec[cs] {
				dec[cs] = true
				work = append(work, cs)
			}
		})
	}
	c.Floor(rule, len(dec), 10, "wire decoders in dbms/mux")
	n := 0
	for fs := range dec {
		if len(p.CallsIn(fs, fatal)) == 0 {
			continue
		}
		info := fs.Info()
		fl := &Flow{P: p, Node: Labeler(CallOf("Fatal", fatal)), Edge: func(_ *FuncSrc, cond ast.Expr, truth bool) []string {
			be, ok := ast.Unparen(cond).(*ast.BinaryExpr)
			if !ok || (be.Op != token.EQL && be.Op != token.NEQ) {
				return nil
			}
			for _, pr := range [][2]ast.Expr{{be.X, be.Y}, {be.Y, be.X}} {
				if ObjOf(info, pr[0]) == types.Object(action) {
					if v := ConstVal(info, pr[1]); v != nil && v.Kind() == constant.String && constant.StringVal(v) == "server" {
						if (be.Op == token.EQL) != truth {
							return []string{"@not-server"}
						}
					}
				}
			}
			return nil
		}}
		res := fl.Analyze(fs)
		for _, s := range res.Of("Fatal") {
			if !s.Direct {
				continue
			}
			n++
			c.Obl(rule, fs.name+": a decoder exits the process only where the process is not the server", p.Pos(s.Node), s.Before.Has("@not-server"),
				"core.Fatal is reachable on the server for input chosen by the peer: an unauthenticated client can end the server process (and every other session) with one malformed request")
		}
	}
	c.Floor(rule, n, 1, "process exits in wire decoders")
}

package main

// C40.3: the mux framing.

import (
	"fmt"
	"go/ast"
	"go/constant"
	"go/token"
	"go/types"
	"sort"
)

func c40Mux(c *Ctx) {
	p := c.P
	r := "C40.3 K7 mux: header and body are written under one hold of the write lock"
	rw := p.Field("dbms/mux", "conn", "rw")
	wlock := p.Field("dbms/mux", "conn", "wlock")
	hdrF := p.Field("dbms/mux", "conn", "hdr")
	putHdr := p.DeclaredMethod("dbms/mux", "conn", "putHdr")
	writeFs := c.method(r, "dbms/mux", "conn", "write")
	if !c.need(r, "mux.conn.rw", rw) || !c.need(r, "mux.conn.wlock", wlock) || !c.need(r, "mux.conn.hdr", hdrF) ||
		!c.need(r, "mux.conn.putHdr", putHdr) || writeFs == nil {
		return
	}
	evWrite := MethodOnField("rw.Write", rw, "Write")
	c.Writers(r, "conn.rw (Write)", []string{"dbms/mux"}, evWrite, []string{"dbms/mux.(*conn).write"}, 1)
	c.Callers("C40.3 K3 putHdr is called only from conn.write", []*funcT{putHdr}, []string{"dbms/mux.(*conn).write"}, 1)
	{
		// Unlock ends the hold: it also forgets that the header was prepared
		unlock := MethodOnField("", wlock, "Unlock")
		fl := &Flow{P: p, Node: combine(Labeler(MethodOnField("wlock", wlock, "Lock"), evWrite, CallOf("putHdr", putHdr), UseOfField("hdr", hdrF)),
			func(fs *FuncSrc, n ast.Node) []string {
				if unlock.Match(fs, n) {
					return []string{"-wlock", "-putHdr"}
				}
				return nil
			})}
		res := fl.Analyze(writeFs)
		ws := res.Of("rw.Write")
		for _, s := range ws {
			c.Obl(r, "conn.write: rw.Write under wlock, after putHdr, in the same hold", p.Pos(s.Node), s.Before.Has("wlock") && s.Before.Has("putHdr"),
				"a frame's header and body can be separated by another session's write (or the body is written without a header): the reader attributes bytes to the wrong session")
		}
		c.Floor(r, len(ws), 3, "rw.Write calls in conn.write")
		for _, s := range res.Of("putHdr") {
			c.Obl(r, "conn.write: putHdr under wlock", p.Pos(s.Node), s.Before.Has("wlock"), "the shared header buffer is filled without the lock")
		}
		for _, s := range res.Of("hdr") {
			c.Obl(r, "conn.write: conn.hdr used under wlock", p.Pos(s.Node), s.Before.Has("wlock"), "the shared header buffer is used without the lock")
		}
	}
	c.Writers(r, "conn.hdr (use)", []string{"dbms/mux"}, UseOfField("", hdrF), []string{"dbms/mux.(*conn).write"}, 1)

	// rchs under lock
	r2 := "C40.3b K7 ClientConn.rchs under ClientConn.lock"
	rchs := p.Field("dbms/mux", "ClientConn", "rchs")
	lock := p.Field("dbms/mux", "ClientConn", "lock")
	if c.need(r2, "mux.ClientConn.rchs", rchs) && c.need(r2, "mux.ClientConn.lock", lock) {
		m := p.FuncsWith([]string{"dbms/mux"}, UseOfField("rchs", rchs))
		var fns []*FuncSrc
		for fs := range m {
			fns = append(fns, fs)
		}
		sort.Slice(fns, func(i, j int) bool { return fns[i].name < fns[j].name })
		for _, fs := range fns {
			fl := &Flow{P: p, Node: Labeler(MethodOnField("lock", lock, "Lock"), MethodOnField("-lock", lock, "Unlock"), UseOfField("rchs", rchs))}
			res := fl.Analyze(fs)
			all := len(res.Of("rchs")) == len(m[fs])
			for _, s := range res.Of("rchs") {
				if !s.Before.Has("lock") {
					all = false
				}
			}
			c.Obl(r2, fs.name+": rchs accessed under lock", p.Pos(m[fs][0]), all,
				"the response-channel map is accessed without the lock while the reader goroutine looks sessions up: a response can be lost or delivered to no one")
		}
		c.Floor(r2, len(fns), 2, "functions accessing ClientConn.rchs")
	}

	// ---- header layout
	r3 := "C40.3c K1 header layout: putHdr and reader agree and tile HeaderSize"
	hs := p.Const("dbms/mux", "HeaderSize")
	readerFs := c.method(r3, "dbms/mux", "conn", "reader")
	putFs := c.src(r3, putHdr, "mux.conn.putHdr")
	if hs == nil {
		c.Missing(r3, "mux.HeaderSize")
		return
	}
	if readerFs == nil || putFs == nil {
		return
	}
	hsz, _ := constant.Int64Val(hs)
	type field struct{ off, width int64 }
	// offset of a slice/index expression relative to a base variable: b → 0, b[k:] → k, b[k] → k
	offsetOf := func(info *types.Info, e ast.Expr, base types.Object) (int64, bool) {
		switch v := ast.Unparen(e).(type) {
		case *ast.Ident:
			return 0, info.Uses[v] == base
		case *ast.SliceExpr:
			if id, ok := ast.Unparen(v.X).(*ast.Ident); ok && info.Uses[id] == base && v.High == nil {
				if v.Low == nil {
					return 0, true
				}
				if k := ConstVal(info, v.Low); k != nil {
					n, _ := constant.Int64Val(k)
					return n, true
				}
			}
		case *ast.IndexExpr:
			if id, ok := ast.Unparen(v.X).(*ast.Ident); ok && info.Uses[id] == base {
				if k := ConstVal(info, v.Index); k != nil {
					n, _ := constant.Int64Val(k)
					return n, true
				}
			}
		}
		return 0, false
	}
	widthOf := func(f *types.Func) int64 {
		switch f.Name() {
		case "PutUint32", "Uint32":
			return 4
		case "PutUint16", "Uint16":
			return 2
		case "PutUint64", "Uint64":
			return 8
		}
		return 0
	}
	// putHdr(buf, id, size, final): which parameter goes where
	put := map[string]field{}
	finalVals := map[bool]string{} // final → constant stored
	{
		info := putFs.Info()
		sig := putFs.Obj.Type().(*types.Signature)
		if sig.Params().Len() != 4 {
			c.Missing(r3, "putHdr(buf, id, size, final)")
			return
		}
		buf := sig.Params().At(0)
		role := map[types.Object]string{}
		// roles by type: the uint32 parameter is the session id, the int the size, the bool the final flag
		for i := 1; i < 4; i++ {
			pv := sig.Params().At(i)
			if b, ok := pv.Type().Underlying().(*types.Basic); ok {
				switch b.Kind() {
				case types.Uint32:
					role[pv] = "id"
				case types.Int:
					role[pv] = "size"
				case types.Bool:
					role[pv] = "final"
				}
			}
		}
		defs := buildDefs(putFs)
		ForEachNode(putFs, func(n ast.Node) {
			call, ok := n.(*ast.CallExpr)
			if !ok || len(call.Args) != 2 {
				return
			}
			cal := Callee(info, call)
			if cal == nil || cal.Pkg() == nil || cal.Pkg().Path() != "encoding/binary" || widthOf(cal) == 0 {
				return
			}
			off, ok := offsetOf(info, call.Args[0], buf)
			if !ok {
				return
			}
			for pv, ro := range role {
				if defs.MentionsObj(info, call.Args[1], pv) {
					put[ro] = field{off, widthOf(cal)}
				}
			}
		})
		var finalParam types.Object
		for pv, ro := range role {
			if ro == "final" {
				finalParam = pv
			}
		}
		fl := &Flow{P: p, Node: func(fs *FuncSrc, n ast.Node) []string {
			as, ok := n.(*ast.AssignStmt)
			if !ok || len(as.Lhs) != 1 || len(as.Rhs) != 1 {
				return nil
			}
			if _, ok := offsetOf(fs.Info(), as.Lhs[0], buf); ok {
				if _, isIdx := ast.Unparen(as.Lhs[0]).(*ast.IndexExpr); isIdx {
					return []string{"store"}
				}
			}
			return nil
		}, Edge: func(fs *FuncSrc, cond ast.Expr, truth bool) []string {
			if id, ok := ast.Unparen(cond).(*ast.Ident); ok && fs.Info().Uses[id] == finalParam {
				if truth {
					return []string{"@final"}
				}
				return []string{"@notfinal"}
			}
			return nil
		}}
		for _, s := range fl.Analyze(putFs).Of("store") {
			as := s.Node.(*ast.AssignStmt)
			off, _ := offsetOf(info, as.Lhs[0], buf)
			v := ConstVal(info, as.Rhs[0])
			if v == nil {
				continue
			}
			put["final"] = field{off, 1}
			if s.Before.Has("@final") {
				finalVals[true] = v.ExactString()
			}
			if s.Before.Has("@notfinal") {
				finalVals[false] = v.ExactString()
			}
		}
	}
	// reader: roles by use
	get := map[string]field{}
	readFinal := map[bool]string{}
	{
		info := readerFs.Info()
		defs := buildDefs(readerFs)
		handler := readerFs.Param(0)
		// the header buffer: the slice made with HeaderSize
		var hdrVar types.Object
		for o, rhss := range defs.defs {
			for _, rhs := range rhss {
				if call, ok := ast.Unparen(rhs).(*ast.CallExpr); ok && IsBuiltin(info, call, "make") && len(call.Args) >= 2 {
					if v := ConstVal(info, call.Args[1]); v != nil && constant.Compare(v, token.EQL, hs) {
						hdrVar = o
					}
				}
			}
		}
		if hdrVar == nil {
			c.Missing(r3, "reader: header buffer made with HeaderSize")
			return
		}
		// binary reads and what their result is used for
		reads := map[types.Object]field{}
		ForEachNode(readerFs, func(n ast.Node) {
			as, ok := n.(*ast.AssignStmt)
			if !ok || len(as.Lhs) != 1 || len(as.Rhs) != 1 {
				return
			}
			var call *ast.CallExpr
			ast.Inspect(as.Rhs[0], func(m ast.Node) bool {
				if cl, ok := m.(*ast.CallExpr); ok {
					if cal := Callee(info, cl); cal != nil && cal.Pkg() != nil && cal.Pkg().Path() == "encoding/binary" && widthOf(cal) > 0 {
						call = cl
					}
				}
				return true
			})
			if call == nil || len(call.Args) != 1 {
				return
			}
			off, ok := offsetOf(info, call.Args[0], hdrVar)
			if !ok {
				return
			}
			if id, ok := as.Lhs[0].(*ast.Ident); ok {
				o := info.Defs[id]
				if o == nil {
					o = info.Uses[id]
				}
				reads[o] = field{off, widthOf(Callee(info, call))}
			}
		})
		maxSize := p.ConstObj("dbms/mux", "maxSize")
		ForEachNode(readerFs, func(n ast.Node) {
			switch v := n.(type) {
			case *ast.CallExpr:
				// handler(id, buf): first argument is the session id
				if id, ok := ast.Unparen(v.Fun).(*ast.Ident); ok && info.Uses[id] == types.Object(handler) && len(v.Args) == 2 {
					if a0, ok := ast.Unparen(v.Args[0]).(*ast.Ident); ok {
						if f, ok := reads[info.Uses[a0]]; ok {
							get["id"] = f
						}
					}
				}
			case *ast.BinaryExpr:
				// size: compared against maxSize
				if maxSize != nil && (v.Op == token.GTR || v.Op == token.GEQ || v.Op == token.LSS || v.Op == token.LEQ) {
					var other ast.Expr
					if ObjOf(info, v.Y) == types.Object(maxSize) {
						other = v.X
					} else if ObjOf(info, v.X) == types.Object(maxSize) {
						other = v.Y
					}
					if other != nil {
						ast.Inspect(other, func(m ast.Node) bool {
							if id, ok := m.(*ast.Ident); ok {
								if f, ok := reads[info.Uses[id]]; ok {
									get["size"] = f
								}
							}
							return true
						})
					}
				}
			}
		})
		// which constant leads to delivering the message / keeping a partial one
		fl := &Flow{P: p, Node: func(fs *FuncSrc, n ast.Node) []string {
			switch v := n.(type) {
			case *ast.CallExpr:
				if id, ok := ast.Unparen(v.Fun).(*ast.Ident); ok && fs.Info().Uses[id] == types.Object(handler) && len(v.Args) == 2 && !isNilIdent(fs.Info(), v.Args[1]) {
					return []string{"deliver"}
				}
			case *ast.AssignStmt:
				if len(v.Lhs) == 1 {
					if ix, ok := ast.Unparen(v.Lhs[0]).(*ast.IndexExpr); ok {
						if t, ok := fs.Info().TypeOf(ix.X).Underlying().(*types.Map); ok && t != nil {
							return []string{"keep"}
						}
					}
				}
			}
			return nil
		}, Edge: func(fs *FuncSrc, cond ast.Expr, truth bool) []string {
			be, ok := ast.Unparen(cond).(*ast.BinaryExpr)
			if !ok || be.Op != token.EQL || !truth {
				return nil
			}
			for _, pr := range [][2]ast.Expr{{be.X, be.Y}, {be.Y, be.X}} {
				if _, isIdx := ast.Unparen(pr[0]).(*ast.IndexExpr); !isIdx {
					continue
				}
				if off, ok := offsetOf(fs.Info(), pr[0], hdrVar); ok {
					if v := ConstVal(fs.Info(), pr[1]); v != nil {
						get["final"] = field{off, 1}
						return []string{"@flag==" + v.ExactString()}
					}
				}
			}
			return nil
		}}
		res := fl.Analyze(readerFs)
		flagOf := func(s *Site) string {
			for l := range s.Before {
				if len(l) > 7 && l[:7] == "@flag==" {
					return l[7:]
				}
			}
			return ""
		}
		for _, s := range res.Of("deliver") {
			readFinal[true] = flagOf(s)
		}
		for _, s := range res.Of("keep") {
			readFinal[false] = flagOf(s)
		}
	}
	for _, ro := range []string{"size", "id", "final"} {
		pf, ok1 := put[ro]
		gf, ok2 := get[ro]
		c.Obl(r3, "header field "+ro+": same offset and width in putHdr and reader", p.Pos(putFs.Decl), ok1 && ok2 && pf == gf,
			fmt.Sprintf("putHdr writes %s at %+v (found=%v), reader reads it at %+v (found=%v): frames would be mis-sized or routed to the wrong session", ro, pf, ok1, gf, ok2))
	}
	// tiling
	var fs []field
	for _, f := range put {
		fs = append(fs, f)
	}
	sort.Slice(fs, func(i, j int) bool { return fs[i].off < fs[j].off })
	next := int64(0)
	tiles := len(fs) == 3
	for _, f := range fs {
		if f.off != next {
			tiles = false
		}
		next = f.off + f.width
	}
	c.Obl(r3, "header fields tile [0, HeaderSize)", p.Pos(putFs.Decl), tiles && next == hsz,
		fmt.Sprintf("fields %+v do not cover exactly HeaderSize=%d bytes", fs, hsz))
	c.Obl(r3, "final flag: the value written for final is the one on which the reader delivers, the other the one on which it keeps a partial message", p.Pos(readerFs.Decl),
		finalVals[true] != "" && finalVals[true] == readFinal[true] && finalVals[false] != "" && finalVals[false] == readFinal[false] && finalVals[true] != finalVals[false],
		fmt.Sprintf("putHdr writes final→%q, not final→%q; reader delivers on %q and keeps on %q", finalVals[true], finalVals[false], readFinal[true], readFinal[false]))

	// WriteBuf reserves exactly HeaderSize bytes
	r4 := "C40.3d K1 WriteBuf reserves HeaderSize bytes for the header"
	wbuf := p.Field("dbms/mux", "WriteBuf", "buf")
	if c.need(r4, "mux.WriteBuf.buf", wbuf) {
		n := 0
		for _, f := range p.FuncsIn("dbms/mux") {
			info := f.Info()
			ForEachNode(f, func(nd ast.Node) {
				switch v := nd.(type) {
				case *ast.SliceExpr:
					if FieldOf(info, v.X) == wbuf && v.Low == nil && v.High != nil {
						n++
						k := ConstVal(info, v.High)
						c.Obl(r4, f.name+": buf is cut back to HeaderSize", p.Pos(v), k != nil && constant.Compare(k, token.EQL, hs),
							"the write buffer is reset to a length other than HeaderSize: the header overwrites data or garbage is sent")
					}
				case *ast.KeyValueExpr:
					if id, ok := v.Key.(*ast.Ident); ok && info.Uses[id] == types.Object(wbuf) {
						if call, ok := ast.Unparen(v.Value).(*ast.CallExpr); ok && IsBuiltin(info, call, "make") && len(call.Args) >= 2 {
							n++
							k := ConstVal(info, call.Args[1])
							c.Obl(r4, f.name+": buf is made with length HeaderSize", p.Pos(v), k != nil && constant.Compare(k, token.EQL, hs), "")
						}
					}
				}
			})
		}
		c.Floor(r4, n, 3, "places that size WriteBuf.buf")
		// flush passes hdrSpace=true, and write subtracts HeaderSize exactly then
		if writeFs := p.Src(p.DeclaredMethod("dbms/mux", "conn", "write")); writeFs != nil {
			hdrSpace := writeFs.ParamNamed("hdrSpace")
			_ = hdrSpace
		}
	}
}

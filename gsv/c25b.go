package main

// Rules added after the seeded changes C25-1 and C25-2 (DESIGN.md §8.2).

import (
	"fmt"
	"go/ast"
	"go/constant"
	"go/token"
	"go/types"
	"sort"
	"strings"
)

// tokTable reads a package-level `map[tok.Token]tok.Token{…}` literal of compile/ast.
func tokTable(p *Prog, name string) (map[int64]int64, map[int64]string, ast.Node) {
	v := p.GlobalVar("compile/ast", name)
	if v == nil {
		return nil, nil, nil
	}
	pk := p.Pkg("compile/ast")
	for _, f := range pk.Syntax {
		for _, d := range f.Decls {
			gd, ok := d.(*ast.GenDecl)
			if !ok || gd.Tok != token.VAR {
				continue
			}
			for _, sp := range gd.Specs {
				vs := sp.(*ast.ValueSpec)
				for i, nm := range vs.Names {
					if pk.TypesInfo.Defs[nm] != types.Object(v) || i >= len(vs.Values) {
						continue
					}
					cl, ok := vs.Values[i].(*ast.CompositeLit)
					if !ok {
						return nil, nil, nil
					}
					m := map[int64]int64{}
					names := map[int64]string{}
					for _, el := range cl.Elts {
						kv, ok := el.(*ast.KeyValueExpr)
						if !ok {
							return nil, nil, nil
						}
						k, v := ConstVal(pk.TypesInfo, kv.Key), ConstVal(pk.TypesInfo, kv.Value)
						if k == nil || v == nil {
							return nil, nil, nil
						}
						ki, _ := constant.Int64Val(k)
						vi, _ := constant.Int64Val(v)
						m[ki] = vi
						names[ki] = exprStr(kv.Key)
						if _, ok := names[vi]; !ok {
							names[vi] = exprStr(kv.Value)
						}
					}
					return m, names, cl
				}
			}
		}
	}
	return nil, nil, nil
}

// checkComparisonTables (C25.6): the folder's two token tables are, by their meaning,
// "swap the operands" (reverseBinary) and "negate" (inverseBinary).  Whatever the tokens
// are, both must be involutions, they must commute, and for a token that swapping changes,
// swapping must differ from negating; a token that swapping keeps (symmetric relation)
// must have a negation that swapping also keeps.
func checkComparisonTables(c *Ctx, rule string) {
	p := c.P
	rev, names, rnode := tokTable(p, "reverseBinary")
	inv, names2, inode := tokTable(p, "inverseBinary")
	if rev == nil || inv == nil {
		c.Missing(rule, "compile/ast.reverseBinary / inverseBinary as constant-keyed map literals")
		return
	}
	for k, v := range names2 {
		if _, ok := names[k]; !ok {
			names[k] = v
		}
	}
	nm := func(t int64) string { return names[t] }
	keys := func(m map[int64]int64) []int64 {
		var ks []int64
		for k := range m {
			ks = append(ks, k)
		}
		sort.Slice(ks, func(i, j int) bool { return ks[i] < ks[j] })
		return ks
	}
	var bad []string
	for _, t := range keys(rev) {
		if u, ok := rev[rev[t]]; !ok || u != t {
			bad = append(bad, fmt.Sprintf("reverse(reverse(%s)) = %s", nm(t), nm(rev[rev[t]])))
		}
	}
	c.Obl(rule, "reverseBinary (swap the operands) is an involution", p.Pos(rnode), len(bad) == 0,
		strings.Join(bad, "; ")+": `c op x` is compiled as `x reverse(op) c`; swapping twice must give the original comparison")
	bad = nil
	for _, t := range keys(inv) {
		if u, ok := inv[inv[t]]; !ok || u != t {
			bad = append(bad, fmt.Sprintf("inverse(inverse(%s)) = %s", nm(t), nm(inv[inv[t]])))
		}
	}
	c.Obl(rule, "inverseBinary (negate) is an involution", p.Pos(inode), len(bad) == 0, strings.Join(bad, "; "))
	bad = nil
	for _, t := range keys(rev) {
		it, ok1 := inv[t]
		rt := rev[t]
		if !ok1 {
			continue
		}
		a, okA := rev[it]
		b, okB := inv[rt]
		if !okA || !okB || a != b {
			bad = append(bad, fmt.Sprintf("%s: reverse(inverse) = %s but inverse(reverse) = %s", nm(t), nm(a), nm(b)))
		}
		if rt != t && it == rt {
			bad = append(bad, fmt.Sprintf("%s: swapping the operands and negating give the same token %s", nm(t), nm(rt)))
		}
		if rt == t && rev[it] != it {
			bad = append(bad, fmt.Sprintf("%s is kept by swapping (symmetric) but its negation %s is not", nm(t), nm(it)))
		}
	}
	c.Obl(rule, "swapping and negating commute and differ on every token that swapping changes", p.Pos(rnode), len(bad) == 0, strings.Join(bad, "; "))
	c.Floor(rule, len(rev), 6, "entries of reverseBinary")
	c.Floor(rule, len(inv), 6, "entries of inverseBinary")
}

// checkInRangeRaw (C25.7): InRange.EvalRaw (comparison on stored encodings) is evaluated
// over its finite domain - lower bound exclusive/inclusive, upper bound
// exclusive/inclusive, value below / at / between / at / above the bounds - against the
// meaning of a range expression.
func checkInRangeRaw(c *Ctx, rule string) {
	p := c.P
	fs := c.method(rule, "compile/ast", "InRange", "EvalRaw")
	orgTokF := p.Field("compile/ast", "InRange", "OrgTok")
	endTokF := p.Field("compile/ast", "InRange", "EndTok")
	eF := p.Field("compile/ast", "InRange", "E")
	orgF := p.Field("compile/ast", "InRange", "Org")
	endF := p.Field("compile/ast", "InRange", "End")
	gt, gte, lt, lte := p.Const("compile/tokens", "Gt"), p.Const("compile/tokens", "Gte"), p.Const("compile/tokens", "Lt"), p.Const("compile/tokens", "Lte")
	// PackedTrue / PackedFalse are package variables: they are given symbolic values
	vTrue, vFalse := p.GlobalVar("core", "PackedTrue"), p.GlobalVar("core", "PackedFalse")
	pTrue, pFalse := constant.MakeString("<PackedTrue>"), constant.MakeString("<PackedFalse>")
	if fs == nil {
		return
	}
	for n, v := range map[string]any{"InRange.OrgTok": orgTokF, "InRange.EndTok": endTokF, "InRange.E": eF, "InRange.Org": orgF, "InRange.End": endF} {
		if !c.need(rule, "compile/ast."+n, v) {
			return
		}
	}
	if gt == nil || gte == nil || lt == nil || lte == nil || vTrue == nil || vFalse == nil {
		c.Missing(rule, "tokens Gt/Gte/Lt/Lte or core.PackedTrue/PackedFalse")
		return
	}
	info := fs.Info()
	var bad []string
	n := 0
	for _, ot := range []constant.Value{gt, gte} {
		for _, et := range []constant.Value{lt, lte} {
			for _, x := range []string{"a", "b", "c", "d", "e"} {
				n++
				env := &AbsEnv{Info: info, Atom: func(e ast.Expr) (constant.Value, bool) {
					switch FieldOf(info, e) {
					case orgTokF:
						return ot, true
					case endTokF:
						return et, true
					}
					if o := ObjOf(info, e); o != nil {
						if o == types.Object(vTrue) {
							return pTrue, true
						}
						if o == types.Object(vFalse) {
							return pFalse, true
						}
					}
					if call, ok := e.(*ast.CallExpr); ok {
						if sel, ok := call.Fun.(*ast.SelectorExpr); ok {
							switch FieldOf(info, sel.X) {
							case eF:
								return constant.MakeString(x), true
							case orgF:
								return constant.MakeString("b"), true
							case endF:
								return constant.MakeString("d"), true
							}
						}
					}
					return nil, false
				}}
				res := env.run(fs.Body)
				lowOK := x > "b" || (constant.Compare(ot, token.EQL, gte) && x == "b")
				highOK := x < "d" || (constant.Compare(et, token.EQL, lte) && x == "d")
				want := pFalse
				if lowOK && highOK {
					want = pTrue
				}
				if res.Unknown != "" || len(res.Returns) != 1 || res.Returns[0] == nil || !constant.Compare(res.Returns[0], token.EQL, want) {
					bad = append(bad, fmt.Sprintf("lower %s, upper %s, value %q in [\"b\",\"d\"]: want %v got %+v",
						map[bool]string{true: ">", false: ">="}[constant.Compare(ot, token.EQL, gt)], map[bool]string{true: "<", false: "<="}[constant.Compare(et, token.EQL, lt)], x, constant.Compare(want, token.EQL, pTrue), res))
				}
			}
		}
	}
	c.Stats["inrange_raw_cases"] = n
	c.Obl(rule, "InRange.EvalRaw honours exclusive/inclusive bounds on both sides (20 cases)", p.Pos(fs.Decl), len(bad) == 0, strings.Join(bad, "; "))
}

// checkBinaryRawAgrees (.8): for every token Binary.RawOp accepts, Binary.EvalRaw (comparison
// of the stored encodings) and Binary.eval (comparison of the values) apply the same relation:
// both are folded with the outcome of the comparison being <, == and >.  (That the byte order of
// the encodings is the value order is C13/C28; this decides that the two switches agree.)
func checkBinaryRawAgrees(c *Ctx, rule string) {
	p := c.P
	rawOp := c.method(rule, "compile/ast", "Binary", "RawOp")
	evalRaw := c.method(rule, "compile/ast", "Binary", "EvalRaw")
	eval := c.method(rule, "compile/ast", "Binary", "eval")
	tokF := p.Field("compile/ast", "Binary", "Tok")
	if rawOp == nil || evalRaw == nil || eval == nil || !c.need(rule, "compile/ast.Binary.Tok", tokF) {
		return
	}
	// tokens accepted by RawOp: case lists whose body returns true
	info := rawOp.Info()
	var toks []constant.Value
	names := map[string]string{}
	ast.Inspect(rawOp.Body, func(nd ast.Node) bool {
		cc, ok := nd.(*ast.CaseClause)
		if !ok {
			return true
		}
		retTrue := false
		for _, st := range cc.Body {
			if r, ok := st.(*ast.ReturnStmt); ok && len(r.Results) == 1 {
				if v := ConstVal(info, r.Results[0]); v != nil && v.Kind() == constant.Bool && constant.BoolVal(v) {
					retTrue = true
				}
			}
		}
		if retTrue {
			for _, e := range cc.List {
				if v := ConstVal(info, e); v != nil {
					toks = append(toks, v)
					names[v.ExactString()] = exprStr(e)
				}
			}
		}
		return true
	})
	c.Floor(rule, len(toks), 2, "tokens accepted by Binary.RawOp")
	lhsF, rhsF := p.Field("compile/ast", "Binary", "Lhs"), p.Field("compile/ast", "Binary", "Rhs")
	if !c.need(rule, "compile/ast.Binary.Lhs", lhsF) || !c.need(rule, "compile/ast.Binary.Rhs", rhsF) {
		return
	}
	symL, symR := constant.MakeString("<left operand>"), constant.MakeString("<right operand>")
	fold := func(fs *FuncSrc, t constant.Value, cmp int) (constant.Value, string) {
		fi := fs.Info()
		sig := fs.Obj.Type().(*types.Signature)
		env := &AbsEnv{Info: fi, Locals: map[types.Object]constant.Value{}}
		// value parameters (lhs, rhs) in order
		k := 0
		for i := 0; i < sig.Params().Len(); i++ {
			if named, ok := sig.Params().At(i).Type().(*types.Named); ok && named.Obj().Name() == "Value" {
				env.Locals[sig.Params().At(i)] = []constant.Value{symL, symR}[k%2]
				k++
			}
		}
		// order of two operands: -1/0/+1 from cmp, nil if they are not the two operands
		order := func(info *types.Info, a, b ast.Expr, ev func(ast.Expr) constant.Value) (int, bool) {
			x, y := ev(a), ev(b)
			if x == nil || y == nil || x.Kind() != constant.String || y.Kind() != constant.String {
				return 0, false
			}
			xs, ys := constant.StringVal(x), constant.StringVal(y)
			l, r := constant.StringVal(symL), constant.StringVal(symR)
			switch {
			case xs == l && ys == r:
				return cmp, true
			case xs == r && ys == l:
				return -cmp, true
			}
			return 0, false
		}
		env.Inline = func(f *types.Func) *FuncSrc {
			switch f.Name() {
			case "packedCmp", "strictCompare", "OpIs", "OpIsnt", "PackBool":
				return nil
			}
			src := p.Src(f)
			if src == nil || src.Body == nil {
				return nil
			}
			return src
		}
		env.AtomEnv = func(en *AbsEnv, e ast.Expr) (constant.Value, bool) {
			info := en.Info
			if FieldOf(info, e) == tokF {
				return t, true
			}
			ev := func(x ast.Expr) constant.Value { return en.expr(x) }
			switch x := e.(type) {
			case *ast.BinaryExpr:
				if x.Op == token.EQL || x.Op == token.NEQ {
					if o, ok := order(info, x.X, x.Y, ev); ok {
						return constant.MakeBool((o == 0) == (x.Op == token.EQL)), true
					}
				}
			case *ast.CallExpr:
				if tv, ok := info.Types[x.Fun]; ok && tv.IsType() {
					return nil, false
				}
				// a.Lhs.EvalRaw(c) / a.Rhs.EvalRaw(c)
				if sel, ok := x.Fun.(*ast.SelectorExpr); ok {
					switch FieldOf(info, sel.X) {
					case lhsF:
						return symL, true
					case rhsF:
						return symR, true
					}
				}
				cal := Callee(info, x)
				if cal == nil {
					return nil, true
				}
				switch cal.Name() {
				case "PackBool":
					if len(x.Args) == 1 {
						return ev(x.Args[0]), true
					}
				case "packedCmp", "strictCompare":
					if len(x.Args) == 2 {
						if o, ok := order(info, x.Args[0], x.Args[1], ev); ok {
							return constant.MakeInt64(int64(o)), true
						}
					}
					return nil, true
				case "OpIs", "OpIsnt":
					if len(x.Args) == 2 {
						if o, ok := order(info, x.Args[0], x.Args[1], ev); ok {
							return constant.MakeBool((o == 0) == (cal.Name() == "OpIs")), true
						}
					}
					return nil, true
				case "Not":
					if sel, ok := x.Fun.(*ast.SelectorExpr); ok && len(x.Args) == 0 {
						if v := ev(sel.X); v != nil && v.Kind() == constant.Bool {
							return constant.MakeBool(!constant.BoolVal(v)), true
						}
						return nil, true
					}
				}
			}
			return nil, false
		}
		r := env.run(fs.Body)
		if r.Panics {
			return nil, "panics (token not handled)"
		}
		if r.Unknown != "" || len(r.Returns) != 1 || r.Returns[0] == nil || r.Returns[0].Kind() != constant.Bool {
			return nil, "cannot be folded " + r.Unknown
		}
		return r.Returns[0], ""
	}
	n := 0
	for _, t := range toks {
		var bad []string
		for _, cmp := range []int{-1, 0, 1} {
			n++
			rv, rwhy := fold(evalRaw, t, cmp)
			ev, ewhy := fold(eval, t, cmp)
			rel := map[int]string{-1: "<", 0: "==", 1: ">"}[cmp]
			switch {
			case rwhy != "":
				bad = append(bad, "EvalRaw "+rwhy)
			case ewhy != "":
				bad = append(bad, "eval "+ewhy)
			case constant.BoolVal(rv) != constant.BoolVal(ev):
				bad = append(bad, fmt.Sprintf("left %s right: stored encodings give %v, values give %v", rel, constant.BoolVal(rv), constant.BoolVal(ev)))
			}
		}
		c.Obl(rule, "Binary "+names[t.ExactString()]+": raw and ordinary evaluation apply the same relation", p.Pos(evalRaw.Decl), len(bad) == 0, strings.Join(uniqStrings(bad), "; "))
	}
	c.Stats["binary_raw_cases"] = n
}

#!/bin/bash
# usage: seedrun.sh <patch.diff> <ID...> — applies the patch to a scratch copy of /repo and runs the given checks on it
P=$(readlink -f $1); shift
D=/tmp/gsvseed.$$
mkdir -p $D/repo $D/verif
rsync -a --exclude .git --exclude '*.syso' --exclude '*.tmp' /repo/ $D/repo/
cp /verif/known_findings.txt $D/verif/ 2>/dev/null
(cd $D/repo && patch -p1 --no-backup-if-mismatch -s < $P) || { echo "patch failed"; rm -rf $D; exit 3; }
for ID in "$@"; do
  GSV_REPO=$D/repo GSV_VERIF=$D/verif /verif/gsv/gsv check $ID 2>&1 | grep -E "^violation|^C[0-9]+ tier|gsv:" | cut -c1-420
done
rm -rf $D

package main

// C34 timestamps: db19.timestamp / core.ts* lock discipline, forward-only clock tick,
// advancing stores on every path of db19.Timestamp, server step vs. client batch under
// the same millisecond threshold, uint8 headroom, AddMs precondition.

import (
	"fmt"
	"go/ast"
	"go/constant"
	"go/token"
	"go/types"
	"sort"
)

func init() { register("C34", checkC34, "./db19", "./core") }

// useOfVar matches every identifier that refers to the package-level variable v.
func useOfVar(label string, v *types.Var) Ev {
	return Ev{label, func(fs *FuncSrc, n ast.Node) bool {
		id, ok := n.(*ast.Ident)
		return ok && v != nil && fs.Info().Uses[id] == types.Object(v)
	}}
}

// msBoundary recognises `X.Millisecond() op C` (either operand order) and returns the
// boundary B such that the condition is equivalent to ms < B (lo=true) or ms >= B (lo=false).
func msBoundary(fs *FuncSrc, cond ast.Expr, msFn *types.Func) (b int64, lo bool, ok bool) {
	be, isBin := ast.Unparen(cond).(*ast.BinaryExpr)
	if !isBin {
		return
	}
	x, y, op := be.X, be.Y, be.Op
	isMs := func(e ast.Expr) bool {
		found := false
		ast.Inspect(e, func(n ast.Node) bool {
			if call, ok := n.(*ast.CallExpr); ok && sameFunc(Callee(fs.Info(), call), msFn) {
				found = true
			}
			return !found
		})
		return found
	}
	if !isMs(x) {
		if !isMs(y) {
			return
		}
		x, y = y, x
		switch op {
		case token.LSS:
			op = token.GTR
		case token.GTR:
			op = token.LSS
		case token.LEQ:
			op = token.GEQ
		case token.GEQ:
			op = token.LEQ
		}
	}
	v := ConstVal(fs.Info(), y)
	if v == nil {
		return
	}
	k, exact := constant.Int64Val(constant.ToInt(v))
	if !exact {
		return
	}
	switch op {
	case token.LSS:
		return k, true, true
	case token.LEQ:
		return k + 1, true, true
	case token.GEQ:
		return k, false, true
	case token.GTR:
		return k + 1, false, true
	}
	return
}

func checkC34(c *Ctx) string {
	p := c.P
	r1 := "C34.1 K7 db19.timestamp is accessed only under db19.tsLock"
	r2 := "C34.2 K7 core.tsLast/tsCount/tsLimit are accessed only under core.tsLock"
	r3 := "C34.3 K4c the clock tick moves db19.timestamp forwards only"
	r4 := "C34.4 K5+K1 db19.Timestamp advances the clock on every path by a positive constant"
	r5 := "C34.5 K1+K9 server step covers the client batch under the same threshold; uint8 headroom"
	r6 := "C34.6 K14 AddMs is called within its precondition and its carry path"

	ts := p.GlobalVar("db19", "timestamp")
	dbLock := p.GlobalVar("db19", "tsLock")
	tsLast, tsCount, tsLimit := p.GlobalVar("core", "tsLast"), p.GlobalVar("core", "tsCount"), p.GlobalVar("core", "tsLimit")
	coreLock := p.GlobalVar("core", "tsLock")
	addMs := p.DeclaredMethod("core", "SuDate", "AddMs")
	msFn := p.DeclaredMethod("core", "SuDate", "Millisecond")
	cmpFn := p.DeclaredMethod("core", "SuDate", "Compare")
	ok := c.need(r1, "db19.timestamp", ts) && c.need(r1, "db19.tsLock", dbLock) && c.need(r2, "core.tsLast", tsLast) &&
		c.need(r2, "core.tsCount", tsCount) && c.need(r2, "core.tsLimit", tsLimit) && c.need(r2, "core.tsLock", coreLock) &&
		c.need(r6, "core.SuDate.AddMs", addMs) && c.need(r5, "core.SuDate.Millisecond", msFn) && c.need(r3, "core.SuDate.Compare", cmpFn)
	if !ok {
		return "anchors missing"
	}

	sorted := func(m map[*FuncSrc][]ast.Node) []*FuncSrc {
		var out []*FuncSrc
		for fs := range m {
			out = append(out, fs)
		}
		sort.Slice(out, func(i, j int) bool { return out[i].name < out[j].name })
		return out
	}

	// ------------------------------------------------------------ 1. db19.timestamp
	// frozen exception: db19.StartTimestamps initialises the variable before it starts the
	// ticker goroutine (checked: the store precedes the go statement) and is called once from
	// openDbms before the database is served.
	const startFn = "db19.StartTimestamps"
	useTs := useOfVar("use", ts)
	storeTs := StoreToVar("ts=", false, ts)
	goEv := Ev{"go", func(fs *FuncSrc, n ast.Node) bool { _, ok := n.(*ast.GoStmt); return ok }}
	laterEdge := func(fs *FuncSrc, cond ast.Expr, truth bool) []string {
		// X.Compare(timestamp) > 0 (true)  /  <= 0 (false)  /  timestamp.Compare(X) < 0 (true) / >= 0 (false); 0 on either side
		be, ok := ast.Unparen(cond).(*ast.BinaryExpr)
		if !ok {
			return nil
		}
		x, y, op := be.X, be.Y, be.Op
		if v := ConstVal(fs.Info(), x); v != nil {
			x, y = y, x
			switch op {
			case token.LSS:
				op = token.GTR
			case token.GTR:
				op = token.LSS
			case token.LEQ:
				op = token.GEQ
			case token.GEQ:
				op = token.LEQ
			}
		}
		v := ConstVal(fs.Info(), y)
		call, isCall := ast.Unparen(x).(*ast.CallExpr)
		if v == nil || !isCall || !sameFunc(Callee(fs.Info(), call), cmpFn) || len(call.Args) != 1 {
			return nil
		}
		if k, exact := constant.Int64Val(constant.ToInt(v)); !exact || k != 0 {
			return nil
		}
		recv := call.Fun.(*ast.SelectorExpr).X
		arg := call.Args[0]
		// sign > 0 means "recv later than arg"
		var recvLater bool
		switch {
		case op == token.GTR && truth, op == token.LEQ && !truth:
			recvLater = true
		case op == token.LSS && truth, op == token.GEQ && !truth:
			recvLater = false
		default:
			return nil
		}
		later, earlier := recv, arg
		if !recvLater {
			later, earlier = arg, recv
		}
		if ObjOf(fs.Info(), earlier) != types.Object(ts) {
			return nil
		}
		if o := ObjOf(fs.Info(), later); o != nil {
			return []string{fmt.Sprintf("@later:%p", o)}
		}
		return nil
	}
	dbFns := sorted(p.FuncsWith([]string{"db19"}, useTs))
	nuse, ntick := 0, 0
	var tsFuncs []*FuncSrc // functions with an advancing store
	for _, fs := range dbFns {
		fl := &Flow{P: p, Node: Labeler(MethodOnVar("lock", dbLock, "Lock"), MethodOnVar("-lock", dbLock, "Unlock"), useTs, storeTs, goEv), Edge: laterEdge}
		res := fl.Analyze(fs)
		for _, s := range res.Of("use") {
			nuse++
			if fs.name == startFn {
				c.Obl(r1, fs.name+": (exception) timestamp is initialised before the ticker goroutine is started", p.Pos(s.Node), !s.Before.Has("go"),
					"StartTimestamps touches the variable after `go ticker()`: that access races with the ticker")
				continue
			}
			c.Obl(r1, fs.name+": access of timestamp holds tsLock", p.Pos(s.Node), s.Before.Has("lock"),
				"db19.timestamp is read or written without tsLock: two requests can obtain the same timestamp (or a torn value)")
		}
		advancing := false
		for _, s := range res.Of("ts=") {
			as, isAs := s.Node.(*ast.AssignStmt)
			if !isAs || len(as.Lhs) != 1 || len(as.Rhs) != 1 {
				c.Obl(r3, fs.name+": store to timestamp is a simple assignment", p.Pos(s.Node), false, "")
				continue
			}
			if fs.name == startFn {
				continue
			}
			if call, isCall := ast.Unparen(as.Rhs[0]).(*ast.CallExpr); isCall && sameFunc(Callee(fs.Info(), call), addMs) {
				advancing = true
				continue // rule 4
			}
			ntick++
			o := ObjOf(fs.Info(), as.Rhs[0])
			c.Obl(r3, fs.name+": timestamp = X only on the edge where X is later than timestamp", p.Pos(s.Node), o != nil && s.Before.Has(fmt.Sprintf("@later:%p", o)),
				"the clock tick can move db19.timestamp backwards (clock adjustment, or batches already handed out ahead of the wall clock): timestamps repeat")
		}
		if advancing {
			tsFuncs = append(tsFuncs, fs)
		}
	}
	c.Floor(r1, nuse, 7, "uses of db19.timestamp")
	c.Floor(r3, ntick, 1, "non-advancing stores to db19.timestamp (the ticker)")

	// ------------------------------------------------------------ 2. core ts*
	useCore := Ev{"use", func(fs *FuncSrc, n ast.Node) bool {
		id, ok := n.(*ast.Ident)
		if !ok {
			return false
		}
		o := fs.Info().Uses[id]
		return o != nil && (o == types.Object(tsLast) || o == types.Object(tsCount) || o == types.Object(tsLimit))
	}}
	coreFns := sorted(p.FuncsWith([]string{"core"}, useCore))
	nuse = 0
	for _, fs := range coreFns {
		fl := &Flow{P: p, Node: Labeler(MethodOnVar("lock", coreLock, "Lock"), MethodOnVar("-lock", coreLock, "Unlock"), useCore)}
		res := fl.Analyze(fs)
		for _, s := range res.Of("use") {
			nuse++
			c.Obl(r2, fs.name+": access of "+s.Node.(*ast.Ident).Name+" holds core.tsLock", p.Pos(s.Node), s.Before.Has("lock"),
				"the client batch state is shared by all threads of the process; unguarded, two threads hand out the same timestamp of a batch")
		}
	}
	c.Floor(r2, nuse, 15, "uses of core.tsLast/tsCount/tsLimit")

	// ------------------------------------------------------------ 4. db19.Timestamp
	type arm struct {
		c    int64
		b    int64
		lo   bool
		pos  string
		have bool
	}
	var srvLo, srvHi arm
	c.Floor(r4, len(tsFuncs), 1, "functions that advance db19.timestamp with AddMs")
	for _, fs := range tsFuncs {
		defs := buildDefs(fs)
		edge := func(f *FuncSrc, cond ast.Expr, truth bool) []string {
			if b, lo, ok := msBoundary(f, cond, msFn); ok {
				// the tested value must be the current timestamp
				if !defs.MentionsObj(f.Info(), cond, ts) {
					return nil
				}
				if lo == truth {
					return []string{fmt.Sprintf("@lo:%d", b)}
				}
				return []string{fmt.Sprintf("@hi:%d", b)}
			}
			return nil
		}
		fl := &Flow{P: p, Node: Labeler(storeTs), Edge: edge, Implies: map[string][]string{"ts=": {"advanced"}}}
		res := fl.Analyze(fs)
		for _, s := range res.Of("ts=") {
			as := s.Node.(*ast.AssignStmt)
			call, isCall := ast.Unparen(as.Rhs[0]).(*ast.CallExpr)
			if !isCall || !sameFunc(Callee(fs.Info(), call), addMs) {
				c.Obl(r4, fs.name+": every store to timestamp is timestamp.AddMs(c)", p.Pos(as), false, "a store that is not an AddMs step")
				continue
			}
			recvOK := defs.MentionsObj(fs.Info(), call.Fun.(*ast.SelectorExpr).X, ts)
			v := ConstVal(fs.Info(), call.Args[0])
			k := int64(0)
			if v != nil {
				k, _ = constant.Int64Val(constant.ToInt(v))
			}
			c.Obl(r4, fs.name+": the step is timestamp.AddMs(constant > 0)", p.Pos(as), recvOK && v != nil && k > 0,
				"the new value is not the old value plus a positive constant number of milliseconds: the next caller gets the same (or an earlier) timestamp")
			a := arm{c: k, pos: p.Pos(as), have: true}
			for l := range s.Before {
				var b int64
				if n, _ := fmt.Sscanf(l, "@lo:%d", &b); n == 1 {
					a.b, a.lo = b, true
					srvLo = a
				} else if n, _ := fmt.Sscanf(l, "@hi:%d", &b); n == 1 {
					a.b = b
					srvHi = a
				}
			}
		}
		nret := 0
		for _, r := range res.Returns {
			nret++
			c.Obl(r4, fs.name+": every return is preceded by an advancing store", p.Pos(r.Node), r.Before.Has("advanced"),
				"a path returns a timestamp without moving db19.timestamp past it: the next call returns the same value")
			// the value returned is the value before the step (or the stored one): it must derive from timestamp
			if len(r.Node.Results) == 1 {
				c.Obl(r4, fs.name+": the returned value derives from db19.timestamp", p.Pos(r.Node), defs.MentionsObj(fs.Info(), r.Node.Results[0], ts), "")
			}
		}
		c.Floor(r4, nret, 1, "returns of "+fs.name)
	}

	// ------------------------------------------------------------ 5. client side
	var cliLo, cliHi arm
	storeLimit := StoreToVar("tsLimit=", false, tsLimit)
	var clientFn *FuncSrc
	for _, fs := range coreFns {
		info := fs.Info()
		edge := func(f *FuncSrc, cond ast.Expr, truth bool) []string {
			if b, lo, ok := msBoundary(f, cond, msFn); ok {
				if lo == truth {
					return []string{fmt.Sprintf("@lo:%d", b)}
				}
				return []string{fmt.Sprintf("@hi:%d", b)}
			}
			return nil
		}
		fl := &Flow{P: p, Node: Labeler(storeLimit), Edge: edge}
		res := fl.Analyze(fs)
		for _, s := range res.Of("tsLimit=") {
			as, isAs := s.Node.(*ast.AssignStmt)
			if !isAs || as.Tok != token.ASSIGN || len(as.Rhs) != 1 {
				continue
			}
			v := ConstVal(info, as.Rhs[0])
			if v == nil {
				continue
			}
			k, _ := constant.Int64Val(constant.ToInt(v))
			a := arm{c: k, pos: p.Pos(as), have: true}
			for l := range s.Before {
				var b int64
				if n, _ := fmt.Sscanf(l, "@lo:%d", &b); n == 1 {
					a.b, a.lo = b, true
					cliLo = a
					clientFn = fs
				} else if n, _ := fmt.Sscanf(l, "@hi:%d", &b); n == 1 {
					a.b = b
					cliHi = a
					clientFn = fs
				}
			}
		}
	}
	if !srvLo.have || !srvHi.have {
		c.Missing(r5, "two arms `Millisecond() < threshold` / else storing timestamp.AddMs(c) in db19")
	}
	if !cliLo.have || !cliHi.have || clientFn == nil {
		c.Missing(r5, "two arms `Millisecond() < threshold` / else assigning a constant to core.tsLimit")
	}
	if srvLo.have && srvHi.have && cliLo.have && cliHi.have && clientFn != nil {
		c.Obl(r5, "server and client split the second at the same millisecond", srvLo.pos, srvLo.b == cliLo.b && srvHi.b == cliHi.b && srvLo.b == srvHi.b,
			fmt.Sprintf("server: ms<%d / ms>=%d, client: ms<%d / ms>=%d — for milliseconds between the two thresholds the client consumes a batch the server did not reserve", srvLo.b, srvHi.b, cliLo.b, cliHi.b))
		// how many increments does the client use from one batch?  fast path: tsCount++ ; tsCount < tsLimit (or <=)
		info := clientFn.Info()
		maxUseDelta := int64(-99)
		var discr []int64
		ForEachNode(clientFn, func(n ast.Node) {
			be, ok := n.(*ast.BinaryExpr)
			if !ok {
				return
			}
			xo, yo := ObjOf(info, be.X), ObjOf(info, be.Y)
			if xo == types.Object(tsCount) && yo == types.Object(tsLimit) {
				switch be.Op {
				case token.LSS:
					maxUseDelta = -1
				case token.LEQ:
					maxUseDelta = 0
				}
			}
			if yo == types.Object(tsCount) && xo == types.Object(tsLimit) {
				switch be.Op {
				case token.GTR:
					maxUseDelta = -1
				case token.GEQ:
					maxUseDelta = 0
				}
			}
			if be.Op == token.EQL || be.Op == token.NEQ {
				for _, pr := range [][2]ast.Expr{{be.X, be.Y}, {be.Y, be.X}} {
					if ObjOf(info, pr[0]) == types.Object(tsLimit) {
						if v := ConstVal(info, pr[1]); v != nil {
							k, _ := constant.Int64Val(constant.ToInt(v))
							discr = append(discr, k)
						}
					}
				}
			}
		})
		if maxUseDelta == -99 {
			c.Missing(r5, "fast-path test tsCount < tsLimit in "+clientFn.name)
		} else {
			maxLo, maxHi := cliLo.c+maxUseDelta, cliHi.c+maxUseDelta
			c.Obl(r5, "below the threshold the server step exceeds every increment the client takes from one batch", srvLo.pos, srvLo.c > maxLo,
				fmt.Sprintf("server advances by %d ms (%s) but a client hands out up to +%d ms from one batch (tsLimit = %d at %s): the client's last timestamps collide with the server's next ones",
					srvLo.c, srvLo.pos, maxLo, cliLo.c, cliLo.pos))
			c.Obl(r5, "at or above the threshold the client's counter fits the uint8 extra byte", cliHi.pos, maxHi <= 255 && maxHi >= 1,
				fmt.Sprintf("tsLimit = %d lets tsCount reach %d; uint8(tsCount) wraps and repeats extra values (0 is also the plain date)", cliHi.c, maxHi))
			c.Obl(r5, "at or above the threshold the server step is at least one millisecond", srvHi.pos, srvHi.c >= 1, "")
		}
		// the fast path chooses the representation by tsLimit == k_lo
		sort.Slice(discr, func(i, j int) bool { return discr[i] < discr[j] })
		okD := cliLo.c != cliHi.c
		for _, d := range discr {
			if d != 0 && d != cliLo.c && d != cliHi.c {
				okD = false
			}
		}
		c.Obl(r5, "the two batch limits are distinct constants and the fast path tests one of them", cliLo.pos, okD && len(discr) >= 1,
			fmt.Sprintf("limits %d / %d, fast path compares tsLimit with %v: the fast path can no longer tell a millisecond batch from an extra-byte batch", cliLo.c, cliHi.c, discr))
	}

	// ------------------------------------------------------------ 6. AddMs
	if afs := c.src(r6, addMs, "core.SuDate.AddMs"); afs != nil {
		msParam := afs.Param(0)
		// precondition: the argument of the assert call over the parameter
		var pre ast.Expr
		ForEachNode(afs, func(n ast.Node) {
			call, ok := n.(*ast.CallExpr)
			if !ok || pre != nil || len(call.Args) != 1 {
				return
			}
			if f := Callee(afs.Info(), call); f != nil && f.Pkg() != nil && pkgShort(f.Pkg().Path()) == "util/assert" {
				mentions := false
				ast.Inspect(call.Args[0], func(m ast.Node) bool {
					if id, ok := m.(*ast.Ident); ok && afs.Info().Uses[id] == types.Object(msParam) {
						mentions = true
					}
					return true
				})
				if mentions {
					pre = call.Args[0]
				}
			}
		})
		// does some return ignore the parameter (fixed carry step)?
		defs := buildDefs(afs)
		fixedCarry := false
		fl := &Flow{P: p}
		res := fl.Analyze(afs)
		for _, r := range res.Returns {
			if len(r.Node.Results) == 1 && !defs.MentionsObj(afs.Info(), r.Node.Results[0], msParam) {
				fixedCarry = true
			}
		}
		n := 0
		for _, cs := range p.CallersOf(addMs) {
			if cs.Call == nil {
				c.Obl(r6, cs.Fn.name+": AddMs is only called directly", p.Pos(cs.In.Body), false, "")
				continue
			}
			n++
			v := ConstVal(cs.In.Info(), cs.Call.Args[0])
			if v == nil {
				c.Obl(r6, cs.Fn.name+": AddMs is called with a constant", p.Pos(cs.Call), false, "the step cannot be related to the precondition")
				continue
			}
			k, _ := constant.Int64Val(constant.ToInt(v))
			if pre != nil {
				env := &AbsEnv{Info: afs.Info(), Atom: func(e ast.Expr) (constant.Value, bool) {
					if id, ok := e.(*ast.Ident); ok && afs.Info().Uses[id] == types.Object(msParam) {
						return constant.MakeInt64(k), true
					}
					return nil, false
				}}
				r := env.expr(pre)
				c.Obl(r6, fmt.Sprintf("%s: AddMs(%d) satisfies AddMs's asserted precondition", cs.Fn.name, k), p.Pos(cs.Call), r != nil && constant.BoolVal(r),
					"AddMs asserts "+exprStr(pre)+": the call panics")
			}
			if fixedCarry && k != 1 {
				// the carry path adds one millisecond whatever ms is: the call must be on an edge that excludes the carry
				okEdge := false
				d := ""
				if srvLo.have && cs.Fn.name != "" && p.Pos(cs.Call) == srvLo.pos {
					okEdge = srvLo.b-1+k < 1000
					d = fmt.Sprintf("ms < %d does not exclude ms+%d >= 1000", srvLo.b, k)
				} else {
					d = "not under a Millisecond() < threshold test"
				}
				c.Obl(r6, fmt.Sprintf("%s: AddMs(%d) cannot reach AddMs's carry path, which adds a fixed 1 ms", cs.Fn.name, k), p.Pos(cs.Call), okEdge,
					"AddMs's fallback for a millisecond overflow ignores its argument; "+d+": the clock would advance by 1 ms while the client consumes the whole batch")
			}
		}
		c.Floor(r6, n, 3, "calls of SuDate.AddMs")
		if pre == nil {
			c.Note("AddMs has no assert over its parameter: the 0 < c < 100 precondition is not checked")
		}
	}

	checkTimestampFetchUnderLock(c, "C34.6 K7 the client fetches a new batch under its lock")
	return "Static shape of timestamp generation: every use of db19.timestamp holds db19.tsLock (exception StartTimestamps: before `go ticker()`), every use of core.tsLast/tsCount/tsLimit holds core.tsLock; " +
		"a store timestamp = X that is not an AddMs step sits on the edge where X compares later than timestamp; in db19.Timestamp every store is timestamp.AddMs(constant>0), every return is preceded by one and returns a value " +
		"derived from timestamp; server and client split the second at the same millisecond constant, below it the server's step is larger than the largest increment a client takes from one batch " +
		"(from the constant assigned to tsLimit and the fast-path comparison), above it the client's counter fits uint8 and is never 0 past the first, the two batch limits are distinguishable; every AddMs argument is a constant that satisfies AddMs's own assert, and " +
		"an argument other than 1 cannot reach AddMs's fixed 1 ms carry path. Not decided: that StartTimestamps runs once before any request, jSuneido clients (constants 'must match jSuneido'), wall-clock behaviour, the 990 ms start offset."
}

package main

// C31 (one clause): in compile/lexer every string-literal scanner turns end of input into
// an error token.  From each end-of-input edge of such a scanner every return that is
// reachable before another read produces an Item whose Token is the constant tok.Error.
//
// The helpers of this file (Item token resolution, the lexer's anchors) are shared with C32.

import (
	"fmt"
	"go/ast"
	"go/constant"
	"go/token"
	"go/types"
	"sort"
	"strings"

	"golang.org/x/tools/go/cfg"
)

func init() { register("C31", checkC31, "./compile/lexer", "./core") }

type lexA struct {
	p        *Prog
	item     *types.Named
	tokenFld *types.Var // lexer.Item.Token
	posFld   *types.Var // lexer.Item.Pos
	textFld  *types.Var // lexer.Item.Text
	src      *types.Var // lexer.Lexer.src
	si       *types.Var // lexer.Lexer.si
	read     *types.Func
	peek     *types.Func
	next     *types.Func
	eof      *types.Const
	tString  *types.Const
	tError   *types.Const
	tEof     *types.Const
	tokType  types.Type
	defs     map[*FuncSrc]*defIndex
	follow   bool // itemTokens follows calls of functions that are not Item constructors
}

func getLexA(c *Ctx, rule string) *lexA {
	p := c.P
	a := &lexA{p: p, defs: map[*FuncSrc]*defIndex{},
		item:     p.NamedType("compile/lexer", "Item"),
		tokenFld: p.Field("compile/lexer", "Item", "Token"),
		posFld:   p.Field("compile/lexer", "Item", "Pos"),
		textFld:  p.Field("compile/lexer", "Item", "Text"),
		src:      p.Field("compile/lexer", "Lexer", "src"),
		si:       p.Field("compile/lexer", "Lexer", "si"),
		read:     p.DeclaredMethod("compile/lexer", "Lexer", "read"),
		peek:     p.DeclaredMethod("compile/lexer", "Lexer", "peek"),
		next:     p.DeclaredMethod("compile/lexer", "Lexer", "next"),
		eof:      p.ConstObj("compile/lexer", "eof"),
		tString:  p.ConstObj("compile/tokens", "String"),
		tError:   p.ConstObj("compile/tokens", "Error"),
		tEof:     p.ConstObj("compile/tokens", "Eof"),
	}
	ok := c.need(rule, "type lexer.Item", a.item) && c.need(rule, "field lexer.Item.Token", a.tokenFld) &&
		c.need(rule, "field lexer.Item.Pos", a.posFld) && c.need(rule, "field lexer.Item.Text", a.textFld) &&
		c.need(rule, "field lexer.Lexer.src", a.src) && c.need(rule, "field lexer.Lexer.si", a.si) &&
		c.need(rule, "method lexer.(*Lexer).read", a.read) && c.need(rule, "method lexer.(*Lexer).peek", a.peek) &&
		c.need(rule, "method lexer.(*Lexer).next", a.next) && c.need(rule, "const lexer.eof", a.eof) &&
		c.need(rule, "const tokens.String", a.tString) && c.need(rule, "const tokens.Error", a.tError) && c.need(rule, "const tokens.Eof", a.tEof)
	if !ok {
		return nil
	}
	a.tokType = a.tokenFld.Type()
	return a
}

func (a *lexA) defsOf(fs *FuncSrc) *defIndex {
	o := fs.Outer()
	if d := a.defs[o]; d != nil {
		return d
	}
	d := buildDefs(o)
	a.defs[o] = d
	return d
}

// tokSet: the set of token constants an Item expression can carry; unknown = some
// contribution could not be resolved to constants.
type tokSet struct {
	vals    map[int64]bool
	unknown string
}

func (t *tokSet) add(o tokSet) {
	for v := range o.vals {
		if t.vals == nil {
			t.vals = map[int64]bool{}
		}
		t.vals[v] = true
	}
	if t.unknown == "" {
		t.unknown = o.unknown
	}
}

func (t tokSet) has(c *types.Const) bool {
	v, _ := constant.Int64Val(c.Val())
	return t.vals[v]
}

func (t tokSet) only(c *types.Const) bool {
	v, _ := constant.Int64Val(c.Val())
	return t.unknown == "" && len(t.vals) == 1 && t.vals[v]
}

func (a *lexA) tokName(v int64) string {
	pk := a.tError.Pkg()
	for _, n := range pk.Scope().Names() {
		if k, ok := pk.Scope().Lookup(n).(*types.Const); ok && types.Identical(k.Type(), a.tokType) {
			if kv, ok := constant.Int64Val(k.Val()); ok && kv == v {
				return "tok." + n
			}
		}
	}
	return fmt.Sprint(v)
}

func (a *lexA) show(t tokSet) string {
	var out []string
	for v := range t.vals {
		out = append(out, a.tokName(v))
	}
	sort.Strings(out)
	if t.unknown != "" {
		out = append(out, "?("+t.unknown+")")
	}
	return strings.Join(out, ",")
}

// binding of the parameters of an inlined callee to argument expressions of its caller
type lexBind struct {
	fs     *FuncSrc // where the argument expressions live
	args   map[types.Object]ast.Expr
	parent *lexBind
}

// calleeSrc resolves the function called: a declared function / method with source, or a
// local variable whose only definition is a function literal.
func (a *lexA) calleeSrc(fs *FuncSrc, call *ast.CallExpr) *FuncSrc {
	if f := Callee(fs.Info(), call); f != nil {
		if s := a.p.Src(f); s != nil && s.Body != nil {
			return s
		}
		return nil
	}
	if id, ok := ast.Unparen(call.Fun).(*ast.Ident); ok {
		if o := fs.Info().Uses[id]; o != nil {
			if ds := a.defsOf(fs).defs[o]; len(ds) == 1 {
				if lit, ok := ast.Unparen(ds[0]).(*ast.FuncLit); ok {
					return a.p.Lits[lit]
				}
			}
		}
	}
	return nil
}

func paramObjs(fs *FuncSrc) []types.Object {
	var out []types.Object
	if fs.Type == nil || fs.Type.Params == nil {
		return nil
	}
	for _, f := range fs.Type.Params.List {
		for _, n := range f.Names {
			out = append(out, fs.Info().Defs[n])
		}
		if len(f.Names) == 0 {
			out = append(out, nil)
		}
	}
	return out
}

// ownReturns lists the return statements of fs itself (not of nested literals).
func ownReturns(fs *FuncSrc) []*ast.ReturnStmt {
	var out []*ast.ReturnStmt
	ast.Inspect(fs.Body, func(n ast.Node) bool {
		switch x := n.(type) {
		case *ast.FuncLit:
			return false
		case *ast.ReturnStmt:
			out = append(out, x)
		}
		return true
	})
	return out
}

// itemField returns the expression initialising field fld in an Item composite literal
// (nil, true if the literal leaves it zero; nil, false if e is not an Item literal).
func (a *lexA) itemField(info *types.Info, e ast.Expr, fld *types.Var) (ast.Expr, bool) {
	cl, ok := ast.Unparen(e).(*ast.CompositeLit)
	if !ok {
		return nil, false
	}
	t := info.TypeOf(cl)
	if t == nil || !types.Identical(t, a.item) {
		return nil, false
	}
	st := a.item.Underlying().(*types.Struct)
	for i, el := range cl.Elts {
		if kv, ok := el.(*ast.KeyValueExpr); ok {
			if id, ok := kv.Key.(*ast.Ident); ok && info.Uses[id] == types.Object(fld) {
				return kv.Value, true
			}
			continue
		}
		if i < st.NumFields() && st.Field(i) == fld {
			return el, true
		}
	}
	return nil, true
}

// itemTokens: the token constants of an expression of type Item.
// Calls are resolved when the callee is an Item constructor (its only return is an Item
// literal: it(), the closure in next); with a.follow other callees with source are
// followed too (union over their returns).  depth bounds the recursion.
func (a *lexA) itemTokens(fs *FuncSrc, e ast.Expr, b *lexBind, depth int) tokSet {
	info := fs.Info()
	e = ast.Unparen(e)
	if v, isLit := a.itemField(info, e, a.tokenFld); isLit {
		if v == nil {
			return tokSet{vals: map[int64]bool{0: true}}
		}
		return a.tokVals(fs, v, b, depth)
	}
	if depth <= 0 {
		return tokSet{unknown: "depth"}
	}
	switch x := e.(type) {
	case *ast.CallExpr:
		cs := a.calleeSrc(fs, x)
		if cs == nil {
			return tokSet{unknown: "call of " + exprStr(x.Fun)}
		}
		nb := &lexBind{fs: fs, args: map[types.Object]ast.Expr{}, parent: b}
		for i, po := range paramObjs(cs) {
			if po != nil && i < len(x.Args) {
				nb.args[po] = x.Args[i]
			}
		}
		var out tokSet
		rets := ownReturns(cs)
		if len(rets) == 0 {
			return tokSet{unknown: "no return in " + cs.name}
		}
		isCtor := false
		if len(rets) == 1 && len(rets[0].Results) == 1 {
			_, isCtor = a.itemField(cs.Info(), rets[0].Results[0], a.tokenFld)
		}
		if !isCtor && !a.follow {
			return tokSet{unknown: "call of " + cs.name}
		}
		for _, r := range rets {
			if len(r.Results) != 1 {
				return tokSet{unknown: "return shape in " + cs.name}
			}
			out.add(a.itemTokens(cs, r.Results[0], nb, depth-1))
		}
		return out
	case *ast.Ident:
		o := info.Uses[x]
		if o == nil {
			break
		}
		if b != nil {
			if arg, ok := b.args[o]; ok {
				return a.itemTokens(b.fs, arg, b.parent, depth-1)
			}
		}
		ds := a.defsOf(fs).defs[o]
		if len(ds) == 0 {
			break
		}
		var out tokSet
		for _, d := range ds {
			out.add(a.itemTokens(fs, d, b, depth-1))
		}
		return out
	}
	return tokSet{unknown: exprStr(e)}
}

// tokVals: the constants a token-typed expression can have.
func (a *lexA) tokVals(fs *FuncSrc, e ast.Expr, b *lexBind, depth int) tokSet {
	info := fs.Info()
	e = ast.Unparen(e)
	if v := ConstVal(info, e); v != nil {
		if n, ok := constant.Int64Val(v); ok {
			return tokSet{vals: map[int64]bool{n: true}}
		}
	}
	if depth <= 0 {
		return tokSet{unknown: "depth"}
	}
	if id, ok := e.(*ast.Ident); ok {
		if o := info.Uses[id]; o != nil {
			if b != nil {
				if arg, ok := b.args[o]; ok {
					return a.tokVals(b.fs, arg, b.parent, depth-1)
				}
			}
			if ds := a.defsOf(fs).defs[o]; len(ds) > 0 {
				var out tokSet
				for _, d := range ds {
					// a definition from a multi-value call is not a token expression
					if t := info.TypeOf(d); t == nil || !types.Identical(t, a.tokType) {
						return tokSet{unknown: exprStr(e)}
					}
					out.add(a.tokVals(fs, d, b, depth-1))
				}
				return out
			}
		}
	}
	return tokSet{unknown: exprStr(e)}
}

// ---- branch edges of a function's control-flow graph

type condEdge struct {
	from  *cfg.Block
	to    *cfg.Block
	cond  ast.Expr // atomic condition (switch cases: tag == value)
	truth bool
}

func (fl *Flow) condEdges(fs *FuncSrc) []condEdge {
	c := fl.cfgOf(fs)
	var out []condEdge
	for _, b := range c.g.Blocks {
		if !b.Live || len(b.Succs) != 2 || len(b.Nodes) == 0 {
			continue
		}
		cond, ok := b.Nodes[len(b.Nodes)-1].(ast.Expr)
		if !ok {
			continue
		}
		if cc, ok := b.Succs[0].Stmt.(*ast.CaseClause); ok && b.Succs[0].Kind == cfg.KindSwitchCaseBody {
			if sw, ok := c.swOf[cc].(*ast.SwitchStmt); ok && sw.Tag != nil {
				cond = &ast.BinaryExpr{X: sw.Tag, Op: token.EQL, Y: cond, OpPos: cond.Pos()}
			}
		}
		out = append(out, condEdge{b, b.Succs[0], cond, true}, condEdge{b, b.Succs[1], cond, false})
	}
	return out
}

// condAtoms lists the atomic sub-conditions of cond with the truth value each of them can
// have when cond evaluates to truth (for && and || every operand can take the value of the
// whole; ! flips).
func condAtoms(cond ast.Expr, truth bool) []condFact {
	cond = ast.Unparen(cond)
	switch x := cond.(type) {
	case *ast.UnaryExpr:
		if x.Op == token.NOT {
			return condAtoms(x.X, !truth)
		}
	case *ast.BinaryExpr:
		if x.Op == token.LAND || x.Op == token.LOR {
			return append(condAtoms(x.X, truth), condAtoms(x.Y, truth)...)
		}
	}
	return []condFact{{cond, truth}}
}

// eofEdge classifies an atomic condition: does one of its edges mean "end of input"?
// Returns the kind of test and the truth value of the end-of-input edge.
func (a *lexA) eofEdge(fs *FuncSrc, cond ast.Expr) (kind string, onTruth bool, ok bool) {
	info := fs.Info()
	be, isBin := ast.Unparen(cond).(*ast.BinaryExpr)
	if !isBin {
		return "", false, false
	}
	defs := a.defsOf(fs)
	isLenSrc := func(e ast.Expr) bool {
		call, ok := ast.Unparen(e).(*ast.CallExpr)
		if !ok || !IsBuiltin(info, call, "len") || len(call.Args) != 1 {
			return false
		}
		t := info.TypeOf(call.Args[0])
		if t == nil {
			return false
		}
		if bt, ok := t.Underlying().(*types.Basic); !ok || bt.Info()&types.IsString == 0 {
			return false
		}
		return defs.MentionsEv(fs, call.Args[0], UseOfField("", a.src))
	}
	op, x, y := be.Op, be.X, be.Y
	if isLenSrc(x) && !isLenSrc(y) {
		// len(src) OP y  ==  y OP' len(src)
		x, y = y, x
		switch op {
		case token.LSS:
			op = token.GTR
		case token.LEQ:
			op = token.GEQ
		case token.GTR:
			op = token.LSS
		case token.GEQ:
			op = token.LEQ
		}
	}
	if isLenSrc(y) && !isLenSrc(x) {
		switch op {
		case token.GEQ, token.GTR, token.EQL: // idx >= len(src)
			return "index reached len(src)", true, true
		case token.LSS, token.LEQ, token.NEQ: // idx < len(src)
			return "index reached len(src)", false, true
		}
		return "", false, false
	}
	if op != token.EQL && op != token.NEQ {
		return "", false, false
	}
	eofVal := a.eof.Val()
	isEof := func(e ast.Expr) bool {
		v := ConstVal(info, e)
		return v != nil && v.Kind() == constant.Int && constant.Compare(v, token.EQL, eofVal)
	}
	fromRead := func(e ast.Expr) bool {
		return ConstVal(info, e) == nil && defs.MentionsEv(fs, e, CallOf("", a.read, a.peek))
	}
	if (isEof(x) && fromRead(y)) || (isEof(y) && fromRead(x)) {
		return "read() returned eof", op == token.EQL, true
	}
	return "", false, false
}

// readers: the methods of Lexer that call read (directly or through one more method).
func (a *lexA) readers() map[*types.Func]bool {
	out := map[*types.Func]bool{a.read: true}
	for round := 0; round < 2; round++ {
		for _, m := range a.p.MethodsOf("compile/lexer", "Lexer") {
			fs := a.p.Src(m)
			if fs == nil || out[m] {
				continue
			}
			ForEachNode(fs, func(n ast.Node) {
				if call, ok := n.(*ast.CallExpr); ok {
					if f := Callee(fs.Info(), call); f != nil && out[f] {
						out[m] = true
					}
				}
			})
		}
	}
	return out
}

func checkC31(c *Ctx) string {
	p := c.P
	r0 := "C31.0 anchors"
	a := getLexA(c, r0)
	if a == nil {
		return "anchors missing"
	}
	r1 := "C31.1 K4c end of input inside a string literal yields tok.Error"
	// string scanners: functions of the package with a return that can carry tok.String
	var scanners []*FuncSrc
	for _, fs := range p.FuncsIn("compile/lexer") {
		if fs.Body == nil {
			continue
		}
		isScanner := false
		for _, r := range ownReturns(fs) {
			if len(r.Results) == 1 {
				if t := fs.Info().TypeOf(r.Results[0]); t != nil && types.Identical(t, a.item) {
					if a.itemTokens(fs, r.Results[0], nil, 6).has(a.tString) {
						isScanner = true
					}
				}
			}
		}
		if isScanner {
			scanners = append(scanners, fs)
		}
	}
	c.Floor(r1, len(scanners), 2, "functions of compile/lexer returning an Item with Token tok.String")
	readers := a.readers()
	a.follow = true // a return from the end-of-input edge may delegate to a helper
	fl := &Flow{P: p}
	fl.init()
	total := 0
	for _, fs := range scanners {
		n := 0
		edges := fl.condEdges(fs)
		out := map[*cfg.Block][]condEdge{}
		for _, e := range edges {
			out[e.from] = append(out[e.from], e)
		}
		for _, e := range edges {
			// the edge may be taken at end of input if some atom of its condition, with the
			// value it can have on this edge, is an end-of-input test that succeeded
			kind := ""
			for _, at := range condAtoms(e.cond, e.truth) {
				if k, onTruth, ok := a.eofEdge(fs, at.e); ok && onTruth == at.truth {
					kind = k
				}
			}
			if kind == "" {
				continue
			}
			n++
			total++
			// forward search from the edge; a path ends at a return, at another read, or at
			// an edge on which an end-of-input test is known to have failed
			var bad []string
			nret := 0
			seen := map[*cfg.Block]bool{}
			var walk func(b *cfg.Block)
			walk = func(b *cfg.Block) {
				if seen[b] {
					return
				}
				seen[b] = true
				for _, n := range b.Nodes {
					if rs, ok := n.(*ast.ReturnStmt); ok {
						nret++
						if len(rs.Results) != 1 {
							bad = append(bad, p.Pos(rs)+": return without an Item")
							return
						}
						ts := a.itemTokens(fs, rs.Results[0], nil, 6)
						if !ts.only(a.tError) {
							bad = append(bad, fmt.Sprintf("%s returns Token %s", p.Pos(rs), a.show(ts)))
						}
						return
					}
					stop := false
					ast.Inspect(n, func(m ast.Node) bool {
						if _, ok := m.(*ast.FuncLit); ok {
							return false
						}
						if call, ok := m.(*ast.CallExpr); ok {
							if f := Callee(fs.Info(), call); f != nil && readers[f] {
								stop = true
							}
						}
						return true
					})
					if stop {
						return
					}
				}
				if ces := out[b]; len(ces) > 0 {
					for _, ce := range ces {
						refuted := false
						var facts []condFact
						condFacts(ce.cond, ce.truth, &facts)
						for _, f := range facts {
							if _, onTruth, ok := a.eofEdge(fs, f.e); ok && onTruth != f.truth {
								refuted = true // "not at end of input" holds on this edge
							}
						}
						if !refuted {
							walk(ce.to)
						}
					}
					return
				}
				for _, s := range b.Succs {
					walk(s)
				}
			}
			walk(e.to)
			tf := map[bool]string{true: "true", false: "false"}[e.truth]
			detail := ""
			if len(bad) > 0 {
				detail = "an unterminated string literal is accepted: after the scanner has seen the end of the input, " + strings.Join(bad, "; ") +
					" (the compilers silently take the rest of the source as the string)"
			}
			c.Obl(r1, fs.name+": end of input ("+kind+", "+tf+" edge) leads only to tok.Error items", p.Pos(e.cond), len(bad) == 0, detail)
			c.Stats["returns_reached_from_eof_edges"] += nret
		}
		c.Floor(r1, n, 1, "end-of-input tests in "+fs.name)
	}
	c.Floor(r1, total, 3, "end-of-input edges in string scanners")
	c.Stats["string_scanners"] = len(scanners)
	c.Stats["eof_edges"] = total
	checkEscapeRoundTrip(c, "C31.3 K14 display escaping and lexer unescaping are inverse per byte")
	checkEofTestsRawInput(c, "C31.2 K4c the end-of-input sentinel is compared only with bytes read from the source")
	return "Decided: in package compile/lexer, for every function that can return an Item with Token == tok.String (found by effect: today rawString and quotedString), " +
		"for every branch edge that means end of input (index compared against len of a string derived from Lexer.src, or a value derived from read()/peek() compared with the constant eof), " +
		"every return statement reachable from that edge before another call that reads (read, or a Lexer method calling read within two levels) builds its Item with the constant Token tok.Error " +
		"(Item literals, the package function it(), local closures and single-return helpers are resolved through the type-checked program, constants by value). " +
		"Also: the end-of-input sentinel is compared only with a byte whose reaching definition is read()/peek(); core.escape and Lexer.doesc folded over all 256 byte values and both quote characters: what escape emits for a byte (and the byte itself where escape copies it verbatim) is consumed completely by doesc and decodes to that byte. Not decided: the choice of quote character (bestQuote) and back-quoted display, that the parsers turn tok.Error into a syntax error (they do so by not accepting the token), display of other kinds of constants (numbers, dates, objects)."
}

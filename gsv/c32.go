package main

// C32 (small): lexer progress and positions.
//  1. in (*Lexer).next a call of read() precedes every return;
//  2. the only item next can return without having consumed a byte is tok.Eof, and tok.Eof
//     is returned only on the edge where the byte just read is eof;
//  3. the Pos of every Item built in next or in the scanners it calls is the start offset
//     captured from Lexer.si before the first read; a Text that is a slice of Lexer.src
//     starts at that offset and ends at Lexer.si.

import (
	"fmt"
	"go/ast"
	"go/constant"
	"go/token"
	"go/types"
	"sort"
)

func init() { register("C32", checkC32, "./compile/lexer") }

func checkC32(c *Ctx) string {
	p := c.P
	a := getLexA(c, "C32.0 anchors")
	if a == nil {
		return "anchors missing"
	}
	a.follow = true
	next := c.src("C32.0 anchors", a.next, "lexer.(*Lexer).next")
	if next == nil {
		return "anchors missing"
	}
	info := next.Info()
	defs := a.defsOf(next)
	evRead := CallOf("read", a.read)

	// the byte variable: defined from the result of read()
	fromRead := func(e ast.Expr) bool {
		return ConstVal(info, e) == nil && defs.MentionsEv(next, e, evRead)
	}
	eofVal := a.eof.Val()
	captureEv := Ev{"capture", func(fs *FuncSrc, n ast.Node) bool {
		as, ok := n.(*ast.AssignStmt)
		if !ok || as.Tok != token.DEFINE || len(as.Lhs) != 1 || len(as.Rhs) != 1 {
			return false
		}
		return FieldOf(fs.Info(), as.Rhs[0]) == a.si
	}}
	fl := &Flow{P: p,
		Node: Labeler(evRead, captureEv, StoreTo("si=", false, a.si)),
		Edge: func(fs *FuncSrc, cond ast.Expr, truth bool) []string {
			be, ok := ast.Unparen(cond).(*ast.BinaryExpr)
			if !ok || (be.Op != token.EQL && be.Op != token.NEQ) {
				return nil
			}
			for _, pr := range [][2]ast.Expr{{be.X, be.Y}, {be.Y, be.X}} {
				v := ConstVal(fs.Info(), pr[1])
				if v == nil || v.Kind() != constant.Int || !fromRead(pr[0]) {
					continue
				}
				isEof := constant.Compare(v, token.EQL, eofVal)
				equal := (be.Op == token.EQL) == truth // on this edge the byte equals the constant
				switch {
				case isEof && equal:
					return []string{"@eof"}
				case isEof && !equal:
					return []string{"@!eof"}
				case !isEof && equal:
					return []string{"@!eof"} // equals a byte other than eof
				}
			}
			return nil
		}}
	res := fl.Analyze(next)

	r1 := "C32.1 K4 Lexer.next reads before it returns"
	r2 := "C32.2 K4c only tok.Eof is produced without consuming input, and only at end of input"
	nret, nEof := 0, 0
	for _, r := range res.Returns {
		if r.Fn != next {
			continue
		}
		nret++
		c.Obl(r1, "next: read() precedes the return", p.Pos(r.Node), r.Before.Has("read"),
			"Lexer.next can return an item on a path that has not called read(): the position does not advance and a caller looping until Eof does not terminate")
		if len(r.Node.Results) != 1 {
			continue
		}
		ts := a.itemTokens(next, r.Node.Results[0], nil, 6)
		if !r.Before.Has("@!eof") {
			c.Obl(r2, "next: a return that is not on a 'byte read != eof' edge produces tok.Eof", p.Pos(r.Node), ts.only(a.tEof),
				fmt.Sprintf("this return is reachable when read() returned eof (nothing consumed) and produces %s: callers that loop until tok.Eof never see it / positions do not increase", a.show(ts)))
		}
		if ts.has(a.tEof) {
			nEof++
			c.Obl(r2, "next: tok.Eof is returned only when the byte read is eof", p.Pos(r.Node), r.Before.Has("@eof"),
				"tok.Eof can be returned although input remains: the rest of the source is silently dropped")
		}
	}
	c.Floor(r1, nret, 50, "returns in Lexer.next")
	c.Floor(r2, nEof, 1, "returns of tok.Eof in Lexer.next")

	// ---- 3. positions
	r3 := "C32.3 K11 item positions derive from the start offset captured at entry"
	var startObj types.Object
	ncap := 0
	for _, s := range res.Of("capture") {
		if s.Fn != next {
			continue
		}
		early := !s.Before.Has("read") && !s.Before.Has("si=")
		if early {
			ncap++
			as := s.Node.(*ast.AssignStmt)
			if id, ok := as.Lhs[0].(*ast.Ident); ok && startObj == nil {
				startObj = info.Defs[id]
			}
		}
	}
	if startObj == nil {
		c.Missing(r3, "a local of Lexer.next defined from Lexer.si before the first read()")
		return "anchors missing"
	}
	// the start variable is never re-assigned
	c.Obl(r3, "next: the captured start offset is assigned once", p.PosOf(startObj.Pos()), len(defs.defs[startObj]) == 1,
		"the start offset of the token is modified after it was captured")

	// functions whose Items are returned by next: next, its literals, and the functions
	// of the package reachable from it by static calls
	reach := map[*FuncSrc]bool{}
	var order []*FuncSrc
	var visit func(fs *FuncSrc)
	visit = func(fs *FuncSrc) {
		if fs == nil || fs.Body == nil || reach[fs] {
			return
		}
		reach[fs] = true
		order = append(order, fs)
		ast.Inspect(fs.Body, func(n ast.Node) bool {
			switch x := n.(type) {
			case *ast.FuncLit:
				visit(p.Lits[x])
				return false
			case *ast.CallExpr:
				if f := Callee(fs.Info(), x); f != nil && f.Pkg() == a.next.Pkg() {
					visit(p.Src(f))
				}
			}
			return true
		})
	}
	visit(next)
	sort.SliceStable(order, func(i, j int) bool { return order[i].name < order[j].name })

	// call sites (inside the reachable set) of a declared function or of a local closure
	type site struct {
		fs   *FuncSrc
		call *ast.CallExpr
	}
	callSites := func(target *FuncSrc) []site {
		var out []site
		for _, fs := range order {
			ast.Inspect(fs.Body, func(n ast.Node) bool {
				if l, ok := n.(*ast.FuncLit); ok && l != fs.Lit {
					return false
				}
				call, ok := n.(*ast.CallExpr)
				if !ok {
					return true
				}
				if cs := a.calleeSrc(fs, call); cs == target {
					out = append(out, site{fs, call})
				}
				return true
			})
		}
		return out
	}
	why := "" // the expression at which the last failed isStart gave up
	var isStart func(fs *FuncSrc, e ast.Expr, depth int) bool
	isStart = func(fs *FuncSrc, e ast.Expr, depth int) (ok bool) {
		if depth <= 0 {
			return false
		}
		orig := e
		defer func() {
			if !ok && why == "" {
				why = fmt.Sprintf("%s in %s (%s)", exprStr(orig), fs.name, p.Pos(orig))
			}
		}()
		e = ast.Unparen(e)
		// integer conversions
		for {
			call, ok := e.(*ast.CallExpr)
			if !ok || len(call.Args) != 1 {
				break
			}
			if tv, ok := fs.Info().Types[call.Fun]; !ok || !tv.IsType() {
				break
			}
			e = ast.Unparen(call.Args[0])
		}
		id, ok := e.(*ast.Ident)
		if !ok {
			return false
		}
		o := fs.Info().Uses[id]
		if o == nil {
			return false
		}
		if o == startObj {
			return true
		}
		// a parameter (of this function or, for a closure, of an enclosing one): every
		// call site passes the start offset
		for f := fs; f != nil; f = f.Parent {
			for i, po := range paramObjs(f) {
				if po == o {
					sites := callSites(f)
					if len(sites) == 0 {
						return false
					}
					for _, s := range sites {
						if i >= len(s.call.Args) || !isStart(s.fs, s.call.Args[i], depth-1) {
							return false
						}
					}
					return true
				}
			}
		}
		if ds := a.defsOf(fs).defs[o]; len(ds) == 1 {
			return isStart(fs, ds[0], depth-1)
		}
		return false
	}
	mentionsStart := func(fs *FuncSrc, e ast.Expr) bool {
		found := false
		ast.Inspect(e, func(n ast.Node) bool {
			if id, ok := n.(*ast.Ident); ok && !found && isStart(fs, id, 4) {
				found = true
			}
			return !found
		})
		return found
	}
	mentionsSi := func(fs *FuncSrc, e ast.Expr) bool {
		found := false
		ast.Inspect(e, func(n ast.Node) bool {
			if sel, ok := n.(*ast.SelectorExpr); ok && FieldOf(fs.Info(), sel) == a.si {
				found = true
			}
			return !found
		})
		return found
	}
	nlit, nslice := 0, 0
	seenSlice := map[*ast.SliceExpr]bool{}
	// checkText: the slices of Lexer.src that make up a Text expression (looking through
	// single-definition locals and, for parameters, at the arguments of every call site)
	var checkText func(fs *FuncSrc, e ast.Expr, depth int)
	checkText = func(fs *FuncSrc, e ast.Expr, depth int) {
		if depth <= 0 {
			return
		}
		if id, ok := ast.Unparen(e).(*ast.Ident); ok {
			o := fs.Info().Uses[id]
			if o == nil {
				return
			}
			for f := fs; f != nil; f = f.Parent {
				for i, po := range paramObjs(f) {
					if po == o {
						for _, s := range callSites(f) {
							if i < len(s.call.Args) {
								checkText(s.fs, s.call.Args[i], depth-1)
							}
						}
						return
					}
				}
			}
			if ds := a.defsOf(fs).defs[o]; len(ds) == 1 {
				checkText(fs, ds[0], depth-1)
			}
			return
		}
		ast.Inspect(e, func(m ast.Node) bool {
			se, ok := m.(*ast.SliceExpr)
			if !ok || FieldOf(fs.Info(), se.X) != a.src || seenSlice[se] {
				return true
			}
			seenSlice[se] = true
			nslice++
			okS := se.Low != nil && mentionsStart(fs, se.Low) && se.High != nil && mentionsSi(fs, se.High)
			c.Obl(r3, fs.name+": Item.Text taken from the source is src[start… : si…]", p.Pos(se), okS,
				"the text of the item is a slice of the source that does not begin at the token's start offset or does not end at the current offset")
			return true
		})
	}
	for _, fs := range order {
		ast.Inspect(fs.Body, func(n ast.Node) bool {
			if l, ok := n.(*ast.FuncLit); ok && l != fs.Lit {
				return false
			}
			cl, ok := n.(*ast.CompositeLit)
			if !ok {
				return true
			}
			posE, isItem := a.itemField(fs.Info(), cl, a.posFld)
			if !isItem {
				return true
			}
			nlit++
			why = ""
			okP := posE != nil && isStart(fs, posE, 5)
			if posE == nil {
				why = "the literal has no Pos"
			}
			c.Obl(r3, fs.name+": Item.Pos is the start offset captured at entry of next", p.Pos(cl), okP,
				"the position of the item is not the offset at which next started to read it (not the start offset: "+why+"): token positions no longer increase strictly / spans do not tile the input")
			textE, _ := a.itemField(fs.Info(), cl, a.textFld)
			if textE != nil {
				checkText(fs, textE, 4)
			}
			return true
		})
	}
	c.Floor(r3, nlit, 6, "Item literals reachable from Lexer.next")
	c.Floor(r3, nslice, 6, "Item texts that are slices of Lexer.src")
	c.Floor(r3, ncap, 1, "captures of Lexer.si before the first read")
	c.Stats["item_literals"] = nlit
	c.Stats["functions_reachable_from_next"] = len(order)
	checkReadAdvances(c, "C32.4 K4 read consumes the byte it returns")
	return "Decided for compile/lexer: every return of (*Lexer).next is preceded on all paths by a call of read(); a return that is not on an edge where the byte returned by read() differs from the constant eof " +
		"(switch case or comparison, constants by value) can only produce tok.Eof, and tok.Eof is produced only on the byte==eof edge; the Pos of every Item literal in next, its closures and the package functions reachable from it " +
		"is (through integer conversions, single-definition locals and parameters at all call sites) the local captured from Lexer.si before the first read and before any store to Lexer.si, and that local is assigned once; " +
		"every Text that is syntactically a slice of Lexer.src has a lower bound mentioning that start offset and an upper bound mentioning Lexer.si. " +
		"Not decided: that scanners which move Lexer.si backwards (number, whitespace, lineComment, doesc) still leave it beyond start, parser termination, absence of run-time panics."
}

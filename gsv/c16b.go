package main

// Rules added after the seeded changes for C16 (DESIGN.md §8.2).

import (
	"go/ast"
	"go/token"
	"go/types"

	"golang.org/x/tools/go/cfg"
)

// checkPersistAsksOverlay (C16.5): whether a table has unsaved merged changes is known
// only to its index overlay (Overlay.Modified: the base layer is non-empty).  Row/size
// deltas are zero for a same-size update or a delete plus an equal insert, so a decision
// based on them skips tables with unsaved changes.
func checkPersistAsksOverlay(c *Ctx, rule string) {
	p := c.P
	fs := c.method(rule, "db19/meta", "Meta", "Persist")
	modified := p.DeclaredMethod("db19/index", "Overlay", "Modified")
	if fs == nil || !c.need(rule, "index.Overlay.Modified", modified) {
		return
	}
	info := fs.Info()
	// the call of the exec parameter (submitting a table for saving)
	execParam := fs.Param(0)
	fl := &Flow{P: p, Node: Labeler(Ev{"submit", func(s *FuncSrc, nd ast.Node) bool {
		call, ok := nd.(*ast.CallExpr)
		if !ok {
			return false
		}
		id := identOf(call.Fun)
		return id != nil && execParam != nil && info.Uses[id] == types.Object(execParam)
	}}), Edge: func(s *FuncSrc, cond ast.Expr, truth bool) []string { return []string{condLabel(cond, truth)} }}
	res := fl.Analyze(fs)
	n := 0
	for _, s := range res.Of("submit") {
		n++
		asks := false
		var conds []string
		for _, f := range condFactsOf(s.Before, nil) {
			conds = append(conds, f.String())
			ast.Inspect(f.Expr, func(m ast.Node) bool {
				if call, ok := m.(*ast.CallExpr); ok && sameFunc(Callee(info, call), modified) && f.Truth {
					asks = true
				}
				return true
			})
		}
		// every guard that decides about saving must be the overlay's answer or a structural test (len(...))
		onlyStructural := true
		for _, f := range condFactsOf(s.Before, nil) {
			isMod, isLen := false, false
			ast.Inspect(f.Expr, func(m ast.Node) bool {
				if call, ok := m.(*ast.CallExpr); ok {
					if sameFunc(Callee(info, call), modified) {
						isMod = true
					}
					if IsBuiltin(info, call, "len") {
						isLen = true
					}
				}
				return true
			})
			if !isMod && !isLen {
				onlyStructural = false
			}
		}
		c.Obl(rule, "Meta.Persist submits a table for saving exactly when its overlay says it is modified", p.Pos(s.Node), asks && onlyStructural,
			"the decision to save a table is not (only) the true edge of Overlay.Modified(); guards seen: "+joinStr(conds))
	}
	c.Floor(rule, n, 1, "submissions in Meta.Persist")
}

func joinStr(l []string) string {
	out := ""
	for i, s := range l {
		if i > 0 {
			out += "; "
		}
		out += s
	}
	return out
}

// checkDrainKeepsMessages (C16.6): the merger's drain loop either adds a received commit
// to the merge list or hands it back to the caller; an iteration that does neither loses
// that commit's layer (it is never merged, later merges are one layer short).
func checkDrainKeepsMessages(c *Ctx, rule string) {
	p := c.P
	add := p.DeclaredMethod("db19", "mergeList", "add")
	todoT := p.NamedType("db19", "todo")
	if !c.need(rule, "db19.mergeList.add", add) || !c.need(rule, "db19.todo", todoT) {
		return
	}
	n := 0
	for _, fs := range p.FuncsIn("db19") {
		if fs.Body == nil || len(p.CallsIn(fs, add)) == 0 {
			continue
		}
		info := fs.Info()
		// a receive of a todo from a channel: td, ok := <-ch  /  td := <-ch
		var recvVar types.Object
		isRecv := func(nd ast.Node) bool {
			as, ok := nd.(*ast.AssignStmt)
			if !ok || len(as.Rhs) != 1 {
				return false
			}
			ue, ok := ast.Unparen(as.Rhs[0]).(*ast.UnaryExpr)
			if !ok || ue.Op != token.ARROW {
				return false
			}
			id := identOf(as.Lhs[0])
			if id == nil {
				return false
			}
			o := info.Defs[id]
			if o == nil {
				o = info.Uses[id]
			}
			if o == nil || !types.Identical(o.Type(), todoT) {
				return false
			}
			recvVar = o
			return true
		}
		hasRecv := false
		ForEachNode(fs, func(nd ast.Node) {
			if isRecv(nd) {
				hasRecv = true
			}
		})
		if !hasRecv {
			continue
		}
		rv := recvVar
		mentionsTd := func(e ast.Node) bool {
			found := false
			ast.Inspect(e, func(m ast.Node) bool {
				if id, ok := m.(*ast.Ident); ok && info.Uses[id] == rv {
					found = true
				}
				return !found
			})
			return found
		}
		fl := &Flow{P: p, Node: func(s *FuncSrc, nd ast.Node) []string {
			if isRecv(nd) {
				return []string{"recv", "-kept"}
			}
			if call, ok := nd.(*ast.CallExpr); ok && sameFunc(Callee(info, call), add) && len(call.Args) == 1 && mentionsTd(call.Args[0]) {
				return []string{"kept"}
			}
			return nil
		}, BlockEntry: func(s *FuncSrc, b *cfg.Block) []string {
			if b.Kind == cfg.KindForBody || b.Kind == cfg.KindRangeBody {
				return []string{"-recv", "-kept"}
			}
			return nil
		}}
		res := fl.Analyze(fs)
		for _, le := range res.Loops {
			if le.Kind != "back" || !le.Before.Has("recv") {
				continue
			}
			n++
			c.Obl(rule, fs.name+": a commit received from the merge channel is added to the merge list before the next one is taken", p.Pos(le.Loop), le.Before.Has("kept"),
				"an iteration receives a message and loops without adding it to the merge list (the other exits hand it back): that commit's layer is never merged and never persisted")
		}
	}
	c.Floor(rule, n, 1, "drain loops over the merge channel")
}

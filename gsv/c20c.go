package main

// C20.6 / C20.7: framing of the dump format and the loader's per-record obligations.

import (
	"fmt"
	"go/ast"
	"go/constant"
	"go/token"
	"go/types"
	"strings"
)

// checkDumpFraming (C20.6): every record is written as a 4-byte big-endian length followed
// by exactly the value whose length was written; the record stream of a table ends with a
// zero length; the loader reads the length as 4-byte big-endian and stops at zero.
func checkDumpFraming(c *Ctx, rule string) {
	p := c.P
	wi := c.function(rule, "db19/tools", "writeInt")
	rr := c.function(rule, "db19/tools", "readRecords")
	if wi == nil || rr == nil {
		return
	}
	// (a) writeInt writes its argument as 4 big-endian bytes
	winfo := wi.Info()
	var bytesWritten []ast.Expr
	ast.Inspect(wi.Body, func(nd ast.Node) bool {
		if call, ok := nd.(*ast.CallExpr); ok {
			if sel, ok := call.Fun.(*ast.SelectorExpr); ok && sel.Sel.Name == "WriteByte" && len(call.Args) == 1 {
				bytesWritten = append(bytesWritten, call.Args[0])
			}
		}
		return true
	})
	okBE := len(bytesWritten) == 4
	why := fmt.Sprintf("%d WriteByte calls", len(bytesWritten))
	if okBE {
		param := wi.Obj.Type().(*types.Signature).Params().At(1)
		env := &AbsEnv{Info: winfo, Locals: map[types.Object]constant.Value{param: beSeq(1, 4)}}
		for i, e := range bytesWritten {
			v := env.expr(e)
			if v == nil {
				okBE, why = false, "a byte cannot be folded"
				break
			}
			if n, _ := constant.Int64Val(v); int(n) != i+1 {
				okBE, why = false, fmt.Sprintf("byte %d of the value is written at position %d", n, i+1)
			}
		}
	}
	c.Obl(rule, "writeInt writes a length as 4 big-endian bytes", p.Pos(wi.Decl), okBE, why)
	// (b) the loader decodes with BigEndian.Uint32 from a 4-byte buffer and stops at zero
	rinfo := rr.Info()
	var lenVar types.Object
	bufOK := false
	ast.Inspect(rr.Body, func(nd ast.Node) bool {
		as, ok := nd.(*ast.AssignStmt)
		if !ok || len(as.Lhs) != 1 || len(as.Rhs) != 1 {
			return true
		}
		ast.Inspect(as.Rhs[0], func(m ast.Node) bool {
			call, ok := m.(*ast.CallExpr)
			if !ok {
				return true
			}
			if cal := Callee(rinfo, call); cal != nil && cal.Name() == "Uint32" && cal.Pkg() != nil && cal.Pkg().Path() == "encoding/binary" {
				if sel, ok := call.Fun.(*ast.SelectorExpr); ok {
					if s2, ok := sel.X.(*ast.SelectorExpr); ok && s2.Sel.Name == "BigEndian" && len(call.Args) == 1 {
						lenVar = rinfo.ObjectOf(identOf(as.Lhs[0]))
						// the buffer: make([]byte, 4)
						if id := identOf(call.Args[0]); id != nil {
							for _, d := range buildDefs(rr).defs[rinfo.ObjectOf(id)] {
								if mk, ok := ast.Unparen(d).(*ast.CallExpr); ok && IsBuiltin(rinfo, mk, "make") && len(mk.Args) == 2 {
									if v := ConstVal(rinfo, mk.Args[1]); v != nil && v.ExactString() == "4" {
										bufOK = true
									}
								}
							}
						}
					}
				}
			}
			return true
		})
		return true
	})
	c.Obl(rule, "readRecords reads the length as 4 big-endian bytes", p.Pos(rr.Decl), lenVar != nil && bufOK,
		"the loader does not decode a 4-byte big-endian length: dump and load disagree on the framing")
	if lenVar != nil {
		stops := false
		ast.Inspect(rr.Body, func(nd ast.Node) bool {
			ifs, ok := nd.(*ast.IfStmt)
			if !ok {
				return true
			}
			be, ok := ast.Unparen(ifs.Cond).(*ast.BinaryExpr)
			if !ok || be.Op != token.EQL {
				return true
			}
			if id := identOf(be.X); id != nil && rinfo.ObjectOf(id) == lenVar {
				if v := ConstVal(rinfo, be.Y); v != nil && constant.Sign(v) == 0 && len(ifs.Body.List) == 1 {
					if br, ok := ifs.Body.List[0].(*ast.BranchStmt); ok && br.Tok == token.BREAK {
						stops = true
					}
				}
			}
			return true
		})
		c.Obl(rule, "readRecords stops at a zero length", p.Pos(rr.Decl), stops, "the end-of-table marker is not recognised")
	}
	// (c) writers: writeInt(w, len(X)) is followed by a write of the same X; a zero terminates the table
	nw, nz := 0, 0
	for _, fs := range p.FuncsIn("db19/tools") {
		if fs.Body == nil || fs.Obj == wi.Obj {
			continue
		}
		calls := p.CallsIn(fs, wi.Obj)
		if len(calls) == 0 {
			continue
		}
		info := fs.Info()
		for _, call := range calls {
			if len(call.Args) != 2 {
				continue
			}
			if v := ConstVal(info, call.Args[1]); v != nil && constant.Sign(v) == 0 {
				nz++
				continue
			}
			lc, ok := ast.Unparen(call.Args[1]).(*ast.CallExpr)
			if !ok || !IsBuiltin(info, lc, "len") || len(lc.Args) != 1 {
				continue // a count, not a record length
			}
			nw++
			x := identOf(lc.Args[0])
			good, why := false, "the length is not that of a variable"
			if x != nil {
				xo := info.ObjectOf(x)
				// the next statement in the same block writes string(x) / x
				par := parentMap(fs.Body)
				var st ast.Node = call
				for st != nil {
					if _, ok := st.(ast.Stmt); ok {
						break
					}
					st = par[st]
				}
				why = "no later statement of the block writes the same value"
				if blk, ok := par[st].(*ast.BlockStmt); ok {
					after := false
					for _, s := range blk.List {
						if s == st {
							after = true
							continue
						}
						if !after || good {
							continue
						}
						// an assignment to x before the write ends the search
						reassigned := false
						ast.Inspect(s, func(m ast.Node) bool {
							if as, ok := m.(*ast.AssignStmt); ok {
								for _, l := range as.Lhs {
									if id := identOf(l); id != nil && info.ObjectOf(id) == xo {
										reassigned = true
									}
								}
							}
							return true
						})
						if reassigned {
							why = "the value is re-assigned between its length and its bytes"
							break
						}
						if es, ok := s.(*ast.ExprStmt); ok {
							if wc, ok := es.X.(*ast.CallExpr); ok && len(wc.Args) == 1 {
								arg := ast.Unparen(wc.Args[0])
								if conv, ok := arg.(*ast.CallExpr); ok && len(conv.Args) == 1 {
									if tv, ok := info.Types[conv.Fun]; ok && tv.IsType() {
										arg = ast.Unparen(conv.Args[0])
									}
								}
								if id := identOf(arg); id != nil && info.ObjectOf(id) == xo {
									if sel, ok := wc.Fun.(*ast.SelectorExpr); ok && strings.HasPrefix(sel.Sel.Name, "Write") {
										good = true
									}
								}
							}
						}
					}
				}
			}
			c.Obl(rule, fs.name+": the length prefix is the length of the value written next", p.Pos(call), good, why+": the loader reads a different number of bytes than were written")
		}
	}
	c.Floor(rule, nw, 1, "length-prefixed record writes in db19/tools")
	c.Floor(rule, nz, 1, "end-of-table markers written in db19/tools")
}

// checkLoadRecordLoop (C20.7): every record the loader reads into the store gets its
// checksum, is added to the list the indexes are built from, and is counted, on every path.
func checkLoadRecordLoop(c *Ctx, rule string) {
	p := c.P
	rr := c.function(rule, "db19/tools", "readRecords")
	upd := p.Func("util/cksum", "Update")
	alloc := p.DeclaredMethod("db19/stor", "Stor", "Alloc")
	if rr == nil || !c.need(rule, "cksum.Update", upd) || !c.need(rule, "stor.Stor.Alloc", alloc) {
		return
	}
	info := rr.Info()
	sig := rr.Obj.Type().(*types.Signature)
	var cnt, size types.Object
	if sig.Results().Len() == 2 {
		cnt, size = sig.Results().At(0), sig.Results().At(1)
	}
	if cnt == nil {
		c.Missing(rule, "readRecords (nrecs, size) results")
		return
	}
	listAdd := Ev{"list.Add", func(s *FuncSrc, nd ast.Node) bool {
		call, ok := nd.(*ast.CallExpr)
		if !ok {
			return false
		}
		sel, ok := call.Fun.(*ast.SelectorExpr)
		if !ok || sel.Sel.Name != "Add" || len(call.Args) != 1 {
			return false
		}
		id := identOf(sel.X)
		return id != nil && isParamOf(s, asVar(info.ObjectOf(id)))
	}}
	counted := Ev{"count++", func(s *FuncSrc, nd ast.Node) bool {
		switch x := nd.(type) {
		case *ast.IncDecStmt:
			id := identOf(x.X)
			return id != nil && info.ObjectOf(id) == cnt && x.Tok == token.INC
		case *ast.AssignStmt:
			if x.Tok == token.ADD_ASSIGN && len(x.Lhs) == 1 {
				id := identOf(x.Lhs[0])
				return id != nil && info.ObjectOf(id) == cnt
			}
		}
		return false
	}}
	sized := Ev{"size+=", func(s *FuncSrc, nd ast.Node) bool {
		x, ok := nd.(*ast.AssignStmt)
		if !ok || x.Tok != token.ADD_ASSIGN || len(x.Lhs) != 1 {
			return false
		}
		id := identOf(x.Lhs[0])
		return id != nil && info.ObjectOf(id) == size
	}}
	fl := &Flow{P: p, Node: Labeler(CallOf("Alloc", alloc), CallOf("cksum.Update", upd), listAdd, counted, sized)}
	res := fl.Analyze(rr)
	sites := res.Of("Alloc")
	c.Floor(rule, len(sites), 1, "allocations for loaded records")
	for _, s := range sites {
		for _, want := range []struct{ l, what, why string }{
			{"cksum.Update", "gets its checksum", "a loaded record without checksum fails every later check of the database"},
			{"list.Add", "is added to the list the indexes are built from", "the record is in the data but in no index"},
			{"count++", "is counted", "Info.Nrows differs from the rows loaded"},
			{"size+=", "adds to the table size", "Info.Size differs from the bytes loaded"},
		} {
			c.Obl(rule, "readRecords: every record stored "+want.what, p.Pos(s.Node), s.Follows(want.l), want.why)
		}
	}
}

func asVar(o types.Object) *types.Var {
	v, _ := o.(*types.Var)
	return v
}

package main

// C19.3 (added after seeded change C19-2): the chunk-by-chunk pattern searches of the
// storage (Stor.FirstOffset / LastOffset) use a partial chunk only for the chunk they
// start in: every iteration of the chunk loop re-assigns the in-chunk bound before the
// next chunk is searched.

import (
	"go/ast"
	"go/types"

	"golang.org/x/tools/go/cfg"
)

func checkChunkSearchResets(c *Ctx, rule string) {
	p := c.P
	n := 0
	for _, name := range []string{"FirstOffset", "LastOffset"} {
		fs := c.method(rule, "db19/stor", "Stor", name)
		if fs == nil {
			continue
		}
		info := fs.Info()
		// the variable used as a slice bound of a chunk: chunks[c][n:] or chunks[c][:n]
		var bound types.Object
		ForEachNode(fs, func(nd ast.Node) {
			se, ok := nd.(*ast.SliceExpr)
			if !ok {
				return
			}
			if _, isIdx := ast.Unparen(se.X).(*ast.IndexExpr); !isIdx {
				return
			}
			for _, b := range []ast.Expr{se.Low, se.High} {
				if id := identOf(b); id != nil {
					bound = info.Uses[id]
				}
			}
		})
		if bound == nil {
			c.Missing(rule, "the in-chunk bound variable of Stor."+name)
			continue
		}
		fl := &Flow{P: p, Node: func(s *FuncSrc, nd ast.Node) []string {
			if as, ok := nd.(*ast.AssignStmt); ok {
				for _, l := range as.Lhs {
					if id := identOf(l); id != nil && (info.Uses[id] == bound || info.Defs[id] == bound) {
						return []string{"bound="}
					}
				}
			}
			return nil
		}, BlockEntry: func(s *FuncSrc, b *cfg.Block) []string {
			if b.Kind == cfg.KindForBody || b.Kind == cfg.KindRangeBody {
				return []string{"-bound="}
			}
			return nil
		}}
		res := fl.Analyze(fs)
		for _, le := range res.Loops {
			if le.Kind != "back" {
				continue
			}
			n++
			c.Obl(rule, "Stor."+name+": every chunk after the first is searched from its own beginning / to its own end", p.Pos(le.Loop), le.Before.Has("bound="),
				"an iteration of the chunk loop can end without re-assigning the in-chunk bound: the next chunk is searched only from (to) the position that applied to the starting chunk, so states in later chunks are skipped")
		}
	}
	c.Floor(rule, n, 2, "chunk loops in Stor.FirstOffset / LastOffset")
}

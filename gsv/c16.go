package main

import (
	"fmt"
	"go/ast"
	"go/token"
	"go/types"
	"strings"
)

func init() { register("C16", checkC16, "./db19/...") }

func checkC16(c *Ctx) string {
	p := c.P
	r0 := "C16.0 anchors"
	src := newDbImmut(c, r0, false)
	if src == nil {
		return "anchors missing"
	}
	eng := src.eng
	if rf := p.Func("db19/meta", "replace"); rf != nil {
		eng.NoMut[rf] = "copy on first write (shape checked by C02)"
	}
	eng.Solve(nil)

	applyFn := p.Func("db19/meta", "Apply")
	stateMeta := p.Field("db19", "DbState", "Meta")
	stateOff := p.Field("db19", "DbState", "Off")
	stateWrite := p.DeclaredMethod("db19", "DbState", "Write")
	metaMerge := p.DeclaredMethod("db19/meta", "Meta", "Merge")
	metaPersist := p.DeclaredMethod("db19/meta", "Meta", "Persist")
	dbMerge := p.DeclaredMethod("db19", "Database", "Merge")
	dbPersist := p.DeclaredMethod("db19", "Database", "persist")
	results := p.IfaceMethod("db19", "execPersist", "Results")
	mergerFn := p.Func("db19", "merger")
	ok := true
	for n, v := range map[string]any{"meta.Apply": applyFn, "db19.DbState.Meta": stateMeta, "db19.DbState.Off": stateOff, "db19.DbState.Write": stateWrite,
		"meta.Meta.Merge": metaMerge, "meta.Meta.Persist": metaPersist, "db19.Database.Merge": dbMerge, "db19.Database.persist": dbPersist,
		"db19.execPersist.Results": results, "db19.merger": mergerFn} {
		if !c.need(r0, n, v) {
			ok = false
		}
	}
	if !ok {
		return "anchors missing"
	}

	// ---- 1. compute on a snapshot, apply to a private copy of the latest state inside UpdateState
	r1 := "C16.1 K4+K11 merge/persist results are applied inside UpdateState to a private copy of the latest Meta, which is then published"
	for _, w := range []struct {
		fn      *types.Func
		persist bool
	}{{dbMerge, false}, {dbPersist, true}} {
		fs := c.src(r1, w.fn, funcName(w.fn))
		if fs == nil {
			continue
		}
		name := w.fn.Name()
		info := fs.Info()
		defs := buildDefs(fs)
		calls := p.CallsIn(fs, src.updState)
		c.Obl(r1, name+": exactly one UpdateState", p.Pos(fs.Decl), len(calls) == 1,
			fmt.Sprintf("%d UpdateState calls: the result of one computation must be applied in one atomic step", len(calls)))
		if len(calls) != 1 || len(calls[0].Args) != 1 {
			continue
		}
		lit, isLit := ast.Unparen(calls[0].Args[0]).(*ast.FuncLit)
		if !isLit || lit.Type.Params == nil || len(lit.Type.Params.List) != 1 || len(lit.Type.Params.List[0].Names) != 1 {
			c.Obl(r1, name+": UpdateState is given a function literal", p.Pos(calls[0]), false, "the update function is not a literal: its body cannot be checked")
			continue
		}
		litState := info.Defs[lit.Type.Params.List[0].Names[0]]
		inLit := func(n ast.Node) bool { return n.Pos() >= lit.Body.Pos() && n.End() <= lit.Body.End() }
		fnParam := fs.Param(0)
		isCompute := func(f *FuncSrc, n ast.Node) bool {
			call, ok := n.(*ast.CallExpr)
			if !ok {
				return false
			}
			if w.persist {
				return sameFunc(Callee(f.Info(), call), metaPersist)
			}
			id, ok := ast.Unparen(call.Fun).(*ast.Ident)
			return ok && fnParam != nil && f.Info().Uses[id] == types.Object(fnParam)
		}
		updatesFromCompute := func(upd ast.Expr) bool {
			if upd == nil {
				return false
			}
			if w.persist {
				return defs.MentionsEv(fs, upd, CallOf("", results))
			}
			return defs.Mentions(info, upd, func(n ast.Node) bool { return isCompute(fs, n) })
		}

		// the unit that applies: the literal itself, or (a helper extracted one level) a function of
		// the module called in the literal with the callback's state
		unit, unitState := p.Lits[lit], litState
		updOK := func(upd ast.Expr) bool { return updatesFromCompute(upd) }
		if len(p.CallsIn(unit, applyFn)) == 0 {
			ast.Inspect(lit.Body, func(n ast.Node) bool {
				call, ok := n.(*ast.CallExpr)
				if !ok {
					return true
				}
				g := p.Src(Callee(info, call))
				if g == nil || g.Body == nil || len(p.CallsIn(g, applyFn)) == 0 {
					return true
				}
				for i, a := range call.Args {
					if id, isId := ast.Unparen(a).(*ast.Ident); isId && info.Uses[id] == litState {
						if pv := g.Param(i); pv != nil {
							outerCall := call
							unit, unitState = g, pv
							gd := buildDefs(g)
							updOK = func(upd ast.Expr) bool {
								// the helper's parameter that reaches Apply is bound to the computation's result
								for j, a2 := range outerCall.Args {
									if pj := g.Param(j); pj != nil && gd.MentionsObj(g.Info(), upd, pj) && updatesFromCompute(a2) {
										return true
									}
								}
								return false
							}
						}
					}
				}
				return true
			})
		}
		uinfo := unit.Info()
		udefs := buildDefs(unit)
		inUnit := func(n ast.Node) bool {
			return unit.Body != nil && n.Pos() >= unit.Body.Pos() && n.End() <= unit.Body.End()
		}
		// the private copy: v := *state.Meta
		copyOf := func(e ast.Expr) types.Object {
			u, ok := ast.Unparen(e).(*ast.UnaryExpr)
			if !ok || u.Op != token.AND {
				return nil
			}
			id, ok := ast.Unparen(u.X).(*ast.Ident)
			if !ok {
				return nil
			}
			o := uinfo.Uses[id]
			ds := udefs.defs[o]
			if o == nil || len(ds) != 1 {
				return nil
			}
			st, ok := ast.Unparen(ds[0]).(*ast.StarExpr)
			if !ok || FieldOf(uinfo, st.X) != stateMeta {
				return nil
			}
			// of the callback's own state, or of a state loaded inside the callback (the same, under the mutex)
			root := rootIdent(st.X)
			fromParam := root != nil && uinfo.Uses[root] == unitState
			loadedInside := udefs.Mentions(uinfo, st.X, func(n ast.Node) bool {
				call, ok := n.(*ast.CallExpr)
				return ok && sameFunc(Callee(uinfo, call), src.getState) && inUnit(call)
			})
			if !fromParam && !loadedInside {
				return nil
			}
			return o
		}
		evApply := Ev{"Apply", func(f *FuncSrc, n ast.Node) bool {
			call, ok := n.(*ast.CallExpr)
			return ok && sameFunc(Callee(f.Info(), call), applyFn)
		}}
		evPublish := Ev{"publish", func(f *FuncSrc, n ast.Node) bool {
			as, ok := n.(*ast.AssignStmt)
			if !ok || len(as.Lhs) != 1 || len(as.Rhs) != 1 || lhsField(f.Info(), as.Lhs[0], false) != stateMeta {
				return false
			}
			root := rootIdent(as.Lhs[0])
			return root != nil && f.Info().Uses[root] == unitState && copyOf(as.Rhs[0]) != nil
		}}
		evOff := Ev{"Off=", func(f *FuncSrc, n ast.Node) bool {
			as, ok := n.(*ast.AssignStmt)
			if !ok || len(as.Lhs) != 1 || lhsField(f.Info(), as.Lhs[0], false) != stateOff {
				return false
			}
			root := rootIdent(as.Lhs[0])
			return root != nil && f.Info().Uses[root] == unitState
		}}
		ures := (&Flow{P: p, Node: Labeler(evApply, evPublish, evOff, CallOf("Write", stateWrite))}).Analyze(unit)
		applies := ures.Of("Apply")
		c.Obl(r1, name+": exactly one meta.Apply, inside the UpdateState callback", p.Pos(fs.Decl),
			len(applies) == 1 && len(p.CallsIn(fs, applyFn)) == len(p.CallsIn(p.Lits[lit], applyFn)),
			fmt.Sprintf("%d calls of meta.Apply in the callback, %d in %s", len(applies), len(p.CallsIn(fs, applyFn)), name))
		var copyObj types.Object
		for _, s := range applies {
			call := s.Node.(*ast.CallExpr)
			copyObj = copyOf(callArg(call, 0))
			c.Obl(r1, name+": Apply works on a copy of the Meta of the state handed to the callback", p.Pos(call), copyObj != nil,
				"Apply is given "+exprStr(callArg(call, 0))+" instead of &m with m := *state.Meta (state = the callback's parameter): either the published Meta is modified in place, "+
					"or the updates are applied to an older snapshot and every commit since then is lost")
			c.Obl(r1, name+": the updates applied are the result of the computation", p.Pos(call), updOK(callArg(call, 1)),
				"the second argument of Apply does not derive from the merge/persist computation: merged layers or saved btrees are dropped")
			c.Obl(r1, name+": the applied copy is published", p.Pos(call), s.Before.Has("publish") || s.Follows("publish"),
				"no 'state.Meta = &m' on every path through Apply: the result of the merge/persist is discarded")
		}
		for _, s := range ures.Of("publish") {
			as := s.Node.(*ast.AssignStmt)
			c.Obl(r1, name+": what is published is the copy Apply worked on", p.Pos(as), copyObj != nil && copyOf(as.Rhs[0]) == copyObj,
				"state.Meta is assigned the address of another value than the one given to Apply")
		}
		if w.persist {
			ws := ures.Of("Write")
			for _, s := range ws {
				c.Obl(r1, name+": the state is written inside the callback, after the updates were applied and published to it", p.Pos(s.Node),
					s.Before.Has("Apply") && s.Before.Has("publish"),
					"state.Write() runs before meta.Apply / before state.Meta = &m: the state on disk does not contain the saved btrees, or Write modifies the published Meta's chains in place")
				c.Obl(r1, name+": the offset of the written state is recorded in it", p.Pos(s.Node), s.Follows("Off="),
					"state.Off is not set after Write: the merger's 'nothing changed since the last persist' test compares against a stale offset")
				if call, ok := s.Node.(*ast.CallExpr); ok {
					if sel, ok := ast.Unparen(call.Fun).(*ast.SelectorExpr); ok {
						id, _ := ast.Unparen(sel.X).(*ast.Ident)
						c.Obl(r1, name+": Write is called on the callback's state", p.Pos(call), id != nil && uinfo.Uses[id] == unitState, "")
					}
				}
			}
			c.Floor(r1, len(ws), 1, "state.Write() in the callback of persist")
			c.Obl(r1, name+": the state is written only inside the callback", p.Pos(fs.Decl), len(p.CallsIn(fs, stateWrite)) == len(p.CallsIn(p.Lits[lit], stateWrite)),
				"state.Write() outside UpdateState: Write replaces the chains of the Meta it is called on, which must be the private copy")
		}

		// the enclosing function: computation on a published snapshot, before the atomic apply
		res := (&Flow{P: p, Callback: db19Callbacks(p), Node: Labeler(Ev{"compute", isCompute}, CallOf("Results", results), CallOf("UpdateState", src.updState))}).Analyze(fs)
		ncomp := 0
		for _, s := range res.Of("compute") {
			ncomp++
			call := s.Node.(*ast.CallExpr)
			var on ast.Expr
			if w.persist {
				if sel, ok := ast.Unparen(call.Fun).(*ast.SelectorExpr); ok {
					on = sel.X
				}
			} else {
				on = callArg(call, 0)
			}
			snap := on != nil && FieldOf(info, on) == stateMeta && (defs.MentionsEv(fs, on, CallOf("", src.getState)) ||
				(rootIdent(on) != nil && info.Uses[rootIdent(on)] == litState))
			c.Obl(r1, name+": the computation reads the Meta of a state (GetState().Meta or the callback's state)", p.Pos(call), snap,
				"the merge/persist is computed on "+exprStr(on)+", not on the Meta of a published state")
		}
		c.Floor(r1, ncomp, 1, "compute calls in "+name)
		for _, s := range res.Of("UpdateState") {
			if !inLit(s.Node) {
				c.Obl(r1, name+": the computation precedes the atomic apply", p.Pos(s.Node), s.Before.Has("compute") || len(res.Of("compute")) > 0 && inLit(res.Of("compute")[0].Node),
					"UpdateState is reached on a path without the computation")
			}
		}
		if w.persist {
			for _, s := range res.Of("Results") {
				c.Obl(r1, name+": results are collected after the work was submitted", p.Pos(s.Node), s.Before.Has("compute"), "exec.Results() before Meta.Persist(exec.Submit)")
			}
			c.Floor(r1, len(res.Of("Results")), 1, "exec.Results() in persist")
		}
	}

	// ---- 2. "must not modify meta"
	r2 := "C16.2 K12 computing a merge or persist does not write through the meta it reads"
	type np struct {
		fn    *types.Func
		what  string
		param int
	}
	var pure []np
	add := func(what string, fn *types.Func, param int) {
		if c.need(r2, what, fn) {
			pure = append(pure, np{fn, what, param})
		}
	}
	add("meta.Meta.Merge", metaMerge, -1)
	add("meta.Meta.Persist", metaPersist, -1)
	add("index.Overlay.Merge", p.DeclaredMethod("db19/index", "Overlay", "Merge"), -1)
	add("index.Overlay.Save", p.DeclaredMethod("db19/index", "Overlay", "Save"), -1)
	add("index.Overlay.WithMerged", p.DeclaredMethod("db19/index", "Overlay", "WithMerged"), -1)
	add("index.Overlay.WithSaved", p.DeclaredMethod("db19/index", "Overlay", "WithSaved"), -1)
	add("index.Overlay.Modified", p.DeclaredMethod("db19/index", "Overlay", "Modified"), -1)
	add("ixbuf.Merge", p.Func("db19/index/ixbuf", "Merge"), 0)
	add("ixbuf.ixbuf.Iter", p.DeclaredMethod("db19/index/ixbuf", "ixbuf", "Iter"), -1)
	add("btree.btree.MergeAndSave", p.DeclaredMethod("db19/index/btree", "btree", "MergeAndSave"), -1)
	add("db19.mergeSingle", p.Func("db19", "mergeSingle"), 0)
	add("db19.execMulti.merge", p.DeclaredMethod("db19", "execMulti", "merge"), 0)
	add("meta.MergeUpdate.Apply2", p.DeclaredMethod("db19/meta", "MergeUpdate", "Apply2"), 0)
	add("meta.PersistUpdate.Apply2", p.DeclaredMethod("db19/meta", "PersistUpdate", "Apply2"), 0)
	for _, x := range pure {
		why := eng.Mutates(x.fn, x.param)
		d := ""
		if why != nil {
			d = fmt.Sprintf("%s at %s: the merge/persist is computed on a published snapshot while transactions read it and commits layer onto it; the change is also missing from the state the updates are later applied to", why.What, why.Pos)
		}
		c.Obl(r2, fmt.Sprintf("%s does not write through parameter %d", funcName(x.fn), x.param), p.Pos(p.Src(x.fn).Decl), why == nil, d)
	}
	for _, fn := range []*types.Func{metaMerge, metaPersist} {
		fs := p.Src(fn)
		var bad []string
		for _, h := range eng.Hits(fs, isSourceOrigin) {
			bad = append(bad, eng.describe(h))
		}
		c.Obl(r2, funcName(fn)+" does not write through items of the info map", p.Pos(fs.Decl), len(bad) == 0, strings.Join(bad, "; "))
	}
	// self-check: the analysis sees the writers of the same types
	for _, m := range []struct{ pkg, typ, name string }{{"db19/index", "Overlay", "UpdateWith"}, {"db19/index/ixbuf", "ixbuf", "Insert"}, {"db19/meta", "Meta", "Write"}} {
		fn := p.DeclaredMethod(m.pkg, m.typ, m.name)
		c.Obl(r2+" (self-check)", m.typ+"."+m.name+" is seen to write through its receiver", "", fn != nil && eng.Mutates(fn, -1) != nil, "the effect analysis is blind")
	}

	// ---- 3. one goroutine
	r3 := "C16.3 K3 merge and persist are driven by the single merger goroutine"
	c.Callers(r3, []*types.Func{dbMerge}, []string{"db19.merger", "db19.(*Database).CommitMerge"}, 1)
	c.Callers(r3, []*types.Func{dbPersist}, []string{"db19.merger", "db19.(*Database).PersistSync", "db19.(*Database).PersistClose"}, 2)
	c.Callers(r3, []*types.Func{mergerFn}, []string{"db19.StartConcur"}, 1)
	c.Callers(r3+" (CommitMerge is test-only)", []*types.Func{p.DeclaredMethod("db19", "Database", "CommitMerge")}, []string{}, 0)
	c.Callers(r3+" (PersistClose is for databases without a checker)", []*types.Func{p.DeclaredMethod("db19", "Database", "PersistClose")}, []string{}, 0)
	if sc := c.function(r3, "db19", "StartConcur"); sc != nil {
		ngo, nplain := 0, 0
		for _, cs := range p.CallersOf(mergerFn) {
			if cs.Call == nil {
				nplain++
			}
		}
		ForEachNode(sc, func(n ast.Node) {
			if g, ok := n.(*ast.GoStmt); ok && sameFunc(Callee(sc.Info(), g.Call), mergerFn) {
				ngo++
			}
		})
		c.Obl(r3, "StartConcur starts exactly one merger goroutine", p.Pos(sc.Decl), ngo == 1 && nplain == 0 && len(p.CallersOf(mergerFn)) == 1,
			fmt.Sprintf("%d go statements start merger, %d other references: Merge and persist must not run concurrently", ngo, len(p.CallersOf(mergerFn))-ngo))
	}
	// inside merger the calls are made by the goroutine itself: not from a literal, not under 'go'
	if mg := p.Src(mergerFn); mg != nil {
		n := 0
		for _, cs := range p.CallersOf(dbMerge, dbPersist) {
			if cs.Fn != mg {
				continue
			}
			n++
			c.Obl(r3, "merger calls "+Callee(cs.In.Info(), cs.Call).Name()+" on its own goroutine", p.Pos(cs.Call), cs.In == mg,
				"the call is inside a function literal of merger: it may run on another goroutine, concurrently with the other of Merge/persist")
		}
		c.Floor(r3, n, 3, "Merge/persist calls in merger")
		ngo := 0
		par := parentMap(mg.Body)
		for _, cs := range p.CallersOf(dbMerge, dbPersist) {
			if cs.Fn == mg {
				if _, isGo := par[cs.Call].(*ast.GoStmt); isGo {
					ngo++
				}
			}
		}
		c.Obl(r3, "merger does not start Merge/persist with 'go'", p.Pos(mg.Decl), ngo == 0, "")
	}

	// ---- 4. Apply
	r4 := "C16.4 K4+K12 Apply replaces each updated Info by a modified private copy and freezes the map"
	if fs := c.src(r4, applyFn, "meta.Apply"); fs != nil {
		info := fs.Info()
		defs := buildDefs(fs)
		hPut := p.DeclaredMethod("util/hamt", "Hamt", "Put")
		hFreeze := p.DeclaredMethod("util/hamt", "Hamt", "Freeze")
		hMutable := p.DeclaredMethod("util/hamt", "Hamt", "Mutable")
		infoF := p.Field("db19/meta", "Meta", "info")
		lastMod := p.Field("db19/meta", "Info", "lastMod")
		indexesF := p.Field("db19/meta", "Info", "Indexes")
		chainHamt := p.Field("util/hamt", "Chain", "Hamt")
		apply1 := p.IfaceMethod("db19/meta", "applyable", "Apply1")
		apply2 := p.IfaceMethod("db19/meta", "applyable", "Apply2")
		allOk := true
		for n, v := range map[string]any{"hamt.Hamt.Put": hPut, "hamt.Hamt.Freeze": hFreeze, "hamt.Hamt.Mutable": hMutable, "meta.Meta.info": infoF,
			"meta.Info.lastMod": lastMod, "meta.Info.Indexes": indexesF, "hamt.Chain.Hamt": chainHamt, "meta.applyable.Apply1": apply1, "meta.applyable.Apply2": apply2} {
			if !c.need(r4, n, v) {
				allOk = false
			}
		}
		if allOk {
			isCopyVar := func(o types.Object) bool {
				ds := defs.defs[o]
				if len(ds) != 1 {
					return false
				}
				st, ok := ast.Unparen(ds[0]).(*ast.StarExpr)
				return ok && defs.MentionsEv(fs, st.X, CallOf("", src.hMustGet, src.hGet))
			}
			addrOfCopy := func(e ast.Expr) types.Object {
				u, ok := ast.Unparen(e).(*ast.UnaryExpr)
				if !ok || u.Op != token.AND {
					return nil
				}
				id, ok := ast.Unparen(u.X).(*ast.Ident)
				if !ok || !isCopyVar(info.Uses[id]) {
					return nil
				}
				return info.Uses[id]
			}
			evFreezeStore := Ev{"info=Freeze", func(f *FuncSrc, n ast.Node) bool {
				as, ok := n.(*ast.AssignStmt)
				if !ok || len(as.Lhs) != 1 || len(as.Rhs) != 1 {
					return false
				}
				l, ok := ast.Unparen(as.Lhs[0]).(*ast.SelectorExpr)
				if !ok || fieldOrigin(f.Info(), l) != chainHamt || fieldOrigin(f.Info(), l.X) != infoF {
					return false
				}
				call, ok := ast.Unparen(as.Rhs[0]).(*ast.CallExpr)
				return ok && sameFunc(Callee(f.Info(), call), hFreeze)
			}}
			evIdxStore := Ev{"Indexes[i]=Apply2", func(f *FuncSrc, n ast.Node) bool {
				as, ok := n.(*ast.AssignStmt)
				if !ok || len(as.Lhs) != 1 || len(as.Rhs) != 1 {
					return false
				}
				ix, ok := ast.Unparen(as.Lhs[0]).(*ast.IndexExpr)
				if !ok || FieldOf(f.Info(), ix.X) != indexesF {
					return false
				}
				call, ok := ast.Unparen(as.Rhs[0]).(*ast.CallExpr)
				return ok && sameFunc(Callee(f.Info(), call), apply2)
			}}
			fl := &Flow{P: p, Node: Labeler(CallOf("Put", hPut), CallOf("Apply1", apply1), CallOf("Apply2", apply2), CallOf("Mutable", hMutable),
				StoreTo("lastMod=", false, lastMod), evFreezeStore, evIdxStore)}
			res := fl.Analyze(fs)
			var putObj types.Object
			for _, s := range res.Of("Put") {
				call := s.Node.(*ast.CallExpr)
				putObj = addrOfCopy(callArg(call, 0))
				c.Obl(r4, "Apply: Put stores the address of a copy (ti := *info.MustGet(..))", p.Pos(call), putObj != nil,
					"the item put back is "+exprStr(callArg(call, 0))+", not the address of a dereferenced copy of the current item: the item shared with older states is the one that was modified")
				c.Obl(r4, "Apply: the copy is stamped with the current clock before Put", p.Pos(call), s.Before.Has("lastMod="),
					"lastMod is not set: the next persist does not write the modified Info (WriteChain only writes items with lastMod >= the chunk age) and the merge/persist result is lost on restart")
				c.Obl(r4, "Apply: both halves of the update are applied before Put", p.Pos(call), s.Before.Has("Apply1") && (s.Before.Has("Indexes[i]=Apply2") || len(res.Of("Indexes[i]=Apply2")) > 0),
					"Apply1 (row/size deltas) or Apply2 (index layers) is missing before the Put: layers and Deltas no longer agree (Info.Check)")
				if sel, ok := ast.Unparen(call.Fun).(*ast.SelectorExpr); ok {
					c.Obl(r4, "Apply: Put goes to a Mutable() copy of the map", p.Pos(call), defs.MentionsEv(fs, sel.X, CallOf("", hMutable)), "")
				}
			}
			c.Floor(r4, len(res.Of("Put")), 1, "Put in Apply")
			for _, s := range res.Of("Apply1") {
				call := s.Node.(*ast.CallExpr)
				o := addrOfCopy(callArg(call, 0))
				c.Obl(r4, "Apply: Apply1 works on the copy that is put back", p.Pos(call), o != nil && (putObj == nil || o == putObj), "")
			}
			nidx := len(res.Of("Indexes[i]=Apply2"))
			c.Floor(r4, nidx, 1, "stores of Apply2 results into the copy's Indexes")
			c.Obl(r4, "Apply: the new map is frozen and installed in the Meta on every path", p.Pos(fs.Decl), !res.Exit.top && res.Exit.done.Has("info=Freeze"),
				"m.info.Hamt = info.Freeze() does not happen on every path: the updates stay in a mutable map that is dropped")
			// the element stores into Indexes are discharged by the clone (K12 engine): shared without it, clean with it
			f := eng.funcOf(fs)
			f.solve()
			nclone := 0
			for _, sk := range f.sinks {
				if sk.kind != "store" || sk.base == nil || FieldOf(info, sk.base) != indexesF {
					continue
				}
				sharedWithout := len(filterOrigins(sk.taint(nil).zero(), isSourceOrigin)) > 0
				clean := len(f.sinkTaint(sk, isSourceOrigin)) == 0
				nclone++
				c.Obl(r4, "Apply: Indexes is cloned before its elements are replaced", p.Pos(sk.node), clean,
					"the copy still shares the Indexes array with the published Info: ti.Indexes[i] = ... changes the overlays of every older state in place")
				_ = sharedWithout
			}
			c.Floor(r4, nclone, 1, "element stores into Info.Indexes in Apply")
		}
	}
	// Apply1 implementations: element stores into Deltas only after Deltas was replaced by a fresh slice
	deltasF := p.Field("db19/meta", "Info", "Deltas")
	apply1 := p.IfaceMethod("db19/meta", "applyable", "Apply1")
	if c.need(r4, "meta.Info.Deltas", deltasF) && c.need(r4, "meta.applyable.Apply1", apply1) {
		impls := eng.targets(apply1)
		c.Floor(r4, len(impls), 2, "implementations of applyable.Apply1 (MergeUpdate, PersistUpdate)")
		nst := 0
		for _, fn := range impls {
			fs := p.Src(fn)
			if fs == nil || fs.Body == nil {
				continue
			}
			evFresh := Ev{"Deltas=fresh", func(f *FuncSrc, n ast.Node) bool {
				as, ok := n.(*ast.AssignStmt)
				if !ok || len(as.Lhs) != 1 || len(as.Rhs) != 1 || lhsField(f.Info(), as.Lhs[0], false) != deltasF {
					return false
				}
				return isFreshSlice(f, buildDefs(f), as.Rhs[0], deltasF)
			}}
			evElem := Ev{"Deltas[i]=", func(f *FuncSrc, n ast.Node) bool {
				switch s := n.(type) {
				case *ast.AssignStmt:
					for _, l := range s.Lhs {
						if lhsField(f.Info(), l, false) != deltasF && lhsField(f.Info(), l, true) == deltasF {
							return true
						}
					}
				case *ast.IncDecStmt:
					return lhsField(f.Info(), s.X, false) != deltasF && lhsField(f.Info(), s.X, true) == deltasF
				case *ast.CallExpr:
					if IsBuiltin(f.Info(), s, "copy") && len(s.Args) == 2 {
						return FieldOf(f.Info(), sliceBase(s.Args[0])) == deltasF
					}
				}
				return false
			}}
			fl := &Flow{P: p, Node: Labeler(evFresh, evElem)}
			res := fl.Analyze(fs)
			for _, s := range res.Of("Deltas[i]=") {
				nst++
				c.Obl(r4, fs.name+": Deltas is replaced by a fresh slice before an element of it is written", p.Pos(s.Node), s.Before.Has("Deltas=fresh"),
					"Apply hands Apply1 a shallow copy of the Info: its Deltas array is still the published one, writing an element changes the row/size statistics of older states")
			}
			c.Obl(r4, fs.name+": replaces Deltas", p.Pos(fs.Decl), len(res.Of("Deltas=fresh")) >= 1,
				"Apply1 no longer installs a new Deltas slice: the deltas of merged/persisted layers are counted twice or not at all")
		}
		c.Floor(r4, nst, 1, "element stores into Info.Deltas in Apply1 implementations")
	}

	checkPersistAsksOverlay(c, "C16.5 K4c persist saves a table exactly when its overlay reports unsaved changes")
	checkDrainKeepsMessages(c, "C16.6 K5 the merger never drops a queued commit")
	return "Static shape of background merge/persist: Database.Merge and persist each have one UpdateState whose callback applies (meta.Apply) the result of the computation to m := *state.Meta of the " +
		"callback's own state and publishes &m (persist: then writes the state inside the callback and records its offset); the computation reads GetState().Meta; by-effect K12 summaries show that " +
		"Meta.Merge/Persist, Overlay.Merge/Save/WithMerged/WithSaved, ixbuf.Merge, btree.MergeAndSave, mergeSingle and execMulti.merge do not write through the meta/overlay/ixbuf they are given; " +
		"Merge is called only from merger (and the test helper CommitMerge), persist only from merger/PersistSync/PersistClose, merger is started by exactly one go statement and calls both on its own " +
		"goroutine; meta.Apply puts back the address of a dereferenced copy, stamped with the clock, with Indexes cloned before element stores, freezes and installs the map on every path; Apply1 " +
		"implementations replace Deltas by a fresh slice before writing an element. Not decided: nmerge counting across batches, the arithmetic of deltas, timing of the ticker."
}

func filterOrigins(l []string, want func(string) bool) []string {
	var out []string
	for _, o := range l {
		if want(o) {
			out = append(out, o)
		}
	}
	return out
}

func sliceBase(e ast.Expr) ast.Expr {
	for {
		switch x := ast.Unparen(e).(type) {
		case *ast.SliceExpr:
			e = x.X
		default:
			return x
		}
	}
}

// isFreshSlice: make(...), slc.Clone / slices.Clone(...), or a local variable all of whose
// definitions are such (deltas := make(..); ...; ti.Deltas = deltas).
func isFreshSlice(fs *FuncSrc, defs *defIndex, e ast.Expr, _ *types.Var) bool {
	info := fs.Info()
	switch x := ast.Unparen(e).(type) {
	case *ast.CallExpr:
		if IsBuiltin(info, x, "make") {
			return true
		}
		if cal := Callee(info, x); cal != nil && cal.Name() == "Clone" && cal.Pkg() != nil &&
			(cal.Pkg().Path() == "slices" || strings.HasSuffix(cal.Pkg().Path(), "/util/slc")) {
			return true
		}
	case *ast.Ident:
		ds := defs.defs[info.Uses[x]]
		if len(ds) == 0 {
			return false
		}
		for _, d := range ds {
			if id, ok := ast.Unparen(d).(*ast.Ident); ok && id == x {
				return false
			}
			if !isFreshSlice(fs, defs, d, nil) {
				return false
			}
		}
		return true
	}
	return false
}

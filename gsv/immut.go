package main

// K12 IMMUT engine shared by C02 / C15 / C16.
//
// A local, AST-level "distance to shared memory" analysis.  A value of reference type
// (pointer, slice, map, chan, func, interface) has, per origin, a distance d:
//
//	d = 0   the value refers directly to shared memory (a published state, an item of a
//	        persistent map, bytes of the storage, the pointee of a parameter)
//	d = k   k hops of private memory (a local copy, a fresh clone) lie before shared memory
//	none    no relation to the origin ("clean")
//
// load (deref, field through pointer, element, range element) : d -> max(d-1, 0)
// address of a local / fresh container of the value            : d -> d+1   (dropped above imCap)
//
// A *sink* is an operation that writes memory through a base value: a field / element /
// deref store, copy(dst,..), delete, clear, an in-place append(s[:i], ...), a call that
// passes the base to a parameter which the callee (transitively, by effect) writes through.
// A sink whose base has distance 0 from an origin writes that origin's memory.
//
// Origins are the parameters of the enclosing function (for the by-effect summaries
// "f writes through parameter i" and "f returns a value that refers to parameter i / to a
// shared source") and the configured shared sources.
//
// Variables are resolved flow-insensitively (union over all definitions, weak updates for
// stores into containers); where that yields distance 0 although some definition is a copy
// point, the answer is refined with go/cfg must-facts "definition j of path Q is overwritten
// on every path to here" (the path engine in flow.go; literals that run in place are spliced).

import (
	"fmt"
	"go/ast"
	"go/token"
	"go/types"
	"os"
	"sort"
	"strconv"
	"strings"
	"time"
)

const imCap = 2

type imEnt struct {
	o string
	d int
}

// imTaint: origin -> distance, sorted by origin (small; most are empty)
type imTaint []imEnt

func imOne(o string, d int) imTaint { return imTaint{{o, d}} }

func (t imTaint) zero() []string {
	var out []string
	for _, en := range t {
		if en.d == 0 {
			out = append(out, en.o)
		}
	}
	return out
}

func (t imTaint) has(o string) bool {
	for _, en := range t {
		if en.o == o {
			return true
		}
	}
	return false
}

// imUnion: per origin the smaller distance.  Returns a when b adds nothing.
func imUnion(a, b imTaint) imTaint {
	if len(b) == 0 {
		return a
	}
	if len(a) == 0 {
		return b
	}
	// does b add anything?
	adds := false
	i := 0
	for _, eb := range b {
		for i < len(a) && a[i].o < eb.o {
			i++
		}
		if i >= len(a) || a[i].o != eb.o || eb.d < a[i].d {
			adds = true
			break
		}
	}
	if !adds {
		return a
	}
	r := make(imTaint, 0, len(a)+len(b))
	i, j := 0, 0
	for i < len(a) && j < len(b) {
		switch {
		case a[i].o < b[j].o:
			r = append(r, a[i])
			i++
		case a[i].o > b[j].o:
			r = append(r, b[j])
			j++
		default:
			d := a[i].d
			if b[j].d < d {
				d = b[j].d
			}
			r = append(r, imEnt{a[i].o, d})
			i++
			j++
		}
	}
	r = append(r, a[i:]...)
	r = append(r, b[j:]...)
	return r
}

func imLoad(t imTaint) imTaint {
	if len(t) == 0 {
		return nil
	}
	need := false
	for _, en := range t {
		if en.d > 0 {
			need = true
		}
	}
	if !need {
		return t
	}
	r := make(imTaint, len(t))
	for i, en := range t {
		if en.d > 0 {
			en.d--
		}
		r[i] = en
	}
	return r
}

func imAddrN(t imTaint, n int) imTaint {
	if len(t) == 0 || n == 0 {
		return t
	}
	var r imTaint
	for _, en := range t {
		if en.d+n <= imCap {
			r = append(r, imEnt{en.o, en.d + n})
		}
	}
	return r
}

func imAddr(t imTaint) imTaint { return imAddrN(t, 1) }

func imEqual(a, b imTaint) bool {
	if len(a) != len(b) {
		return false
	}
	for i := range a {
		if a[i] != b[i] {
			return false
		}
	}
	return true
}

type imSource struct {
	Name string
	Dist int
}

type imWhy struct {
	Pos  string
	What string
}

type Immut struct {
	P       *Prog
	Sources map[*types.Func]imSource
	Clean   map[*types.Func]bool // forced copy points
	// CbParam: the first parameter of a literal passed as argument arg of callee is a source
	CbParam func(callee *types.Func, arg int) *imSource

	mut         map[*types.Func]map[int]*imWhy
	ret         map[*types.Func]imTaint // only distance-0 origins: "p<i>" pass-through, "s:<name>" derived source
	funcs       map[*FuncSrc]*imFunc
	impls       map[*types.Func][]*types.Func
	fl          *Flow
	refs        map[types.Type]bool
	byObj       map[*types.Func]*imFunc
	version     int
	retCache    map[*types.Func]imRetCache
	mutCache    map[*types.Func]imMutCache
	byName      map[string][]*types.Func
	typeMethods map[*types.Named]map[string]bool
	// statistics
	NRefined int
	NFlow    int
	Rounds   int
	// NoMut: functions whose by-effect summary is overridden (frozen, with reason)
	NoMut map[*types.Func]string
}

// stdlib functions that write through an argument
var imStdMut = map[string][]int{
	"sort.Slice": {0}, "sort.SliceStable": {0}, "sort.Strings": {0}, "sort.Ints": {0}, "sort.Float64s": {0},
	"sort.Sort": {0}, "sort.Stable": {0},
	"slices.Sort": {0}, "slices.SortFunc": {0}, "slices.SortStableFunc": {0}, "slices.Reverse": {0},
	"encoding/binary.bigEndian.PutUint16": {0}, "encoding/binary.bigEndian.PutUint32": {0}, "encoding/binary.bigEndian.PutUint64": {0},
	"encoding/binary.littleEndian.PutUint16": {0}, "encoding/binary.littleEndian.PutUint32": {0}, "encoding/binary.littleEndian.PutUint64": {0},
	"io.ReadFull": {1},
}

func imFuncKey(f *types.Func) string {
	if f == nil || f.Pkg() == nil {
		return ""
	}
	sig, _ := f.Type().(*types.Signature)
	if sig != nil && sig.Recv() != nil {
		t := sig.Recv().Type()
		if pt, ok := t.(*types.Pointer); ok {
			t = pt.Elem()
		}
		if nt, ok := types.Unalias(t).(*types.Named); ok {
			return f.Pkg().Path() + "." + nt.Obj().Name() + "." + f.Name()
		}
		return ""
	}
	return f.Pkg().Path() + "." + f.Name()
}

func NewImmut(p *Prog) *Immut {
	e := &Immut{P: p, Sources: map[*types.Func]imSource{}, Clean: map[*types.Func]bool{},
		mut: map[*types.Func]map[int]*imWhy{}, ret: map[*types.Func]imTaint{}, funcs: map[*FuncSrc]*imFunc{},
		impls: map[*types.Func][]*types.Func{}, refs: map[types.Type]bool{}, byObj: map[*types.Func]*imFunc{},
		NoMut: map[*types.Func]string{}, retCache: map[*types.Func]imRetCache{}, mutCache: map[*types.Func]imMutCache{}}
	e.fl = &Flow{P: p, Callback: db19Callbacks(p), Node: func(fs *FuncSrc, n ast.Node) []string {
		f := e.funcs[fs.Outer()]
		if f == nil || f.flowLabels == nil {
			return nil
		}
		return f.flowLabels[n]
	}}
	return e
}

// ---- types

func (e *Immut) hasRefs(t types.Type) bool {
	if t == nil {
		return true
	}
	if v, ok := e.refs[t]; ok {
		return v
	}
	e.refs[t] = true // recursion guard (recursive types go through a pointer)
	r := true
	switch u := t.Underlying().(type) {
	case *types.Basic:
		r = u.Kind() == types.UnsafePointer
	case *types.Struct:
		r = false
		for i := 0; i < u.NumFields(); i++ {
			if e.hasRefs(u.Field(i).Type()) {
				r = true
				break
			}
		}
	case *types.Array:
		r = e.hasRefs(u.Elem())
	case *types.Tuple:
		r = false
		for i := 0; i < u.Len(); i++ {
			if e.hasRefs(u.At(i).Type()) {
				r = true
			}
		}
	}
	e.refs[t] = r
	return r
}

func isPtr(t types.Type) bool {
	if t == nil {
		return false
	}
	_, ok := t.Underlying().(*types.Pointer)
	return ok
}

// ---- per-function model

type imDef struct {
	id     int
	root   types.Object
	path   string // path key the definition writes (strong) or contributes to (weak)
	strong bool
	node   ast.Node // statement / identifier that performs the definition (nil: on entry)
	in     *FuncSrc // innermost function containing node
	rhs    ast.Expr // value expression (nil: konst)
	xf     func(imTaint) imTaint
	konst  imTaint
	cached imTaint
}

func (d *imDef) eval(f *imFunc, before Set) imTaint {
	if d.rhs == nil {
		return d.konst
	}
	t := f.ev(d.rhs, before)
	if d.xf != nil {
		t = d.xf(t)
	}
	return t
}

type imSink struct {
	node  ast.Node
	in    *FuncSrc // innermost function
	kind  string   // "store", "copy", "append", "delete", "clear", "call"
	what  string   // description of the written thing / callee
	taint func(before Set) imTaint
	base  ast.Expr // expression whose referent is written (diagnostic; nil for receivers computed specially)
}

type imRet struct {
	node    *ast.ReturnStmt
	results []ast.Expr
}

type imFunc struct {
	eng        *Immut
	fs         *FuncSrc
	info       *types.Info
	defs       []*imDef
	byRoot     map[types.Object][]*imDef
	paths      map[string]types.Object // known pure paths -> root
	sinks      []*imSink
	rets       []*imRet
	callees    map[*types.Func]bool
	innermost  map[ast.Node]*FuncSrc
	flowLabels map[ast.Node][]string
	res        map[*FuncSrc]*Result
	siteIdx    map[ast.Node]int
	mixedMemo  map[ast.Node]bool
	beforeMemo map[ast.Node]Set
	depth      int
	usesSource bool
}

func objKey(o types.Object) string { return o.Name() + "@" + strconv.Itoa(int(o.Pos())) }

func (f *imFunc) localVar(id *ast.Ident) *types.Var {
	o := f.info.Uses[id]
	if o == nil {
		o = f.info.Defs[id]
	}
	v, ok := o.(*types.Var)
	if !ok || v.IsField() {
		return nil
	}
	if v.Pkg() != nil && v.Parent() == v.Pkg().Scope() {
		return nil // package level
	}
	return v
}

// purePath: identifier of a local variable, followed by fields of struct values (no indirection).
func (f *imFunc) purePath(e ast.Expr) (types.Object, string, bool) {
	switch x := ast.Unparen(e).(type) {
	case *ast.Ident:
		if v := f.localVar(x); v != nil {
			return v, objKey(v), true
		}
	case *ast.SelectorExpr:
		sel := f.info.Selections[x]
		if sel == nil || sel.Kind() != types.FieldVal || sel.Indirect() {
			return nil, "", false
		}
		if isPtr(f.info.TypeOf(x.X)) {
			return nil, "", false
		}
		if r, k, ok := f.purePath(x.X); ok {
			return r, k + "." + x.Sel.Name, true
		}
	}
	return nil, "", false
}

func pathPrefixEq(p, q string) bool { // p is q or a prefix path of q
	return p == q || (strings.HasPrefix(q, p) && len(q) > len(p) && q[len(p)] == '.')
}

// lvalue analyses an assignment target (or, with asRef, a slice value that is written through):
// base = the reference through which memory is written (nil: a local variable is assigned);
// root/rootKey = the local path at the bottom of the access chain, hops = loads between them.
func (f *imFunc) lvalue(e ast.Expr, asRef bool) (base ast.Expr, root types.Object, rootKey string, hops int) {
	cur := e
	if asRef {
		base = e
		hops = 1
	}
	for {
		cur = ast.Unparen(cur)
		if r, k, ok := f.purePath(cur); ok {
			return base, r, k, hops
		}
		switch x := cur.(type) {
		case *ast.SelectorExpr:
			sel := f.info.Selections[x]
			if sel == nil || sel.Kind() != types.FieldVal {
				return base, nil, "", hops
			}
			if isPtr(f.info.TypeOf(x.X)) || sel.Indirect() {
				if base == nil {
					base = x.X
				}
				hops++
			}
			cur = x.X
		case *ast.IndexExpr:
			isArr := false
			if t := f.info.TypeOf(x.X); t != nil {
				_, isArr = t.Underlying().(*types.Array)
			}
			if !isArr {
				if base == nil {
					base = x.X
				}
				hops++
			}
			cur = x.X
		case *ast.StarExpr:
			if base == nil {
				base = x.X
			}
			hops++
			cur = x.X
		case *ast.SliceExpr:
			cur = x.X
		case *ast.TypeAssertExpr:
			cur = x.X
		default:
			return base, nil, "", hops
		}
	}
}

func (e *Immut) funcOf(fs *FuncSrc) *imFunc {
	if f := e.funcs[fs]; f != nil {
		return f
	}
	f := &imFunc{eng: e, fs: fs, info: fs.Info(), byRoot: map[types.Object][]*imDef{}, paths: map[string]types.Object{},
		callees: map[*types.Func]bool{}, innermost: map[ast.Node]*FuncSrc{}, res: map[*FuncSrc]*Result{}, siteIdx: map[ast.Node]int{},
		mixedMemo: map[ast.Node]bool{}, beforeMemo: map[ast.Node]Set{}}
	e.funcs[fs] = f
	if fs.Obj != nil {
		e.byObj[fs.Obj] = f
	}
	f.build()
	return f
}

func (f *imFunc) addDef(root types.Object, path string, strong bool, node ast.Node, in *FuncSrc, rhs ast.Expr, xf func(imTaint) imTaint, konst imTaint) {
	if root == nil {
		return
	}
	d := &imDef{id: len(f.defs), root: root, path: path, strong: strong, node: node, in: in, rhs: rhs, xf: xf, konst: konst}
	f.defs = append(f.defs, d)
	f.byRoot[root] = append(f.byRoot[root], d)
	f.paths[path] = root
}

func (f *imFunc) seedParams(fs *FuncSrc, outer bool, special *imSource) {
	if fs.Type == nil {
		return
	}
	i := 0
	if outer && fs.Decl != nil && fs.Decl.Recv != nil {
		for _, fld := range fs.Decl.Recv.List {
			for _, nm := range fld.Names {
				if o := f.info.Defs[nm]; o != nil && f.eng.hasRefs(o.Type()) {
					f.addDef(o, objKey(o), true, nil, fs, nil, nil, imOne("p-1", 0))
				}
			}
		}
	}
	if fs.Type.Params == nil {
		return
	}
	for _, fld := range fs.Type.Params.List {
		if len(fld.Names) == 0 {
			i++
			continue
		}
		for _, nm := range fld.Names {
			o := f.info.Defs[nm]
			if o != nil && f.eng.hasRefs(o.Type()) {
				var t imTaint
				if outer {
					t = imOne("p"+strconv.Itoa(i), 0)
				} else if special != nil && i == 0 {
					t = imOne("s:"+special.Name, special.Dist)
					f.usesSource = true
				}
				if t != nil {
					f.addDef(o, objKey(o), true, nil, fs, nil, nil, t)
				}
			}
			i++
		}
	}
}

func (f *imFunc) build() {
	fs := f.fs
	if fs.Body == nil {
		return
	}
	f.seedParams(fs, true, nil)
	f.walk(fs, fs.Body)
}

// assignDef records lhs = xf(value of rhs)   (rhs nil: a clean value)
func (f *imFunc) assignDef(lhs ast.Expr, node ast.Node, in *FuncSrc, rhs ast.Expr, xf func(imTaint) imTaint) {
	if id, ok := ast.Unparen(lhs).(*ast.Ident); ok && id.Name == "_" {
		return
	}
	if t := f.info.TypeOf(lhs); t != nil && !f.eng.hasRefs(t) {
		rhs = nil // still a (clean) definition: it overwrites earlier ones
	}
	_, root, key, hops := f.lvalue(lhs, false)
	if root == nil {
		return
	}
	if hops == 0 {
		f.addDef(root, key, true, node, in, rhs, xf, nil)
	} else if rhs != nil {
		h := hops
		x0 := xf
		f.addDef(root, key, false, node, in, rhs, func(t imTaint) imTaint {
			if x0 != nil {
				t = x0(t)
			}
			return imAddrN(t, h)
		}, nil)
	}
}

func (f *imFunc) walk(in *FuncSrc, root ast.Node) {
	e := f.eng
	ast.Inspect(root, func(n ast.Node) bool {
		if n == nil {
			return false
		}
		switch s := n.(type) {
		case *ast.FuncLit:
			ls := e.P.Lits[s]
			if ls == nil || ls == in {
				return true
			}
			f.walk(ls, s.Body)
			return false
		case *ast.AssignStmt:
			if s.Tok == token.ASSIGN || s.Tok == token.DEFINE {
				if len(s.Lhs) == len(s.Rhs) {
					for i := range s.Lhs {
						f.assignDef(s.Lhs[i], s, in, s.Rhs[i], nil)
					}
				} else if len(s.Rhs) == 1 {
					rhs := s.Rhs[0]
					_, isCall := ast.Unparen(rhs).(*ast.CallExpr)
					for i := range s.Lhs {
						if i > 0 && !isCall {
							// v, ok := m[k] / x.(T) / <-ch : only the first gets the value
							f.assignDef(s.Lhs[i], s, in, nil, nil)
							continue
						}
						f.assignDef(s.Lhs[i], s, in, rhs, nil)
					}
				}
			}
			for _, l := range s.Lhs {
				f.storeSink(in, s, l)
			}
		case *ast.IncDecStmt:
			f.storeSink(in, s, s.X)
		case *ast.ValueSpec:
			for i, nm := range s.Names {
				switch {
				case len(s.Values) == len(s.Names):
					f.assignDef(nm, s, in, s.Values[i], nil)
				case len(s.Values) == 1:
					f.assignDef(nm, s, in, s.Values[0], nil)
				default:
					f.assignDef(nm, s, in, nil, nil)
				}
			}
		case *ast.RangeStmt:
			xt := f.info.TypeOf(s.X)
			elem := imLoad
			if xt != nil {
				if _, isArr := xt.Underlying().(*types.Array); isArr {
					elem = nil
				}
			}
			if s.Key != nil {
				keyHasValue := false
				if xt != nil {
					switch xt.Underlying().(type) {
					case *types.Map, *types.Signature, *types.Chan:
						keyHasValue = true
					}
				}
				if keyHasValue {
					f.assignDef(s.Key, s.Key, in, s.X, elem)
				} else {
					f.assignDef(s.Key, s.Key, in, nil, nil)
				}
			}
			if s.Value != nil {
				f.assignDef(s.Value, s.Value, in, s.X, elem)
			}
		case *ast.TypeSwitchStmt:
			if as, ok := s.Assign.(*ast.AssignStmt); ok && len(as.Rhs) == 1 {
				if ta, ok := ast.Unparen(as.Rhs[0]).(*ast.TypeAssertExpr); ok {
					for _, cl := range s.Body.List {
						if o := f.info.Implicits[cl]; o != nil {
							f.addDef(o, objKey(o), true, nil, in, ta.X, nil, nil)
						}
					}
				}
			}
		case *ast.SendStmt:
			_, root, key, hops := f.lvalue(s.Chan, true)
			if root != nil {
				h := hops
				f.addDef(root, key, false, s, in, s.Value, func(t imTaint) imTaint { return imAddrN(t, h) }, nil)
			}
		case *ast.ReturnStmt:
			if in == f.fs {
				f.rets = append(f.rets, &imRet{node: s, results: s.Results})
			}
		case *ast.CallExpr:
			f.callNode(in, s)
		}
		return true
	})
}

func (f *imFunc) storeSink(in *FuncSrc, stmt ast.Node, lhs ast.Expr) {
	base, _, _, _ := f.lvalue(lhs, false)
	if base == nil {
		return
	}
	b := base
	sk := &imSink{node: stmt, in: in, kind: "store", what: exprStr(lhs), base: b,
		taint: func(before Set) imTaint { return f.ev(b, before) }}
	f.sinks = append(f.sinks, sk)
}

func (f *imFunc) callNode(in *FuncSrc, call *ast.CallExpr) {
	e := f.eng
	info := f.info
	if tv, ok := info.Types[call.Fun]; ok && tv.IsType() {
		return
	}
	addRefSink := func(kind string, arg ast.Expr) {
		a := arg
		sk := &imSink{node: call, in: in, kind: kind, what: exprStr(a), base: a,
			taint: func(before Set) imTaint { return f.ev(a, before) }}
		f.sinks = append(f.sinks, sk)
	}
	if id, ok := ast.Unparen(call.Fun).(*ast.Ident); ok {
		if _, isB := info.Uses[id].(*types.Builtin); isB {
			switch id.Name {
			case "copy":
				if len(call.Args) == 2 {
					addRefSink("copy", call.Args[0])
					_, root, key, hops := f.lvalue(call.Args[0], true)
					if root != nil {
						h := hops
						f.addDef(root, key, false, call, in, call.Args[1], func(t imTaint) imTaint { return imAddrN(imLoad(t), h) }, nil)
					}
				}
			case "clear", "delete":
				if len(call.Args) >= 1 {
					addRefSink(id.Name, call.Args[0])
				}
			case "append":
				// in place only when the first argument is re-sliced below its length:
				// append(s[:i], ...) overwrites elements that holders of s can see
				if len(call.Args) >= 1 {
					if sl, ok := ast.Unparen(call.Args[0]).(*ast.SliceExpr); ok && sl.High != nil && !zeroCapSlice(info, sl) {
						addRefSink("append", call.Args[0])
					}
				}
			}
			return
		}
	}
	callee := Callee(info, call)
	if callee == nil {
		// call of a function value: a literal argument receives the elements of a sequence
		for _, a := range call.Args {
			if lit, ok := ast.Unparen(a).(*ast.FuncLit); ok {
				if ls := e.P.Lits[lit]; ls != nil && ls.Type.Params != nil {
					for _, fld := range ls.Type.Params.List {
						for _, nm := range fld.Names {
							if o := info.Defs[nm]; o != nil && e.hasRefs(o.Type()) {
								f.addDef(o, objKey(o), true, nil, ls, call.Fun, imLoad, nil)
							}
						}
					}
				}
			}
		}
		return
	}
	f.callees[callee] = true
	if _, ok := e.Sources[callee]; ok {
		f.usesSource = true
	}
	if e.CbParam != nil {
		for i, a := range call.Args {
			if lit, ok := ast.Unparen(a).(*ast.FuncLit); ok {
				if src := e.CbParam(callee, i); src != nil {
					if ls := e.P.Lits[lit]; ls != nil {
						f.seedParams(ls, false, src)
					}
				}
			}
		}
	}
	// the call is a sink for every parameter the callee writes through (evaluated lazily:
	// the summaries grow during the fixpoint)
	sk := &imSink{node: call, in: in, kind: "call", what: funcName(callee)}
	sk.taint = func(before Set) imTaint {
		var t imTaint
		for _, i := range e.mutParams(callee) {
			t = imUnion(t, f.argTaint(call, callee, i, before))
		}
		return t
	}
	f.sinks = append(f.sinks, sk)
}

func zeroCapSlice(info *types.Info, sl *ast.SliceExpr) bool {
	// x[0:0:0], x[:0:0]
	if !sl.Slice3 || sl.Max == nil {
		return false
	}
	v := ConstVal(info, sl.Max)
	return v != nil && v.String() == "0"
}

func fullCapSlice(info *types.Info, sl *ast.SliceExpr) bool {
	// x[:n:n]
	if !sl.Slice3 || sl.Max == nil || sl.High == nil {
		return false
	}
	return exprStr(sl.High) == exprStr(sl.Max)
}

// ---- summaries

func (e *Immut) mutParams(callee *types.Func) []int {
	if c, ok := e.mutCache[callee]; ok && c.version == e.version {
		return c.l
	}
	l := e.mutParams0(callee)
	e.mutCache[callee] = imMutCache{e.version, l}
	return l
}

func (e *Immut) mutParams0(callee *types.Func) []int {
	var out []int
	seen := map[int]bool{}
	add := func(i int) {
		if !seen[i] {
			seen[i] = true
			out = append(out, i)
		}
	}
	if l, ok := imStdMut[imFuncKey(callee)]; ok {
		for _, i := range l {
			add(i)
		}
	}
	for _, g := range e.targets(callee) {
		if _, frozen := e.NoMut[g]; frozen {
			continue
		}
		for i := range e.mut[g] {
			add(i)
		}
	}
	sort.Ints(out)
	return out
}

func (e *Immut) retOf(callee *types.Func) imTaint {
	if c, ok := e.retCache[callee]; ok && c.version == e.version {
		return c.t
	}
	t := e.retOf0(callee)
	e.retCache[callee] = imRetCache{e.version, t}
	return t
}

type imRetCache struct {
	version int
	t       imTaint
}

type imMutCache struct {
	version int
	l       []int
}

func (e *Immut) retOf0(callee *types.Func) imTaint {
	var t imTaint
	for _, g := range e.targets(callee) {
		t = imUnion(t, e.ret[g])
	}
	return t
}

// targets: the function itself, or for an interface method the module methods that may be called.
func (e *Immut) targets(callee *types.Func) []*types.Func {
	sig, _ := callee.Type().(*types.Signature)
	if sig == nil || sig.Recv() == nil {
		return []*types.Func{callee}
	}
	it, isIface := sig.Recv().Type().Underlying().(*types.Interface)
	if !isIface {
		return []*types.Func{callee}
	}
	if l, ok := e.impls[callee]; ok {
		return l
	}
	if e.byName == nil {
		e.byName = map[string][]*types.Func{}
		e.typeMethods = map[*types.Named]map[string]bool{}
		for _, pk := range e.P.Pkgs {
			sc := pk.Types.Scope()
			for _, nm := range sc.Names() {
				tn, ok := sc.Lookup(nm).(*types.TypeName)
				if !ok || tn.IsAlias() {
					continue
				}
				nt, ok := tn.Type().(*types.Named)
				if !ok {
					continue
				}
				if _, isI := nt.Underlying().(*types.Interface); isI {
					continue
				}
				ms := types.NewMethodSet(types.NewPointer(nt)) // includes promoted methods
				set := map[string]bool{}
				for i := 0; i < ms.Len(); i++ {
					set[ms.At(i).Obj().Name()] = true
				}
				e.typeMethods[nt] = set
				for i := 0; i < nt.NumMethods(); i++ {
					m := nt.Method(i)
					e.byName[m.Name()] = append(e.byName[m.Name()], m)
				}
			}
		}
	}
	var out []*types.Func
	for _, m := range e.byName[callee.Name()] {
		ms, _ := m.Type().(*types.Signature)
		if ms == nil || ms.Recv() == nil || ms.Params().Len() != sig.Params().Len() || ms.Results().Len() != sig.Results().Len() {
			continue
		}
		rt := ms.Recv().Type()
		if pt, ok := rt.(*types.Pointer); ok {
			rt = pt.Elem()
		}
		nt, ok := types.Unalias(rt).(*types.Named)
		if !ok {
			continue
		}
		set := e.typeMethods[nt.Origin()]
		all := set != nil
		for i := 0; all && i < it.NumMethods(); i++ {
			if !set[it.Method(i).Name()] {
				all = false
			}
		}
		if all {
			out = append(out, m.Origin())
		}
	}
	e.impls[callee] = out
	return out
}

// argTaint: the taint of what parameter i of the callee refers to at this call.
func (f *imFunc) argTaint(call *ast.CallExpr, callee *types.Func, i int, before Set) imTaint {
	sig, _ := callee.Type().(*types.Signature)
	if sig == nil {
		return nil
	}
	if i == -1 {
		sel, ok := ast.Unparen(call.Fun).(*ast.SelectorExpr)
		if !ok || sig.Recv() == nil {
			return nil
		}
		if f.info.Selections[sel] == nil {
			return nil // qualified function
		}
		xPtr := isPtr(f.info.TypeOf(sel.X))
		rPtr := isPtr(sig.Recv().Type())
		_, rIface := sig.Recv().Type().Underlying().(*types.Interface)
		switch {
		case rIface:
			return f.ev(sel.X, before)
		case xPtr && !rPtr:
			return imLoad(f.ev(sel.X, before))
		case !xPtr && rPtr:
			return f.evAddr(sel.X, before)
		}
		return f.ev(sel.X, before)
	}
	np := sig.Params().Len()
	if sig.Variadic() && i >= np-1 {
		var t imTaint
		for j := np - 1; j < len(call.Args); j++ {
			t = imUnion(t, f.ev(call.Args[j], before))
		}
		return t
	}
	if i < len(call.Args) {
		return f.ev(call.Args[i], before)
	}
	return nil
}

// ---- evaluation

func (f *imFunc) pathTaint(root types.Object, key string, before Set) imTaint {
	var t imTaint
	for _, d := range f.byRoot[root] {
		switch {
		case d.strong && pathPrefixEq(d.path, key):
			if before != nil && before["N:"+strconv.Itoa(d.id)+":"+key] {
				continue
			}
			if before != nil && d.node != nil && d.rhs != nil && f.depth < 3 && f.mixed(d.rhs) {
				// the value the definition had where it was made
				if b2 := f.beforeOf(d.node, d.in); b2 != nil {
					f.depth++
					t = imUnion(t, d.eval(f, b2))
					f.depth--
					continue
				}
			}
			t = imUnion(t, d.cached)
		case pathPrefixEq(key, d.path) || pathPrefixEq(d.path, key):
			t = imUnion(t, d.cached)
		}
	}
	return t
}

func (f *imFunc) evAddr(x ast.Expr, before Set) imTaint {
	x = ast.Unparen(x)
	if _, ok := x.(*ast.CompositeLit); ok {
		return imAddr(f.ev(x, before))
	}
	if r, k, ok := f.purePath(x); ok {
		return imAddr(f.pathTaint(r, k, before))
	}
	if base, _, _, _ := f.lvalue(x, false); base != nil {
		return f.ev(base, before)
	}
	return imAddr(f.ev(x, before))
}

func (f *imFunc) ev(x ast.Expr, before Set) imTaint {
	e := f.eng
	info := f.info
	x = ast.Unparen(x)
	if x == nil {
		return nil
	}
	if tv, ok := info.Types[x]; ok && tv.Type != nil {
		if tv.IsType() || tv.Value != nil || !e.hasRefs(tv.Type) {
			return nil
		}
	}
	if r, k, ok := f.purePath(x); ok {
		return f.pathTaint(r, k, before)
	}
	switch x := x.(type) {
	case *ast.Ident:
		return nil
	case *ast.StarExpr:
		return imLoad(f.ev(x.X, before))
	case *ast.SelectorExpr:
		sel := info.Selections[x]
		if sel == nil {
			return nil // pkg.Name
		}
		if sel.Kind() != types.FieldVal {
			return nil // method value
		}
		if isPtr(info.TypeOf(x.X)) || sel.Indirect() {
			return imLoad(f.ev(x.X, before))
		}
		return f.ev(x.X, before)
	case *ast.IndexExpr:
		if tv, ok := info.Types[x.X]; ok && tv.Type != nil {
			switch tv.Type.Underlying().(type) {
			case *types.Array:
				return f.ev(x.X, before)
			case *types.Signature:
				return nil
			}
		}
		return imLoad(f.ev(x.X, before))
	case *ast.SliceExpr:
		if t := info.TypeOf(x.X); t != nil {
			if _, isArr := t.Underlying().(*types.Array); isArr {
				return f.evAddr(x.X, before)
			}
		}
		return f.ev(x.X, before)
	case *ast.UnaryExpr:
		switch x.Op {
		case token.AND:
			return f.evAddr(x.X, before)
		case token.ARROW:
			return imLoad(f.ev(x.X, before))
		}
		return nil
	case *ast.TypeAssertExpr:
		return f.ev(x.X, before)
	case *ast.CompositeLit:
		var t imTaint
		for _, el := range x.Elts {
			if kv, ok := el.(*ast.KeyValueExpr); ok {
				t = imUnion(t, f.ev(kv.Value, before))
				if _, isMap := info.TypeOf(x).Underlying().(*types.Map); isMap {
					t = imUnion(t, f.ev(kv.Key, before))
				}
			} else {
				t = imUnion(t, f.ev(el, before))
			}
		}
		if ty := info.TypeOf(x); ty != nil {
			switch ty.Underlying().(type) {
			case *types.Slice, *types.Map:
				return imAddr(t)
			}
		}
		return t
	case *ast.CallExpr:
		return f.evCall(x, before)
	}
	return nil
}

func (f *imFunc) evCall(call *ast.CallExpr, before Set) imTaint {
	e := f.eng
	info := f.info
	if tv, ok := info.Types[call.Fun]; ok && tv.IsType() {
		if len(call.Args) == 1 {
			return f.ev(call.Args[0], before)
		}
		return nil
	}
	if id, ok := ast.Unparen(call.Fun).(*ast.Ident); ok {
		if _, isB := info.Uses[id].(*types.Builtin); isB {
			if id.Name == "append" && len(call.Args) >= 1 {
				a0 := call.Args[0]
				t0 := f.ev(a0, before)
				if sl, ok := ast.Unparen(a0).(*ast.SliceExpr); ok && (zeroCapSlice(info, sl) || fullCapSlice(info, sl)) {
					t0 = imAddr(imLoad(t0)) // always reallocates: fresh array with the old elements
				} else if c, ok := ast.Unparen(a0).(*ast.CallExpr); ok && imFuncKey(Callee(info, c)) == "slices.Clip" {
					t0 = imAddr(imLoad(t0))
				}
				for j, a := range call.Args[1:] {
					ta := f.ev(a, before)
					if call.Ellipsis.IsValid() && j == len(call.Args)-2 {
						ta = imLoad(ta)
					}
					t0 = imUnion(t0, imAddr(ta))
				}
				return t0
			}
			return nil
		}
	}
	callee := Callee(info, call)
	if callee == nil {
		return nil
	}
	if e.Clean[callee] {
		return nil
	}
	if s, ok := e.Sources[callee]; ok {
		return imOne("s:"+s.Name, s.Dist)
	}
	switch imFuncKey(callee) {
	case "slices.Clip", "slices.Grow":
		if len(call.Args) >= 1 {
			return f.ev(call.Args[0], before)
		}
	case "slices.Clone", "maps.Clone":
		if len(call.Args) == 1 {
			return imAddr(imLoad(f.ev(call.Args[0], before)))
		}
	case "slices.AppendSeq":
		if len(call.Args) == 2 {
			return imUnion(f.ev(call.Args[0], before), f.ev(call.Args[1], before))
		}
	case "slices.Collect":
		if len(call.Args) == 1 {
			return f.ev(call.Args[0], before)
		}
	}
	var out imTaint
	for _, en := range e.retOf(callee) {
		o := en.o
		if strings.HasPrefix(o, "s:") {
			out = imUnion(out, imOne(o, 0))
			continue
		}
		i, err := strconv.Atoi(o[1:])
		if err != nil {
			continue
		}
		for _, a := range f.argTaint(call, callee, i, before) {
			if a.d == 0 {
				out = imUnion(out, imOne(a.o, 0))
			}
		}
	}
	return out
}

// ---- local fixpoint, flow refinement

func (f *imFunc) solve() {
	for iter := 0; iter < 50; iter++ {
		changed := false
		for _, d := range f.defs {
			t := d.eval(f, nil)
			if !imEqual(t, d.cached) {
				u := imUnion(d.cached, t)
				if !imEqual(u, d.cached) {
					d.cached = u
					changed = true
				}
			}
		}
		if !changed {
			return
		}
	}
}

// nStrong: number of strong definitions that can supply the value of the path.
func (f *imFunc) nStrong(root types.Object, key string) int {
	n := 0
	for _, d := range f.byRoot[root] {
		if d.strong && pathPrefixEq(d.path, key) {
			n++
		}
	}
	return n
}

// mixed reports whether refinement can help: some path under the node has more
// than one strong definition.
func (f *imFunc) mixed(x ast.Node) bool {
	if x == nil {
		return false
	}
	if v, ok := f.mixedMemo[x]; ok {
		return v
	}
	found := false
	f.mixedMemo[x] = false // recursion guard
	ast.Inspect(x, func(n ast.Node) bool {
		if found {
			return false
		}
		if _, isLit := n.(*ast.FuncLit); isLit {
			return false
		}
		if ex, ok := n.(ast.Expr); ok {
			if r, k, ok := f.purePath(ex); ok {
				if f.nStrong(r, k) > 1 {
					found = true
				} else {
					// a single definition whose own value depends on such a path
					for _, d := range f.byRoot[r] {
						if d.strong && pathPrefixEq(d.path, k) && d.node != nil && d.rhs != nil && f.mixed(d.rhs) {
							found = true
						}
					}
				}
			}
		}
		return true
	})
	f.mixedMemo[x] = found
	return found
}

// buildFlowLabels: static labels of the function for the path engine.
//
//	at a strong definition d of path P, for every known path Q under P with several definitions:
//	  "-N:d:Q" (d reaches Q again), "N:o:Q" for every other definition o of Q (o is overwritten)
//	"S:i" at the nodes whose must-facts are asked for (sinks and definitions that mention a
//	path with several definitions)
func (f *imFunc) buildFlowLabels() {
	if f.flowLabels != nil {
		return
	}
	f.flowLabels = map[ast.Node][]string{}
	if f.fs.Body != nil {
		ast.Inspect(f.fs.Body, func(n ast.Node) bool {
			if ex, ok := n.(ast.Expr); ok {
				if r, k, ok := f.purePath(ex); ok {
					if _, have := f.paths[k]; !have {
						f.paths[k] = r
					}
				}
			}
			return true
		})
	}
	byRootPaths := map[types.Object][]string{}
	for k, r := range f.paths {
		if f.nStrong(r, k) > 1 {
			byRootPaths[r] = append(byRootPaths[r], k)
		}
	}
	for _, l := range byRootPaths {
		sort.Strings(l)
	}
	for _, d := range f.defs {
		if !d.strong || d.node == nil {
			continue
		}
		for _, q := range byRootPaths[d.root] {
			if !pathPrefixEq(d.path, q) {
				continue
			}
			f.flowLabels[d.node] = append(f.flowLabels[d.node], "-N:"+strconv.Itoa(d.id)+":"+q)
			for _, o := range f.byRoot[d.root] {
				if o != d && o.strong && pathPrefixEq(o.path, q) {
					f.flowLabels[d.node] = append(f.flowLabels[d.node], "N:"+strconv.Itoa(o.id)+":"+q)
				}
			}
		}
	}
	site := func(n ast.Node, in *FuncSrc) {
		if _, ok := f.siteIdx[n]; ok {
			return
		}
		i := len(f.siteIdx)
		f.siteIdx[n] = i
		f.innermost[n] = in
		f.flowLabels[n] = append(f.flowLabels[n], "S:"+strconv.Itoa(i))
	}
	for _, sk := range f.sinks {
		var scope ast.Node = sk.base
		if sk.base == nil {
			scope = sk.node
		}
		if f.mixed(scope) {
			site(sk.node, sk.in)
		}
	}
	for _, d := range f.defs {
		if d.node != nil && d.rhs != nil && f.mixed(d.rhs) {
			site(d.node, d.in)
		}
	}
}

func (f *imFunc) analyze(unit *FuncSrc) (res *Result) {
	if r, ok := f.res[unit]; ok {
		return r
	}
	defer func() {
		if recover() != nil {
			res = nil
			f.res[unit] = nil
		}
	}()
	f.buildFlowLabels()
	f.eng.NFlow++
	res = f.eng.fl.Analyze(unit)
	f.res[unit] = res
	return res
}

// beforeOf returns the must-facts before node n (nil when unknown).
func (f *imFunc) beforeOf(n ast.Node, in *FuncSrc) Set {
	f.buildFlowLabels()
	idx, ok := f.siteIdx[n]
	if !ok {
		return nil
	}
	if b, ok := f.beforeMemo[n]; ok {
		return b
	}
	label := "S:" + strconv.Itoa(idx)
	// chain of functions from the outermost to the innermost containing n
	var chain []*FuncSrc
	for u := in; u != nil; u = u.Parent {
		chain = append([]*FuncSrc{u}, chain...)
	}
	if len(chain) == 0 || chain[0] != f.fs {
		chain = append([]*FuncSrc{f.fs}, chain...)
	}
	var out Set
	for _, u := range chain {
		res := f.analyze(u)
		if res == nil {
			continue
		}
		for _, s := range res.Of(label) {
			if s.Node == n {
				out = s.Before
			}
		}
		if out != nil {
			break
		}
	}
	f.beforeMemo[n] = out
	return out
}

func (f *imFunc) beforeReturn(r *ast.ReturnStmt) Set {
	res := f.analyze(f.fs)
	if res == nil {
		return nil
	}
	for _, rs := range res.Returns {
		if rs.Node == r {
			return rs.Before
		}
	}
	return nil
}

type imHit struct {
	Sink    *imSink
	Origins []string // distance-0 origins of the written memory
}

// sinkTaint evaluates a sink, refining with flow facts if the flow-insensitive answer has a
// distance-0 origin accepted by want.
func (f *imFunc) sinkTaint(sk *imSink, want func(origin string) bool) []string {
	t := sk.taint(nil)
	var z []string
	for _, o := range t.zero() {
		if want(o) {
			z = append(z, o)
		}
	}
	if len(z) == 0 {
		return nil
	}
	var scope ast.Node = sk.base
	if sk.base == nil {
		scope = sk.node
	}
	if !f.mixed(scope) {
		return z
	}
	before := f.beforeOf(sk.node, sk.in)
	if before == nil {
		return z
	}
	f.eng.NRefined++
	t = sk.taint(before)
	z = nil
	for _, o := range t.zero() {
		if want(o) {
			z = append(z, o)
		}
	}
	return z
}

// ---- global fixpoint

// Solve computes the by-effect summaries for all functions of the given packages
// (nil = whole module).
func (e *Immut) Solve(pkgs map[string]bool) {
	var all []*imFunc
	for _, fs := range e.P.AllSrcs {
		if fs.Lit != nil || fs.Body == nil || fs.Obj == nil {
			continue
		}
		if pkgs != nil && !pkgs[fs.Pkg.PkgPath] {
			continue
		}
		all = append(all, e.funcOf(fs))
	}
	sort.Slice(all, func(i, j int) bool { return all[i].fs.name < all[j].fs.name })
	callers := map[*types.Func][]*imFunc{}
	for _, f := range all {
		for c := range f.callees {
			for _, g := range e.targets(c) {
				callers[g] = append(callers[g], f)
			}
		}
	}
	work := all
	t0 := time.Now()
	for round := 0; round < 30 && len(work) > 0; round++ {
		e.Rounds = round + 1
		if os.Getenv("GSV_IMDEBUG") != "" {
			fmt.Fprintf(os.Stderr, "round %d: %d functions, %d flow analyses so far, %v\n", round, len(work), e.NFlow, time.Since(t0))
		}
		changed := map[*types.Func]bool{}
		for _, f := range work {
			if f.summarize() {
				changed[f.fs.Obj] = true
			}
		}
		next := map[*imFunc]bool{}
		for g := range changed {
			for _, c := range callers[g] {
				next[c] = true
			}
		}
		work = work[:0:0]
		for f := range next {
			work = append(work, f)
		}
		sort.Slice(work, func(i, j int) bool { return work[i].fs.name < work[j].fs.name })
	}
}

func isParamOrigin(o string) bool { return strings.HasPrefix(o, "p") }

// summarize recomputes the function's summaries; reports whether they grew.
func (f *imFunc) summarize() bool {
	e := f.eng
	f.solve()
	obj := f.fs.Obj
	grew := false
	for _, sk := range f.sinks {
		for _, o := range f.sinkTaint(sk, isParamOrigin) {
			i, err := strconv.Atoi(o[1:])
			if err != nil {
				continue
			}
			if e.mut[obj] == nil {
				e.mut[obj] = map[int]*imWhy{}
			}
			if e.mut[obj][i] == nil {
				e.mut[obj][i] = &imWhy{Pos: e.P.Pos(sk.node), What: sk.kind + " " + sk.what}
				e.version++
				grew = true
			}
		}
	}
	sig := obj.Type().(*types.Signature)
	if sig.Results().Len() > 0 && e.hasRefs(sig.Results()) {
		for _, r := range f.rets {
			var exprs []ast.Expr
			exprs = append(exprs, r.results...)
			if len(exprs) == 0 && f.fs.Type.Results != nil {
				for _, fld := range f.fs.Type.Results.List {
					for _, nm := range fld.Names {
						exprs = append(exprs, nm)
					}
				}
			}
			for _, x := range exprs {
				t := f.ev(x, nil)
				z := t.zero()
				if len(z) == 0 {
					continue
				}
				if f.mixed(x) {
					if before := f.beforeReturn(r.node); before != nil {
						e.NRefined++
						z = f.ev(x, before).zero()
					}
				}
				for _, o := range z {
					if !e.ret[obj].has(o) {
						e.ret[obj] = imUnion(e.ret[obj], imOne(o, 0))
						e.version++
						grew = true
					}
				}
			}
		}
	}
	return grew
}

// Hits lists the sinks of fs (outermost function) that write memory of an origin accepted by want.
func (e *Immut) Hits(fs *FuncSrc, want func(origin string) bool) []imHit {
	f := e.funcOf(fs)
	f.solve()
	var out []imHit
	for _, sk := range f.sinks {
		if z := f.sinkTaint(sk, want); len(z) > 0 {
			out = append(out, imHit{sk, z})
		}
	}
	return out
}

// Mutates reports why function fn writes through parameter i (-1 = receiver), or nil.
func (e *Immut) Mutates(fn *types.Func, i int) *imWhy {
	if fn == nil {
		return nil
	}
	return e.mut[fn.Origin()][i]
}

func (e *Immut) describe(h imHit) string {
	return fmt.Sprintf("%s %s at %s writes memory of %s", h.Sink.kind, h.Sink.what, e.P.Pos(h.Sink.node), strings.Join(h.Origins, ", "))
}

package main

import (
	"flag"
	"fmt"
	"os"
	"sort"
)

type checkFn func(c *Ctx) string // returns the explanation for the evidence file

type checkDef struct {
	fn       checkFn
	patterns []string // packages to load (nil = whole module)
}

var checks = map[string]checkDef{}

func register(id string, fn checkFn, patterns ...string) { checks[id] = checkDef{fn, patterns} }

func usage() {
	fmt.Fprintln(os.Stderr, "usage: gsv check <ID> [--tier quick|thorough] | gsv list")
	os.Exit(2)
}

func main() {
	if len(os.Args) < 2 {
		usage()
	}
	switch os.Args[1] {
	case "list":
		var ids []string
		for id := range checks {
			ids = append(ids, id)
		}
		sort.Strings(ids)
		for _, id := range ids {
			fmt.Println(id)
		}
	case "check":
		if len(os.Args) < 3 {
			usage()
		}
		id := os.Args[2]
		fs := flag.NewFlagSet("check", flag.ExitOnError)
		tier := fs.String("tier", "quick", "quick|thorough")
		fs.Parse(os.Args[3:])
		if t := os.Getenv("VERIF_TIER"); t != "" && *tier == "" {
			*tier = t
		}
		def, ok := checks[id]
		if !ok {
			fmt.Fprintln(os.Stderr, "unknown check", id)
			os.Exit(2)
		}
		os.Exit(runCheck(id, *tier, def))
	default:
		usage()
	}
}

func runCheck(id, tier string, def checkDef) (code int) {
	c := NewCtx(id, tier)
	defer func() {
		if e := recover(); e != nil {
			infraFail(id, tier, fmt.Errorf("analyser panic: %v", e))
		}
	}()
	p, err := Load(LoadOpts{Patterns: def.patterns})
	if err != nil {
		infraFail(id, tier, err)
	}
	c.P = p
	expl := def.fn(c)
	return c.Finish(expl)
}

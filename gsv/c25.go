package main

// C25 / C30 (one shared clause): operator tables.
//
//	T1 = the token→opcode tables of the code generator (package-level arrays of op.Opcode
//	     indexed by tok.Token constants; which one is unary / binary is found from the type
//	     of the node whose Tok indexes it),
//	T2 = the interpreter: for every case of the big switch on op.Opcode, the value that the
//	     case leaves on the stack, obtained by symbolic execution of the case body over the
//	     stack (th.sp--, th.stack[th.sp±k], Pop, Push, Top), as an expression over the
//	     operands found on the stack at entry,
//	T3 = the compile-time / query evaluator and the constant folder of compile/ast: for
//	     every case of a switch on Unary.Tok / Binary.Tok / Nary.Tok, the expression returned
//	     (eval methods), the core function handed to the n-ary helpers, or the set of core
//	     operator functions called by a helper (muldiv, foldMul).
//
// Obligation: for every token t in T3:  T3[t] ≅ T2[T1[t]], where ≅ is equality of the
// expressions after inlining single-expression functions and functions that only add
// panics (strictCompare) on both sides.
// The same clause is registered under both ids; C30 claims nothing else.

import (
	"fmt"
	"go/ast"
	"go/constant"
	"go/token"
	"go/types"
	"sort"
	"strings"
)

func init() {
	register("C25", checkC25, "./compile")
	register("C30", checkC25, "./compile")
}

type opTabs struct {
	c        *Ctx
	p        *Prog
	value    *types.Named // core.Value
	thread   *types.Named // core.Thread
	tokT     *types.Named // tokens.Token
	opT      *types.Named // opcodes.Opcode
	stackFld *types.Var   // core.Thread.stack
	spFld    *types.Var   // core.Thread.sp
	push     *types.Func
	pop      *types.Func
	top      *types.Func
	defs     map[*FuncSrc]*defIndex
	fl       *Flow
}

func (o *opTabs) defsOf(fs *FuncSrc) *defIndex {
	r := fs.Outer()
	if o.defs[r] == nil {
		o.defs[r] = buildDefs(r)
	}
	return o.defs[r]
}

func constNameOf(named *types.Named, v constant.Value) string {
	pk := named.Obj().Pkg()
	for _, n := range pk.Scope().Names() {
		if k, ok := pk.Scope().Lookup(n).(*types.Const); ok && types.Identical(k.Type(), named) && constant.Compare(k.Val(), token.EQL, v) {
			return pk.Name() + "." + n
		}
	}
	return v.String()
}

// promotedField resolves a field of n, possibly of an embedded struct.
func promotedField(n *types.Named, name string) *types.Var {
	if n == nil {
		return nil
	}
	obj, _, _ := types.LookupFieldOrMethod(n, true, n.Obj().Pkg(), name)
	v, _ := obj.(*types.Var)
	return v
}

func typIsNamed(t types.Type, n *types.Named) bool {
	return t != nil && n != nil && types.Identical(types.Unalias(t), n)
}

func typIsPtrToNamed(t types.Type, n *types.Named) bool {
	pt, ok := types.Unalias(t).(*types.Pointer)
	return ok && typIsNamed(pt.Elem(), n)
}

// ---- canonical expressions

// canonCtx evaluates expressions of one function body into canonical strings.
type canonCtx struct {
	o     *opTabs
	fs    *FuncSrc
	env   map[types.Object]string // parameters / locals with a known canonical value
	stack *symStack               // non-nil inside an interpreter case
	depth int
	why   string
}

type symStack struct {
	d     int
	slots map[int]string
}

func c25SlotName(j int) string { return fmt.Sprintf("S[%d]", j) }

func (s *symStack) read(j int) string {
	if v, ok := s.slots[j]; ok {
		return v
	}
	return c25SlotName(j)
}

func (cc *canonCtx) fail(format string, a ...any) (string, bool) {
	if cc.why == "" {
		cc.why = fmt.Sprintf(format, a...)
	}
	return "", false
}

// spOffset: e is th.sp, th.sp-k or th.sp+k
func (cc *canonCtx) spOffset(e ast.Expr) (int, bool) {
	info := cc.fs.Info()
	e = ast.Unparen(e)
	if FieldOf(info, e) == cc.o.spFld {
		return 0, true
	}
	if be, ok := e.(*ast.BinaryExpr); ok && (be.Op == token.SUB || be.Op == token.ADD) && FieldOf(info, be.X) == cc.o.spFld {
		if v := ConstVal(info, be.Y); v != nil {
			if n, ok := constant.Int64Val(v); ok {
				if be.Op == token.SUB {
					n = -n
				}
				return int(n), true
			}
		}
	}
	return 0, false
}

func (cc *canonCtx) expr(e ast.Expr) (string, bool) {
	info := cc.fs.Info()
	e = ast.Unparen(e)
	if tv, ok := info.Types[e]; ok && tv.Value != nil {
		return "const:" + tv.Value.ExactString(), true
	}
	switch x := e.(type) {
	case *ast.Ident:
		obj := info.Uses[x]
		if obj == nil {
			return cc.fail("unresolved identifier %s", x.Name)
		}
		if v, ok := cc.env[obj]; ok {
			return v, true
		}
		if _, isNil := obj.(*types.Nil); isNil {
			return "nil", true
		}
		if v, ok := obj.(*types.Var); ok {
			if v.Pkg() != nil && v.Parent() == v.Pkg().Scope() {
				return "var:" + pkgShort(v.Pkg().Path()) + "." + v.Name(), true
			}
			if ds := cc.o.defsOf(cc.fs).defs[obj]; len(ds) == 1 {
				return cc.expr(ds[0])
			}
		}
		return cc.fail("free variable %s", x.Name)
	case *ast.SelectorExpr:
		if info.Selections[x] == nil { // qualified identifier
			if v, ok := info.Uses[x.Sel].(*types.Var); ok {
				return "var:" + pkgShort(v.Pkg().Path()) + "." + v.Name(), true
			}
		}
		return cc.fail("selector %s", exprStr(x))
	case *ast.IndexExpr:
		if cc.stack != nil && FieldOf(info, x.X) == cc.o.stackFld {
			if k, ok := cc.spOffset(x.Index); ok {
				return cc.stack.read(cc.stack.d + k), true
			}
		}
		return cc.fail("index expression %s", exprStr(x))
	case *ast.UnaryExpr:
		v, ok := cc.expr(x.X)
		if !ok {
			return "", false
		}
		return "(" + x.Op.String() + v + ")", true
	case *ast.BinaryExpr:
		l, ok := cc.expr(x.X)
		if !ok {
			return "", false
		}
		r, ok := cc.expr(x.Y)
		if !ok {
			return "", false
		}
		return "(" + l + " " + x.Op.String() + " " + r + ")", true
	case *ast.CallExpr:
		return cc.call(x)
	}
	return cc.fail("expression %s", exprStr(e))
}

func (cc *canonCtx) call(x *ast.CallExpr) (string, bool) {
	info := cc.fs.Info()
	// conversion
	if tv, ok := info.Types[x.Fun]; ok && tv.IsType() && len(x.Args) == 1 {
		v, ok := cc.expr(x.Args[0])
		if !ok {
			return "", false
		}
		if _, isIface := tv.Type.Underlying().(*types.Interface); isIface {
			return v, true
		}
		return "conv[" + types.TypeString(tv.Type, func(p *types.Package) string { return pkgShort(p.Path()) }) + "](" + v + ")", true
	}
	callee := Callee(info, x)
	if callee == nil {
		return cc.fail("call of a function value %s", exprStr(x.Fun))
	}
	sig := callee.Type().(*types.Signature)
	// the stack primitives of the interpreter
	if cc.stack != nil {
		switch {
		case sameFunc(callee, cc.o.pop):
			cc.stack.d--
			return cc.stack.read(cc.stack.d), true
		case sameFunc(callee, cc.o.top):
			return cc.stack.read(cc.stack.d - 1), true
		}
	}
	var args []string
	recv := ""
	if sig.Recv() != nil {
		sel, ok := ast.Unparen(x.Fun).(*ast.SelectorExpr)
		if !ok {
			return cc.fail("method expression %s", exprStr(x.Fun))
		}
		if !typIsPtrToNamed(sig.Recv().Type(), cc.o.thread) {
			v, ok := cc.expr(sel.X)
			if !ok {
				return "", false
			}
			recv = v
		} else {
			recv = "TH"
		}
	}
	for i, a := range x.Args {
		var pt types.Type
		if i < sig.Params().Len() {
			pt = sig.Params().At(i).Type()
		}
		if pt != nil && typIsPtrToNamed(pt, cc.o.thread) {
			continue // the thread is context, not an operand
		}
		v, ok := cc.expr(a)
		if !ok {
			return "", false
		}
		args = append(args, v)
	}
	// inline functions that are one expression over their parameters (plus panics)
	if hs := cc.o.p.Src(callee); hs != nil && cc.depth < 4 && cc.o.fl.isStatic(callee) {
		if ret := c25Inlineable(hs); ret != nil {
			sub := &canonCtx{o: cc.o, fs: hs, env: map[types.Object]string{}, depth: cc.depth + 1}
			k := 0
			okArgs := true
			for i, po := range paramObjs(hs) {
				if i < sig.Params().Len() && typIsPtrToNamed(sig.Params().At(i).Type(), cc.o.thread) {
					continue
				}
				if k >= len(args) {
					okArgs = false
					break
				}
				if po != nil {
					sub.env[po] = args[k]
				}
				k++
			}
			if r := hs.Recv(); r != nil && recv != "" {
				sub.env[r] = recv
			}
			if okArgs {
				if v, ok := sub.expr(ret); ok {
					return v, true
				}
			}
		}
	}
	name := funcName(callee)
	if recv != "" {
		return recv + "." + name + "(" + strings.Join(args, ", ") + ")", true
	}
	return name + "(" + strings.Join(args, ", ") + ")", true
}

// inlineable: the body is local definitions, `if c { panic(..) }` statements and one final
// return of a single expression; returns that expression.
func c25Inlineable(hs *FuncSrc) ast.Expr {
	if hs.Body == nil || len(hs.Body.List) == 0 {
		return nil
	}
	n := len(hs.Body.List)
	for i, st := range hs.Body.List {
		switch s := st.(type) {
		case *ast.ReturnStmt:
			if i != n-1 || len(s.Results) != 1 {
				return nil
			}
			return s.Results[0]
		case *ast.AssignStmt:
			if s.Tok != token.DEFINE {
				return nil
			}
			for _, l := range s.Lhs {
				if _, ok := l.(*ast.Ident); !ok {
					return nil
				}
			}
		case *ast.IfStmt:
			if s.Else != nil || s.Init != nil || len(s.Body.List) != 1 {
				return nil
			}
			es, ok := s.Body.List[0].(*ast.ExprStmt)
			if !ok {
				return nil
			}
			call, ok := es.X.(*ast.CallExpr)
			if !ok || !IsBuiltin(hs.Info(), call, "panic") {
				return nil
			}
		default:
			return nil
		}
	}
	return nil
}

// ---- T2: one interpreter case

type t2Entry struct {
	arity int    // 1 or 2 operands consumed, 1 result
	expr  string // over V (unary) or L, R (binary)
	why   string // non-empty: not extractable
	pos   token.Pos
}

func (o *opTabs) interpCase(fs *FuncSrc, cl *ast.CaseClause) t2Entry {
	st := &symStack{slots: map[int]string{}}
	cc := &canonCtx{o: o, fs: fs, env: map[types.Object]string{}, stack: st}
	info := fs.Info()
	ent := t2Entry{pos: cl.Pos()}
	for _, s := range cl.Body {
		switch x := s.(type) {
		case *ast.IncDecStmt:
			if FieldOf(info, x.X) != o.spFld {
				ent.why = "statement " + exprStr(x.X) + x.Tok.String()
				return ent
			}
			if x.Tok == token.DEC {
				st.d--
			} else {
				st.d++
			}
		case *ast.AssignStmt:
			if len(x.Lhs) != 1 || len(x.Rhs) != 1 {
				ent.why = "multi-assignment"
				return ent
			}
			if ix, ok := ast.Unparen(x.Lhs[0]).(*ast.IndexExpr); ok && x.Tok == token.ASSIGN && FieldOf(info, ix.X) == o.stackFld {
				v, ok := cc.expr(x.Rhs[0])
				if !ok {
					ent.why = cc.why
					return ent
				}
				k, ok := cc.spOffset(ix.Index)
				if !ok {
					ent.why = "stack index " + exprStr(ix.Index)
					return ent
				}
				st.slots[st.d+k] = v
				continue
			}
			if id, ok := x.Lhs[0].(*ast.Ident); ok && x.Tok == token.DEFINE {
				v, ok := cc.expr(x.Rhs[0])
				if !ok {
					ent.why = cc.why
					return ent
				}
				cc.env[info.Defs[id]] = v
				continue
			}
			ent.why = "assignment to " + exprStr(x.Lhs[0])
			return ent
		case *ast.ExprStmt:
			call, ok := x.X.(*ast.CallExpr)
			if !ok {
				ent.why = "statement"
				return ent
			}
			callee := Callee(info, call)
			switch {
			case sameFunc(callee, o.push) && len(call.Args) == 1:
				v, ok := cc.expr(call.Args[0])
				if !ok {
					ent.why = cc.why
					return ent
				}
				st.slots[st.d] = v
				st.d++
			case sameFunc(callee, o.pop):
				st.d--
			default:
				ent.why = "call of " + exprStr(call.Fun)
				return ent
			}
		default:
			ent.why = fmt.Sprintf("statement %T", s)
			return ent
		}
	}
	// classify the net effect
	switch {
	case st.d == -1 && st.slots[-2] != "":
		ent.arity = 2
		ent.expr = strings.NewReplacer(c25SlotName(-2), "L", c25SlotName(-1), "R").Replace(st.slots[-2])
	case st.d == 0 && st.slots[-1] != "":
		ent.arity = 1
		ent.expr = strings.NewReplacer(c25SlotName(-1), "V").Replace(st.slots[-1])
	default:
		ent.why = fmt.Sprintf("net stack effect %+d is not that of a unary or binary operator", st.d)
		return ent
	}
	if strings.Contains(ent.expr, "S[") {
		ent.why = "the result uses stack slots below the operands: " + ent.expr
	}
	return ent
}

// ---- the check

func checkC25(c *Ctx) string {
	p := c.P
	id := c.Prop
	r0 := id + ".0 anchors"
	o := &opTabs{c: c, p: p, defs: map[*FuncSrc]*defIndex{},
		value:    p.NamedType("core", "Value"),
		thread:   p.NamedType("core", "Thread"),
		tokT:     p.NamedType("compile/tokens", "Token"),
		opT:      p.NamedType("core/opcodes", "Opcode"),
		stackFld: promotedField(p.NamedType("core", "Thread"), "stack"),
		spFld:    promotedField(p.NamedType("core", "Thread"), "sp"),
		push:     p.DeclaredMethod("core", "Thread", "Push"),
		pop:      p.DeclaredMethod("core", "Thread", "Pop"),
		top:      p.DeclaredMethod("core", "Thread", "Top"),
		fl:       &Flow{P: p},
	}
	unaryT, binaryT, naryT := p.NamedType("compile/ast", "Unary"), p.NamedType("compile/ast", "Binary"), p.NamedType("compile/ast", "Nary")
	if !(c.need(r0, "core.Value", o.value) && c.need(r0, "core.Thread", o.thread) && c.need(r0, "tokens.Token", o.tokT) && c.need(r0, "opcodes.Opcode", o.opT) &&
		c.need(r0, "core.Thread.stack", o.stackFld) && c.need(r0, "core.Thread.sp", o.spFld) && c.need(r0, "core.Thread.Push", o.push) &&
		c.need(r0, "core.Thread.Pop", o.pop) && c.need(r0, "core.Thread.Top", o.top) &&
		c.need(r0, "ast.Unary", unaryT) && c.need(r0, "ast.Binary", binaryT) && c.need(r0, "ast.Nary", naryT)) {
		return "anchors missing"
	}
	noted := map[string]bool{}
	note := func(format string, a ...any) {
		m := fmt.Sprintf(format, a...)
		if !noted[m] {
			noted[m] = true
			c.Note("%s", m)
		}
	}
	tokName := func(v constant.Value) string { return constNameOf(o.tokT, v) }
	opName := func(v constant.Value) string { return constNameOf(o.opT, v) }
	key := func(v constant.Value) int64 { n, _ := constant.Int64Val(v); return n }

	// ---------------- T1
	r1 := id + ".1 K9 tables are found and have the expected shape"
	type t1Tab struct {
		v    *types.Var
		m    map[int64]constant.Value // token → opcode
		kind map[string]bool          // "unary" / "binary" / "nary": node types whose Tok indexes it
	}
	var t1 []*t1Tab
	cpk := p.Pkg("compile")
	if cpk == nil {
		c.Missing(r0, "package compile")
		return "anchors missing"
	}
	for _, f := range cpk.Syntax {
		for _, d := range f.Decls {
			gd, ok := d.(*ast.GenDecl)
			if !ok || gd.Tok != token.VAR {
				continue
			}
			for _, sp := range gd.Specs {
				vs := sp.(*ast.ValueSpec)
				for i, nm := range vs.Names {
					v, _ := cpk.TypesInfo.Defs[nm].(*types.Var)
					if v == nil || i >= len(vs.Values) {
						continue
					}
					at, ok := v.Type().Underlying().(*types.Array)
					if !ok || !typIsNamed(at.Elem(), o.opT) {
						continue
					}
					cl, ok := vs.Values[i].(*ast.CompositeLit)
					if !ok {
						continue
					}
					tab := &t1Tab{v: v, m: map[int64]constant.Value{}, kind: map[string]bool{}}
					okKeys := len(cl.Elts) > 0
					for _, el := range cl.Elts {
						kv, ok := el.(*ast.KeyValueExpr)
						if !ok {
							okKeys = false
							break
						}
						ktv, vtv := cpk.TypesInfo.Types[kv.Key], cpk.TypesInfo.Types[kv.Value]
						if ktv.Value == nil || vtv.Value == nil || !typIsNamed(ktv.Type, o.tokT) {
							okKeys = false
							break
						}
						tab.m[key(ktv.Value)] = vtv.Value
					}
					if okKeys {
						t1 = append(t1, tab)
					}
				}
			}
		}
	}
	// which node type's Tok indexes which table
	for _, fs := range p.FuncsIn("compile") {
		ForEachNode(fs, func(n ast.Node) {
			ix, ok := n.(*ast.IndexExpr)
			if !ok {
				return
			}
			vobj := ObjOf(fs.Info(), ix.X)
			for _, tab := range t1 {
				if vobj != types.Object(tab.v) {
					continue
				}
				sel, ok := ast.Unparen(ix.Index).(*ast.SelectorExpr)
				if !ok {
					continue
				}
				if s := fs.Info().Selections[sel]; s != nil {
					switch rt := s.Recv(); {
					case typIsPtrToNamed(rt, unaryT) || typIsNamed(rt, unaryT):
						tab.kind["unary"] = true
					case typIsPtrToNamed(rt, binaryT) || typIsNamed(rt, binaryT):
						tab.kind["binary"] = true
					case typIsPtrToNamed(rt, naryT) || typIsNamed(rt, naryT):
						tab.kind["nary"] = true
					}
				}
			}
		})
	}
	var t1u, t1b *t1Tab
	for _, tab := range t1 {
		if tab.kind["unary"] && !tab.kind["binary"] && !tab.kind["nary"] && t1u == nil {
			t1u = tab
		} else if (tab.kind["binary"] || tab.kind["nary"]) && !tab.kind["unary"] && t1b == nil {
			t1b = tab
		}
	}
	if t1u == nil || t1b == nil {
		c.Missing(r1, "the code generator's token→opcode arrays (one indexed by Unary.Tok, one by Binary.Tok / Nary.Tok)")
		return "tables missing"
	}
	c.Floor(r1, len(t1b.m), 20, "entries of the binary token→opcode table "+t1b.v.Name())
	c.Floor(r1, len(t1u.m), 4, "entries of the unary token→opcode table "+t1u.v.Name())
	c.Obl(r1, "the binary table is indexed by Binary.Tok and by Nary.Tok", p.PosOf(t1b.v.Pos()), t1b.kind["binary"] && t1b.kind["nary"],
		"the token→opcode table is no longer used for both binary and n-ary nodes: the comparison below would not describe the generated code")

	// ---------------- T2
	var interp *FuncSrc
	var sw *ast.SwitchStmt
	for _, fs := range p.FuncsIn("core") {
		ForEachNode(fs, func(n ast.Node) {
			s, ok := n.(*ast.SwitchStmt)
			if !ok || s.Tag == nil || !typIsNamed(fs.Info().TypeOf(s.Tag), o.opT) {
				return
			}
			if sw == nil || len(s.Body.List) > len(sw.Body.List) {
				sw, interp = s, fs
			}
		})
	}
	if sw == nil {
		c.Missing(r1, "the interpreter's switch on op.Opcode in package core")
		return "tables missing"
	}
	t2 := map[int64]t2Entry{}
	nExtract := 0
	for _, st := range sw.Body.List {
		cl := st.(*ast.CaseClause)
		var ent *t2Entry
		for _, ce := range cl.List {
			v := ConstVal(interp.Info(), ce)
			if v == nil || !typIsNamed(interp.Info().TypeOf(ce), o.opT) {
				continue
			}
			if ent == nil {
				e := o.interpCase(interp, cl)
				ent = &e
				if e.why == "" {
					nExtract++
				}
			}
			t2[key(v)] = *ent
		}
	}
	c.Floor(r1, len(sw.Body.List), 60, "cases of the interpreter switch in "+interp.name)
	c.Floor(r1, nExtract, 25, "interpreter cases whose stack effect is a unary or binary operator expression")
	c.Stats["interp_cases"] = len(sw.Body.List)
	c.Stats["interp_operator_cases"] = nExtract

	// ---------------- T3 and the comparison
	r2 := id + ".2 K9 evaluator/folder of a binary token ≅ interpreter case of the generated opcode"
	r3 := id + ".3 K9 evaluator/folder of a unary token ≅ interpreter case of the generated opcode"
	r4 := id + ".4 K9 n-ary evaluator and folder apply the function the interpreter calls"
	type caseOf struct {
		fs   *FuncSrc
		cl   *ast.CaseClause
		toks []constant.Value
	}
	// switches on X.Tok where X is Unary / Binary / Nary
	switchesOn := func(fs *FuncSrc, node *types.Named) []caseOf {
		var out []caseOf
		ForEachNode(fs, func(n ast.Node) {
			s, ok := n.(*ast.SwitchStmt)
			if !ok || s.Tag == nil {
				return
			}
			sel, ok := ast.Unparen(s.Tag).(*ast.SelectorExpr)
			if !ok {
				return
			}
			sl := fs.Info().Selections[sel]
			if sl == nil || !(typIsPtrToNamed(sl.Recv(), node) || typIsNamed(sl.Recv(), node)) || !typIsNamed(sl.Type(), o.tokT) {
				return
			}
			for _, st := range s.Body.List {
				cl := st.(*ast.CaseClause)
				co := caseOf{fs: fs, cl: cl}
				for _, ce := range cl.List {
					if v := ConstVal(fs.Info(), ce); v != nil {
						co.toks = append(co.toks, v)
					}
				}
				if len(co.toks) > 0 {
					out = append(out, co)
				}
			}
		})
		return out
	}
	valueParams := func(fs *FuncSrc) []types.Object {
		var out []types.Object
		sig := fs.Obj.Type().(*types.Signature)
		for i, po := range paramObjs(fs) {
			if i < sig.Params().Len() && typIsNamed(sig.Params().At(i).Type(), o.value) && po != nil {
				out = append(out, po)
			}
		}
		return out
	}
	returnsValue := func(fs *FuncSrc) bool {
		sig := fs.Obj.Type().(*types.Signature)
		return sig.Results().Len() == 1 && typIsNamed(sig.Results().At(0).Type(), o.value)
	}
	compare := func(rule, what string, tokv constant.Value, tab *t1Tab, arity int, t3 string, pos token.Pos) {
		tn := tokName(tokv)
		opv, ok := tab.m[key(tokv)]
		if !ok {
			c.Obl(rule, what+" "+tn+": the code generator has an opcode for the token", p.PosOf(pos), false,
				fmt.Sprintf("%s is evaluated at compile time / in queries but has no entry in %s", tn, tab.v.Name()))
			return
		}
		ent, ok := t2[key(opv)]
		if !ok || ent.why != "" || ent.arity != arity {
			why := "no case in the interpreter switch"
			if ok {
				why = ent.why
				if why == "" {
					why = fmt.Sprintf("the case consumes %d operand(s), the token has %d", ent.arity, arity)
				}
			}
			c.Obls = append(c.Obls, Obligation{Rule: rule, Key: c.Prop + ":" + ruleID(rule) + ":" + what + " " + tn + ": interpreter case of " + opName(opv) + " is an operator expression",
				Pos: p.PosOf(ent.pos), OK: false, Detail: "cannot extract the interpreter's operation: " + why, Kind: "mechanism-missing"})
			return
		}
		c.Obl(rule, what+" "+tn+" ≅ interpreter case "+opName(opv), p.PosOf(pos), t3 == ent.expr,
			fmt.Sprintf("compile-time/query evaluation computes %s, compiled code computes %s (at %s): the same expression gives different results folded / in a query and at run time", t3, ent.expr, p.PosOf(ent.pos)))
	}
	nBin, nUn := 0, 0
	for _, node := range []struct {
		t     *types.Named
		name  string
		arity int
		rule  string
		tab   *t1Tab
	}{{binaryT, "Binary", 2, r2, t1b}, {unaryT, "Unary", 1, r3, t1u}} {
		for _, m := range p.MethodsOf("compile/ast", node.name) {
			fs := p.Src(m)
			if fs == nil || fs.Body == nil || !returnsValue(fs) {
				continue
			}
			vps := valueParams(fs)
			if len(vps) != node.arity {
				continue
			}
			for _, co := range switchesOn(fs, node.t) {
				if len(co.cl.Body) != 1 {
					note("%s: case %s is not a single return; not compared", fs.name, tokName(co.toks[0]))
					continue
				}
				rs, ok := co.cl.Body[0].(*ast.ReturnStmt)
				if !ok || len(rs.Results) != 1 {
					note("%s: case %s is not a single return; not compared", fs.name, tokName(co.toks[0]))
					continue
				}
				cc := &canonCtx{o: o, fs: fs, env: map[types.Object]string{}}
				if node.arity == 2 {
					cc.env[vps[0]], cc.env[vps[1]] = "L", "R"
				} else {
					cc.env[vps[0]] = "V"
				}
				v, ok := cc.expr(rs.Results[0])
				for _, tv := range co.toks {
					if !ok {
						note("%s: case %s: %s; not compared", fs.name, tokName(tv), cc.why)
						continue
					}
					if v == "V" {
						note("%s: %s is the identity (parentheses); no opcode is generated for it", fs.name, tokName(tv))
						continue
					}
					if node.arity == 2 {
						nBin++
					} else {
						nUn++
					}
					compare(node.rule, fs.name, tv, node.tab, node.arity, v, rs.Pos())
				}
			}
		}
	}
	c.Floor(r2, nBin, 11, "binary tokens with a compile-time evaluation")
	c.Floor(r3, nUn, 4, "unary tokens with a compile-time evaluation")

	// n-ary: every function of compile/ast with a switch on Nary.Tok
	opFuncs := map[*types.Func]bool{} // the functions the interpreter's operator cases call
	for _, ent := range t2 {
		_ = ent
	}
	binExpr := func(tokv constant.Value) (string, bool) { // T2[T1[t]] for a binary token
		opv, ok := t1b.m[key(tokv)]
		if !ok {
			return "", false
		}
		ent, ok := t2[key(opv)]
		if !ok || ent.why != "" || ent.arity != 2 {
			return "", false
		}
		return ent.expr, true
	}
	// applied: the canonical form of f(L, R) (inlined like every other call)
	applied := func(f *types.Func) string {
		if hs := p.Src(f); hs != nil {
			if ret := c25Inlineable(hs); ret != nil {
				sub := &canonCtx{o: o, fs: hs, env: map[types.Object]string{}, depth: 1}
				ps := paramObjs(hs)
				if len(ps) == 2 && ps[0] != nil && ps[1] != nil {
					sub.env[ps[0]], sub.env[ps[1]] = "L", "R"
					if v, ok := sub.expr(ret); ok {
						return v
					}
				}
			}
		}
		return funcName(f) + "(L, R)"
	}
	// raw (not inlined) callee of every binary/unary interpreter case, for the helper rule
	for _, st := range sw.Body.List {
		cl := st.(*ast.CaseClause)
		for _, s := range cl.Body {
			ast.Inspect(s, func(n ast.Node) bool {
				if call, ok := n.(*ast.CallExpr); ok {
					if f := Callee(interp.Info(), call); f != nil && f.Pkg() == interp.Pkg.Types && f.Type().(*types.Signature).Recv() == nil {
						sig := f.Type().(*types.Signature)
						if sig.Results().Len() == 1 && typIsNamed(sig.Results().At(0).Type(), o.value) && sig.Params().Len() >= 1 && sig.Params().Len() <= 2 && typIsNamed(sig.Params().At(0).Type(), o.value) {
							opFuncs[f] = true
						}
					}
				}
				return true
			})
		}
	}
	rawCallee := func(tokv constant.Value, tab *t1Tab) *types.Func { // the core function called in the case of T1[t]
		opv, ok := tab.m[key(tokv)]
		if !ok {
			return nil
		}
		var found *types.Func
		for _, st := range sw.Body.List {
			cl := st.(*ast.CaseClause)
			hit := false
			for _, ce := range cl.List {
				if v := ConstVal(interp.Info(), ce); v != nil && constant.Compare(v, token.EQL, opv) {
					hit = true
				}
			}
			if !hit {
				continue
			}
			for _, s := range cl.Body {
				ast.Inspect(s, func(n ast.Node) bool {
					if call, ok := n.(*ast.CallExpr); ok {
						if f := Callee(interp.Info(), call); f != nil && opFuncs[f] && found == nil {
							found = f
						}
					}
					return true
				})
			}
		}
		return found
	}
	nFn, nSet := 0, 0
	for _, fs := range p.FuncsIn("compile/ast") {
		if fs.Body == nil {
			continue
		}
		for _, co := range switchesOn(fs, naryT) {
			// (ii) a core function of type func(Value, Value) Value handed to a helper
			var fnArgs []*types.Func
			var helpers []*FuncSrc
			for _, s := range co.cl.Body {
				ast.Inspect(s, func(n ast.Node) bool {
					call, ok := n.(*ast.CallExpr)
					if !ok {
						return true
					}
					if f := Callee(fs.Info(), call); f != nil && f.Pkg() == fs.Pkg.Types {
						if hs := p.Src(f); hs != nil {
							helpers = append(helpers, hs)
						}
					}
					for _, a := range call.Args {
						if f, ok := ObjOf(fs.Info(), a).(*types.Func); ok && f.Pkg() != nil && f.Pkg() == o.value.Obj().Pkg() {
							sig := f.Type().(*types.Signature)
							if sig.Recv() == nil && sig.Params().Len() == 2 && sig.Results().Len() == 1 && typIsNamed(sig.Params().At(0).Type(), o.value) &&
								typIsNamed(sig.Params().At(1).Type(), o.value) && typIsNamed(sig.Results().At(0).Type(), o.value) {
								fnArgs = append(fnArgs, f)
							}
						}
					}
					return true
				})
			}
			for _, tv := range co.toks {
				tn := tokName(tv)
				switch {
				case len(fnArgs) > 0:
					for _, f := range fnArgs {
						nFn++
						want, ok := binExpr(tv)
						if !ok {
							c.Obls = append(c.Obls, Obligation{Rule: r4, Key: c.Prop + ":" + ruleID(r4) + ":" + fs.name + " " + tn + ": interpreter case is a binary operator expression",
								Pos: p.Pos(co.cl), OK: false, Detail: "cannot extract the interpreter's operation for the opcode of " + tn, Kind: "mechanism-missing"})
							continue
						}
						got := applied(f)
						c.Obl(r4, fs.name+" "+tn+": the function applied pairwise is the interpreter's", p.Pos(co.cl), got == want,
							fmt.Sprintf("%s combines the operands of %s with %s = %s, compiled code computes %s", fs.name, tn, funcName(f), got, want))
					}
				case len(helpers) > 0:
					// (iii) a helper that calls core operator functions itself: the set of
					// operator functions it calls equals the interpreter's functions for the
					// case token and the tokens the helper mentions
					for _, hs := range helpers {
						got := map[string]bool{}
						toks := map[int64]constant.Value{key(tv): tv}
						ForEachNode(hs, func(n ast.Node) {
							switch x := n.(type) {
							case *ast.CallExpr:
								if f := Callee(hs.Info(), x); f != nil && opFuncs[f] {
									got[funcName(f)] = true
								}
							case ast.Expr:
								if tvv, ok := hs.Info().Types[x]; ok && tvv.Value != nil && typIsNamed(tvv.Type, o.tokT) {
									toks[key(tvv.Value)] = tvv.Value
								}
							}
						})
						if len(got) == 0 {
							note("%s %s: helper %s calls no interpreter operator function (folding by other means); not compared", fs.name, tn, hs.name)
							continue
						}
						want := map[string]bool{}
						for _, t := range toks {
							for _, tab := range []*t1Tab{t1b} {
								if f := rawCallee(t, tab); f != nil {
									want[funcName(f)] = true
								}
							}
						}
						nSet++
						c.Obl(r4, fs.name+" "+tn+": helper "+hs.name+" calls exactly the interpreter's functions for its tokens", p.Pos(co.cl), strSetEqual(got, want),
							fmt.Sprintf("helper calls %v, the interpreter cases for %v call %v", strSetKeys(got), tokNames(toks, tokName), strSetKeys(want)))
					}
				default:
					note("%s %s: no core function is applied in this case; not compared", fs.name, tn)
				}
			}
		}
	}
	c.Floor(r4, nFn, 9, "n-ary cases that hand a core function to a helper")
	c.Floor(r4, nSet, 2, "n-ary cases evaluated by a helper that calls operator functions")

	// ---------------- operand order in the generated code
	r5 := id + ".5 K4 the code generator pushes the left operand before the right one"
	lhsF, rhsF := p.Field("compile/ast", "Binary", "Lhs"), p.Field("compile/ast", "Binary", "Rhs")
	if c.need(r5, "ast.Binary.Lhs", lhsF) && c.need(r5, "ast.Binary.Rhs", rhsF) {
		argIs := func(fld *types.Var) func(fs *FuncSrc, n ast.Node) bool {
			return func(fs *FuncSrc, n ast.Node) bool {
				call, ok := n.(*ast.CallExpr)
				if !ok || len(call.Args) == 0 {
					return false
				}
				return FieldOf(fs.Info(), call.Args[0]) == fld
			}
		}
		emitT1 := Ev{"emit(T1)", func(fs *FuncSrc, n ast.Node) bool {
			call, ok := n.(*ast.CallExpr)
			if !ok {
				return false
			}
			for _, a := range call.Args {
				if ix, ok := ast.Unparen(a).(*ast.IndexExpr); ok && ObjOf(fs.Info(), ix.X) == types.Object(t1b.v) {
					if sel, ok := ast.Unparen(ix.Index).(*ast.SelectorExpr); ok {
						if s := fs.Info().Selections[sel]; s != nil && typIsPtrToNamed(s.Recv(), binaryT) {
							return true
						}
					}
				}
			}
			return false
		}}
		n := 0
		for _, fs := range p.FuncsIn("compile") {
			if fs.Body == nil {
				continue
			}
			has := false
			ForEachNode(fs, func(nd ast.Node) {
				if emitT1.Match(fs, nd) {
					has = true
				}
			})
			if !has {
				continue
			}
			res := (&Flow{P: p, Node: Labeler(Ev{"gen(Lhs)", argIs(lhsF)}, Ev{"gen(Rhs)", argIs(rhsF)}, emitT1)}).Analyze(fs)
			for _, s := range res.Of("emit(T1)") {
				n++
				c.Obl(r5, fs.name+": both operands are generated before the opcode from the table", p.Pos(s.Node), s.Before.Has("gen(Lhs)") && s.Before.Has("gen(Rhs)"), "")
			}
			for _, s := range res.Of("gen(Rhs)") {
				if s.Follows("emit(T1)") {
					c.Obl(r5, fs.name+": Lhs is generated before Rhs", p.Pos(s.Node), s.Before.Has("gen(Lhs)"),
						"the interpreter case takes stack[sp-1] as left and stack[sp] as right operand; generating Rhs first swaps the operands of every non-commutative operator")
				}
			}
		}
		c.Floor(r5, n, 1, "emits of the binary table's opcode for a Binary node")
	}
	c.Stats["t1_binary_entries"] = len(t1b.m)
	c.Stats["t1_unary_entries"] = len(t1u.m)
	c.Stats["t3_binary"] = nBin
	c.Stats["t3_unary"] = nUn
	c.Stats["t3_nary_fn"] = nFn
	c.Stats["t3_nary_helper"] = nSet
	checkComparisonTables(c, id+".6 K9 the folder's swap / negate token tables are consistent")
	checkInRangeRaw(c, id+".7 K14 range expressions on stored encodings honour their bounds")
	checkBinaryRawAgrees(c, id+".8 K14 comparisons on stored encodings apply the same relation as on values")
	if id == "C30" {
		checkPropFoldRestores(c, "C30.9 K5 final-local propagation forgets what it learnt in one alternative before the next")
		checkShortCircuitFlag(c, "C30.10 K9 the and/or short-circuit flag follows the previous operand")
		checkFoldInStopsAtNonConstant(c, "C30.11 K4c `in` is folded only over constant members")
		checkPropFoldCoversLoops(c, "C30.12 K10 final-local propagation handles every loop statement")
	}
	return "Decided (shared clause of C25 and C30): T1 = the two arrays of op.Opcode with constant tok.Token keys in package compile (unary/binary told apart by the node type whose Tok indexes them); " +
		"T2 = for each case of the interpreter's switch on op.Opcode, the value left on the stack, by symbolic execution of the case body over the stack primitives, as an expression over the operands at entry (left = stack[sp-2], right = stack[sp-1]); " +
		"T3 = the expression returned per token by the methods of ast.Binary / ast.Unary that map Value operands to a Value (eval, which the folder uses for constants and the query engine for rows), the core function handed to the n-ary helpers by Nary.Eval and Folder.foldNary, " +
		"and the set of interpreter operator functions called by helpers such as muldiv / foldMul. Obligation for every token of T3: T3[t] equals T2[T1[t]] after inlining, on both sides, functions that consist of one returned expression plus conditional panics " +
		"(so core.OpLt ≅ SuBool(x.Compare(y) < 0) and the two strictCompare variants are equal up to their extra panics under the StrictCompare options — the documented exception); the code generator generates Lhs before Rhs before the table's opcode. " +
		"Binary.RawOp/EvalRaw/eval: for each token accepted for raw evaluation the comparison of stored encodings and the comparison of values apply the same relation (folded for <, ==, >). (C30 only) final-local propagation: alternatives (if/else, try/catch, ?:, switch cases) start from the values known before them and every loop statement type has its own case (open finding F19: do-while has none); the and/or short-circuit flag follows the previous operand; `in` is folded only past constant members. Not decided: that the byte order of encodings is the value order (C13/C28), raw evaluation of unary/n-ary nodes, And/Or (jumps), Cat folding and CatN (string building by other means), In/InRange/Trinary, compound assignment tables, final-local propagation, operand order inside the n-ary helpers, equivalence of functions that are not syntactically the same expression."
}

func strSetEqual(a, b map[string]bool) bool {
	if len(a) != len(b) {
		return false
	}
	for k := range a {
		if !b[k] {
			return false
		}
	}
	return true
}

func strSetKeys(m map[string]bool) []string {
	var out []string
	for k := range m {
		out = append(out, k)
	}
	sort.Strings(out)
	return out
}

func tokNames(m map[int64]constant.Value, name func(constant.Value) string) []string {
	var out []string
	for _, v := range m {
		out = append(out, name(v))
	}
	sort.Strings(out)
	return out
}

package main

// C31.3: the display escaping of a string constant (core.escape) and the unescaping of the
// lexer (Lexer.doesc, as driven by quotedString) are inverse, byte by byte.  Both are
// loop-free per byte, so they are folded over the whole domain: for each of the 256 byte
// values and both quote characters, the bytes escape emits for that byte (and the byte itself
// where escape copies it verbatim) are fed to doesc, which must consume all of them and
// return the byte; no emitted byte may be the terminating quote, NUL (the end-of-input
// sentinel) or a bare backslash start of another escape.

import (
	"fmt"
	"go/ast"
	"go/constant"
	"go/token"
	"go/types"
	"strconv"
	"strings"
)

func checkEscapeRoundTrip(c *Ctx, rule string) {
	p := c.P
	esc := c.function(rule, "core", "escape")
	doesc := c.method(rule, "compile/lexer", "Lexer", "doesc")
	read := p.DeclaredMethod("compile/lexer", "Lexer", "read")
	if esc == nil || doesc == nil || !c.need(rule, "lexer.Lexer.read", read) {
		return
	}
	einfo := esc.Info()
	esig := esc.Obj.Type().(*types.Signature)
	if esig.Params().Len() != 2 {
		c.Missing(rule, "core.escape(s, q)")
		return
	}
	sParam, qParam := esig.Params().At(0), esig.Params().At(1)
	isS := func(e ast.Expr) bool {
		ix, ok := ast.Unparen(e).(*ast.IndexExpr)
		if !ok {
			return false
		}
		id := identOf(ix.X)
		return id != nil && einfo.Uses[id] == types.Object(sParam)
	}
	// the per-byte switch and the verbatim-prefix loop condition
	var sw *ast.SwitchStmt
	var prefixBreak *ast.IfStmt
	var prefixVar types.Object
	ast.Inspect(esc.Body, func(nd ast.Node) bool {
		switch x := nd.(type) {
		case *ast.SwitchStmt:
			if as, ok := x.Init.(*ast.AssignStmt); ok && sw == nil && len(as.Rhs) == 1 && isS(as.Rhs[0]) {
				sw = x
			}
		case *ast.ForStmt:
			if prefixBreak == nil && sw == nil {
				for i, st := range x.Body.List {
					if as, ok := st.(*ast.AssignStmt); ok && len(as.Rhs) == 1 && isS(as.Rhs[0]) && i+1 < len(x.Body.List) {
						if ifs, ok := x.Body.List[i+1].(*ast.IfStmt); ok && len(ifs.Body.List) == 1 {
							if br, ok := ifs.Body.List[0].(*ast.BranchStmt); ok && br.Tok == token.BREAK {
								prefixBreak = ifs
								prefixVar = einfo.ObjectOf(identOf(as.Lhs[0]))
							}
						}
					}
				}
			}
		}
		return true
	})
	if sw == nil {
		c.Missing(rule, "core.escape: the per-byte switch")
		return
	}
	dinfo := doesc.Info()
	dsig := doesc.Obj.Type().(*types.Signature)
	if dsig.Params().Len() != 1 {
		c.Missing(rule, "Lexer.doesc(c)")
		return
	}
	inline := func(f *types.Func) *FuncSrc {
		if sameFunc(f, read) {
			return nil
		}
		fs := p.Src(f)
		if fs == nil || fs.Body == nil {
			return nil
		}
		return fs
	}
	emit := func(b int64, q byte) ([]byte, string) {
		var out []byte
		bad := ""
		env := &AbsEnv{Info: einfo, Locals: map[types.Object]constant.Value{qParam: constant.MakeInt64(int64(q))}}
		env.Atom = func(e ast.Expr) (constant.Value, bool) {
			switch x := e.(type) {
			case *ast.IndexExpr:
				if isS(x) {
					return constant.MakeInt64(b), true
				}
			case *ast.CallExpr:
				if IsBuiltin(einfo, x, "append") {
					for _, a := range x.Args[1:] {
						v := env.expr(a)
						if v == nil || v.Kind() != constant.Int {
							bad = "an appended byte cannot be folded"
							return nil, true
						}
						n, _ := constant.Int64Val(v)
						out = append(out, byte(n))
					}
					return nil, true
				}
				if cal := Callee(einfo, x); cal != nil && cal.Pkg() != nil && cal.Pkg().Path() == "strconv" && cal.Name() == "AppendInt" && len(x.Args) == 3 {
					v, base := env.expr(x.Args[1]), env.expr(x.Args[2])
					if v == nil || base == nil {
						bad = "AppendInt arguments cannot be folded"
						return nil, true
					}
					n, _ := constant.Int64Val(v)
					bs, _ := constant.Int64Val(base)
					out = strconv.AppendInt(out, n, int(bs))
					return nil, true
				}
			}
			return nil, false
		}
		r, _ := env.stmt(sw)
		if r.Unknown != "" {
			return nil, "the switch cannot be folded: " + r.Unknown
		}
		return out, bad
	}
	verbatim := func(b int64, q byte) (bool, string) {
		if prefixBreak == nil {
			return false, ""
		}
		env := &AbsEnv{Info: einfo, Locals: map[types.Object]constant.Value{qParam: constant.MakeInt64(int64(q)), prefixVar: constant.MakeInt64(b)}}
		v := env.expr(prefixBreak.Cond)
		if v == nil || v.Kind() != constant.Bool {
			return false, "the verbatim-prefix condition cannot be folded"
		}
		return !constant.BoolVal(v), ""
	}
	decode := func(in []byte, q byte) (int64, int, string) {
		if len(in) == 0 {
			return 0, 0, "nothing emitted"
		}
		if in[0] == 0 || in[0] == q {
			return 0, 0, fmt.Sprintf("emits %q first, which ends the literal", in[0])
		}
		cur := 1
		env := &AbsEnv{Info: dinfo, Inline: inline, Locals: map[types.Object]constant.Value{dsig.Params().At(0): constant.MakeInt64(int64(in[0]))}}
		env.Atom = func(e ast.Expr) (constant.Value, bool) {
			if call, ok := e.(*ast.CallExpr); ok && sameFunc(Callee(dinfo, call), read) {
				if cur < len(in) {
					cur++
					if in[cur-1] == 0 {
						return constant.MakeInt64(0xff), true
					}
					return constant.MakeInt64(int64(in[cur-1])), true
				}
				cur++
				return constant.MakeInt64(0), true
			}
			return nil, false
		}
		r := env.run(doesc.Body)
		if r.Unknown != "" || len(r.Returns) != 1 || r.Returns[0] == nil {
			return 0, 0, "doesc cannot be folded: " + r.Unknown
		}
		v, _ := constant.Int64Val(r.Returns[0])
		return v, cur, ""
	}
	var bad []string
	n := 0
	for _, q := range []byte{'\'', '"'} {
		for b := int64(0); b < 256; b++ {
			forms := [][]byte{}
			out, why := emit(b, q)
			if why != "" {
				bad = append(bad, why)
				break
			}
			forms = append(forms, out)
			if vb, why := verbatim(b, q); why != "" {
				bad = append(bad, why)
				break
			} else if vb {
				forms = append(forms, []byte{byte(b)})
			}
			for _, form := range forms {
				n++
				v, used, why := decode(form, q)
				switch {
				case why != "":
					bad = append(bad, fmt.Sprintf("byte %#02x in %c-quotes is displayed as %q: %s", b, q, form, why))
				case used != len(form):
					bad = append(bad, fmt.Sprintf("byte %#02x in %c-quotes is displayed as %q but the lexer's escape decoding consumes %d of its %d bytes", b, q, form, used, len(form)))
				case v != b:
					bad = append(bad, fmt.Sprintf("byte %#02x in %c-quotes is displayed as %q, which the lexer reads back as %#02x", b, q, form, v))
				}
			}
		}
	}
	if len(bad) > 4 {
		bad = append(bad[:4], fmt.Sprintf("… %d more", len(bad)-4))
	}
	c.Stats["escape_forms_folded"] = n
	c.Obl(rule, "core.escape and Lexer.doesc are inverse for every byte value and both quote characters", p.Pos(esc.Decl), len(bad) == 0 && n >= 512, strings.Join(bad, "; "))
}

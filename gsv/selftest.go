package main

// Sensitivity self-test: every rule keeps one-hunk variants of /repo under
// gsv/mutants/<ID>/*.mut (must make the check fail, naming the instance) and
// gsv/benign/<ID>/*.mut (behaviour-preserving edits: the check must stay silent).
//
//	# free text description
//	file: db19/tran.go
//	sed: s/old/new/            (sed -E expression; several sed: lines allowed)
//	patch: name.diff           (instead of file/sed: unified diff, -p1, next to the .mut)
//	expect: substring of the key or rule of an obligation that must fail (optional)
//
// The variants are applied to a scratch copy of the Go sources under $TMPDIR, one
// process per variant, and the copy is removed.  A variant that no longer applies to
// an edited /repo is skipped: the self-test never raises an alarm about /repo.

import (
	"bufio"
	"fmt"
	"os"
	"os/exec"
	"path/filepath"
	"sort"
	"strings"
	"sync"
)

type mutant struct {
	ID, Name, Path string
	Desc           string
	File           string
	Seds           []string
	Patch          string
	Expect         []string
	Benign         bool
}

type mutResult struct {
	M       mutant
	Status  string // fired | silent | skipped | infra
	Detail  string
	Matched bool // expect matched
}

func gsvDir() string {
	if d := os.Getenv("GSV_DIR"); d != "" {
		return d
	}
	return filepath.Join(verifDir, "gsv")
}

func loadMutants(id string) []mutant {
	var out []mutant
	for _, kind := range []string{"mutants", "benign"} {
		files, _ := filepath.Glob(filepath.Join(gsvDir(), kind, id, "*.mut"))
		sort.Strings(files)
		for _, f := range files {
			m := mutant{ID: id, Name: strings.TrimSuffix(filepath.Base(f), ".mut"), Path: f, Benign: kind == "benign"}
			fh, err := os.Open(f)
			if err != nil {
				continue
			}
			sc := bufio.NewScanner(fh)
			sc.Buffer(make([]byte, 1<<20), 1<<20)
			for sc.Scan() {
				line := sc.Text()
				switch {
				case strings.HasPrefix(line, "#"):
					m.Desc += strings.TrimSpace(strings.TrimPrefix(line, "#")) + " "
				case strings.HasPrefix(line, "file:"):
					m.File = strings.TrimSpace(strings.TrimPrefix(line, "file:"))
				case strings.HasPrefix(line, "sed:"):
					m.Seds = append(m.Seds, strings.TrimSpace(strings.TrimPrefix(line, "sed:")))
				case strings.HasPrefix(line, "patch:"):
					m.Patch = filepath.Join(filepath.Dir(f), strings.TrimSpace(strings.TrimPrefix(line, "patch:")))
				case strings.HasPrefix(line, "expect:"):
					m.Expect = append(m.Expect, strings.TrimSpace(strings.TrimPrefix(line, "expect:")))
				}
			}
			fh.Close()
			out = append(out, m)
		}
	}
	return out
}

func copyRepo(dst string) error {
	// Go sources and module files only
	cmd := exec.Command("rsync", "-a", "--prune-empty-dirs", "--include=*/", "--include=*.go", "--include=go.mod", "--include=go.sum",
		"--exclude=.git/", "--exclude=*", repoDir+"/", dst+"/")
	if out, err := cmd.CombinedOutput(); err != nil {
		return fmt.Errorf("rsync: %v: %s", err, out)
	}
	return nil
}

func runMutant(m mutant, tier string) mutResult {
	res := mutResult{M: m}
	tmp, err := os.MkdirTemp("", "gsvmut-")
	if err != nil {
		res.Status, res.Detail = "infra", err.Error()
		return res
	}
	defer os.RemoveAll(tmp)
	repo := filepath.Join(tmp, "repo")
	ver := filepath.Join(tmp, "verif")
	os.MkdirAll(repo, 0o755)
	os.MkdirAll(ver, 0o755)
	if err := copyRepo(repo); err != nil {
		res.Status, res.Detail = "infra", err.Error()
		return res
	}
	if b, err := os.ReadFile(filepath.Join(verifDir, "known_findings.txt")); err == nil {
		os.WriteFile(filepath.Join(ver, "known_findings.txt"), b, 0o644)
	}
	if m.Patch != "" {
		cmd := exec.Command("patch", "-p1", "--no-backup-if-mismatch", "-s", "-i", m.Patch)
		cmd.Dir = repo
		if out, err := cmd.CombinedOutput(); err != nil {
			res.Status, res.Detail = "skipped", "patch does not apply: "+strings.TrimSpace(string(out))
			return res
		}
	} else {
		target := filepath.Join(repo, m.File)
		before, err := os.ReadFile(target)
		if err != nil {
			res.Status, res.Detail = "skipped", "file missing: "+m.File
			return res
		}
		for _, e := range m.Seds {
			cmd := exec.Command("sed", "-i", "-E", e, target)
			if out, err := cmd.CombinedOutput(); err != nil {
				res.Status, res.Detail = "skipped", "sed failed: "+string(out)
				return res
			}
		}
		after, _ := os.ReadFile(target)
		if string(before) == string(after) {
			res.Status, res.Detail = "skipped", "edit does not apply any more (no change)"
			return res
		}
	}
	self, _ := os.Executable()
	cmd := exec.Command(self, "check", m.ID, "--tier", "quick")
	cmd.Env = append(os.Environ(), "GSV_REPO="+repo, "GSV_VERIF="+ver, "GSV_NO_SELFTEST=1")
	out, err := cmd.CombinedOutput()
	code := 0
	if ee, ok := err.(*exec.ExitError); ok {
		code = ee.ExitCode()
	} else if err != nil {
		res.Status, res.Detail = "infra", err.Error()
		return res
	}
	switch code {
	case 0:
		res.Status = "silent"
	case 1:
		res.Status = "fired"
		var fails []string
		for _, l := range strings.Split(string(out), "\n") {
			if strings.HasPrefix(l, "violation:") {
				fails = append(fails, l)
			}
		}
		res.Matched = len(m.Expect) == 0
		for _, e := range m.Expect {
			for _, l := range fails {
				if strings.Contains(l, e) {
					res.Matched = true
				}
			}
		}
		if len(fails) > 0 {
			res.Detail = fails[0]
			if len(res.Detail) > 300 {
				res.Detail = res.Detail[:300]
			}
		}
	default:
		res.Status = "infra"
		lines := strings.Split(strings.TrimSpace(string(out)), "\n")
		res.Detail = "variant does not load/type-check: " + lines[len(lines)-1]
		if len(res.Detail) > 300 {
			res.Detail = res.Detail[:300]
		}
	}
	return res
}

func runSelftest(ids []string, par int) []mutResult {
	var ms []mutant
	for _, id := range ids {
		ms = append(ms, loadMutants(id)...)
	}
	results := make([]mutResult, len(ms))
	sem := make(chan struct{}, par)
	var wg sync.WaitGroup
	for i := range ms {
		wg.Add(1)
		sem <- struct{}{}
		go func(i int) {
			defer wg.Done()
			defer func() { <-sem }()
			results[i] = runMutant(ms[i], "quick")
		}(i)
	}
	wg.Wait()
	return results
}

// selftestMain: `gsv selftest [ID…]` prints a table; exit 1 if a mutant stays silent or
// a benign variant fires (development aid; not a manifest check).
func selftestMain(args []string) int {
	ids := args
	if len(ids) == 0 {
		for id := range checks {
			ids = append(ids, id)
		}
		sort.Strings(ids)
	}
	bad := 0
	res := runSelftest(ids, 8)
	for _, r := range res {
		kind := "mutant"
		want := "fired"
		if r.M.Benign {
			kind, want = "benign", "silent"
		}
		ok := r.Status == want && (r.M.Benign || r.Matched)
		mark := "ok  "
		if r.Status == "skipped" {
			mark = "skip"
		} else if !ok {
			mark = "BAD "
			bad++
		}
		fmt.Printf("%s %s %-6s %-40s %-7s %s\n", mark, r.M.ID, kind, r.M.Name, r.Status, r.Detail)
	}
	fmt.Printf("selftest: %d variants, %d bad\n", len(res), bad)
	if bad > 0 {
		return 1
	}
	return 0
}

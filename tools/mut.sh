#!/bin/bash
# usage: mut.sh <ID> <patchfile|-e sedexpr file>   — run check <ID> on a scratch copy of /repo with a change applied
# scratch copy lives in /tmp/gsvmut.$$ and is removed afterwards
set -u
ID=$1; shift
D=/tmp/gsvmut.$$
mkdir -p $D/repo $D/verif
rsync -a --exclude .git --exclude '*.syso' --exclude '*.tmp' /repo/ $D/repo/
cp /verif/known_findings.txt $D/verif/ 2>/dev/null
if [ "$1" = "-e" ]; then
  sed -i -E "$2" $D/repo/$3 || { echo "sed failed"; rm -rf $D; exit 3; }
  (cd $D/repo && diff -u /repo/$3 $3 | head -30)
else
  (cd $D/repo && patch -p1 --no-backup-if-mismatch < "$1") || { echo "patch failed"; rm -rf $D; exit 3; }
fi
GSV_REPO=$D/repo GSV_VERIF=$D/verif ${GSV_BIN:-/verif/gsv/gsv} check $ID ${TIER:+--tier $TIER} | grep -v '^ok  '
rc=${PIPESTATUS[0]}
rm -rf $D
echo "exit=$rc"
exit $rc

package main

// `gsv shuffle <dir>`: rewrites every non-test Go file under <dir> with its top-level
// function declarations in reverse order (a behaviour-preserving edit that moves every
// line number).  Used by tools/robust.sh to confirm that no verdict depends on positions.

import (
	"bytes"
	"fmt"
	"go/ast"
	"go/format"
	"go/parser"
	"go/token"
	"os"
	"path/filepath"
	"strings"
)

func shuffleMain(dir string) int {
	n := 0
	filepath.Walk(dir, func(path string, fi os.FileInfo, err error) error {
		if err != nil || fi.IsDir() || !strings.HasSuffix(path, ".go") || strings.HasSuffix(path, "_test.go") {
			return nil
		}
		src, err := os.ReadFile(path)
		if err != nil {
			return nil
		}
		fset := token.NewFileSet()
		f, err := parser.ParseFile(fset, path, src, parser.ParseComments)
		if err != nil {
			return nil
		}
		// split the source into the header (everything before the first func decl that follows
		// all non-func decls is kept in place) and per-declaration chunks including their doc comments
		type chunk struct {
			start, end int
			isFunc     bool
		}
		var chunks []chunk
		off := func(p token.Pos) int { return fset.Position(p).Offset }
		for _, d := range f.Decls {
			start := d.Pos()
			switch x := d.(type) {
			case *ast.FuncDecl:
				if x.Doc != nil {
					start = x.Doc.Pos()
				}
				chunks = append(chunks, chunk{off(start), off(d.End()), true})
			case *ast.GenDecl:
				if x.Doc != nil {
					start = x.Doc.Pos()
				}
				chunks = append(chunks, chunk{off(start), off(d.End()), false})
			}
		}
		if len(chunks) < 2 {
			return nil
		}
		// extend each chunk's end to the start of the next chunk (keeps trailing and free comments)
		for i := range chunks {
			if i+1 < len(chunks) {
				chunks[i].end = chunks[i+1].start
			} else {
				chunks[i].end = len(src)
			}
		}
		var out bytes.Buffer
		out.Write(src[:chunks[0].start])
		var funcs []chunk
		for _, c := range chunks {
			if c.isFunc {
				funcs = append(funcs, c)
			}
		}
		k := len(funcs) - 1
		for _, c := range chunks {
			if !c.isFunc {
				out.Write(src[c.start:c.end])
				continue
			}
			fc := funcs[k]
			k--
			out.Write(src[fc.start:fc.end])
			if !bytes.HasSuffix(src[fc.start:fc.end], []byte("\n")) {
				out.WriteByte('\n')
			}
		}
		res, err := format.Source(out.Bytes())
		if err != nil {
			return nil // leave the file alone
		}
		if os.WriteFile(path, res, 0o644) == nil {
			n++
		}
		return nil
	})
	fmt.Println("shuffled", n, "files")
	return 0
}

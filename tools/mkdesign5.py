#!/usr/bin/env python3
"""Generates the 'as built' per-property section of DESIGN.md from the evidence files the checks wrote."""
import json, glob, os, re
props = {json.loads(l)['id']: json.loads(l) for l in open('/verif/properties.jsonl')}
claims = json.load(open('/verif/tools/claims.json'))
out = []
for pid in sorted(claims['claimed']):
    ev = json.load(open(f'/verif/evidence/{pid}.json'))
    cov = ev['coverage']
    out.append(f"### {pid} — {props[pid]['title']}\n")
    out.append(f"*Technique*: {claims['claimed'][pid]['technique']}.  ")
    out.append(f"*Today*: {cov['obligations']} obligations, all discharged; quick ≈ {ev['wall_s']:.0f} s.\n")
    out.append("*Rules* (id, kind, title — number of obligations today):\n")
    titles = cov.get('rule_titles', {})
    def key(k):
        m = re.match(r'C\d+\.(\d+)(\w*)', k)
        return (int(m.group(1)), m.group(2)) if m else (99, k)
    for rid in sorted(cov['rules'], key=key):
        t = titles.get(rid, rid)
        out.append(f"* `{t}` — {cov['rules'][rid]}")
    out.append("")
    out.append("*Decided / not decided* (the check's own statement, written into its evidence file):  ")
    out.append("> " + cov['explanation'].replace('\n', ' ') + "\n")
    nm = len(glob.glob(f'/verif/gsv/mutants/{pid}/*.mut')); nb = len(glob.glob(f'/verif/gsv/benign/{pid}/*.mut'))
    out.append(f"*Self-test*: {nm} mutants that must fire, {nb} behaviour-preserving variants that must stay silent (`gsv selftest {pid}`).\n")
open('/verif/tools/design5.md', 'w').write('\n'.join(out))
print(len(out), "lines")

package main

// C02.9: a transaction reads the database only through the snapshot it took when it started.
// Who-may-call rule: inside the methods of db19.tran / ReadTran / UpdateTran, nothing reaches
// the *current* state (Database.GetState, directly or through a Database method that calls
// it) except the two places that are supposed to: ReadTran.Asof (explicit time travel) and
// the constructors (which take the snapshot).

import (
	"go/ast"
	"go/types"
	"sort"
	"strings"
)

func checkTranReadsItsSnapshot(c *Ctx, rule string) {
	p := c.P
	getState := p.DeclaredMethod("db19", "Database", "GetState")
	dbT := p.NamedType("db19", "Database")
	if !c.need(rule, "db19.Database.GetState", getState) || !c.need(rule, "db19.Database", dbT) {
		return
	}
	// Database methods that read the current state themselves
	current := map[*types.Func]string{getState: "Database.GetState"}
	for _, m := range p.MethodsOf("db19", "Database") {
		fs := p.Src(m)
		if fs == nil || fs.Body == nil || m == getState {
			continue
		}
		if len(p.CallsIn(fs, getState)) > 0 {
			current[m] = "Database." + m.Name() + " (reads Database.GetState)"
		}
	}
	c.Floor(rule, len(current), 3, "Database methods that read the current state")
	allowed := map[string]string{
		"Asof": "ReadTran.Asof(0) is the explicit request for the current state",
	}
	n := 0
	for _, typ := range []string{"tran", "ReadTran", "UpdateTran"} {
		for _, m := range p.MethodsOf("db19", typ) {
			fs := p.Src(m)
			if fs == nil || fs.Body == nil {
				continue
			}
			n++
			info := fs.Info()
			var bad []string
			ForEachNode(fs, func(nd ast.Node) {
				call, ok := nd.(*ast.CallExpr)
				if !ok {
					return
				}
				cal := Callee(info, call)
				if cal == nil {
					return
				}
				if what, ok := current[cal]; ok {
					bad = append(bad, what+" at "+p.Pos(call))
				}
			})
			sort.Strings(bad)
			if _, ok := allowed[m.Name()]; ok && typ == "ReadTran" {
				c.Note(rule + ": " + typ + "." + m.Name() + " reads the current state by design (" + allowed[m.Name()] + ")")
				continue
			}
			if len(bad) == 0 {
				continue
			}
			c.Obl(rule, "db19."+typ+"."+m.Name()+" reads through the transaction's snapshot, not the current state", p.Pos(fs.Decl), false,
				"calls "+strings.Join(bad, ", ")+": the transaction sees what was committed after it started")
		}
	}
	c.Obl(rule, "methods of tran/ReadTran/UpdateTran were examined", "", n >= 20, "")
	c.Stats["tran_methods_examined"] = n
}

// checkTranInfoHonoursOwnChanges (C03.8): the row count / size a transaction reports for a
// table comes from a Meta accessor that consults the transaction's own modified Infos
// (Meta.difInfo "overrides info") — every Meta method that reads Meta.info and is called from
// a method of tran / ReadTran / UpdateTran also reads Meta.difInfo.
func checkTranInfoHonoursOwnChanges(c *Ctx, rule string) {
	p := c.P
	infoF := p.Field("db19/meta", "Meta", "info")
	difF := p.Field("db19/meta", "Meta", "difInfo")
	if !c.need(rule, "meta.Meta.info", infoF) || !c.need(rule, "meta.Meta.difInfo", difF) {
		return
	}
	reads := func(fs *FuncSrc, f *types.Var) bool {
		found := false
		info := fs.Info()
		ast.Inspect(fs.Body, func(nd ast.Node) bool {
			if e, ok := nd.(ast.Expr); ok && FieldOf(info, e) == f {
				found = true
			}
			return !found
		})
		return found
	}
	n := 0
	for _, typ := range []string{"tran", "ReadTran", "UpdateTran"} {
		for _, m := range p.MethodsOf("db19", typ) {
			fs := p.Src(m)
			if fs == nil || fs.Body == nil {
				continue
			}
			info := fs.Info()
			ForEachNode(fs, func(nd ast.Node) {
				call, ok := nd.(*ast.CallExpr)
				if !ok {
					return
				}
				cal := Callee(info, call)
				if cal == nil || cal.Pkg() == nil || !strings.HasSuffix(cal.Pkg().Path(), "db19/meta") {
					return
				}
				sig, _ := cal.Type().(*types.Signature)
				if sig == nil || sig.Recv() == nil || c17NamedOf(sig.Recv().Type()) == nil || c17NamedOf(sig.Recv().Type()).Obj().Name() != "Meta" {
					return
				}
				cs := p.Src(cal)
				if cs == nil || cs.Body == nil || !reads(cs, infoF) {
					return
				}
				n++
				c.Obl(rule, "db19."+typ+"."+m.Name()+" → Meta."+cal.Name()+" consults the transaction's own Infos", p.Pos(call), reads(cs, difF),
					"Meta."+cal.Name()+" reads Meta.info but not Meta.difInfo: inside an update transaction it reports row counts and sizes without the transaction's own writes, while GetInfo reports them")
			})
		}
	}
	c.Floor(rule, n, 2, "Info accessors of transactions")
}

package main

// C09 index iteration — one clause: an ixbuf iterator must notice every change of the
// buffer it walks (modCount), and OverIter.Next/Prev must re-fetch the transaction's
// current overlay before they move any of their source iterators.
//
// This file also holds the storage-alias walker shared with C11 (which slice / pointer
// expression's referent does a store write, and where does that expression come from).

import (
	"fmt"
	"go/ast"
	"go/constant"
	"go/token"
	"go/types"
	"sort"
	"strings"
)

func init() { register("C09", checkC09, "./db19/index/...") }

// ---------------------------------------------------------------- storage aliases

// storeBase returns the slice / pointer / map expression whose referent is written by a
// store to lhs (nil for a plain variable):
//
//	x.f[i] = v, x.f[i].g = v  → x.f        (element of the backing array of x.f)
//	p.f = v (p pointer)       → p
//	*p = v                    → p
//	s.g = v (s struct value)  → storeBase(s)
func storeBase(info *types.Info, lhs ast.Expr) ast.Expr {
	e := ast.Unparen(lhs)
	switch x := e.(type) {
	case *ast.IndexExpr:
		t := info.TypeOf(x.X)
		if t == nil {
			return nil
		}
		switch t.Underlying().(type) {
		case *types.Array:
			return storeBase(info, x.X)
		default: // slice, map, pointer to array
			return x.X
		}
	case *ast.SelectorExpr:
		if FieldOf(info, x) == nil {
			return nil // package-level variable
		}
		if t := info.TypeOf(x.X); t != nil {
			if _, ok := t.Underlying().(*types.Pointer); ok {
				return x.X
			}
		}
		return storeBase(info, x.X)
	case *ast.StarExpr:
		return x.X
	}
	return nil
}

type aliasDef struct {
	rhs  ast.Expr
	elem bool // the variable receives an element of rhs (range value)
	key  bool // the variable receives a key/index of rhs (never an alias)
}

// aliasDefs: local variable → definitions (like buildDefs, but range keys / values are
// told apart from plain assignments).
func aliasDefs(fs *FuncSrc) map[types.Object][]aliasDef {
	out := map[types.Object][]aliasDef{}
	info := fs.Info()
	root := fs.Outer()
	if root.Body == nil {
		return out
	}
	add := func(lhs ast.Expr, d aliasDef) {
		id, ok := ast.Unparen(lhs).(*ast.Ident)
		if !ok {
			return
		}
		o := info.Defs[id]
		if o == nil {
			o = info.Uses[id]
		}
		if o != nil {
			out[o] = append(out[o], d)
		}
	}
	ast.Inspect(root.Body, func(n ast.Node) bool {
		switch s := n.(type) {
		case *ast.AssignStmt:
			if len(s.Lhs) == len(s.Rhs) {
				for i := range s.Lhs {
					add(s.Lhs[i], aliasDef{rhs: s.Rhs[i]})
				}
			} else if len(s.Rhs) == 1 {
				for i := range s.Lhs {
					add(s.Lhs[i], aliasDef{rhs: s.Rhs[0]})
				}
			}
		case *ast.ValueSpec:
			if len(s.Names) == len(s.Values) {
				for i := range s.Names {
					add(s.Names[i], aliasDef{rhs: s.Values[i]})
				}
			} else if len(s.Values) == 1 {
				for i := range s.Names {
					add(s.Names[i], aliasDef{rhs: s.Values[0]})
				}
			}
		case *ast.RangeStmt:
			if s.Key != nil {
				add(s.Key, aliasDef{rhs: s.X, key: true})
			}
			if s.Value != nil {
				add(s.Value, aliasDef{rhs: s.X, elem: true})
			}
		}
		return true
	})
	return out
}

// aliasRoot is a terminal of the alias walk.
type aliasRoot struct {
	Kind  string // fresh | nil | field | param | elem | var | call | other
	Expr  ast.Expr
	Field *types.Var
	Obj   types.Object
}

type aliasWalk struct {
	fs           *FuncSrc
	defs         map[types.Object][]aliasDef
	throughElems bool                     // follow element loads X[i] into X (reachability) instead of stopping
	fresh        func(f *types.Func) bool // callees whose result is freshly allocated
}

// roots returns where the storage referred to by the slice / pointer expression e comes
// from, following only alias-preserving steps: x[i:j], &x[i] (→ x), &x.f, *p, append(x, …)
// (→ x), local variables (→ all their definitions).
func (w *aliasWalk) roots(e ast.Expr) []aliasRoot {
	var out []aliasRoot
	seen := map[types.Object]bool{}
	info := w.fs.Info()
	var rec func(e ast.Expr)
	rec = func(e ast.Expr) {
		e = ast.Unparen(e)
		switch x := e.(type) {
		case *ast.SliceExpr:
			rec(x.X)
		case *ast.StarExpr:
			rec(x.X)
		case *ast.UnaryExpr:
			if x.Op == token.AND {
				if b := storeBase(info, x.X); b != nil {
					rec(b)
				} else {
					out = append(out, aliasRoot{Kind: "fresh", Expr: e}) // &local / &T{}
				}
				return
			}
			out = append(out, aliasRoot{Kind: "other", Expr: e})
		case *ast.CompositeLit:
			out = append(out, aliasRoot{Kind: "fresh", Expr: e})
		case *ast.IndexExpr:
			if w.throughElems {
				rec(x.X)
				return
			}
			out = append(out, aliasRoot{Kind: "elem", Expr: e})
		case *ast.SelectorExpr:
			if f := FieldOf(info, x); f != nil {
				out = append(out, aliasRoot{Kind: "field", Expr: e, Field: f})
				if w.throughElems {
					// a field of a struct value reached through another field (it.ib.chunks)
					// is still that field; nothing more to follow
				}
				return
			}
			out = append(out, aliasRoot{Kind: "var", Expr: e, Obj: info.Uses[x.Sel]})
		case *ast.CallExpr:
			if IsBuiltin(info, x, "append") && len(x.Args) > 0 {
				rec(x.Args[0])
				return
			}
			if IsBuiltin(info, x, "make") || IsBuiltin(info, x, "new") {
				out = append(out, aliasRoot{Kind: "fresh", Expr: e})
				return
			}
			if tv, ok := info.Types[x.Fun]; ok && tv.IsType() && len(x.Args) == 1 {
				rec(x.Args[0]) // conversion keeps the storage
				return
			}
			if f := Callee(info, x); f != nil && w.fresh != nil && w.fresh(f) {
				out = append(out, aliasRoot{Kind: "fresh", Expr: e})
				return
			}
			out = append(out, aliasRoot{Kind: "call", Expr: e})
		case *ast.Ident:
			if isNilIdent(info, x) {
				out = append(out, aliasRoot{Kind: "nil", Expr: e})
				return
			}
			o := info.Uses[x]
			if o == nil {
				o = info.Defs[x]
			}
			v, isVar := o.(*types.Var)
			if !isVar {
				out = append(out, aliasRoot{Kind: "other", Expr: e})
				return
			}
			if seen[o] {
				return
			}
			seen[o] = true
			ds := w.defs[o]
			if len(ds) == 0 {
				if v.Parent() != nil && v.Parent().Parent() == types.Universe {
					out = append(out, aliasRoot{Kind: "var", Expr: e, Obj: o})
				} else if isParamOf(w.fs, v) {
					out = append(out, aliasRoot{Kind: "param", Expr: e, Obj: o})
				} else {
					out = append(out, aliasRoot{Kind: "nil", Expr: e, Obj: o}) // declared, never assigned: zero value
				}
				return
			}
			if isParamOf(w.fs, v) {
				out = append(out, aliasRoot{Kind: "param", Expr: e, Obj: o})
			}
			for _, d := range ds {
				switch {
				case d.key:
				case d.elem:
					if w.throughElems {
						rec(d.rhs)
					} else {
						out = append(out, aliasRoot{Kind: "elem", Expr: d.rhs})
					}
				default:
					rec(d.rhs)
				}
			}
		default:
			out = append(out, aliasRoot{Kind: "other", Expr: e})
		}
	}
	rec(e)
	return out
}

// isParamOf: v is a parameter, result or receiver of fs's outermost function or of one
// of the literals around it.
func isParamOf(fs *FuncSrc, v *types.Var) bool {
	for f := fs; f != nil; f = f.Parent {
		var sig *types.Signature
		if f.Obj != nil {
			sig, _ = f.Obj.Type().(*types.Signature)
		} else if f.Lit != nil {
			sig, _ = f.Info().TypeOf(f.Lit).(*types.Signature)
		}
		if sig == nil {
			continue
		}
		if sig.Recv() == v {
			return true
		}
		for i := 0; i < sig.Params().Len(); i++ {
			if sig.Params().At(i) == v {
				return true
			}
		}
		for i := 0; i < sig.Results().Len(); i++ {
			if sig.Results().At(i) == v {
				return true
			}
		}
	}
	return false
}

// storeTargets lists, for one statement / call node, the slice or pointer expressions
// whose referent the node may write: assignment and inc/dec targets, the destination of
// copy, the first argument of append (append writes in place when capacity allows),
// clear.
func storeTargets(info *types.Info, n ast.Node) []ast.Expr {
	var out []ast.Expr
	switch s := n.(type) {
	case *ast.AssignStmt:
		for _, l := range s.Lhs {
			if b := storeBase(info, l); b != nil {
				out = append(out, b)
			}
		}
	case *ast.IncDecStmt:
		if b := storeBase(info, s.X); b != nil {
			out = append(out, b)
		}
	case *ast.CallExpr:
		if (IsBuiltin(info, s, "copy") || IsBuiltin(info, s, "append") || IsBuiltin(info, s, "clear")) && len(s.Args) > 0 {
			out = append(out, s.Args[0])
		}
	}
	return out
}

// ownerOf returns the variable a selector chain is rooted in (ib in ib.chunks[i].key).
func ownerOf(info *types.Info, e ast.Expr) types.Object {
	for {
		e = ast.Unparen(e)
		switch x := e.(type) {
		case *ast.SelectorExpr:
			if FieldOf(info, x) == nil {
				return info.Uses[x.Sel]
			}
			e = x.X
		case *ast.IndexExpr:
			e = x.X
		case *ast.SliceExpr:
			e = x.X
		case *ast.StarExpr:
			e = x.X
		case *ast.Ident:
			if o := info.Uses[x]; o != nil {
				return o
			}
			return info.Defs[x]
		default:
			return nil
		}
	}
}

// ---------------------------------------------------------------- C09

func checkC09(c *Ctx) string {
	p := c.P
	const pkIxbuf, pkIndex = "db19/index/ixbuf", "db19/index"
	r1 := "C09.1 K6+K3 every mutation of an ixbuf's chunks/size bumps modCount (or is reached only from a function that does)"
	chunks := p.Field(pkIxbuf, "ixbuf", "chunks")
	size := p.Field(pkIxbuf, "ixbuf", "size")
	modCount := p.Field(pkIxbuf, "ixbuf", "modCount")
	itMod := p.Field(pkIxbuf, "Iterator", "modCount")
	if !c.need(r1, "field ixbuf.ixbuf.chunks", chunks) || !c.need(r1, "field ixbuf.ixbuf.size", size) ||
		!c.need(r1, "field ixbuf.ixbuf.modCount", modCount) || !c.need(r1, "field ixbuf.Iterator.modCount", itMod) {
		return "anchors missing"
	}

	// ---- 1. mutators, discovered by effect
	type mutator struct {
		fs     *FuncSrc
		events map[ast.Node]types.Object // node → the ixbuf variable it changes (nil = unknown)
	}
	var muts []*mutator
	for _, fs := range p.FuncsIn(pkIxbuf) {
		if fs.Body == nil {
			continue
		}
		info := fs.Info()
		w := &aliasWalk{fs: fs, defs: aliasDefs(fs), throughElems: true}
		m := &mutator{fs: fs, events: map[ast.Node]types.Object{}}
		ForEachNode(fs, func(n ast.Node) {
			// direct stores to the fields
			switch s := n.(type) {
			case *ast.AssignStmt:
				for _, l := range s.Lhs {
					if f := lhsField(info, l, true); f == chunks || f == size {
						m.events[n] = ownerOf(info, l)
						return
					}
				}
			case *ast.IncDecStmt:
				if f := lhsField(info, s.X, true); f == chunks || f == size {
					m.events[n] = ownerOf(info, s.X)
					return
				}
			}
			// stores through something that aliases the chunk list or one of its chunks
			for _, b := range storeTargets(info, n) {
				for _, r := range w.roots(b) {
					if r.Kind == "field" && r.Field == chunks {
						m.events[n] = ownerOf(info, r.Expr)
						return
					}
				}
			}
		})
		if len(m.events) > 0 {
			muts = append(muts, m)
		}
	}
	c.Floor(r1, len(muts), 3, "functions of package ixbuf that change ixbuf.chunks / ixbuf.size (Clear, Insert, remove)")

	objID := func(o types.Object) string { return fmt.Sprintf("%p", o) }
	bumpEv := func(fs *FuncSrc, n ast.Node) []string {
		var target ast.Expr
		switch s := n.(type) {
		case *ast.IncDecStmt:
			if s.Tok == token.INC {
				target = s.X
			}
		case *ast.AssignStmt:
			if s.Tok == token.ADD_ASSIGN && len(s.Lhs) == 1 && len(s.Rhs) == 1 {
				if v := ConstVal(fs.Info(), s.Rhs[0]); v != nil && v.Kind() == constant.Int && constant.Sign(v) > 0 {
					target = s.Lhs[0]
				}
			}
		}
		if target == nil || FieldOf(fs.Info(), target) != modCount {
			return nil
		}
		return []string{"bump:" + objID(ownerOf(fs.Info(), target))}
	}
	for _, m := range muts {
		fs := m.fs
		evNode := func(f *FuncSrc, n ast.Node) []string {
			if o, ok := m.events[n]; ok {
				return []string{"mut:" + objID(o)}
			}
			return nil
		}
		fl := &Flow{P: p, Node: combine(evNode, bumpEv)}
		res := fl.Analyze(fs)
		nsites, bad := 0, []*Site{}
		selfBumps := false
		for _, s := range res.Sites {
			if !strings.HasPrefix(s.Label, "mut:") {
				continue
			}
			nsites++
			b := "bump:" + strings.TrimPrefix(s.Label, "mut:")
			if s.Before.Has(b) || s.Follows(b) {
				selfBumps = true
			} else {
				bad = append(bad, s)
			}
		}
		if nsites < len(m.events) {
			// an event inside a literal the path engine does not splice: be conservative
			bad = append(bad, &Site{Node: fs.Body})
		}
		if len(bad) == 0 {
			c.Obl(r1, fs.name+": every change of chunks/size is paired with modCount++ on the same ixbuf", p.Pos(fs.Decl), true, "")
			continue
		}
		if selfBumps {
			c.Obl(r1, fs.name+": every change of chunks/size is paired with modCount++ on the same ixbuf", p.Pos(bad[0].Node), false,
				fmt.Sprintf("%d of %d changes of the buffer's chunks/size in %s are on a path without modCount++: an Iterator positioned in the buffer keeps using stale chunk/slot indexes (Modified() stays false)", len(bad), nsites, fs.name))
			continue
		}
		// no bump of its own: every caller must bump around the call, on the receiver it passes;
		// that is only decidable for unexported functions (all callers are in the loaded package)
		if fs.Obj.Exported() {
			c.Obl(r1, fs.name+": every change of chunks/size is paired with modCount++ on the same ixbuf", p.Pos(bad[0].Node), false,
				fs.name+" is exported, changes the buffer's chunks/size and never bumps modCount: an Iterator positioned in the buffer keeps using stale chunk/slot indexes (Modified() stays false)")
			continue
		}
		sites := p.CallersOf(fs.Obj)
		okAll, why, pos := true, "", p.Pos(fs.Decl)
		for _, cs := range sites {
			if cs.Call == nil {
				okAll, why, pos = false, "referenced as a value in "+cs.Fn.name, p.Pos(cs.In.Body)
				break
			}
			var recvObj types.Object
			if sel, ok := ast.Unparen(cs.Call.Fun).(*ast.SelectorExpr); ok {
				recvObj = ownerOf(cs.Fn.Info(), sel.X)
			}
			fl := &Flow{P: p, Node: combine(Labeler(CallOf("call", fs.Obj)), bumpEv)}
			cres := fl.Analyze(cs.Fn)
			found := false
			for _, s := range cres.Of("call") {
				if s.Node == ast.Node(cs.Call) {
					found = true
					b := "bump:" + objID(recvObj)
					if !(s.Before.Has(b) || s.Follows(b)) {
						okAll, why, pos = false, "called from "+cs.Fn.name+" on a path without modCount++ on the same ixbuf", p.Pos(cs.Call)
					}
				}
			}
			if !found {
				okAll, why, pos = false, "called from "+cs.In.name+" where the path engine cannot place the call", p.Pos(cs.Call)
			}
		}
		d := ""
		if !okAll {
			d = fs.name + " changes the buffer's chunks/size and is " + why + ": iterators over the buffer do not notice the change"
		}
		c.Obl(r1, fs.name+": changes chunks/size without bumping modCount itself, so every caller bumps it around the call", pos, okAll, d)
	}

	// ---- 2. the iterator side of the counter
	r2 := "C09.2 K14+K11 Iterator.Modified compares the iterator's snapshot of modCount with the buffer's"
	if fs := c.method(r2, pkIxbuf, "Iterator", "Modified"); fs != nil {
		var bad []string
		for _, xy := range [][2]int64{{1, 1}, {1, 2}, {2, 1}, {0, 7}} {
			env := &AbsEnv{Info: fs.Info(), Atom: func(e ast.Expr) (constant.Value, bool) {
				switch FieldOf(fs.Info(), e) {
				case itMod:
					return constant.MakeInt64(xy[0]), true
				case modCount:
					return constant.MakeInt64(xy[1]), true
				}
				return nil, false
			}}
			got := env.run(fs.Body)
			want := xy[0] != xy[1]
			if got.Unknown != "" || got.Panics || len(got.Returns) != 1 || got.Returns[0] == nil || got.Returns[0].Kind() != constant.Bool || constant.BoolVal(got.Returns[0]) != want {
				bad = append(bad, fmt.Sprintf("Iterator.modCount=%d ixbuf.modCount=%d: want %v, got %+v", xy[0], xy[1], want, got))
			}
		}
		c.Obl(r2, "Iterator.Modified() == (it.modCount != it.ib.modCount)", p.Pos(fs.Decl), len(bad) == 0,
			"OverIter re-seeks a source iterator only when Modified() reports the buffer changed: "+strings.Join(bad, "; "))
	}
	nst := 0
	for _, fs := range p.FuncsIn(pkIxbuf) {
		info := fs.Info()
		ForEachNode(fs, func(n ast.Node) {
			switch s := n.(type) {
			case *ast.AssignStmt:
				for i, l := range s.Lhs {
					if lhsField(info, l, false) != itMod {
						continue
					}
					nst++
					ok := s.Tok == token.ASSIGN && len(s.Lhs) == len(s.Rhs) && FieldOf(info, s.Rhs[i]) == modCount
					c.Obl(r2, fs.name+": Iterator.modCount is set from the buffer's modCount", p.Pos(s), ok,
						"the iterator's snapshot of the modification counter is assigned something other than ixbuf.modCount: Modified() no longer means 'changed since the last seek'")
				}
			case *ast.IncDecStmt:
				if lhsField(info, s.X, false) == itMod {
					nst++
					c.Obl(r2, fs.name+": Iterator.modCount is set from the buffer's modCount", p.Pos(s), false, "inc/dec of the iterator's snapshot")
				}
			case *ast.KeyValueExpr:
				if id, ok := s.Key.(*ast.Ident); ok && info.Uses[id] == types.Object(itMod) {
					nst++
					c.Obl(r2, fs.name+": Iterator.modCount is set from the buffer's modCount", p.Pos(s), FieldOf(info, s.Value) == modCount,
						"a new Iterator starts with a snapshot that is not the buffer's modCount")
				}
			}
		})
	}
	c.Floor(r2, nst, 2, "stores to Iterator.modCount (Iterator(), SeekAll)")

	// ---- 3. OverIter.Next / Prev re-fetch the overlay before they move
	r3 := "C09.3 K4 OverIter.Next/Prev fetch the transaction's current overlay before touching their source iterators"
	iters := p.Field(pkIndex, "OverIter", "iters")
	overlayF := p.Field(pkIndex, "OverIter", "overlay")
	getIndexI := p.IfaceMethod(pkIndex, "oiTran", "GetIndexI")
	if c.need(r3, "field index.OverIter.iters", iters) && c.need(r3, "field index.OverIter.overlay", overlayF) && c.need(r3, "interface method index.oiTran.GetIndexI", getIndexI) {
		// functions of the package that (transitively) use OverIter.iters
		touch := map[*types.Func]bool{}
		fns := p.FuncsIn(pkIndex)
		for _, fs := range fns {
			ForEachNode(fs, func(n ast.Node) {
				if sel, ok := n.(*ast.SelectorExpr); ok && FieldOf(fs.Info(), sel) == iters {
					touch[fs.Obj] = true
				}
			})
		}
		for changed := true; changed; {
			changed = false
			for _, fs := range fns {
				if touch[fs.Obj] {
					continue
				}
				ForEachNode(fs, func(n ast.Node) {
					if call, ok := n.(*ast.CallExpr); ok {
						if f := Callee(fs.Info(), call); f != nil && touch[f] && !touch[fs.Obj] {
							touch[fs.Obj] = true
							changed = true
						}
					}
				})
			}
		}
		c.Floor(r3, len(touch), 8, "functions of package index that use OverIter.iters")
		evTouch := Ev{"touch", func(fs *FuncSrc, n ast.Node) bool {
			switch x := n.(type) {
			case *ast.CallExpr:
				f := Callee(fs.Info(), x)
				return f != nil && touch[f]
			case *ast.SelectorExpr:
				return FieldOf(fs.Info(), x) == iters
			}
			return false
		}}
		for _, name := range []string{"Next", "Prev"} {
			fs := c.method(r3, pkIndex, "OverIter", name)
			if fs == nil {
				continue
			}
			fl := &Flow{P: p, Depth: 2, Node: Labeler(CallOf("GetIndexI", getIndexI), evTouch)}
			res := fl.Analyze(fs)
			fetchNodes := map[ast.Node]bool{}
			for _, s := range res.Of("GetIndexI") {
				fetchNodes[s.Node] = true
			}
			c.Obl(r3, fs.name+": fetches the overlay through oiTran.GetIndexI", p.Pos(fs.Decl), len(fetchNodes) > 0,
				"the iterator never asks the transaction for the index's current overlay: changes made by the transaction after the iterator was created are not seen")
			nt := 0
			for _, s := range res.Of("touch") {
				if fetchNodes[s.Node] {
					// the fetching call itself (update → newIters) installs the new iterators
					par := parentMap(fs.Body)
					_, dropped := par[s.Node].(*ast.ExprStmt)
					if call, ok := s.Node.(*ast.CallExpr); ok {
						if f := Callee(fs.Info(), call); f != nil {
							if sig := f.Type().(*types.Signature); sig.Results().Len() > 0 {
								c.Obl(r3, fs.name+": the result of the overlay fetch ('iterators were replaced') is used", p.Pos(s.Node), !dropped,
									"the 'overlay changed' verdict is dropped: the fresh source iterators are stepped instead of being re-sought to the current key")
							}
						}
					}
					continue
				}
				nt++
				c.Obl(r3, fs.name+": source iterators are used only after the overlay fetch", p.Pos(s.Node), s.Before.Has("GetIndexI"),
					"a path reaches a use of OverIter.iters (directly or through "+exprStr(callFunOf(s.Node))+") before oiTran.GetIndexI was consulted: the move is made on the iterators of a stale overlay")
			}
			c.Floor(r3, nt, 3, "uses of the source iterators in "+fs.name)
		}
		// the fetching function installs new iterators unless the overlay is unchanged
		nfetch := 0
		for _, fs := range fns {
			if len(p.CallsIn(fs, getIndexI)) == 0 {
				continue
			}
			nfetch++
			evFetch := CallOf("GetIndexI", getIndexI)
			defs := buildDefs(fs)
			var edge func(f *FuncSrc, cond ast.Expr, truth bool) []string
			edge = func(f *FuncSrc, cond ast.Expr, truth bool) []string {
				cond = ast.Unparen(cond)
				if id, ok := cond.(*ast.Ident); ok {
					// a boolean local with a single definition stands for that definition
					if o := f.Info().Uses[id]; o != nil && len(defs.defs[o]) == 1 {
						var facts []condFact
						condFacts(defs.defs[o][0], truth, &facts)
						var out []string
						for _, cf := range facts {
							if _, again := ast.Unparen(cf.e).(*ast.Ident); !again {
								out = append(out, edge(f, cf.e, cf.truth)...)
							}
						}
						return out
					}
					return nil
				}
				be, ok := cond.(*ast.BinaryExpr)
				if !ok || be.Op != token.EQL && be.Op != token.NEQ {
					return nil
				}
				x, y := be.X, be.Y
				for i := 0; i < 2; i++ {
					if defs.MentionsEv(f, x, evFetch) && FieldOf(f.Info(), y) == overlayF {
						if (be.Op == token.EQL) == truth {
							return []string{"@sameOverlay"}
						}
						return []string{"@newOverlay"}
					}
					x, y = y, x
				}
				return nil
			}
			fl := &Flow{P: p, Depth: 1, Node: Labeler(evFetch, StoreTo("iters=", false, iters), StoreTo("overlay=", false, overlayF)), Edge: edge,
				Implies: map[string][]string{"@sameOverlay": {"iters-current", "overlay-current"}, "iters=": {"iters-current"}, "overlay=": {"overlay-current"}}}
			res := fl.Analyze(fs)
			nr := 0
			for _, r := range res.Returns {
				if !r.Before.Has("GetIndexI") {
					continue // a return before the fetch (stick at eof)
				}
				nr++
				ok := r.Before.Has("iters-current") && r.Before.Has("overlay-current")
				c.Obl(r3, fs.name+": after the fetch it returns only with the overlay unchanged or with new source iterators and the overlay remembered", p.Pos(r.Node), ok,
					"after GetIndexI returned a different overlay the function can return without replacing OverIter.iters and OverIter.overlay: iteration continues over the old layers")
			}
			c.Floor(r3, nr, 2, "returns after the fetch in "+fs.name)
		}
		c.Floor(r3, nfetch, 1, "functions of package index calling oiTran.GetIndexI")
	}
	var names []string
	for _, m := range muts {
		names = append(names, m.fs.name)
	}
	sort.Strings(names)
	checkOverIterModeCopy(c, "C09.4 K9 the mode an OverIter remembers equals the mode of its sources")
	return "Static shape of iterator invalidation. Decided: (1) the functions of package ixbuf that store to ixbuf.chunks / ixbuf.size or through a slice / slot pointer that aliases the chunk list (" +
		strings.Join(names, ", ") + ") pair every such store with modCount++ on the same buffer (before it, or on every normal path after it), or have no bump of their own and are called only at sites that are paired with one; " +
		"(2) Iterator.Modified is evaluated over 4 counter pairs against 'snapshot != buffer counter', and every store to the snapshot takes the buffer's counter; " +
		"(3) in OverIter.Next and Prev every use of the source iterators (directly or through a function of the package that uses OverIter.iters) is preceded on every path by oiTran.GetIndexI, the verdict of the fetch is used, " +
		"and the fetching function returns only on the same-overlay edge or after storing OverIter.iters and OverIter.overlay. " +
		"Not decided: the k-way merge of the layers, tombstone handling, the fast path, skip-scan, btree iterators."
}

func callFunOf(n ast.Node) ast.Expr {
	if call, ok := n.(*ast.CallExpr); ok {
		return call.Fun
	}
	if e, ok := n.(ast.Expr); ok {
		return e
	}
	return &ast.Ident{Name: "?"}
}

package main

import (
	"fmt"
	"go/ast"
	"go/constant"
	"go/token"
	"go/types"
	"sort"
	"strings"
)

func init() { register("C15", checkC15, "./util/hamt/...", "./db19/meta/...") }

func checkC15(c *Ctx) string {
	p := c.P
	r0 := "C15.0 anchors"
	nodeT := p.NamedType("util/hamt", "node")
	hamtT := p.NamedType("util/hamt", "Hamt")
	genF := p.Field("util/hamt", "node", "generation")
	hGenF := p.Field("util/hamt", "Hamt", "generation")
	hRootF := p.Field("util/hamt", "Hamt", "root")
	hMutF := p.Field("util/hamt", "Hamt", "mutable")
	dupFn := p.DeclaredMethod("util/hamt", "node", "dup")
	withFn := p.DeclaredMethod("util/hamt", "node", "with")
	withoutFn := p.DeclaredMethod("util/hamt", "node", "without")
	pullUpFn := p.DeclaredMethod("util/hamt", "node", "pullUp")
	mutableFn := p.DeclaredMethod("util/hamt", "Hamt", "Mutable")
	freezeFn := p.DeclaredMethod("util/hamt", "Hamt", "Freeze")
	putFn := p.DeclaredMethod("util/hamt", "Hamt", "Put")
	deleteFn := p.DeclaredMethod("util/hamt", "Hamt", "Delete")
	ok := true
	for n, v := range map[string]any{"hamt.node": nodeT, "hamt.Hamt": hamtT, "hamt.node.generation": genF, "hamt.Hamt.generation": hGenF,
		"hamt.Hamt.root": hRootF, "hamt.Hamt.mutable": hMutF, "hamt.node.dup": dupFn, "hamt.node.with": withFn, "hamt.node.without": withoutFn,
		"hamt.node.pullUp": pullUpFn, "hamt.Hamt.Mutable": mutableFn, "hamt.Hamt.Freeze": freezeFn, "hamt.Hamt.Put": putFn, "hamt.Hamt.Delete": deleteFn} {
		if !c.need(r0, n, v) {
			ok = false
		}
	}
	if !ok {
		return "anchors missing"
	}
	src := newDbImmutMode(c, r0, false, false)
	if src == nil {
		return "anchors missing"
	}
	eng := src.eng
	if rf := p.Func("db19/meta", "replace"); rf != nil {
		eng.NoMut[rf] = "copy on first write (shape checked by C02)"
	}
	eng.Solve(nil)

	isNodePtr := func(t types.Type) bool {
		pt, ok := t.(*types.Pointer)
		if !ok {
			return false
		}
		nt, ok := types.Unalias(pt.Elem()).(*types.Named)
		return ok && nt.Origin() == nodeT
	}
	isHamt := func(t types.Type) bool {
		if t == nil {
			return false
		}
		nt, ok := types.Unalias(t).(*types.Named)
		return ok && nt.Origin() == hamtT
	}

	// ---- 1. every write into a node goes through an owned node
	r1 := "C15.1 K4c a trie node is written only if it is fresh, a dup, or of the current generation"
	guardParam := map[*types.Func]int{} // function -> index of its generation parameter
	nsinks := 0
	type nsink struct {
		sk  *imSink
		obj types.Object
		ok  bool
	}
	// ownedRet: functions whose first result is always a node the caller may write (fresh, dup'ed
	// or generation-checked): dup, and by fixpoint with/without/pullUp or a helper extracted from them
	ownedRet := map[*types.Func]bool{dupFn: true}
	analyse := func(fs *FuncSrc) (sinks []nsink, retOwned bool) {
		info := fs.Info()
		f := eng.funcOf(fs)
		sinkIdx := map[ast.Node][]int{}
		for _, sk := range f.sinks {
			if sk.base == nil {
				continue
			}
			root := rootIdent(sk.base)
			if root == nil {
				continue
			}
			o := info.Uses[root]
			if o == nil || !isNodePtr(o.Type()) {
				continue
			}
			sinkIdx[sk.node] = append(sinkIdx[sk.node], len(sinks))
			sinks = append(sinks, nsink{sk: sk, obj: o})
		}
		sig := fs.Obj.Type().(*types.Signature)
		returnsNode := sig.Results().Len() > 0 && isNodePtr(sig.Results().At(0).Type())
		if len(sinks) == 0 && !returnsNode {
			return nil, false
		}
		paramIdx := func(o types.Object) int {
			for i := 0; i < sig.Params().Len(); i++ {
				if types.Object(sig.Params().At(i)) == o {
					return i
				}
			}
			return -1
		}
		implies := map[string][]string{}
		ast.Inspect(fs.Body, func(n ast.Node) bool {
			if id, ok := n.(*ast.Ident); ok {
				if o := ObjOf(info, id); o != nil && isNodePtr(o.Type()) {
					k := objKey(o)
					implies["own:"+k] = []string{"ok:" + k}
					implies["@gen:"+k] = []string{"ok:" + k}
				}
			}
			return true
		})
		ownedExpr := func(e ast.Expr) bool {
			switch r := ast.Unparen(e).(type) {
			case *ast.Ident:
				return isNilIdent(info, r) // a nil node cannot be written
			case *ast.UnaryExpr:
				_, isLit := ast.Unparen(r.X).(*ast.CompositeLit)
				return isLit && r.Op == token.AND
			case *ast.CallExpr:
				cal := Callee(info, r)
				return cal != nil && ownedRet[cal]
			}
			return false
		}
		node := func(_ *FuncSrc, n ast.Node) []string {
			var out []string
			for _, i := range sinkIdx[n] {
				out = append(out, fmt.Sprintf("K:%d", i))
			}
			as, ok := n.(*ast.AssignStmt)
			if !ok {
				return out
			}
			for i, l := range as.Lhs {
				id, isId := ast.Unparen(l).(*ast.Ident)
				if !isId {
					continue
				}
				o := ObjOf(info, id)
				if o == nil || !isNodePtr(o.Type()) {
					continue
				}
				k := objKey(o)
				owned := false
				switch {
				case len(as.Lhs) == len(as.Rhs):
					owned = ownedExpr(as.Rhs[i])
				case len(as.Rhs) == 1 && i == 0:
					owned = ownedExpr(as.Rhs[0]) // child, item := x.pullUp(gen)
				}
				out = append(out, "-@gen:"+k)
				if owned {
					out = append(out, "own:"+k)
				} else {
					out = append(out, "-own:"+k, "-ok:"+k)
				}
			}
			return out
		}
		edge := func(_ *FuncSrc, cond ast.Expr, truth bool) []string {
			be, ok := cond.(*ast.BinaryExpr)
			if !ok || (be.Op != token.NEQ && be.Op != token.EQL) {
				return nil
			}
			for _, pr := range [][2]ast.Expr{{be.X, be.Y}, {be.Y, be.X}} {
				if fieldOrigin(info, pr[0]) != genF {
					continue
				}
				sel := ast.Unparen(pr[0]).(*ast.SelectorExpr)
				vid, ok := ast.Unparen(sel.X).(*ast.Ident)
				if !ok {
					continue
				}
				vo := ObjOf(info, vid)
				gid, ok := ast.Unparen(pr[1]).(*ast.Ident)
				if !ok || vo == nil || !isNodePtr(vo.Type()) {
					continue
				}
				gi := paramIdx(ObjOf(info, gid))
				if gi < 0 {
					continue
				}
				guardParam[fs.Obj] = gi
				if (be.Op == token.EQL) == truth {
					return []string{"@gen:" + objKey(vo)}
				}
			}
			return nil
		}
		fl := &Flow{P: p, Node: node, Edge: edge, Implies: implies}
		res := fl.Analyze(fs)
		for i := range sinks {
			sites := res.Of(fmt.Sprintf("K:%d", i))
			okk := len(sites) > 0
			for _, s := range sites {
				if !s.Before.Has("ok:" + objKey(sinks[i].obj)) {
					okk = false
				}
			}
			sinks[i].ok = okk
		}
		retOwned = returnsNode
		nret := 0
		for _, r := range res.Returns {
			if r.Fn != fs {
				continue
			}
			nret++
			if len(r.Node.Results) == 0 {
				retOwned = false
				continue
			}
			e := r.Node.Results[0]
			if id, isId := ast.Unparen(e).(*ast.Ident); isId && !isNilIdent(info, id) {
				if o := ObjOf(info, id); o == nil || !r.Before.Has("ok:"+objKey(o)) {
					retOwned = false
				}
			} else if !ownedExpr(e) {
				retOwned = false
			}
		}
		if nret == 0 {
			retOwned = false
		}
		return sinks, retOwned
	}
	hamtFns := p.FuncsIn("util/hamt")
	for iter := 0; iter < 5; iter++ {
		changed := false
		for _, fs := range hamtFns {
			if fs.Body == nil || fs.Obj == nil || ownedRet[fs.Obj] {
				continue
			}
			if _, ro := analyse(fs); ro {
				ownedRet[fs.Obj] = true
				changed = true
			}
		}
		if !changed {
			break
		}
	}
	for _, fs := range hamtFns {
		if fs.Body == nil || fs.Obj == nil {
			continue
		}
		sinks, _ := analyse(fs)
		for _, ns := range sinks {
			nsinks++
			c.Obl(r1, fs.name+": "+ns.sk.kind+" "+ns.sk.what, p.Pos(ns.sk.node), ns.ok,
				"the node "+ns.obj.Name()+" is written on a path where it is neither a fresh &node{}, nor the result of dup(), nor tested to carry the caller's generation: "+
					"a node shared with an older (frozen, published) version of the map is changed in place")
		}
	}
	c.Floor(r1, nsinks, 25, "writes into trie nodes in util/hamt")

	// a function that hands its own parameter to a guarded function as the generation is guarded by it too
	// (the guard extracted into a helper)
	for iter := 0; iter < 4; iter++ {
		changed := false
		for fn, gi := range guardParam {
			for _, cs := range p.CallersOf(fn) {
				if cs.Call == nil || cs.Fn.Obj == nil || cs.In != cs.Fn {
					continue
				}
				if _, has := guardParam[cs.Fn.Obj]; has {
					continue
				}
				if id, isId := ast.Unparen(callArg(cs.Call, gi)).(*ast.Ident); isId {
					sig := cs.Fn.Obj.Type().(*types.Signature)
					for k := 0; k < sig.Params().Len(); k++ {
						if types.Object(sig.Params().At(k)) == ObjOf(cs.In.Info(), id) {
							guardParam[cs.Fn.Obj] = k
							changed = true
						}
					}
				}
			}
		}
		if !changed {
			break
		}
	}
	c.Floor(r1, len(guardParam), 3, "functions guarded by a generation test, directly or through a helper (with, without, pullUp)")
	// the generation a guarded function compares with is the map's own, handed down unchanged
	r1b := "C15.1 K11 the generation tested by with/without/pullUp is the Hamt's generation"
	ncalls := 0
	var guarded []*types.Func
	for fn := range guardParam {
		guarded = append(guarded, fn)
	}
	sort.Slice(guarded, func(i, j int) bool { return guarded[i].Name() < guarded[j].Name() })
	for _, fn := range guarded {
		gi := guardParam[fn]
		for _, cs := range p.CallersOf(fn) {
			if cs.Call == nil {
				c.Obl(r1b, cs.Fn.name+": "+fn.Name()+" used as a value", p.Pos(cs.In.Body), false, "generation argument cannot be checked")
				continue
			}
			ncalls++
			arg := callArg(cs.Call, gi)
			info := cs.In.Info()
			okk := false
			if fieldOrigin(info, arg) == hGenF {
				okk = true
			} else if id, isId := ast.Unparen(arg).(*ast.Ident); isId && cs.Fn.Obj != nil {
				if cgi, has := guardParam[cs.Fn.Obj]; has {
					okk = types.Object(cs.Fn.Obj.Type().(*types.Signature).Params().At(cgi)) == ObjOf(info, id)
				}
			}
			c.Obl(r1b, cs.Fn.name+" -> "+fn.Name(), p.Pos(cs.Call), okk,
				"the generation passed is "+exprStr(arg)+", neither the Hamt's generation field nor the caller's own generation parameter: the ownership test compares with the wrong generation")
		}
	}
	c.Floor(r1b, ncalls, 7, "calls of with/without/pullUp")

	// ---- 2. Mutable / Freeze
	r2 := "C15.2 K4+K11 Mutable starts a strictly newer generation on a private root; Freeze keeps the generation"
	checkHamtCtor(c, r2, p.Src(mutableFn), func(fs *FuncSrc, lit *ast.CompositeLit, before Set) {
		info := fs.Info()
		defs := buildDefs(fs)
		var genID, rootID *ast.Ident
		mutTrue := false
		for _, el := range lit.Elts {
			kv, ok := el.(*ast.KeyValueExpr)
			if !ok {
				continue
			}
			switch varOrigin(ObjOf(info, kv.Key)) {
			case types.Object(hGenF):
				genID, _ = ast.Unparen(kv.Value).(*ast.Ident)
			case types.Object(hRootF):
				rootID, _ = ast.Unparen(kv.Value).(*ast.Ident)
			case types.Object(hMutF):
				v := ConstVal(info, kv.Value)
				mutTrue = v != nil && v.String() == "true"
			}
		}
		c.Obl(r2, "Mutable: result is marked mutable", p.Pos(lit), mutTrue, "Put/Delete on the result panic")
		newer := false
		if genID != nil {
			ds := defs.defs[ObjOf(info, genID)]
			if len(ds) == 1 {
				if be, ok := ast.Unparen(ds[0]).(*ast.BinaryExpr); ok && be.Op == token.ADD {
					for _, pr := range [][2]ast.Expr{{be.X, be.Y}, {be.Y, be.X}} {
						if fieldOrigin(info, pr[0]) == hGenF {
							if v := ConstVal(info, pr[1]); v != nil && constant.Sign(v) > 0 {
								newer = true
							}
						}
					}
				}
			}
		}
		c.Obl(r2, "Mutable: generation = receiver's generation + positive constant", p.Pos(lit), newer,
			"the new generation is not strictly greater than the frozen map's: nodes of the old version compare equal and are modified in place")
		owned, stamped := false, false
		if rootID != nil && genID != nil {
			k := objKey(ObjOf(info, rootID))
			owned = before.Has("ok:" + k)
			stamped = before.Has("gen=:" + k + "=" + objKeyOf(info, genID))
		}
		c.Obl(r2, "Mutable: root is a fresh node or a dup on every path", p.Pos(lit), owned,
			"the mutable map shares its root node with the frozen one: Put writes the old version")
		c.Obl(r2, "Mutable: root is stamped with the new generation", p.Pos(lit), stamped,
			"the root does not carry the new generation: Put (which ignores the node returned by with) copies the root again and loses the insertion")
	}, genF, dupFn, isNodePtr, isHamt)
	checkHamtCtor(c, r2, p.Src(freezeFn), func(fs *FuncSrc, lit *ast.CompositeLit, _ Set) {
		info := fs.Info()
		keepGen, keepRoot, mut := false, false, false
		for _, el := range lit.Elts {
			kv, ok := el.(*ast.KeyValueExpr)
			if !ok {
				continue
			}
			switch varOrigin(ObjOf(info, kv.Key)) {
			case types.Object(hGenF):
				keepGen = fieldOrigin(info, kv.Value) == hGenF
			case types.Object(hRootF):
				keepRoot = fieldOrigin(info, kv.Value) == hRootF
			case types.Object(hMutF):
				v := ConstVal(info, kv.Value)
				mut = v == nil || v.String() != "false"
			}
		}
		c.Obl(r2, "Freeze: keeps the generation", p.Pos(lit), keepGen,
			"the frozen map forgets its generation: the next Mutable() re-uses a generation that nodes reachable from published versions already carry, and writes them in place")
		c.Obl(r2, "Freeze: keeps the root and is not mutable", p.Pos(lit), keepRoot && !mut, "")
	}, genF, dupFn, isNodePtr, isHamt)
	// no other place makes a Hamt value with a root (a hand-made Hamt could carry any generation)
	nlit := 0
	for _, fs := range p.AllSrcs {
		if fs.Body == nil || fs.Lit != nil {
			continue
		}
		info := fs.Info()
		ForEachNode(fs, func(n ast.Node) {
			lit, ok := n.(*ast.CompositeLit)
			if !ok || !isHamt(info.TypeOf(lit)) || len(lit.Elts) == 0 {
				return
			}
			nlit++
			c.Obl(r2, "Hamt value built in "+fs.name, p.Pos(lit), fs.Obj == mutableFn || fs.Obj == freezeFn,
				"a Hamt with explicit fields is constructed outside Mutable/Freeze: its generation is not tied to the generations of the nodes it reaches")
		})
	}
	c.Floor(r2, nlit, 2, "non-empty Hamt literals (Mutable, Freeze)")
	for _, fld := range []*types.Var{hGenF, hRootF, hMutF} {
		fld := fld
		c.Writers(r2+" (fields of Hamt are never assigned)", "Hamt."+fld.Name(), nil, Ev{"", func(fs *FuncSrc, n ast.Node) bool {
			var lhs []ast.Expr
			switch s := n.(type) {
			case *ast.AssignStmt:
				lhs = s.Lhs
			case *ast.IncDecStmt:
				lhs = []ast.Expr{s.X}
			}
			for _, l := range lhs {
				if v := lhsField(fs.Info(), l, true); v != nil && v.Origin() == fld {
					return true
				}
			}
			return false
		}}, []string{}, 0)
	}
	// a node is stamped only with the generation its function was given (or, in Mutable, the new one: checked above)
	nstamp := 0
	for fs, nodes := range p.FuncsWith([]string{"util/hamt"}, StoreTo("", false, genF)) {
		for _, nd := range nodes {
			as, ok := nd.(*ast.AssignStmt)
			if !ok || len(as.Lhs) != 1 || len(as.Rhs) != 1 {
				continue
			}
			nstamp++
			if fs.Obj == mutableFn {
				continue
			}
			okk := false
			if id, isId := ast.Unparen(as.Rhs[0]).(*ast.Ident); isId && fs.Obj != nil {
				if gi, has := guardParam[fs.Obj]; has {
					okk = types.Object(fs.Obj.Type().(*types.Signature).Params().At(gi)) == ObjOf(fs.Info(), id)
				}
			}
			c.Obl(r2, fs.name+": a node is stamped with the generation the function was given", p.Pos(as), okk,
				"node.generation is set to "+exprStr(as.Rhs[0])+": a node stamped with another generation is later taken for private (or copied needlessly) by a different version of the map")
		}
	}
	c.Floor(r2, nstamp, 2, "stores to node.generation (Mutable and at least one guard)")

	// ---- 3. Put / Delete
	r3 := "C15.3 K4+K8 Put/Delete act only on a mutable map and keep the nodes the recursion returns"
	for _, w := range []struct {
		fn   *types.Func
		call *types.Func
	}{{putFn, withFn}, {deleteFn, withoutFn}} {
		fs := c.src(r3, w.fn, "hamt.Hamt."+w.fn.Name())
		if fs == nil {
			continue
		}
		fl := &Flow{P: p, Node: Labeler(CallOf("descend", w.call)), Edge: func(f *FuncSrc, cond ast.Expr, truth bool) []string {
			if fieldOrigin(f.Info(), cond) == hMutF {
				if truth {
					return []string{"@mutable"}
				}
				return []string{"@immutable"}
			}
			return nil
		}}
		res := fl.Analyze(fs)
		for _, s := range res.Of("descend") {
			c.Obl(r3, w.fn.Name()+": reaches the trie only on the mutable edge", p.Pos(s.Node), s.Before.Has("@mutable"),
				"a frozen (published) map can be modified through "+w.fn.Name())
			call := s.Node.(*ast.CallExpr)
			sel, _ := ast.Unparen(call.Fun).(*ast.SelectorExpr)
			c.Obl(r3, w.fn.Name()+": starts at the map's root with the map's generation", p.Pos(call),
				sel != nil && fieldOrigin(fs.Info(), sel.X) == hRootF && fieldOrigin(fs.Info(), callArg(call, guardParam[w.call])) == hGenF, "")
		}
		c.Floor(r3, len(res.Of("descend")), 1, "descents in "+w.fn.Name())
	}
	nrec := 0
	for _, fs := range p.FuncsIn("util/hamt") {
		if fs.Body == nil {
			continue
		}
		info := fs.Info()
		par := parentMap(fs.Body)
		ForEachNode(fs, func(n ast.Node) {
			call, ok := n.(*ast.CallExpr)
			if !ok {
				return
			}
			cal := Callee(info, call)
			if !sameFunc(cal, withFn) && !sameFunc(cal, withoutFn) && !sameFunc(cal, pullUpFn) {
				return
			}
			sel, _ := ast.Unparen(call.Fun).(*ast.SelectorExpr)
			if sel != nil && fieldOrigin(info, sel.X) == hRootF {
				return // at the root: Mutable made the root a node of this generation, with/without return it unchanged
			}
			nrec++
			used := false
			switch pn := par[call].(type) {
			case *ast.AssignStmt:
				if len(pn.Rhs) == 1 && len(pn.Lhs) >= 1 {
					if id, isId := ast.Unparen(pn.Lhs[0]).(*ast.Ident); !isId || id.Name != "_" {
						used = true
					}
				}
			case *ast.ReturnStmt, *ast.ValueSpec:
				used = true
			}
			c.Obl(r3, fs.name+": node returned by "+cal.Name()+" is kept", p.Pos(call), used,
				"the (possibly copied) child returned by "+cal.Name()+" is dropped: the path copy is lost and the change with it")
		})
	}
	c.Floor(r3, nrec, 5, "recursive descents below the root")

	// ---- 4. dup
	r4 := "C15.4 K12 dup returns a node that shares no slice with the original"
	if fs := c.src(r4, dupFn, "hamt.node.dup"); fs != nil {
		f := eng.funcOf(fs)
		f.solve()
		nret := 0
		for _, r := range f.rets {
			if len(r.results) != 1 {
				continue
			}
			u, ok := ast.Unparen(r.results[0]).(*ast.UnaryExpr)
			if !ok || u.Op != token.AND {
				c.Obl(r4, "dup returns the address of a local copy", p.Pos(r.node), false, "dup returns "+exprStr(r.results[0]))
				continue
			}
			root, key, isPath := f.purePath(u.X)
			if !isPath {
				c.Obl(r4, "dup returns the address of a local copy", p.Pos(r.node), false, "dup returns "+exprStr(r.results[0]))
				continue
			}
			nret++
			before := f.beforeReturn(r.node)
			st, _ := nodeT.Underlying().(*types.Struct)
			for i := 0; st != nil && i < st.NumFields(); i++ {
				fld := st.Field(i)
				if _, isSlice := fld.Type().Underlying().(*types.Slice); !isSlice {
					continue
				}
				f.paths[key+"."+fld.Name()] = root
				t := f.pathTaint(root, key+"."+fld.Name(), before)
				shared := false
				for _, o := range t.zero() {
					if isParamOrigin(o) {
						shared = true
					}
				}
				c.Obl(r4, "dup: "+fld.Name()+" of the copy is a fresh slice", p.Pos(r.node), !shared,
					"the copy keeps the original's "+fld.Name()+" array: element stores into the 'private' copy change the node of the older version")
			}
		}
		c.Floor(r4, nret, 1, "returns of dup")
	}

	// ---- 5. items of the persistent maps are never written
	r5 := "C15.5 K12 items obtained from a persistent map are not modified (copy, modify, Put)"
	nUsers := 0
	for _, fs := range append(p.FuncsIn("db19/meta"), p.FuncsIn("util/hamt")...) {
		if fs.Body == nil || fs.Obj == nil {
			continue
		}
		f := eng.funcOf(fs)
		if !f.callsAny(src.hGet, src.hMustGet, src.hAll, src.hget) {
			continue
		}
		if fs.name == "db19/meta.linkFkeys" {
			continue // frozen: runs on the Meta that ReadMeta has just built, before it is shared (C02.2 checks its callers)
		}
		nUsers++
		var bad []string
		pos := p.Pos(fs.Decl)
		for _, h := range eng.Hits(fs, func(o string) bool { return strings.HasPrefix(o, "s:Hamt.") }) {
			bad = append(bad, eng.describe(h))
			pos = p.Pos(h.Sink.node)
		}
		c.Obl(r5, fs.name, pos, len(bad) == 0, strings.Join(bad, "; ")+ifs(len(bad) > 0, ": the item is shared by every version of the map that contains it"))
	}
	c.Floor(r5, nUsers, 12, "functions of meta/hamt that read items of a persistent map")

	// ---- 6. writing a chain does not modify it
	r6 := "C15.6 K12 WriteChain / Write / Freeze / Mutable leave the map they are called on unchanged"
	for _, m := range []struct{ typ, name string }{{"Chain", "WriteChain"}, {"Hamt", "Write"}, {"Hamt", "Freeze"}, {"Hamt", "Mutable"}, {"Hamt", "Get"}, {"Hamt", "All"}, {"Chain", "Cksum"}} {
		fn := p.DeclaredMethod("util/hamt", m.typ, m.name)
		if !c.need(r6, "hamt."+m.typ+"."+m.name, fn) {
			continue
		}
		why := eng.Mutates(fn, -1)
		d := ""
		if why != nil {
			d = "writes through its receiver: " + why.What + " at " + why.Pos + ": the chain/map held by older states changes"
		}
		c.Obl(r6, funcName(fn)+" does not write through its receiver", p.Pos(p.Src(fn).Decl), why == nil, d)
	}
	// self-check of the effect analysis on the two methods that must write
	for _, fn := range []*types.Func{putFn, deleteFn, withFn} {
		c.Obl(r6+" (self-check)", funcName(fn)+" is seen to write through its receiver", "", eng.Mutates(fn, -1) != nil, "the effect analysis is blind")
	}

	checkChainBookkeeping(c, "C15.7 K14 chain bookkeeping of WriteChain")
	checkCreatedMark(c, "C15.8 K4 the no-tombstone mark is set only for keys absent from the map")
	return "Static shape of the generation-guarded path copying in util/hamt: every field/element store, copy and in-place append into a trie node is on a path where the node variable was " +
		"assigned from &node{} or dup(), or has been compared equal to the generation parameter (with/without/pullUp), and that parameter is the Hamt's generation at every call; Mutable returns " +
		"generation+positive constant with a fresh/dup'ed root stamped with it, Freeze keeps generation and root, no other code builds a Hamt with fields or assigns them; Put/Delete reach the " +
		"trie only on the mutable edge; nodes returned by recursive descents are kept; dup re-allocates every slice field; no function of meta/hamt writes through an item obtained from " +
		"Get/MustGet/All (K12 engine, see C02); WriteChain/Write/Freeze/Mutable do not write through their receiver. Chain.WriteChain folded for 0..8 chunks × every merge count × written/not: the returned offset is the head of the returned chain, the new chunk links to the last kept chunk, Ages is cut like Offs. Not decided: bitmap/index arithmetic, the bytes of a chunk, ReadChain/flatten contents."
}

// fields of an instantiated generic type are copies of the generic type's fields
func fieldOrigin(info *types.Info, e ast.Expr) *types.Var {
	if e == nil {
		return nil
	}
	if v := FieldOf(info, e); v != nil {
		return v.Origin()
	}
	return nil
}

func varOrigin(o types.Object) types.Object {
	if v, ok := o.(*types.Var); ok && v != nil {
		return v.Origin()
	}
	return o
}

func objKeyOf(info *types.Info, id *ast.Ident) string {
	if o := ObjOf(info, id); o != nil {
		return objKey(o)
	}
	return id.Name
}

// checkHamtCtor analyses a constructor-like method (Mutable, Freeze): for every returned Hamt
// literal it calls visit with the must-facts (ownership of node variables) before the return.
func checkHamtCtor(c *Ctx, rule string, fs *FuncSrc, visit func(fs *FuncSrc, lit *ast.CompositeLit, before Set),
	genF *types.Var, dupFn *types.Func, isNodePtr func(types.Type) bool, isHamt func(types.Type) bool) {
	p := c.P
	if fs == nil || fs.Body == nil {
		c.Missing(rule, "constructor source")
		return
	}
	info := fs.Info()
	implies := map[string][]string{}
	ast.Inspect(fs.Body, func(n ast.Node) bool {
		if id, ok := n.(*ast.Ident); ok {
			if o := ObjOf(info, id); o != nil && isNodePtr(o.Type()) {
				implies["own:"+objKey(o)] = []string{"ok:" + objKey(o)}
			}
		}
		return true
	})
	node := func(_ *FuncSrc, n ast.Node) []string {
		as, ok := n.(*ast.AssignStmt)
		if !ok || len(as.Lhs) != len(as.Rhs) {
			return nil
		}
		var out []string
		for i, l := range as.Lhs {
			if id, isId := ast.Unparen(l).(*ast.Ident); isId {
				o := ObjOf(info, id)
				if o == nil || !isNodePtr(o.Type()) {
					continue
				}
				k := objKey(o)
				owned := false
				switch r := ast.Unparen(as.Rhs[i]).(type) {
				case *ast.UnaryExpr:
					_, isLit := ast.Unparen(r.X).(*ast.CompositeLit)
					owned = isLit && r.Op == token.AND
				case *ast.CallExpr:
					owned = sameFunc(Callee(info, r), dupFn)
				}
				// a re-assignment forgets the stamp
				for l2 := range implies {
					_ = l2
				}
				if owned {
					out = append(out, "own:"+k)
				} else {
					out = append(out, "-own:"+k, "-ok:"+k)
				}
				continue
			}
			if fieldOrigin(info, l) == genF {
				if r := rootIdent(l); r != nil {
					if gid, ok := ast.Unparen(as.Rhs[i]).(*ast.Ident); ok {
						out = append(out, "gen=:"+objKeyOf(info, r)+"="+objKeyOf(info, gid))
					}
				}
			}
		}
		return out
	}
	fl := &Flow{P: p, Node: node, Implies: implies}
	res := fl.Analyze(fs)
	n := 0
	for _, r := range res.Returns {
		if len(r.Node.Results) != 1 {
			continue
		}
		lit, ok := ast.Unparen(r.Node.Results[0]).(*ast.CompositeLit)
		if !ok || !isHamt(info.TypeOf(lit)) {
			c.Obl(rule, fs.name+": returns a Hamt literal", p.Pos(r.Node), false, "returns "+exprStr(r.Node.Results[0]))
			continue
		}
		n++
		visit(fs, lit, r.Before)
	}
	c.Floor(rule, n, 1, "returns of "+fs.name)
}
